import MaltModel.Conv.NoNative
import MaltModel.Conv.CallTrees
import MaltModel.Proofs.C04Passes
import MaltModel.Proofs.C04Calls
import MaltModel.Proofs.C04Sound
import MaltModel.Conv.Directives
import MaltModel.Conv.LoopTest
import MaltModel.Proofs.C04MonoPasses
namespace Malt.C04
open Malt.Py Malt.Conv Malt.Conv.NoNative

/-- **The verified checker.**  If `noNative` accepts the (real) output of the conversion, then every
overloadable construct in it is routed through its operator: the tree satisfies `NoNativeProp`, which has
no introduction rule for a native `if`/`while`/`for`/`break`/`continue`/early `return`/`and`/`or`/`not`/
conditional expression/`==`,`!=` (under EQUALITY_OPERATORS)/call outside the documented exceptions. -/
theorem noNative_sound (cfg : Cfg) (g : List Stmt) (h : noNative cfg g = true) : NoNativeProp cfg g := by
  unfold noNative offenders at h
  exact soundB cfg g _ _ _ (List.isEmpty_iff.mp h)

/-- … and it rejects nothing that satisfies the property: the checker decides `NoNativeProp` exactly. -/
theorem noNative_complete (cfg : Cfg) (g : List Stmt) (h : NoNativeProp cfg g) : noNative cfg g = true := by
  unfold noNative offenders
  exact List.isEmpty_iff.mpr (completeB cfg g _ _ _ h)

theorem noNative_iff (cfg : Cfg) (g : List Stmt) : noNative cfg g = true ↔ NoNativeProp cfg g :=
  ⟨noNative_sound cfg g, noNative_complete cfg g⟩

theorem noNativeE_sound (cfg : Cfg) (e : Expr) (h : noNativeE cfg e = true) : OkE cfg [] false .normal e := by
  unfold noNativeE at h
  exact soundE cfg [] false e _ (List.isEmpty_iff.mp h)

/-- `def f(a): with ag__.FunctionScope('f', 'fscope', ag__.STD) as fscope: return fscope.ret(ag__.converted_call(ag__.ld(g), (ag__.ld(a),) + tuple(ag__.ld(b)), None, fscope), True)` -/
def routedWitness : Stmt :=
  .functionDef 0 "f" (.arguments 0 [] [.arg 0 "a" []] [] [] [] [] [])
    [.with_ 0 [.withitem 0 (.call 0 (ag "FunctionScope") [.const 0 "str" "'f'", .const 0 "str" "'fscope'", ag "STD"] [])
        [.name 0 "fscope" .store]]
      [.ret 0 [.call 0 (.attr 0 (nm "fscope") "ret" .load)
        [.call 0 (ag "converted_call")
          [.call 0 (ag "ld") [nm "g"] [],
           .binop 0 "Add" (.seq 0 .tuple [.call 0 (ag "ld") [nm "a"] []] .load) (.call 0 (nm "tuple") [.call 0 (ag "ld") [nm "b"] []] []),
           noneConst, nm "fscope"] [],
         .const 0 "bool" "True"] []]] false] [] [] false

-- the checker accepts routed code and the property follows; it rejects each native construct
example : NoNativeProp ⟨false, false⟩ [routedWitness] := noNative_sound _ _ (by decide)
example : noNative ⟨false, false⟩ [.if_ 1 (nm "c") [.pass 2] []] = false := by decide
example : noNative ⟨false, false⟩ [.expr 1 (.call 2 (nm "g") [] [])] = false := by decide
example : noNative ⟨false, false⟩ [.expr 1 (.call 2 (nm "print") [] [])] = true := by decide       -- E4
example : noNative ⟨false, true⟩ [.expr 1 (.call 2 (nm "print") [] [])] = false := by decide
example : noNative ⟨false, false⟩ [.with_ 1 [.withitem 2 (.call 3 (nm "cm") [] []) []] [.pass 4] false] = true := by decide  -- E2
example : noNative ⟨false, false⟩ [.functionDef 1 "g" noArgs [.if_ 2 (nm "c") [] [], .ret 3 []] [] [] false] = false := by decide
example : noNative ⟨false, false⟩ [.functionDef 1 "g" noArgs [.ret 3 [], .pass 4] [] [] false] = false := by decide   -- early return
example : noNative ⟨true, false⟩ [.expr 1 (.compare 2 (nm "a") ["Eq"] [nm "b"])] = false := by decide
example : noNative ⟨false, false⟩ [.expr 1 (.compare 2 (nm "a") ["Eq"] [nm "b"])] = true := by decide

/-! ## Theorems about the MODELS of the expression passes

"Each converter visits children before/after rewriting so nested occurrences are reached" is what the
structural inductions below prove: they go through `mapE`/`mapB` (the generic `NodeTransformer` traversal)
once (`Proofs/C04Traverse.lean`) and need, per converter, only that a `post` hook (a `visit_X` that calls
`generic_visit` first) turns a node with routed children into a routed node.  A `pre` hook (no
`generic_visit`) gets nothing about its children from the induction — that is exactly where
`visit_IfExp` failed before fix 33af8cf (`C04_ifexp_prefix_regression`). -/

private theorem orf {a b : Bool} : (a || b) = false ↔ a = false ∧ b = false := by
  cases a <;> cases b <;> simp

private theorem overload_none_cmp (eqOn : Bool) (op : String) (l r : Expr)
    (h : Logical.overloadOf eqOn op = none) : nativeLogical eqOn (.compare 0 l [op] [r]) = false := by
  unfold Logical.overloadOf at h
  simp only [nativeLogical, isBoolOp, isNot, isEqCompare, isEqOp, List.any_cons, List.any_nil, Bool.or_false, Bool.false_or]
  repeat (split at h; simp at h)
  rename_i h1 h2 h3 h4 h5
  cases eqOn <;> simp_all

private theorem overload_none_un (eqOn : Bool) (i : Nat) (op : String) (e : Expr)
    (h : Logical.overloadOf eqOn op = none) : nativeLogical eqOn (.unary i op e) = false := by
  unfold Logical.overloadOf at h
  simp only [nativeLogical, isBoolOp, isNot, isEqCompare, Bool.or_false, Bool.false_or]
  repeat (split at h; simp at h)
  rename_i h1 h2 h3 h4 h5
  simp_all

private theorem logicalHooksFree (eqOn : Bool) :
    HooksFree (Logical.hooks eqOn) (nativeLogical eqOn) (fun _ => false) where
  pre := by intro e r h; simp [Logical.hooks] at h
  post := by
    intro e _ _ hk
    show anyE _ (Logical.post eqOn (kidsE (Logical.hooks eqOn) e)) = false
    generalize kidsE (Logical.hooks eqOn) e = e' at hk
    cases hr : rewrittenByLogical e' with
    | true =>
      exact logical_post_rewrites_free (kindPred_nativeLogical eqOn) eqOn (overload_none_cmp eqOn) (overload_none_un eqOn) e' hk hr
    | false =>
      rw [logical_post_other eqOn e' hr]
      have : nativeLogical eqOn e' = false := by
        cases e' <;> simp [rewrittenByLogical, nativeLogical, isBoolOp, isNot, isEqCompare] at *
      simp [anyE, this, hk]

/-- **C04 for `and`/`or`/`not` (and `==`/`!=` under EQUALITY_OPERATORS).**  For EVERY block of statements
(every syntactic context: loop/branch/try/with bodies, nested defs and classes, lambda bodies,
comprehension elements and clauses, with-items, decorators, defaults, f-strings, subscripts, starred
arguments, operands of other operators, …) the output of the logical-expression converter contains no
native boolean operator, no native `not` and — when the feature is on — no native `==`/`!=`.  There is
no exception. -/
theorem C04_logical_routed (eqOn : Bool) (b : List Stmt) :
    anyB (nativeLogical eqOn) (Logical.visitB eqOn b) = false :=
  mapB_free _ _ _ _ (logicalHooksFree eqOn) (SHooksFree.default _ _ _) b (anyB_false b)

theorem C04_logical_routed_expr (eqOn : Bool) (e : Expr) :
    anyE (nativeLogical eqOn) (Logical.visitE eqOn e) = false :=
  mapE_free _ _ _ (logicalHooksFree eqOn) e (anyE_false e)

example : Logical.visitE false (.boolop 1 true [.name 2 "a" .load, .unary 3 "Not" (.name 4 "b" .load), .name 5 "c" .load])
    = .call 0 (ag "and_") [thunk (.name 2 "a" .load),
        thunk (.call 0 (ag "and_") [thunk (.call 0 (ag "not_") [.name 4 "b" .load] []), thunk (.name 5 "c" .load)] [])] [] := by
  rfl

/-! ### conditional expressions -/
private theorem ifexpHooksFree (r : Nat → String) :
    HooksFree (IfExp.hooks r) isIfExp (fun _ => false) where
  pre := by intro e res h; simp [IfExp.hooks] at h
  post := by
    intro e _ _ hk
    show anyE _ (IfExp.post r (kidsE (IfExp.hooks r) e)) = false
    generalize kidsE (IfExp.hooks r) e = e' at hk
    cases e'
    case ifexp i t b e1 =>
      simp only [IfExp.post]
      simp only [anyKids, orf] at hk
      have h1 : anyE isIfExp t = false := by simp only [anyE, hk.1.1.1, hk.1.1.2]; rfl
      have h2 : anyE isIfExp b = false := by simp only [anyE, hk.1.2.1, hk.1.2.2]; rfl
      have h3 : anyE isIfExp e1 = false := by simp only [anyE, hk.2.1, hk.2.2]; rfl
      exact rewrite_free kindPred_isIfExp r i t b e1 h1 h2 h3
    all_goals (simp [IfExp.post, anyE, isIfExp, hk])

/-- **C04 for conditional expressions** (unconditional since fix 33af8cf: `visit_IfExp` calls `generic_visit`
first): for EVERY block, in every syntactic context — including the test and the branches of another
conditional expression — the output of the conditional-expression converter contains no native
conditional expression. -/
theorem C04_ifexp_routed (r : Nat → String) (b : List Stmt) : anyB isIfExp (IfExp.visitB r b) = false :=
  mapB_free _ _ _ _ (ifexpHooksFree r) (SHooksFree.default _ _ _) b (anyB_false b)

theorem C04_ifexp_routed_expr (r : Nat → String) (e : Expr) : anyE isIfExp (IfExp.visitE r e) = false :=
  mapE_free _ _ _ (ifexpHooksFree r) e (anyE_false e)

/-- `1 if a else (2 if b else 3)` — the witness of the former finding C04-ifexp-nested -/
def nestedIfExpWitness : Expr :=
  .ifexp 1 (.name 2 "a" .load) (.const 3 "int" "1") (.ifexp 4 (.name 5 "b" .load) (.const 6 "int" "2") (.const 7 "int" "3"))

/-- the former witness is now routed: both conditionals become `ag__.if_exp` -/
theorem C04_ifexp_former_witness_routed : anyE isIfExp (IfExp.visitE (fun _ => "''") nestedIfExpWitness) = false := by
  decide

example : IfExp.visitE (fun _ => "'r'") nestedIfExpWitness =
    .call 0 (ag "if_exp") [.name 2 "a" .load, thunk (.const 3 "int" "1"),
      thunk (.call 0 (ag "if_exp") [.name 5 "b" .load, thunk (.const 6 "int" "2"), thunk (.const 7 "int" "3"),
        .const 0 "str" "'r'"] []), .const 0 "str" "'r'"] [] := by rfl

/-- Regression statement: the pass WITHOUT `generic_visit` (a revert of 33af8cf, `IfExp.visitEOld`) leaves
the inner conditional of the witness native — what the check reports as a violation if it recurs. -/
theorem C04_ifexp_prefix_regression : anyE isIfExp (IfExp.visitEOld (fun _ => "''") nestedIfExpWitness) = true := by
  decide

/-! ### the later passes keep what the earlier ones established -/
private theorem logicalKeepsIfExpFree (eqOn : Bool) : HooksFree (Logical.hooks eqOn) isIfExp isIfExp where
  pre := by intro e r h; simp [Logical.hooks] at h
  post := by
    intro e _ hb hk
    show anyE _ (Logical.post eqOn (kidsE (Logical.hooks eqOn) e)) = false
    have hpe : isIfExp (kidsE (Logical.hooks eqOn) e) = false := by
      rw [kindPred_isIfExp.kids]; simp only [anyE, orf] at hb; exact hb.1
    generalize kidsE (Logical.hooks eqOn) e = e' at hk hpe
    cases hr : rewrittenByLogical e' with
    | true => exact logical_post_rewrites_free kindPred_isIfExp eqOn (by intros; rfl) (by intros; rfl) e' hk hr
    | false =>
      rw [logical_post_other eqOn e' hr]
      simp [anyE, hpe, hk]

theorem logical_keeps_ifexp_free (eqOn : Bool) (b : List Stmt) (h : anyB isIfExp b = false) :
    anyB isIfExp (Logical.visitB eqOn b) = false :=
  mapB_free _ _ _ _ (logicalKeepsIfExpFree eqOn) (SHooksFree.default _ _ _) b h

private theorem variablesHooksFree {p : Expr → Bool} (K : KindPred p) (o : Nat → Bool) :
    HooksFree (Variables.hooks o) p p where
  pre := by intro e r h; simp [Variables.hooks] at h
  post := by
    intro e _ hb hk
    show anyE _ (Variables.postE o (kidsE (Variables.hooks o) e)) = false
    have hpe : p (kidsE (Variables.hooks o) e) = false := by
      rw [K.kids]; simp only [anyE, orf] at hb; exact hb.1
    generalize kidsE (Variables.hooks o) e = e' at hk hpe
    unfold Variables.postE
    split
    · split
      · simp only [Variables.ld]; rw [anyE_call1 K]; simp [anyE, anyKids, K.name]
      · simp [anyE, anyKids, K.name]
    · simp [anyE, hpe, hk]

private theorem undefAssigns_free {p : Expr → Bool} (K : KindPred p) :
    ∀ (ts : List Expr), anyB p (Variables.undefAssigns ts) = false
  | [] => by simp [Variables.undefAssigns, anyB]
  | t :: ts => by
      have := undefAssigns_free K ts
      cases t <;> simp [Variables.undefAssigns, Variables.undefAssign, anyB, this]
      have h0 := anyE_ag K "Undefined"
      simp only [anyE, orf] at h0
      simp [anyS, anyEs, anyE, anyKids, anyKidsL, K.name, K.call, K.const, h0.1, h0.2]

private theorem variablesSHooksFree {p : Expr → Bool} (K : KindPred p) (o : Nat → Bool) :
    SHooksFree (Variables.hooks o) (Variables.shooks o) p p where
  pre := by
    intro s r h hb
    cases s <;> simp [Variables.shooks, Variables.preS] at h
    rename_i i t op v
    cases t <;> simp at h
    rename_i j nme c
    subst h
    have h1 : anyE p (Variables.ld (.name j nme .load)) = false := by
      simp only [Variables.ld]; rw [anyE_call1 K]; simp [anyE, anyKids, K.name]
    simp only [anyS, orf] at hb
    have h2 : anyE p (mapE (Variables.hooks o) v) = false := mapE_free _ _ _ (variablesHooksFree K o) v hb.2
    have h3 : anyE p (.name j nme c) = false := by simp [anyE, anyKids, K.name]
    simp [anyB, anyS, anyEs, anyKidsL, anyKids, K.name, h1, h2, h3]
  post := by
    intro s _ _ hk
    show anyB p (Variables.postS (kidsS (Variables.hooks o) (Variables.shooks o) s)) = false
    generalize kidsS (Variables.hooks o) (Variables.shooks o) s = s' at hk
    cases s' <;> simp only [Variables.postS] <;> try (simp [anyB, hk])
    rename_i i ts
    simp only [anyS, anyEs] at hk
    split
    · simp [anyB, anyS, anyEs, hk]
    · rw [anyB_append, undefAssigns_free K]
      split
      · simp [anyB]
      · simp [anyB, anyS, anyEs, anyKidsL_filter p _ ts hk]

/-- the variables converter (it only inserts `ag__.ld(·)` / `ag__.Undefined(·)`) keeps any kind-based
freeness -/
theorem variables_keeps_free {p : Expr → Bool} (K : KindPred p) (o : Nat → Bool) (b : List Stmt)
    (h : anyB p b = false) : anyB p (Variables.visitB o b) = false :=
  mapB_free _ _ _ _ (variablesHooksFree K o) (variablesSHooksFree K o) b h

/-- **Composition for the expression passes** (`conditional_expressions`, `logical_expressions`,
`variables`, in pipeline order): the result has no native `and`/`or`/`not` (`==`/`!=`) and no native
conditional expression, in any syntactic context.  (Unconditional since fix 33af8cf.) -/
theorem C04_expr_passes_compose (eqOn : Bool) (r : Nat → String) (o : Nat → Bool) (g : List Stmt) :
    anyB (nativeLogical eqOn) (Variables.visitB o (Logical.visitB eqOn (IfExp.visitB r g))) = false ∧
    anyB isIfExp (Variables.visitB o (Logical.visitB eqOn (IfExp.visitB r g))) = false :=
  ⟨variables_keeps_free (kindPred_nativeLogical eqOn) o _ (C04_logical_routed eqOn _),
   variables_keeps_free kindPred_isIfExp o _ (logical_keeps_ifexp_free eqOn _ (C04_ifexp_routed r g))⟩


/-! ### in the checker's own vocabulary -/
private theorem kindPred_nativeExprKind (eqOn : Bool) : KindPred (nativeExprKind eqOn) where
  ctx := by
    intro ov e
    cases e <;> simp [adjustCtx, nativeExprKind, nativeLogical, isBoolOp, isNot, isEqCompare, isIfExp]
    rename_i k _ _; cases k <;> simp [adjustCtx]
  kids := by intro h e; cases e <;> simp [kidsE, nativeExprKind, nativeLogical, isBoolOp, isNot, isEqCompare, isIfExp]
  call := by intros; rfl
  lambda := by intros; rfl
  arguments := by intros; rfl
  attr := by intros; rfl
  name := by intros; rfl
  const := by intros; rfl
  none := rfl

private theorem logicalAllKinds (eqOn : Bool) : HooksFree (Logical.hooks eqOn) (nativeExprKind eqOn) isIfExp where
  pre := by intro e r h; simp [Logical.hooks] at h
  post := by
    intro e _ hb hk
    show anyE _ (Logical.post eqOn (kidsE (Logical.hooks eqOn) e)) = false
    have hpe : isIfExp (kidsE (Logical.hooks eqOn) e) = false := by
      rw [kindPred_isIfExp.kids]; simp only [anyE, orf] at hb; exact hb.1
    generalize kidsE (Logical.hooks eqOn) e = e' at hk hpe
    cases hr : rewrittenByLogical e' with
    | true =>
      refine logical_post_rewrites_free (kindPred_nativeExprKind eqOn) eqOn ?_ ?_ e' hk hr
      · intro op l r ho
        have := overload_none_cmp eqOn op l r ho
        simp [nativeExprKind, this, isIfExp]
      · intro i op e ho
        have := overload_none_un eqOn i op e ho
        simp [nativeExprKind, this, isIfExp]
    | false =>
      rw [logical_post_other eqOn e' hr]
      have : nativeLogical eqOn e' = false := by
        cases e' <;> simp [rewrittenByLogical, nativeLogical, isBoolOp, isNot, isEqCompare] at *
      simp [anyE, nativeExprKind, this, hpe, hk]

/-- **The three expression passes, judged by the checker that runs on the real output**: whatever `offE`
still reports on `variables(logical(conditional(e)))` is a CALL — and
calls are call_trees' business (`C04_calls_routed_expr`, which runs earlier in the pipeline; the later
passes only insert `ag__.*` calls). -/
theorem C04_expr_pipeline_only_calls (cfg : Cfg) (r : Nat → String) (o : Nat → Bool) (e : Expr)
    (sc : List String) (w : Bool) (pos : Pos) :
    ∀ off ∈ offE cfg sc w pos (Variables.visitE o (Logical.visitE cfg.eqOn (IfExp.visitE r e))), off.kind = "Call" := by
  have h1 : anyE isIfExp (IfExp.visitE r e) = false := C04_ifexp_routed_expr r e
  have h2 : anyE (nativeExprKind cfg.eqOn) (Logical.visitE cfg.eqOn (IfExp.visitE r e)) = false :=
    mapE_free _ _ _ (logicalAllKinds cfg.eqOn) _ h1
  have h3 : anyE (nativeExprKind cfg.eqOn) (Variables.visitE o (Logical.visitE cfg.eqOn (IfExp.visitE r e))) = false :=
    mapE_free _ _ _ (variablesHooksFree (kindPred_nativeExprKind cfg.eqOn) o) _ h2
  exact off_only_calls cfg sc w _ pos h3

/-! ### calls -/

/- Full statement (FALSE for the pinned `call_trees.visit_FunctionDef`, which visits `defaults` and
   `kw_defaults` but never the parameters themselves):

     theorem C04_calls_routed (…) (b : List Stmt) : ∀ o ∈ offB cfg sc roles tail (CallTrees.visitB env ctx b), o.kind ≠ "Call"

   Counterexample `C04_calls_routed_counterexample`: `def g(p: h(1)): pass` — the call in the parameter
   annotation stays native.  Known finding C04-param-annotation-call, class `call_in_parameter_annotation`. -/

/-- **C04 for calls** (`call_trees`), partial: run the CHECKER `offB` (the one that runs on the real
`to_code` output, with all its exceptions: with-items, `ag__.*`, scope objects, debugger entry, `print`
without BUILTIN_FUNCTIONS, the argument packing of `converted_call`) on the output of the call_trees model:
it reports no native call — for every block, in every syntactic context — provided no parameter of a
nested `def` is annotated.  `sc` is any set of scope names containing the current function context and
every `function_context_name` annotation. -/
theorem C04_calls_routed_partial (env : CallTrees.Env) (cfg : Cfg) (hb : cfg.builtinsOn = env.builtinsOn)
    (sc : List String) (hsc : ∀ i c, env.ctxOf i = some c → c ∈ sc) (ctx : String) (hctx : ctx ∈ sc)
    (b : List Stmt) (hp : CallTrees.plainParamsB b = true) (roles : List String) (tail : Bool) :
    ∀ o ∈ offB cfg sc roles tail (CallTrees.visitB env ctx b), o.kind ≠ "Call" :=
  visitB_CF env cfg hb b sc ctx roles tail hsc hctx hp

/-- Expressions (incl. lambda bodies, comprehension elements and clauses, f-strings, subscripts, starred
and keyword arguments, operands of other operators): unconditional. -/
theorem C04_calls_routed_expr (env : CallTrees.Env) (cfg : Cfg) (hb : cfg.builtinsOn = env.builtinsOn)
    (sc : List String) (hsc : ∀ i c, env.ctxOf i = some c → c ∈ sc) (ctx : String) (hctx : ctx ∈ sc)
    (e : Expr) (w : Bool) (pos : Pos) :
    ∀ o ∈ offE cfg sc w pos (CallTrees.visitE env ctx e), o.kind ≠ "Call" :=
  visitE_CF env cfg hb e sc ctx w pos hsc hctx

/-- `def g(p: h(1)): pass` inside a function whose context is `fscope` -/
def paramAnnotationWitness : Stmt :=
  .functionDef 1 "g" (.arguments 2 [] [.arg 3 "p" [.call 4 (.name 5 "h" .load) [.const 6 "int" "1"] []]] [] [] [] [] [])
    [.pass 7] [] [] false

def witnessEnv : CallTrees.Env := { ctxOf := fun i => if i == 1 then some "fscope_1" else none, builtinsOn := false }

theorem C04_calls_routed_counterexample :
    ∃ o ∈ offB ⟨false, false⟩ ["fscope", "fscope_1"] [] false (CallTrees.visitB witnessEnv "fscope" [paramAnnotationWitness]),
      o.kind = "Call" := by
  refine ⟨⟨"Call", 4, "h"⟩, ?_, rfl⟩
  decide

example : CallTrees.plainParamsB [paramAnnotationWitness] = false := by decide
-- hypotheses satisfiable by a non-trivial instance: `def g(p, q=h(1)): return k(*a, b, **c)`
example : CallTrees.plainParamsB [.functionDef 1 "g"
    (.arguments 2 [] [.arg 3 "p" [], .arg 4 "q" []] [] [] [] [] [.call 5 (.name 6 "h" .load) [.const 7 "int" "1"] []])
    [.ret 8 [.call 9 (.name 10 "k" .load) [.starred 11 (.name 12 "a" .load) .load, .name 13 "b" .load]
      [.keyword 14 "" false (.name 15 "c" .load)]]] [] [] false] = true := by decide

/-- what `k(*a, b, **c)` becomes -/
example : CallTrees.visitE witnessEnv "fscope"
    (.call 9 (.name 10 "k" .load) [.starred 11 (.name 12 "a" .load) .load, .name 13 "b" .load] [.keyword 14 "" false (.name 15 "c" .load)])
    = .call 0 (ag "converted_call") [.name 10 "k" .load,
        .binop 0 "Add" (.call 0 (nm "tuple") [.name 12 "a" .load] []) (.seq 0 .tuple [.name 13 "b" .load] .load),
        .call 0 (nm "dict") [] [.keyword 14 "" false (.name 15 "c" .load)], nm "fscope"] [] := by
  rfl

/-- **Pipeline-order hole (known finding C04-directive-arg-call)**: the directives converter runs BEFORE
call_trees and moves the argument nodes of `set_loop_options(...)` out of the tree into the loop's
DIRECTIVES annotation; call_trees never sees them and control_flow re-emits them verbatim in the loop
options.  On the models: after `Directives.run` the call `tr(5)` is in the annotation, not in the tree. -/
def directiveWitness : Stmt :=
  .functionDef 1 "f" (.arguments 2 [] [] [] [] [] [] [])
    [.for_ 3 (.name 4 "i" .store) (.name 5 "it" .load)
      [.expr 6 (.call 7 (.name 8 "set_loop_options" .load) []
          [.keyword 9 "maximum_iterations" true (.call 10 (.name 11 "tr" .load) [.const 12 "int" "5"] [])]),
       .assign 13 [.name 14 "x" .store] (.name 15 "i" .load)] [] [] false] [] [] false

def directiveEnv : Directives.Env :=
  { staticOf := fun i => if i == 8 then some "set_loop_options" else none, origDefs := fun _ => none }

def isCallNode : Expr → Bool
  | .call .. => true
  | _ => false

/-- tree has no call left ∧ exactly one DIRECTIVES entry, on loop 3, whose argument contains the call -/
def directiveBypass : Bool :=
  match Directives.run directiveEnv directiveWitness with
  | .ok (tree, st) =>
      !anyB isCallNode tree && st.annos.length == 1 &&
        st.annos.all fun a => a.1 == 3 && a.2.1 == "set_loop_options" &&
          a.2.2.all fun kv => kv.1 == "maximum_iterations" && anyE isCallNode kv.2
  | .error _ => false

theorem C04_directive_args_bypass_calltrees : directiveBypass = true := by decide

/-! ## Completeness at full strength: `noNative (expression passes g) = true`

`g` is the output of control_flow, **taken as given**: `ControlFlowOutputOk cfg g` says the checker finds in it
nothing but native expression-level logic (`and`/`or`/`not`/`==`,`!=`/conditional expressions) — i.e. every
statement is functionalised (jump passes + control_flow) and every call is routed (call_trees:
`C04_calls_routed_partial`; the two exclusions there and in the pipeline order are the open findings
`call_in_parameter_annotation` and `call_in_loop_directive_argument`).  `Supported g`: every BoolOp has ≥ 2 operands
(what `ast.parse` guarantees; `visit_BoolOp` returns the single operand of a degenerate BoolOp unchanged).
The passes are run in the EXTRACTED order (`LoopTest.exprSuffix`). -/

def exprKinds : List String := ["BoolOp", "Not", "IfExp", "Compare"]

def ControlFlowOutputOk (cfg : Cfg) (g : List Stmt) : Prop := ∀ o ∈ offenders cfg g, o.kind ∈ exprKinds

/-- decidable form of `ControlFlowOutputOk` -/
def controlFlowOutputOk (cfg : Cfg) (g : List Stmt) : Bool := (offenders cfg g).all fun o => exprKinds.contains o.kind

def Supported (g : List Stmt) : Bool := !anyB (fun x => !goodBoolOp x) g

structure PassEnv where
  cfg : Cfg
  reprOf : Nat → String
  hasOrig : Nat → Bool

/-- one step of `transform_ast` after control_flow, by its extracted name -/
def runStep (env : PassEnv) : String → List Stmt → List Stmt
  | "conditional_expressions", g => IfExp.visitB env.reprOf g
  | "logical_expressions", g => Logical.visitB env.cfg.eqOn g
  | "variables", g => Variables.visitB env.hasOrig g
  | _, g => g

def runSteps (env : PassEnv) : List String → List Stmt → List Stmt
  | [], g => g
  | s :: ss, g => runSteps env ss (runStep env s g)

/-- the expression passes in the order extracted from `PyToPy.transform_ast` -/
def exprPasses (env : PassEnv) (g : List Stmt) : List Stmt := runSteps env LoopTest.exprSuffix g

/-- The extracted order: a re-ordering of `transform_ast` (e.g. seeded change `logical-before-control-flow`) makes
this — and with it `C04_all_routed` — fail to build. -/
theorem exprSuffix_extracted :
    LoopTest.exprSuffix = ["conditional_expressions", "logical_expressions", "variables"] := by decide

theorem exprPasses_eq (env : PassEnv) (g : List Stmt) :
    exprPasses env g = Variables.visitB env.hasOrig (Logical.visitB env.cfg.eqOn (IfExp.visitB env.reprOf g)) := by
  simp [exprPasses, exprSuffix_extracted, runSteps, runStep]

private theorem kindPred_notGood : KindPred (fun x => !goodBoolOp x) where
  ctx := by
    intro ov e
    cases e with
    | seq i k es c => cases k <;> simp [adjustCtx, goodBoolOp]
    | boolop i b vs => simp [adjustCtx, goodBoolOp, length_adjustCtxs]
    | _ => simp [adjustCtx, goodBoolOp]
  kids := by intro h e; simp [goodBoolOp_kids]
  call := by intros; rfl
  lambda := by intros; rfl
  arguments := by intros; rfl
  attr := by intros; rfl
  name := by intros; rfl
  const := by intros; rfl
  none := rfl

private theorem ifexpKeeps {p : Expr → Bool} (K : KindPred p) (r : Nat → String) : HooksFree (IfExp.hooks r) p p where
  pre := by intro e res h; simp [IfExp.hooks] at h
  post := by
    intro e _ hb hk
    show anyE _ (IfExp.post r (kidsE (IfExp.hooks r) e)) = false
    have hpe : p (kidsE (IfExp.hooks r) e) = false := by
      rw [K.kids]; simp only [anyE, orf] at hb; exact hb.1
    generalize kidsE (IfExp.hooks r) e = e' at hk hpe
    cases e'
    case ifexp i t b e1 =>
      simp only [IfExp.post]
      simp only [anyKids, orf] at hk
      exact rewrite_free K r i t b e1 (by simp only [anyE, hk.1.1.1, hk.1.1.2]; rfl)
        (by simp only [anyE, hk.1.2.1, hk.1.2.2]; rfl) (by simp only [anyE, hk.2.1, hk.2.2]; rfl)
    all_goals (simp [IfExp.post, anyE, hpe, hk])

/-- **C04 completeness** for the expression passes in extracted order: on every supported tree that control_flow
hands over in order, the checker that runs on the real `to_code` output accepts the result — no native
`if`/`while`/`for`/`break`/`continue`/early `return`/`and`/`or`/`not`/conditional expression/`==`,`!=`/call is left,
for every option set (`cfg`), every `expr_repr` table and every ORIG_DEFINITIONS table. -/
theorem C04_all_routed (env : PassEnv) (g : List Stmt) (hs : Supported g = true)
    (hg : ControlFlowOutputOk env.cfg g) : noNative env.cfg (exprPasses env g) = true := by
  rw [exprPasses_eq]
  have hwf : anyB (fun x => !goodBoolOp x) g = false := by simpa [Supported] using hs
  -- well-formedness survives the conditional-expression pass, so the guarded logical hooks are the real ones
  have hwf1 : anyB (fun x => !goodBoolOp x) (IfExp.visitB env.reprOf g) = false :=
    mapB_free _ _ _ _ (ifexpKeeps kindPred_notGood env.reprOf) (SHooksFree.default _ _ _) g hwf
  have hguard : Logical.visitB env.cfg.eqOn (IfExp.visitB env.reprOf g)
      = mapB (guard (Logical.hooks env.cfg.eqOn) goodBoolOp) {} (IfExp.visitB env.reprOf g) :=
    (mapB_guard (Logical.hooks env.cfg.eqOn) goodBoolOp (fun _ => rfl) (fun e => goodBoolOp_kids _ e) {} _ hwf1).symm
  -- (1) no pass adds an offender
  have m1 := offB_mapB (monoIfExp env.cfg env.reprOf) (monoSDefault env.cfg _) g [] (blockRoles g) false
  have m2 := offB_mapB (monoLogical env.cfg) (monoSDefault env.cfg _) (IfExp.visitB env.reprOf g) [] (blockRoles g) false
  have m3 := offB_mapB (monoVariables env.cfg env.hasOrig) (monoSVariables env.cfg env.hasOrig)
    (Logical.visitB env.cfg.eqOn (IfExp.visitB env.reprOf g)) [] (blockRoles g) false
  have r1 : blockRoles (IfExp.visitB env.reprOf g) = blockRoles g :=
    blockRoles_mapB (monoIfExp env.cfg env.reprOf) (monoSDefault env.cfg _) g
  have r2 : blockRoles (Logical.visitB env.cfg.eqOn (IfExp.visitB env.reprOf g)) = blockRoles g := by
    rw [hguard, blockRoles_mapB (monoLogical env.cfg) (monoSDefault env.cfg _), r1]
  have r3 : blockRoles (Variables.visitB env.hasOrig (Logical.visitB env.cfg.eqOn (IfExp.visitB env.reprOf g)))
      = blockRoles g := by
    rw [show Variables.visitB env.hasOrig _ = mapB (Variables.hooks env.hasOrig) (Variables.shooks env.hasOrig) _ from rfl,
      blockRoles_mapB (monoVariables env.cfg env.hasOrig) (monoSVariables env.cfg env.hasOrig), r2]
  -- (2) what is left can only be calls or statements
  have k1 : anyB isIfExp (IfExp.visitB env.reprOf g) = false := C04_ifexp_routed env.reprOf g
  have k2 : anyB (nativeExprKind env.cfg.eqOn) (Logical.visitB env.cfg.eqOn (IfExp.visitB env.reprOf g)) = false :=
    mapB_free _ _ _ _ (logicalAllKinds env.cfg.eqOn) (SHooksFree.default _ _ _) _ k1
  have k3 : anyB (nativeExprKind env.cfg.eqOn)
      (Variables.visitB env.hasOrig (Logical.visitB env.cfg.eqOn (IfExp.visitB env.reprOf g))) = false :=
    variables_keeps_free (kindPred_nativeExprKind env.cfg.eqOn) env.hasOrig _ k2
  have hsc := offB_kinds env.cfg _ [] (blockRoles g) false k3
  -- (3) but nothing of that kind was there
  unfold noNative offenders
  rw [r3]
  rw [List.isEmpty_iff]
  apply List.eq_nil_iff_forall_not_mem.mpr
  intro o ho
  have hk := hsc o ho
  have ho2 : o ∈ offB env.cfg [] (blockRoles g) false (Logical.visitB env.cfg.eqOn (IfExp.visitB env.reprOf g)) := m3 ho
  rw [hguard] at ho2
  have ho1 := m1 (m2 ho2)
  have he := hg o ho1
  simp only [stmtOrCallKinds, exprKinds, List.mem_cons, List.mem_nil_iff, or_false] at hk he
  rcases he with h | h | h | h <;> (rw [h] at hk; revert hk; decide)

/-- decidable hypothesis, same theorem -/
theorem C04_all_routed_dec (env : PassEnv) (g : List Stmt) (hs : Supported g = true)
    (hg : controlFlowOutputOk env.cfg g = true) : noNative env.cfg (exprPasses env g) = true :=
  C04_all_routed env g hs (by
    intro o ho
    have := List.all_eq_true.mp hg o ho
    simpa using this)

/-! ### non-vacuity, and every hypothesis is needed -/
def demoEnv : PassEnv := { cfg := ⟨true, false⟩, reprOf := fun _ => "'t'", hasOrig := fun i => i != 0 }

/-- control_flow-shaped input: `def if_body(): x = (a and not b) if c == d else 0` next to
`ag__.if_stmt(not do_return, if_body, else_body, …)`, then `return fscope.ret(retval_, do_return)` in a FunctionScope -/
def demoG : List Stmt :=
  [.functionDef 1 "f" noArgs
    [.with_ 0 [.withitem 0 (.call 0 (ag "FunctionScope") [.const 0 "str" "'f'"] []) [.name 0 "fscope" .store]]
      [.functionDef 0 "if_body" noArgs
          [.assign 2 [.name 3 "x" .store]
            (.ifexp 4 (.compare 5 (.name 6 "c" .load) ["Eq"] [.name 7 "d" .load])
              (.boolop 8 true [.name 9 "a" .load, .unary 10 "Not" (.name 11 "b" .load)]) (.const 12 "int" "0"))] [] [] false,
       .expr 0 (.call 0 (ag "if_stmt") [.unary 0 "Not" (.name 0 "do_return" .load), .name 0 "if_body" .load,
          .name 0 "if_body" .load] []),
       .ret 0 [.call 0 (.attr 0 (.name 0 "fscope" .load) "ret" .load) [.name 0 "retval_" .load] []]] false]
    [] [] false]

example : Supported demoG = true := by decide
example : controlFlowOutputOk demoEnv.cfg demoG = true := by decide
example : noNative demoEnv.cfg demoG = false := by decide
example : noNative demoEnv.cfg (exprPasses demoEnv demoG) = true :=
  C04_all_routed_dec demoEnv demoG (by decide) (by decide)

/-- **Exclusion 1** (`call_in_loop_directive_argument`): a native call inside the options argument of `ag__.for_stmt`
(where control_flow re-emits directive arguments that bypassed call_trees).  Without `ControlFlowOutputOk` the
statement is false: the expression passes do not route it. -/
def loopOptsWitness : List Stmt :=
  [.expr 1 (.call 0 (ag "for_stmt") [.name 0 "it" .load, noneConst, .name 0 "loop_body" .load,
      .other 0 "Dict" ["1"] [.const 0 "str" "'maximum_iterations'", .call 2 (.name 3 "tr" .load) [.const 4 "int" "5"] []]] [])]

theorem C04_all_routed_needs_directive_exclusion :
    Supported loopOptsWitness = true ∧ controlFlowOutputOk demoEnv.cfg loopOptsWitness = false ∧
    noNative demoEnv.cfg (exprPasses demoEnv loopOptsWitness) = false := by decide

/-- **Exclusion 2** (`call_in_parameter_annotation`): `def g(p: h(1)): pass` as call_trees leaves it. -/
theorem C04_all_routed_needs_annotation_exclusion :
    Supported [paramAnnotationWitness] = true ∧ controlFlowOutputOk demoEnv.cfg [paramAnnotationWitness] = false ∧
    noNative demoEnv.cfg (exprPasses demoEnv [paramAnnotationWitness]) = false := by decide

/-- `Supported` is needed as well: a (non-parseable) one-operand BoolOp around an `ag__.if_stmt` call is replaced
by its operand, which turns `b` into a body callback whose `return` is then early. -/
def degenerateWitness : List Stmt :=
  [.functionDef 1 "b" noArgs [.ret 2 []] [] [] false,
   .expr 3 (.boolop 4 true [.call 0 (ag "if_stmt") [.name 0 "c" .load, .name 0 "b" .load, .name 0 "b" .load] []])]

theorem C04_all_routed_needs_supported :
    Supported degenerateWitness = false ∧ controlFlowOutputOk demoEnv.cfg degenerateWitness = true ∧
    noNative demoEnv.cfg (exprPasses demoEnv degenerateWitness) = false := by decide

/-! ### the order matters: the loop test carried in an annotation -/

/-- `for i in it: …` after break lowering: the extra test `not break_` lives in the annotation (side field) -/
def extraTestWitness : List Stmt :=
  [.for_ 1 (.name 2 "i" .store) (.name 3 "it" .load) [.pass 4] [] [.unary 5 "Not" (.name 6 "break_" .load)] false]

/-- the logical converter (like every `NodeTransformer`) does not see the annotation -/
theorem logical_ignores_extra_test (eqOn : Bool) (i : Nat) (t it : Expr) (b e : List Stmt) (x : List Expr) (isA : Bool) :
    Logical.visitS eqOn (.for_ i t it b e x isA)
      = [.for_ i (Logical.visitE eqOn t) (Logical.visitE eqOn it) (Logical.visitB eqOn b) (Logical.visitB eqOn e) x isA] := by
  rfl

/-- extracted order (control_flow splices the annotation, THEN logical_expressions): the loop test is routed —
for every tree, by `C04_logical_routed` -/
theorem C04_extra_test_routed_in_extracted_order (eqOn : Bool) (g : List Stmt) :
    anyB (nativeLogical eqOn) (Logical.visitB eqOn (LoopTest.spliceB g)) = false := C04_logical_routed eqOn _

/-- swapped order (seeded change `logical-before-control-flow`): provably incomplete — the `not` of the loop test
survives natively in `def extra_test(): return not break_` -/
theorem C04_logical_before_control_flow_incomplete :
    anyB isNot (LoopTest.spliceB (Logical.visitB false extraTestWitness)) = true ∧
    anyB isNot (Logical.visitB false (LoopTest.spliceB extraTestWitness)) = false := by decide

/-- and the extracted pipeline has them in the complete order -/
theorem control_flow_precedes_expression_passes :
    LoopTest.stepIndex "call_trees" < LoopTest.stepIndex "control_flow" ∧
    LoopTest.stepIndex "control_flow" < LoopTest.stepIndex "conditional_expressions" ∧
    LoopTest.stepIndex "conditional_expressions" < LoopTest.stepIndex "logical_expressions" ∧
    LoopTest.stepIndex "logical_expressions" < LoopTest.stepIndex "variables" ∧
    LoopTest.stepIndex "directives" < LoopTest.stepIndex "call_trees" := by decide

end Malt.C04
