import MaltModel.Conv.NoNative
import MaltModel.Conv.CallTrees
import MaltModel.Proofs.C04Passes
namespace Malt.C04
open Malt.Py Malt.Conv Malt.Conv.NoNative

mutual
theorem soundE (cfg : Cfg) (sc : List String) (w : Bool) :
    ∀ (e : Expr) (pos : Pos), offE cfg sc w pos e = [] → OkE cfg sc w pos e
  | .name .., _, _ => .name
  | .const .., _, _ => .const
  | .noneMarker, _, _ => .noneMarker
  | .call i f as ks, pos, h => by
      simp only [offE, List.append_eq_nil_iff] at h
      obtain ⟨⟨⟨h1, h2⟩, h3⟩, h4⟩ := h
      have hc : callOk cfg sc w pos f as ks = true := by
        by_cases hh : callOk cfg sc w pos f as ks = true
        · exact hh
        · simp [hh] at h1
      exact .call hc (soundE cfg sc w f _ h2) (soundEs cfg sc w as _ h3) (soundEs cfg sc w ks _ h4)
  | .boolop .., _, h => by simp [offE] at h
  | .ifexp .., _, h => by simp [offE] at h
  | .unary i op e, pos, h => by
      simp only [offE, List.append_eq_nil_iff] at h
      obtain ⟨h1, h2⟩ := h
      have hn : op ≠ "Not" := by
        intro hh; simp [hh] at h1
      exact .unary hn (soundE cfg sc w e _ h2)
  | .compare i l ops rs, pos, h => by
      simp only [offE, List.append_eq_nil_iff] at h
      obtain ⟨⟨h1, h2⟩, h3⟩ := h
      have hc : compareOk cfg ops = true := by
        by_cases hh : compareOk cfg ops = true
        · exact hh
        · simp [hh] at h1
      exact .compare hc (soundE cfg sc w l _ h2) (soundEs cfg sc w rs _ h3)
  | .binop i op l r, pos, h => by
      simp only [offE, List.append_eq_nil_iff] at h
      exact .binop (soundE cfg sc w l _ h.1) (soundE cfg sc w r _ h.2)
  | .attr i v a c, pos, h => by
      simp only [offE] at h
      exact .attr (soundE cfg sc w v _ h)
  | .subscript i v s c, pos, h => by
      simp only [offE, List.append_eq_nil_iff] at h
      exact .subscript (soundE cfg sc w v _ h.1) (soundE cfg sc w s _ h.2)
  | .keyword i a hh v, pos, h => by
      simp only [offE] at h
      exact .keyword (soundE cfg sc w v _ h)
  | .lambda i as b, pos, h => by
      simp only [offE, List.append_eq_nil_iff] at h
      exact .lambda (soundE cfg sc w as _ h.1) (soundE cfg sc w b _ h.2)
  | .seq i k es c, pos, h => by
      simp only [offE] at h
      exact .seq (soundEs cfg sc w es _ h)
  | .starred i v c, pos, h => by
      simp only [offE] at h
      exact .starred (soundE cfg sc w v _ h)
  | .namedexpr i t v, pos, h => by
      simp only [offE, List.append_eq_nil_iff] at h
      exact .namedexpr (soundE cfg sc w t _ h.1) (soundE cfg sc w v _ h.2)
  | .comp i k es gs, pos, h => by
      simp only [offE, List.append_eq_nil_iff] at h
      exact .comp (soundEs cfg sc w es _ h.1) (soundEs cfg sc w gs _ h.2)
  | .comprehension i t it ifs a, pos, h => by
      simp only [offE, List.append_eq_nil_iff] at h
      exact .comprehension (soundE cfg sc w t _ h.1.1) (soundE cfg sc w it _ h.1.2) (soundEs cfg sc w ifs _ h.2)
  | .arguments i a b c d e f g, pos, h => by
      simp only [offE, List.append_eq_nil_iff] at h
      obtain ⟨⟨⟨⟨⟨⟨h1, h2⟩, h3⟩, h4⟩, h5⟩, h6⟩, h7⟩ := h
      exact .arguments (soundEs cfg sc w a _ h1) (soundEs cfg sc w b _ h2) (soundEs cfg sc w c _ h3)
        (soundEs cfg sc w d _ h4) (soundEs cfg sc w e _ h5) (soundEs cfg sc w f _ h6) (soundEs cfg sc w g _ h7)
  | .arg i n an, pos, h => by
      simp only [offE] at h
      exact .arg (soundEs cfg sc w an _ h)
  | .withitem i c v, pos, h => by
      simp only [offE, List.append_eq_nil_iff] at h
      exact .withitem (soundE cfg sc w c _ h.1) (soundEs cfg sc w v _ h.2)
  | .other i k ats ks, pos, h => by
      simp only [offE] at h
      exact .other (soundEs cfg sc w ks _ h)
theorem soundEs (cfg : Cfg) (sc : List String) (w : Bool) :
    ∀ (es : List Expr) (ps : List Pos), offEs cfg sc w ps es = [] → OkEs cfg sc w ps es
  | [], _, _ => .nil
  | e :: es, ps, h => by
      simp only [offEs, List.append_eq_nil_iff] at h
      exact .cons (soundE cfg sc w e _ h.1) (soundEs cfg sc w es _ h.2)
end

mutual
theorem soundS (cfg : Cfg) :
    ∀ (s : Stmt) (sc roles : List String) (tail : Bool), offS cfg sc roles tail s = [] → OkS cfg sc roles tail s
  | .if_ .., _, _, _, h => by simp [offS] at h
  | .while_ .., _, _, _, h => by simp [offS] at h
  | .for_ .., _, _, _, h => by simp [offS] at h
  | .break_ .., _, _, _, h => by simp [offS] at h
  | .continue_ .., _, _, _, h => by simp [offS] at h
  | .ret i v, sc, roles, tail, h => by
      simp only [offS, List.append_eq_nil_iff] at h
      obtain ⟨h1, h2⟩ := h
      cases tail with
      | false => simp at h1
      | true => exact .ret (soundEs cfg sc false v _ h2)
  | .functionDef i n as b ds rs isA, sc, roles, tail, h => by
      simp only [offS, List.append_eq_nil_iff] at h
      obtain ⟨⟨⟨h1, h2⟩, h3⟩, h4⟩ := h
      exact .functionDef (soundE cfg sc false as _ h1) (soundEs cfg sc false ds _ h2) (soundEs cfg sc false rs _ h3)
        (soundB cfg b _ _ _ h4)
  | .classDef i n bs ks b ds, sc, roles, tail, h => by
      simp only [offS, List.append_eq_nil_iff] at h
      obtain ⟨⟨⟨h1, h2⟩, h3⟩, h4⟩ := h
      exact .classDef (soundEs cfg sc false bs _ h1) (soundEs cfg sc false ks _ h2) (soundEs cfg sc false ds _ h3)
        (soundB cfg b _ _ _ h4)
  | .with_ i its b isA, sc, roles, tail, h => by
      simp only [offS, List.append_eq_nil_iff] at h
      exact .with_ (soundEs cfg sc true its _ h.1) (soundB cfg b _ _ _ h.2)
  | .try_ i b hs e f, sc, roles, tail, h => by
      simp only [offS, List.append_eq_nil_iff] at h
      obtain ⟨⟨⟨h1, h2⟩, h3⟩, h4⟩ := h
      exact .try_ (soundB cfg b _ _ _ h1) (soundB cfg hs _ _ _ h2) (soundB cfg e _ _ _ h3) (soundB cfg f _ _ _ h4)
  | .handler i t n b, sc, roles, tail, h => by
      simp only [offS, List.append_eq_nil_iff] at h
      exact .handler (soundEs cfg sc false t _ h.1) (soundB cfg b _ _ _ h.2)
  | .delete i ts, sc, roles, tail, h => by
      simp only [offS] at h
      exact .delete (soundEs cfg sc false ts _ h)
  | .assign i ts v, sc, roles, tail, h => by
      simp only [offS, List.append_eq_nil_iff] at h
      exact .assign (soundEs cfg sc false ts _ h.1) (soundE cfg sc false v _ h.2)
  | .augAssign i t op v, sc, roles, tail, h => by
      simp only [offS, List.append_eq_nil_iff] at h
      exact .augAssign (soundE cfg sc false t _ h.1) (soundE cfg sc false v _ h.2)
  | .annAssign i t an v s, sc, roles, tail, h => by
      simp only [offS, List.append_eq_nil_iff] at h
      exact .annAssign (soundE cfg sc false t _ h.1.1) (soundE cfg sc false an _ h.1.2) (soundEs cfg sc false v _ h.2)
  | .raise i e c, sc, roles, tail, h => by
      simp only [offS, List.append_eq_nil_iff] at h
      exact .raise (soundEs cfg sc false e _ h.1) (soundEs cfg sc false c _ h.2)
  | .assert_ i t m, sc, roles, tail, h => by
      simp only [offS, List.append_eq_nil_iff] at h
      exact .assert_ (soundE cfg sc false t _ h.1) (soundEs cfg sc false m _ h.2)
  | .expr i v, sc, roles, tail, h => by
      simp only [offS] at h
      exact .expr (soundE cfg sc false v _ h)
  | .import_ .., _, _, _, _ => .import_
  | .importFrom .., _, _, _, _ => .importFrom
  | .global .., _, _, _, _ => .global
  | .nonlocal .., _, _, _, _ => .nonlocal
  | .pass .., _, _, _, _ => .pass
  | .other i k es bs, sc, roles, tail, h => by
      simp only [offS, List.append_eq_nil_iff] at h
      exact .other (soundEs cfg sc false es _ h.1) (soundB cfg bs _ _ _ h.2)
theorem soundB (cfg : Cfg) :
    ∀ (ss : List Stmt) (sc roles : List String) (tail : Bool), offB cfg sc roles tail ss = [] → OkB cfg sc roles tail ss
  | [], _, _, _, _ => .nil
  | s :: ss, sc, roles, tail, h => by
      simp only [offB, List.append_eq_nil_iff] at h
      exact .cons (soundS cfg s _ _ _ h.1) (soundB cfg ss _ _ _ h.2)
end

/-- **The verified checker.**  If `noNative` accepts the (real) output of the conversion, then every
overloadable construct in it is routed through its operator: the tree satisfies `NoNativeProp`, which has
no introduction rule for a native `if`/`while`/`for`/`break`/`continue`/early `return`/`and`/`or`/`not`/
conditional expression/`==`,`!=` (under EQUALITY_OPERATORS)/call outside the documented exceptions. -/
theorem noNative_sound (cfg : Cfg) (g : List Stmt) (h : noNative cfg g = true) : NoNativeProp cfg g := by
  unfold noNative offenders at h
  exact soundB cfg g _ _ _ (List.isEmpty_iff.mp h)

theorem noNativeE_sound (cfg : Cfg) (e : Expr) (h : noNativeE cfg e = true) : OkE cfg [] false .normal e := by
  unfold noNativeE at h
  exact soundE cfg [] false e _ (List.isEmpty_iff.mp h)

/-! ## Theorems about the MODELS of the expression passes

"Each converter visits children before/after rewriting so nested occurrences are reached" is what the
structural inductions below prove: they go through `mapE`/`mapB` (the generic `NodeTransformer` traversal)
once (`Proofs/C04Traverse.lean`) and need, per converter, only that a `post` hook (a `visit_X` that calls
`generic_visit` first) turns a node with routed children into a routed node.  A `pre` hook (no
`generic_visit`) gets nothing about its children from the induction — that is exactly where
`visit_IfExp` fails. -/

private theorem orf {a b : Bool} : (a || b) = false ↔ a = false ∧ b = false := by
  cases a <;> cases b <;> simp

private theorem overload_none_cmp (eqOn : Bool) (op : String) (l r : Expr)
    (h : Logical.overloadOf eqOn op = none) : nativeLogical eqOn (.compare 0 l [op] [r]) = false := by
  unfold Logical.overloadOf at h
  simp only [nativeLogical, isBoolOp, isNot, isEqCompare, isEqOp, List.any_cons, List.any_nil, Bool.or_false, Bool.false_or]
  repeat (split at h; simp at h)
  rename_i h1 h2 h3 h4 h5
  cases eqOn <;> simp_all

private theorem overload_none_un (eqOn : Bool) (i : Nat) (op : String) (e : Expr)
    (h : Logical.overloadOf eqOn op = none) : nativeLogical eqOn (.unary i op e) = false := by
  unfold Logical.overloadOf at h
  simp only [nativeLogical, isBoolOp, isNot, isEqCompare, Bool.or_false, Bool.false_or]
  repeat (split at h; simp at h)
  rename_i h1 h2 h3 h4 h5
  simp_all

private theorem logicalHooksFree (eqOn : Bool) :
    HooksFree (Logical.hooks eqOn) (nativeLogical eqOn) (fun _ => false) where
  pre := by intro e r h; simp [Logical.hooks] at h
  post := by
    intro e _ _ hk
    show anyE _ (Logical.post eqOn (kidsE (Logical.hooks eqOn) e)) = false
    generalize kidsE (Logical.hooks eqOn) e = e' at hk
    cases hr : rewrittenByLogical e' with
    | true =>
      exact logical_post_rewrites_free (kindPred_nativeLogical eqOn) eqOn (overload_none_cmp eqOn) (overload_none_un eqOn) e' hk hr
    | false =>
      rw [logical_post_other eqOn e' hr]
      have : nativeLogical eqOn e' = false := by
        cases e' <;> simp [rewrittenByLogical, nativeLogical, isBoolOp, isNot, isEqCompare] at *
      simp [anyE, this, hk]

/-- **C04 for `and`/`or`/`not` (and `==`/`!=` under EQUALITY_OPERATORS).**  For EVERY block of statements
(every syntactic context: loop/branch/try/with bodies, nested defs and classes, lambda bodies,
comprehension elements and clauses, with-items, decorators, defaults, f-strings, subscripts, starred
arguments, operands of other operators, …) the output of the logical-expression converter contains no
native boolean operator, no native `not` and — when the feature is on — no native `==`/`!=`.  There is
no exception. -/
theorem C04_logical_routed (eqOn : Bool) (b : List Stmt) :
    anyB (nativeLogical eqOn) (Logical.visitB eqOn b) = false :=
  mapB_free _ _ _ _ (logicalHooksFree eqOn) (SHooksFree.default _ _ _) b (anyB_false b)

theorem C04_logical_routed_expr (eqOn : Bool) (e : Expr) :
    anyE (nativeLogical eqOn) (Logical.visitE eqOn e) = false :=
  mapE_free _ _ _ (logicalHooksFree eqOn) e (anyE_false e)

example : Logical.visitE false (.boolop 1 true [.name 2 "a" .load, .unary 3 "Not" (.name 4 "b" .load), .name 5 "c" .load])
    = .call 0 (ag "and_") [thunk (.name 2 "a" .load),
        thunk (.call 0 (ag "and_") [thunk (.call 0 (ag "not_") [.name 4 "b" .load] []), thunk (.name 5 "c" .load)] [])] [] := by
  rfl

/-! ### conditional expressions -/
private theorem ifexp_pre_none_not_ifexp (r : Nat → String) (e : Expr) (h : (IfExp.hooks r).pre e = none) :
    isIfExp (kidsE (IfExp.hooks r) e) = false := by
  cases e <;> simp [IfExp.hooks, IfExp.pre, kidsE, isIfExp] at *

private theorem ifexpHooksFree (r : Nat → String) :
    HooksFree (IfExp.hooks r) isIfExp nestedIfExpHere where
  pre := by
    intro e res h hb
    cases e <;> simp [IfExp.hooks, IfExp.pre] at h
    rename_i i t b e1
    subst h
    have hb' : nestedIfExpHere (.ifexp i t b e1) = false := by
      simp only [anyE, orf] at hb; exact hb.1
    simp only [nestedIfExpHere, orf] at hb'
    exact rewrite_free kindPred_isIfExp r i t b e1 hb'.1.1 hb'.1.2 hb'.2
  post := by
    intro e hpre _ hk
    have : isIfExp (kidsE (IfExp.hooks r) e) = false := ifexp_pre_none_not_ifexp r e hpre
    show anyE isIfExp (kidsE (IfExp.hooks r) e) = false
    simp only [anyE, this, hk]; rfl

/- Full statement (FALSE for the pinned `visit_IfExp`, which never calls `generic_visit`):

     theorem C04_ifexp_routed (r) (b : List Stmt) : anyB isIfExp (IfExp.visitB r b) = false

   Counterexample below (`C04_ifexp_routed_counterexample`): `1 if a else (2 if b else 3)`.
   Known finding C04-ifexp-nested, class `ifexp_nested_in_ifexp_branch` = ¬ `noNestedIfExpB`.
   Proposed fix: `node = self.generic_visit(node)` as first line of `visit_IfExp`
   (then `C04_ifexp_routed_fixed` below is the unconditional statement). -/

/-- **C04 for conditional expressions, partial**: if no conditional expression contains another one
(anywhere inside: test, branches, or deeper), the output has no native conditional expression. -/
theorem C04_ifexp_routed_partial (r : Nat → String) (b : List Stmt) (h : noNestedIfExpB b = true) :
    anyB isIfExp (IfExp.visitB r b) = false :=
  mapB_free _ _ _ _ (ifexpHooksFree r) (SHooksFree.default _ _ _) b (by simpa [noNestedIfExpB] using h)

theorem C04_ifexp_routed_partial_expr (r : Nat → String) (e : Expr) (h : noNestedIfExpE e = true) :
    anyE isIfExp (IfExp.visitE r e) = false :=
  mapE_free _ _ _ (ifexpHooksFree r) e (by simpa [noNestedIfExpE] using h)

/-- `1 if a else (2 if b else 3)` -/
def nestedIfExpWitness : Expr :=
  .ifexp 1 (.name 2 "a" .load) (.const 3 "int" "1") (.ifexp 4 (.name 5 "b" .load) (.const 6 "int" "2") (.const 7 "int" "3"))

/-- The full statement fails on the pinned code: the inner conditional stays native. -/
theorem C04_ifexp_routed_counterexample :
    ¬ (∀ (r : Nat → String) (e : Expr), anyE isIfExp (IfExp.visitE r e) = false) := by
  intro h
  have := h (fun _ => "''") nestedIfExpWitness
  revert this
  decide

example : noNestedIfExpE nestedIfExpWitness = false := by decide
-- the hypothesis is satisfiable by a non-trivial instance: two conditionals side by side
example : noNestedIfExpE (.binop 1 "Add" (.ifexp 2 (.name 3 "a" .load) (.const 4 "int" "1") (.const 5 "int" "2"))
    (.ifexp 6 (.name 7 "b" .load) (.const 8 "int" "1") (.const 9 "int" "2"))) = true := by decide

private theorem ifexpFixedHooksFree (r : Nat → String) :
    HooksFree (IfExp.hooksFixed r) isIfExp (fun _ => false) where
  pre := by intro e res h; simp [IfExp.hooksFixed] at h
  post := by
    intro e _ _ hk
    show anyE _ (IfExp.postFixed r (kidsE (IfExp.hooksFixed r) e)) = false
    generalize kidsE (IfExp.hooksFixed r) e = e' at hk
    cases e'
    case ifexp i t b e1 =>
      simp only [IfExp.postFixed]
      simp only [anyKids, orf] at hk
      have h1 : anyE isIfExp t = false := by simp only [anyE, hk.1.1.1, hk.1.1.2]; rfl
      have h2 : anyE isIfExp b = false := by simp only [anyE, hk.1.2.1, hk.1.2.2]; rfl
      have h3 : anyE isIfExp e1 = false := by simp only [anyE, hk.2.1, hk.2.2]; rfl
      exact rewrite_free kindPred_isIfExp r i t b e1 h1 h2 h3
    all_goals (simp [IfExp.postFixed, anyE, isIfExp, hk])

/-- With the proposed one-line fix (`generic_visit` first) the statement holds without hypothesis. -/
theorem C04_ifexp_routed_fixed (r : Nat → String) (e : Expr) : anyE isIfExp (IfExp.visitEFixed r e) = false :=
  mapE_free _ _ _ (ifexpFixedHooksFree r) e (anyE_false e)

/-! ### the later passes keep what the earlier ones established -/
private theorem logicalKeepsIfExpFree (eqOn : Bool) : HooksFree (Logical.hooks eqOn) isIfExp isIfExp where
  pre := by intro e r h; simp [Logical.hooks] at h
  post := by
    intro e _ hb hk
    show anyE _ (Logical.post eqOn (kidsE (Logical.hooks eqOn) e)) = false
    have hpe : isIfExp (kidsE (Logical.hooks eqOn) e) = false := by
      rw [kindPred_isIfExp.kids]; simp only [anyE, orf] at hb; exact hb.1
    generalize kidsE (Logical.hooks eqOn) e = e' at hk hpe
    cases hr : rewrittenByLogical e' with
    | true => exact logical_post_rewrites_free kindPred_isIfExp eqOn (by intros; rfl) (by intros; rfl) e' hk hr
    | false =>
      rw [logical_post_other eqOn e' hr]
      simp [anyE, hpe, hk]

theorem logical_keeps_ifexp_free (eqOn : Bool) (b : List Stmt) (h : anyB isIfExp b = false) :
    anyB isIfExp (Logical.visitB eqOn b) = false :=
  mapB_free _ _ _ _ (logicalKeepsIfExpFree eqOn) (SHooksFree.default _ _ _) b h

private theorem variablesHooksFree {p : Expr → Bool} (K : KindPred p) (o : Nat → Bool) :
    HooksFree (Variables.hooks o) p p where
  pre := by intro e r h; simp [Variables.hooks] at h
  post := by
    intro e _ hb hk
    show anyE _ (Variables.postE o (kidsE (Variables.hooks o) e)) = false
    have hpe : p (kidsE (Variables.hooks o) e) = false := by
      rw [K.kids]; simp only [anyE, orf] at hb; exact hb.1
    generalize kidsE (Variables.hooks o) e = e' at hk hpe
    unfold Variables.postE
    split
    · split
      · simp only [Variables.ld]; rw [anyE_call1 K]; simp [anyE, anyKids, K.name]
      · simp [anyE, anyKids, K.name]
    · simp [anyE, hpe, hk]

private theorem undefAssigns_free {p : Expr → Bool} (K : KindPred p) :
    ∀ (ts : List Expr), anyB p (Variables.undefAssigns ts) = false
  | [] => by simp [Variables.undefAssigns, anyB]
  | t :: ts => by
      have := undefAssigns_free K ts
      cases t <;> simp [Variables.undefAssigns, Variables.undefAssign, anyB, anyB_append, this]
      have h0 := anyE_ag K "Undefined"
      simp only [anyE, orf] at h0
      simp [anyS, anyEs, anyE, anyKids, anyKidsL, K.name, K.call, K.const, h0.1, h0.2]

private theorem variablesSHooksFree {p : Expr → Bool} (K : KindPred p) (o : Nat → Bool) :
    SHooksFree (Variables.hooks o) Variables.shooks p p where
  pre := by
    intro s r h hb
    cases s <;> simp [Variables.shooks, Variables.preS] at h
    rename_i i t op v
    cases t <;> simp at h
    rename_i j nme c
    subst h
    have h1 : anyE p (Variables.ld (.name j nme .load)) = false := by
      simp only [Variables.ld]; rw [anyE_call1 K]; simp [anyE, anyKids, K.name]
    simp [anyB, anyS, anyEs, anyKidsL, anyKids, K.name, h1]
    simpa [anyS] using hb
  post := by
    intro s _ _ hk
    show anyB p (Variables.postS (kidsS (Variables.hooks o) Variables.shooks s)) = false
    generalize kidsS (Variables.hooks o) Variables.shooks s = s' at hk
    cases s' <;> simp only [Variables.postS] <;> try (simp [anyB, hk])
    rename_i i ts
    simp only [anyS, anyEs] at hk
    split
    · simp [anyB, anyS, anyEs, hk]
    · rw [anyB_append, undefAssigns_free K]
      split
      · simp [anyB]
      · simp [anyB, anyS, anyEs, anyKidsL_filter p _ ts hk]

/-- the variables converter (it only inserts `ag__.ld(·)` / `ag__.Undefined(·)`) keeps any kind-based
freeness -/
theorem variables_keeps_free {p : Expr → Bool} (K : KindPred p) (o : Nat → Bool) (b : List Stmt)
    (h : anyB p b = false) : anyB p (Variables.visitB o b) = false :=
  mapB_free _ _ _ _ (variablesHooksFree K o) (variablesSHooksFree K o) b h

/-- **Composition for the expression passes** (`conditional_expressions`, `logical_expressions`,
`variables`, in pipeline order): under `noNestedIfExp`, the result has no native `and`/`or`/`not`
(`==`/`!=`) and no native conditional expression, in any syntactic context. -/
theorem C04_expr_passes_compose_partial (eqOn : Bool) (r : Nat → String) (o : Nat → Bool) (g : List Stmt)
    (h : noNestedIfExpB g = true) :
    anyB (nativeLogical eqOn) (Variables.visitB o (Logical.visitB eqOn (IfExp.visitB r g))) = false ∧
    anyB isIfExp (Variables.visitB o (Logical.visitB eqOn (IfExp.visitB r g))) = false :=
  ⟨variables_keeps_free (kindPred_nativeLogical eqOn) o _ (C04_logical_routed eqOn _),
   variables_keeps_free kindPred_isIfExp o _ (logical_keeps_ifexp_free eqOn _ (C04_ifexp_routed_partial r g h))⟩

end Malt.C04
