import MaltModel.Proofs.C10Refine
import MaltModel.Props.C20
/-!
# C10 — the conversion cache is coherent, converts once, and is thread-safe

Model: `MaltModel/Rt/Cache.lean` (small-step, one dictionary operation per step, arbitrary schedules,
`gc` of code objects no live function uses).  Helper developments: `MaltModel/Proofs/C10*.lean`.

All theorems quantify over **every** request history `progs` (thread `i` performs `progs[i]` in
order), **every** schedule `sched : List Label` (fair or not; thread steps and `gc` events in any
order) and every transform function `T`.

Two facts of the pinned implementation make the full property false; each is stated as a comment,
proved as a counterexample, and assumed away by a decidable hypothesis on the history in the
`…_partial` theorems:

* `SigCoherent` / `EnvIrrelevant` — the conversion reads the namespace of the function that happens
  to trigger it (directive resolution, namer), so functions sharing a code object but differing in the
  *relevant part* of their globals/closure are served a conversion made for the other one;
* `ValInj` — the cache is a `WeakKeyDictionary` keyed by the code object, whose `__eq__` is
  structural: two distinct code objects with equal value share one entry, which dies with the *first*
  of them (→ a second transformation for a pair that stayed alive, and a `KeyError` race).
-/
namespace Malt.Cache

section generic
variable {Opts Factory : Type} [BEq Opts] [Hashable Opts] [LawfulBEq Opts]

/-- All requests of a history. -/
def allReqs (progs : List (List (Request Opts))) : List (Request Opts) := progs.flatten

private theorem mem_allReqs (progs : List (List (Request Opts))) :
    ∀ p ∈ progs, ∀ r ∈ p, r ∈ allReqs progs := by
  intro p hp r hr
  exact List.mem_flatten.mpr ⟨p, hp, hr⟩

/-- The one modelling assumption the real code can falsify: the conversion does not depend on the
requester's namespace. -/
def EnvIrrelevant (T : Code → Opts → Nat → Factory) : Prop := ∀ c o s s', T c o s = T c o s'

/-- The conversion depends on the code *object* (through which the source text is found) only via
its value.  False of the real code: annotations, decorators and the file are not part of the value. -/
def SrcByVal (T : Code → Opts → Nat → Factory) : Prop := ∀ c c' o s, c.val = c'.val → T c o s = T c' o s

/-- Decidable form for one history: functions with equal code have the same conversion-relevant view
of their namespace. -/
def SigCoherent (P : List (Request Opts)) : Prop :=
  ∀ r ∈ P, ∀ r' ∈ P, r.code.val = r'.code.val → r.env.sig = r'.env.sig

instance (P : List (Request Opts)) : Decidable (SigCoherent P) := by unfold SigCoherent; infer_instance

/-- The finished requests of a state, with their outcome (`some f`: returned `f.instantiate(own
environment)`; `none`: raised `KeyError`). -/
def finished (s : State Opts Factory) : List (Request Opts × Option Factory) :=
  (s.threads.map (fun th => th.results)).flatten

private theorem mem_finished {s : State Opts Factory} {e : Request Opts × Option Factory}
    (h : e ∈ finished s) : ∃ th ∈ s.threads, e ∈ th.results := by
  obtain ⟨l, hl, he⟩ := List.mem_flatten.mp h
  obtain ⟨th, hth, rfl⟩ := List.mem_map.mp hl
  exact ⟨th, hth, he⟩

private theorem G_reach (T : Code → Opts → Nat → Factory) (progs : List (List (Request Opts)))
    (sched : List Label) : G T (allReqs progs) (run T (init progs) sched) :=
  G_run (G_init progs (mem_allReqs progs)) sched

private theorem Inv_reach (T : Code → Opts → Nat → Factory) (progs : List (List (Request Opts)))
    (V : ValInj (allReqs progs)) (sched : List Label) : Inv (allReqs progs) (run T (init progs) sched) :=
  Inv_run V (Inv_init progs (mem_allReqs progs)) sched

/-- **Coherence, no hypothesis.**  Whatever the history and the schedule, a finished request for
`(code, options)` was served the conversion under *those* options of the source of some requester's
(of the same history) code object of *equal value*, computed against that requester's namespace; the
factory is instantiated with the requester's own environment by construction (`finished` pairs it
with its own request). -/
theorem C10_served (T : Code → Opts → Nat → Factory) (progs : List (List (Request Opts)))
    (sched : List Label) :
    ∀ e ∈ finished (run T (init progs) sched), ∀ f, e.2 = some f →
      ∃ r0 ∈ allReqs progs, r0.code.val = e.1.code.val ∧ r0.opts = e.1.opts ∧
        f = T r0.code e.1.opts r0.env.sig := by
  intro e he f hf
  obtain ⟨th, hth, hr⟩ := mem_finished he
  exact (G_reach T progs sched).res th hth e hr f hf

/- FULL STATEMENT (false of the pinned tree — `C10_result_counterexample`,
   `C10_result_counterexample_equal_code`):
     ∀ T inst progs sched, ∀ e ∈ finished (run T (init progs) sched), ∀ f, e.2 = some f →
       inst f e.1.env = inst (T e.1.code e.1.opts e.1.env.sig) e.1.env -/

/-- **Result** under the explicit assumptions on `transform`: every completed request returns
`instantiate (T code opts) (its own env)`. -/
theorem C10_result {Fn : Type} (T : Code → Opts → Nat → Factory) (inst : Factory → Env → Fn)
    (hT : EnvIrrelevant T) (hV : SrcByVal T) (progs : List (List (Request Opts))) (sched : List Label) :
    ∀ e ∈ finished (run T (init progs) sched), ∀ f, e.2 = some f →
      inst f e.1.env = inst (T e.1.code e.1.opts e.1.env.sig) e.1.env := by
  intro e he f hf
  obtain ⟨r0, _, hv, _, rfl⟩ := C10_served T progs sched e he f hf
  rw [hT _ _ r0.env.sig e.1.env.sig, hV _ _ _ _ hv]

/-- **Result**, with decidable hypotheses on the history instead of on `T`: if functions with equal
code agree on the conversion-relevant view of their namespace and distinct code objects have distinct
values, every completed request returns the fresh conversion of that exact function.  The classes of
the known findings are the negations of `SigCoherent` and `ValInj`. -/
theorem C10_result_partial {Fn : Type} (T : Code → Opts → Nat → Factory) (inst : Factory → Env → Fn)
    (progs : List (List (Request Opts))) (hS : SigCoherent (allReqs progs)) (V : ValInj (allReqs progs))
    (sched : List Label) :
    ∀ e ∈ finished (run T (init progs) sched), ∀ f, e.2 = some f →
      inst f e.1.env = inst (T e.1.code e.1.opts e.1.env.sig) e.1.env := by
  intro e he f hf
  obtain ⟨r0, hr0, hv, _, rfl⟩ := C10_served T progs sched e he f hf
  obtain ⟨th, hth, hr⟩ := mem_finished he
  have heP : e.1 ∈ allReqs progs := (G_reach T progs sched).resP th hth e hr
  rw [hS r0 hr0 e.1 heP hv, V r0 hr0 e.1 heP hv]

/- FULL STATEMENT (false of the pinned tree — `C10_once_counterexample`):
     ∀ T progs sched c o, xcount (run T (init progs) sched) c o ≤ 1 -/

/-- **Converts once**: in a history whose distinct code objects have distinct values, `transform_ast`
runs at most once per (code object, options) — for ever, hence also between any two `gc` events. -/
theorem C10_once_partial (T : Code → Opts → Nat → Factory) (progs : List (List (Request Opts)))
    (V : ValInj (allReqs progs)) (sched : List Label) (c : Code) (o : Opts) :
    xcount (run T (init progs) sched) c o ≤ 1 :=
  ((Inv_reach T progs V sched).once c o).1

/-- …and the one conversion that ran is the one every later request is served: as long as some live
function uses the code object, the pair is in the cache or about to be stored by the lock holder. -/
theorem C10_once_kept_partial (T : Code → Opts → Nat → Factory) (progs : List (List (Request Opts)))
    (V : ValInj (allReqs progs)) (sched : List Label) (c : Code) (o : Opts)
    (h : 0 < xcount (run T (init progs) sched) c o) (hl : live (run T (init progs) sched) c = true) :
    (table (run T (init progs) sched) c o).isSome = true ∨ Storing (run T (init progs) sched) c o := by
  rcases ((Inv_reach T progs V sched).once c o).2 h with h | h | h
  · exact Or.inl h
  · exact Or.inr h
  · rw [hl] at h; cases h

/- FULL STATEMENT (false of the pinned tree — `C10_no_error_counterexample`):
     ∀ T progs sched, ∀ e ∈ finished (run T (init progs) sched), e.2 ≠ none -/

/-- **Thread safety of the lock-free fast path**: in a history whose distinct code objects have
distinct values no request ever fails with `KeyError` (the entry a reader saw in `has` is still
there when it fetches it), under every interleaving. -/
theorem C10_no_error_partial (T : Code → Opts → Nat → Factory) (progs : List (List (Request Opts)))
    (V : ValInj (allReqs progs)) (sched : List Label) :
    ∀ e ∈ finished (run T (init progs) sched), ∃ f, e.2 = some f := by
  intro e he
  obtain ⟨th, hth, hr⟩ := mem_finished he
  have h0 : NoErr (init progs : State Opts Factory) := by
    intro th hth e he
    simp only [init, List.mem_map] at hth
    obtain ⟨p, _, rfl⟩ := hth
    simp at he
  exact NoErr_run V (Inv_init progs (mem_allReqs progs)) h0 sched th hth e hr

/-- **Mutual exclusion** (the mechanism): at most one thread is inside `with self._cache_lock`, it is
the owner of the lock, and every write to the dictionaries happens there. -/
theorem C10_mutex_partial (T : Code → Opts → Nat → Factory) (progs : List (List (Request Opts)))
    (V : ValInj (allReqs progs)) (sched : List Label) (t t' : Tid) (th th' : Thread Opts Factory)
    (h : (run T (init progs) sched).threads[t]? = some th) (hl : th.pc.locked = true)
    (h' : (run T (init progs) sched).threads[t']? = some th') (hl' : th'.pc.locked = true) : t = t' :=
  holder_unique (Inv_reach T progs V sched) h hl h' hl'

/-- **No aliasing**: requests that differ in the code value or in the options are never served the
same factory, provided distinct keys have distinct conversions (otherwise sharing is unobservable). -/
theorem C10_no_alias (T : Code → Opts → Nat → Factory)
    (hinj : ∀ c o s c' o' s', T c o s = T c' o' s' → c.val = c'.val ∧ o = o')
    (progs : List (List (Request Opts))) (sched : List Label) :
    ∀ e ∈ finished (run T (init progs) sched), ∀ e' ∈ finished (run T (init progs) sched),
      ∀ f f', e.2 = some f → e'.2 = some f' →
      (e.1.code.val ≠ e'.1.code.val ∨ e.1.opts ≠ e'.1.opts) → f ≠ f' := by
  intro e he e' he' f f' hf hf' hne heq
  obtain ⟨r0, _, hv0, _, h1⟩ := C10_served T progs sched e he f hf
  obtain ⟨r1, _, hv1, _, h2⟩ := C10_served T progs sched e' he' f' hf'
  rw [h1, h2] at heq
  obtain ⟨hv, ho⟩ := hinj _ _ _ _ _ _ heq
  rcases hne with h | h
  · exact h (hv0.symm.trans (hv.trans hv1))
  · exact h ho

/-- **No stale code**: a redefinition (a code object with a new value) is never served a factory
converted for the old code — for any options, any schedule, with or without `gc` of the old code. -/
theorem C10_no_stale (T : Code → Opts → Nat → Factory)
    (hinj : ∀ c o s c' o' s', T c o s = T c' o' s' → c.val = c'.val ∧ o = o')
    (progs : List (List (Request Opts))) (sched : List Label) (old : Code) :
    ∀ e ∈ finished (run T (init progs) sched), e.1.code.val ≠ old.val →
      ∀ f, e.2 = some f → ∀ o s, f ≠ T old o s := by
  intro e he hne f hf o s heq
  obtain ⟨r0, _, hv0, _, h1⟩ := C10_served T progs sched e he f hf
  rw [h1] at heq
  exact hne (hv0.symm.trans (hinj _ _ _ _ _ _ heq).1)

/- FULL STATEMENT (false of the pinned tree): the same without `ValInj` — the `KeyError` outcome of
   `C10_no_error_counterexample` and the second conversion of `C10_once_counterexample` are not
   behaviours of the atomic specification. -/

/-- **Refinement** to the atomic specification "lookup-or-convert" (`Malt.Cache.Spec`): for every
history whose distinct code objects have distinct values and every schedule, some sequence of atomic
steps — one `serve` per request, taken when a converting request stores its factory or when a
request that found the factory returns; one `gc` per effective `gc` — leads the specification from
its initial state to the abstraction (`abs`: cache contents as a lookup function; per thread the
remaining requests and the outcomes so far, a request counting as served from its linearisation
point on) of the implementation's state. -/
theorem C10_refines_partial (T : Code → Opts → Nat → Factory) (progs : List (List (Request Opts)))
    (V : ValInj (allReqs progs)) (sched : List Label) :
    ∃ ls : List Spec.SLabel,
      Spec.srun T (Spec.sinit progs) ls = abs (allReqs progs) (run T (init progs) sched) := by
  have h0 : Inj (init progs : State Opts Factory) := by
    intro e he; simp [init] at he
  have h1 : Own T (init progs : State Opts Factory) := by
    intro t th r rest hth _ f hf
    simp only [init, List.getElem?_map, Option.map_eq_some_iff] at hth
    obtain ⟨p, _, rfl⟩ := hth
    simp at hf
  obtain ⟨ls, hls⟩ := refines_from (T := T) V sched (Inv_init progs (mem_allReqs progs)) h0 h1
  rw [abs_init] at hls
  exact ⟨ls, hls⟩

/-- What the abstraction keeps of a thread that is between requests: exactly its remaining requests
and its outcomes.  (So at any quiescent point the implementation's observable state *is* a state of
the atomic specification.) -/
theorem C10_refines_observable (P : List (Request Opts)) (s : State Opts Factory) (t : Tid)
    (th : Thread Opts Factory) (h : s.threads[t]? = some th) (hidle : th.pc = .idle) :
    (abs P s).threads[t]? = some { todo := th.todo, results := th.results } := by
  simp [abs, h, absThread, linearised, hidle]

end generic

/-! ## The real subkey type: `ConversionOptions` (C20) -/

instance optsLawful : LawfulBEq Malt.Options.Opts where
  eq_of_beq := fun {a b} h => (Malt.Options.C20_eq_iff a b).mp h
  rfl := fun {a} => (Malt.Options.C20_eq_iff a a).mpr rfl

/-- **Different option sets never alias** (uses C20: `ConversionOptions.__eq__`/`__hash__` is field
equality): two requests on the same code whose options differ in any of the four fields are served
different factories. -/
theorem C10_no_alias_options {Factory : Type} (T : Code → Malt.Options.Opts → Nat → Factory)
    (hinj : ∀ c o s c' o' s', T c o s = T c' o' s' → c.val = c'.val ∧ o = o')
    (progs : List (List (Request Malt.Options.Opts))) (sched : List Label) :
    ∀ e ∈ finished (run T (init progs) sched), ∀ e' ∈ finished (run T (init progs) sched),
      ∀ f f', e.2 = some f → e'.2 = some f' →
      (e.1.opts.recursive ≠ e'.1.opts.recursive ∨ e.1.opts.userRequested ≠ e'.1.opts.userRequested ∨
       e.1.opts.internal ≠ e'.1.opts.internal ∨ e.1.opts.features ≠ e'.1.opts.features) → f ≠ f' := by
  intro e he e' he' f f' hf hf' hne
  apply C10_no_alias T hinj progs sched e he e' he' f f' hf hf'
  right
  intro heq
  rw [heq] at hne
  simp at hne

/-! ## Non-vacuity and counterexamples (concrete histories and schedules)

Options are modelled by `Nat` here; `T c o s = 1000000·c.id + 10000·c.val + 100·o + s` shows which
source, options and namespace a factory was made from. -/
section examples

def exT : Code → Nat → Nat → Nat := fun c o s => c.id * 1000000 + c.val * 10000 + o * 100 + s
def thr (t n : Nat) : List Label := List.replicate n (.thr t)
def outs (s : State Nat Nat) : List (List (Option Nat)) := s.threads.map (fun th => th.results.map (·.2))

/-- Two functions sharing one code object (value 7), same namespace view, same options. -/
def exRace : List (List (Request Nat)) := [[⟨⟨1, 7⟩, 0, ⟨1, 5⟩⟩], [⟨⟨1, 7⟩, 0, ⟨2, 5⟩⟩]]

/-- Both threads race on the same key: both miss in the lock-free check, thread 1 wins the lock and
converts, thread 0 blocks, then finds the entry in the re-check under the lock.  One transformation,
both served the same factory. -/
def exRaceSched : List Label :=
  thr 0 2 ++ thr 1 2 ++ thr 1 1 ++ thr 0 3 ++ thr 1 8 ++ thr 0 8

example : outs (run exT (init exRace) exRaceSched) = [[some 1070005], [some 1070005]] := by decide
example : xcount (run exT (init exRace) exRaceSched) ⟨1, 7⟩ 0 = 1 := by decide
example : ValInj (allReqs exRace) ∧ SigCoherent (allReqs exRace) := by decide
/-- The hypotheses of the positive theorems are satisfiable by this non-trivial instance. -/
example : ∀ e ∈ finished (run exT (init exRace) exRaceSched), ∃ f, e.2 = some f :=
  C10_no_error_partial exT exRace (by decide) exRaceSched
/-- …and the refinement theorem applies to it. -/
example : ∃ ls : List Spec.SLabel,
    Spec.srun exT (Spec.sinit exRace) ls = abs (allReqs exRace) (run exT (init exRace) exRaceSched) :=
  C10_refines_partial exT exRace (by decide) exRaceSched
/-- An unfair schedule: thread 0 never runs again after blocking on the lock. -/
example : outs (run exT (init exRace) (thr 0 2 ++ thr 1 3 ++ thr 0 5 ++ thr 1 20)) = [[], [some 1070005]] := by
  decide

/-- Different options, different code, redefinition after `gc`. -/
def exKeys : List (List (Request Nat)) :=
  [[⟨⟨1, 7⟩, 0, ⟨1, 5⟩⟩, ⟨⟨1, 7⟩, 1, ⟨1, 5⟩⟩], [⟨⟨2, 8⟩, 0, ⟨2, 5⟩⟩, ⟨⟨1, 7⟩, 0, ⟨3, 5⟩⟩]]
set_option maxRecDepth 8192 in
example : outs (run exT (init exKeys) (thr 0 30 ++ [.gc ⟨1, 7⟩] ++ thr 1 30)) =
    [[some 1070005, some 1070105], [some 2080005, some 1070005]] := by decide
set_option maxRecDepth 8192 in
example : xcount (run exT (init exKeys) (thr 0 30 ++ [.gc ⟨1, 7⟩] ++ thr 1 30)) ⟨1, 7⟩ 0 = 1 := by decide

/-- COUNTEREXAMPLE to the full result statement (known finding `C10-shared-code-namespace`): two
functions share a code object but see different namespaces (`sig` 1 vs 2, e.g. global `m` is
`malt.experimental` for one and a user object for the other).  The second is served the conversion
made against the first one's namespace. -/
def exSig : List (List (Request Nat)) := [[⟨⟨1, 7⟩, 0, ⟨1, 1⟩⟩], [⟨⟨1, 7⟩, 0, ⟨2, 2⟩⟩]]
/-- Code objects 1 and 2 are distinct but equal (`exec` of the same source twice, or equal `def`s in two files). -/
def exKeyErr : List (List (Request Nat)) := [[⟨⟨1, 7⟩, 0, ⟨1, 5⟩⟩], [⟨⟨2, 7⟩, 0, ⟨2, 5⟩⟩]]

theorem C10_result_counterexample :
    ¬ (∀ (T : Code → Nat → Nat → Nat) (progs : List (List (Request Nat))) (sched : List Label),
        ∀ e ∈ finished (run T (init progs) sched), ∀ f, e.2 = some f →
          f = T e.1.code e.1.opts e.1.env.sig) := by
  intro h
  have := h exT exSig (thr 0 12 ++ thr 1 12) (⟨⟨1, 7⟩, 0, ⟨2, 2⟩⟩, some 1070001) (by decide) 1070001 rfl
  exact absurd this (by decide)

/-- COUNTEREXAMPLE to the full result statement, second cause (known finding `C10-equal-code-objects`):
even for a `transform` that ignores the namespace, a function whose code object is equal to, but not
identical with, one converted earlier is served the conversion of the *other* function's source
(whose annotations, decorators, file may differ). -/
theorem C10_result_counterexample_equal_code :
    ¬ (∀ (T : Code → Nat → Nat → Nat), EnvIrrelevant T →
        ∀ (progs : List (List (Request Nat))) (sched : List Label),
        ∀ e ∈ finished (run T (init progs) sched), ∀ f, e.2 = some f →
          f = T e.1.code e.1.opts e.1.env.sig) := by
  intro h
  have := h (fun c o _ => exT c o 0) (fun _ _ _ _ => rfl) exKeyErr (thr 0 12 ++ thr 1 12)
    (⟨⟨2, 7⟩, 0, ⟨2, 5⟩⟩, some 1070000) (by decide) 1070000 rfl
  exact absurd this (by decide)

example : ¬ SigCoherent (allReqs exSig) := by decide

/-- COUNTEREXAMPLE to the full once statement (known finding `C10-equal-code-objects`): code objects
1 and 2 are distinct but equal (`exec` of the same source twice).  Thread 0 converts (1, options 0);
thread 1 converts (2, options 1) — stored in the bucket keyed by object 1; object 1 dies; thread 1 asks
for (2, options 1) again while object 2 stayed alive: second transformation. -/
def exEq : List (List (Request Nat)) :=
  [[⟨⟨1, 7⟩, 0, ⟨1, 5⟩⟩], [⟨⟨2, 7⟩, 1, ⟨2, 5⟩⟩, ⟨⟨2, 7⟩, 1, ⟨2, 5⟩⟩]]

theorem C10_once_counterexample :
    ¬ (∀ (T : Code → Nat → Nat → Nat) (progs : List (List (Request Nat))) (sched : List Label) (c : Code) (o : Nat),
        xcount (run T (init progs) sched) c o ≤ 1) := by
  intro h
  have := h exT exEq (thr 0 12 ++ thr 1 12 ++ [.gc ⟨1, 7⟩] ++ thr 1 12) ⟨2, 7⟩ 1
  exact absurd this (by decide)

example : ¬ ValInj (allReqs exEq) := by decide

/-- COUNTEREXAMPLE to the full no-error statement (same finding): thread 1 sees the entry in the
lock-free `has` (through the bucket of the equal code object 1); object 1 dies; `_cached_factory`
finds no bucket, creates an empty one and raises `KeyError`. -/
theorem C10_no_error_counterexample :
    ¬ (∀ (T : Code → Nat → Nat → Nat) (progs : List (List (Request Nat))) (sched : List Label),
        ∀ e ∈ finished (run T (init progs) sched), ∃ f, e.2 = some f) := by
  intro h
  obtain ⟨f, hf⟩ := h exT exKeyErr (thr 0 12 ++ thr 1 3 ++ [.gc ⟨1, 7⟩] ++ thr 1 4)
    (⟨⟨2, 7⟩, 0, ⟨2, 5⟩⟩, none) (by decide)
  cases hf

end examples

end Malt.Cache
