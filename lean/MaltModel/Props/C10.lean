import MaltModel.Proofs.C10Refine
import MaltModel.Proofs.C10Progress
import MaltModel.Props.C20
import MaltModel.Generated.CacheLock
/-!
# C10 — the conversion cache is coherent, converts once, and is thread-safe

Model: `MaltModel/Rt/Cache.lean` (small-step, one dictionary operation per step, arbitrary schedules,
`gc` of code objects no live function uses).  Helper developments: `MaltModel/Proofs/C10*.lean`.

All theorems quantify over **every** request history `progs` (thread `i` performs `progs[i]` in
order), **every** schedule `sched : List Label` (fair or not; thread steps and `gc` events in any
order) and every transform function `T`.

Two facts of the pinned implementation make the full property false; each is stated as a comment,
proved as a counterexample, and assumed away by a decidable hypothesis on the history in the
`…_partial` theorems:

* `SigCoherent` / `EnvIrrelevant` — the conversion reads the namespace of the function that happens
  to trigger it (directive resolution, namer), so functions sharing a code object but differing in the
  *relevant part* of their globals/closure are served a conversion made for the other one;
* `ValInj` — the cache is a `WeakKeyDictionary` keyed by the code object, whose `__eq__` is
  structural: two distinct code objects with equal value share one entry, which dies with the *first*
  of them (→ a second transformation for a pair that stayed alive, and a `KeyError` race).

What makes a theorem `_partial`, and how far each hypothesis has been lifted:

| theorems | hypothesis | why it cannot be dropped |
|---|---|---|
| once, once_kept, error_only, no_error, lock_released, mutex, progress, can_complete | `SchedSafe T (init progs) sched` — *dynamic*: no `gc` step of this schedule removes an entry that an equal-valued distinct code object in use shares (decidable per (history, schedule); implied by `ValInj` for every schedule: `C10_schedSafe_of_valInj`; holds for the usual "old function dies, then the same source is exec'ed again" redefinition although `ValInj` fails there: `exRedefine`) | `C10_once_counterexample`, `C10_no_error_counterexample` |
| refines (lookup-or-convert spec), no_alias_frame | `ValInj` (static): the spec is keyed by code *identity*, the implementation by *value*; two equal-valued distinct code objects alive at once share an entry even without any `gc` | `C10_result_counterexample_equal_code` |
| refines_ideal, outcome_ideal (cache-less spec: every request = fresh conversion of that exact function) | `ValInj ∧ SigCoherent` — exactly the negations of the two known findings | `C10_ideal_needs_sigCoherent`, `C10_ideal_needs_valInj` |
| served, no_alias, no_stale, result (under assumptions on `T`), work monotone | none | — |
-/
namespace Malt.Cache

section generic
variable {Opts Factory : Type} [BEq Opts] [Hashable Opts] [LawfulBEq Opts]

private theorem mem_allReqs (progs : List (List (Request Opts))) :
    ∀ p ∈ progs, ∀ r ∈ p, r ∈ allReqs progs := by
  intro p hp r hr
  exact List.mem_flatten.mpr ⟨p, hp, hr⟩

private theorem mem_finished {s : State Opts Factory} {e : Request Opts × Option Factory}
    (h : e ∈ finished s) : ∃ th ∈ s.threads, e ∈ th.results := by
  obtain ⟨l, hl, he⟩ := List.mem_flatten.mp h
  obtain ⟨th, hth, rfl⟩ := List.mem_map.mp hl
  exact ⟨th, hth, he⟩

private theorem G_reach (T : Code → Opts → Nat → Option Factory) (progs : List (List (Request Opts)))
    (sched : List Label) : G T (allReqs progs) (run T (init progs) sched) :=
  G_run (G_init progs (mem_allReqs progs)) sched

private theorem Inv_reach (T : Code → Opts → Nat → Option Factory) (progs : List (List (Request Opts)))
    (sched : List Label) (hs : SchedSafe T (init progs) sched) :
    Inv (allReqs progs) (run T (init progs) sched) :=
  Inv_run (Inv_init progs (mem_allReqs progs)) sched hs

/-- The static hypothesis implies the dynamic one, for every schedule. -/
theorem C10_schedSafe_of_valInj (T : Code → Opts → Nat → Option Factory) (progs : List (List (Request Opts)))
    (V : ValInj (allReqs progs)) (sched : List Label) : SchedSafe T (init progs) sched :=
  schedSafe_of_valInj V (Inv_init progs (mem_allReqs progs)) sched

/-- **Coherence, no hypothesis.**  Whatever the history and the schedule, a finished request for
`(code, options)` was served the conversion under *those* options of the source of some requester's
(of the same history) code object of *equal value*, computed against that requester's namespace; the
factory is instantiated with the requester's own environment by construction (`finished` pairs it
with its own request). -/
theorem C10_served (T : Code → Opts → Nat → Option Factory) (progs : List (List (Request Opts)))
    (sched : List Label) :
    ∀ e ∈ finished (run T (init progs) sched), ∀ f, e.2 = some f →
      ∃ r0 ∈ allReqs progs, r0.code.val = e.1.code.val ∧ r0.opts = e.1.opts ∧
        T r0.code e.1.opts r0.env.sig = some f := by
  intro e he f hf
  obtain ⟨th, hth, hr⟩ := mem_finished he
  exact (G_reach T progs sched).res th hth e hr f hf

/- FULL STATEMENT (false of the pinned tree — `C10_result_counterexample`,
   `C10_result_counterexample_equal_code`):
     ∀ T inst progs sched, ∀ e ∈ finished (run T (init progs) sched), ∀ f, e.2 = some f →
       some (inst f e.1.env) = (T e.1.code e.1.opts e.1.env.sig).map (fun g => inst g e.1.env) -/

/-- **Result** under the explicit assumptions on `transform`: every completed request returns
`instantiate (T code opts) (its own env)`. -/
theorem C10_result {Fn : Type} (T : Code → Opts → Nat → Option Factory) (inst : Factory → Env → Fn)
    (hT : EnvIrrelevant T) (hV : SrcByVal T) (progs : List (List (Request Opts))) (sched : List Label) :
    ∀ e ∈ finished (run T (init progs) sched), ∀ f, e.2 = some f →
      some (inst f e.1.env) = (T e.1.code e.1.opts e.1.env.sig).map (fun g => inst g e.1.env) := by
  intro e he f hf
  obtain ⟨r0, _, hv, _, h⟩ := C10_served T progs sched e he f hf
  rw [hT _ _ r0.env.sig e.1.env.sig, hV _ _ _ _ hv] at h
  rw [h]; rfl

/-- **Result**, with decidable hypotheses on the history instead of on `T`: if functions with equal
code agree on the conversion-relevant view of their namespace and distinct code objects have distinct
values, every completed request returns the fresh conversion of that exact function.  The classes of
the known findings are the negations of `SigCoherent` and `ValInj`. -/
theorem C10_result_partial {Fn : Type} (T : Code → Opts → Nat → Option Factory) (inst : Factory → Env → Fn)
    (progs : List (List (Request Opts))) (hS : SigCoherent (allReqs progs)) (V : ValInj (allReqs progs))
    (sched : List Label) :
    ∀ e ∈ finished (run T (init progs) sched), ∀ f, e.2 = some f →
      some (inst f e.1.env) = (T e.1.code e.1.opts e.1.env.sig).map (fun g => inst g e.1.env) := by
  intro e he f hf
  obtain ⟨r0, hr0, hv, _, h⟩ := C10_served T progs sched e he f hf
  obtain ⟨th, hth, hr⟩ := mem_finished he
  have heP : e.1 ∈ allReqs progs := (G_reach T progs sched).resP th hth e hr
  rw [hS r0 hr0 e.1 heP hv, V r0 hr0 e.1 heP hv] at h
  rw [h]; rfl

/- FULL STATEMENT (false of the pinned tree — `C10_once_counterexample`):
     ∀ T progs sched c o, xcount (run T (init progs) sched) c o ≤ 1 -/

/-- **Converts once**: along every schedule on which no code object dies while an equal-valued
distinct one shares its entry (`SchedSafe`; in particular in every history whose distinct code objects
have distinct values, for all schedules), the conversion runs at most once per (code object, options)
— for ever, hence also between any two `gc` events.  The lock discipline this rests on (the re-check,
the conversion and the store are inside the critical section, the first check and `instantiate` are
not) is the one extracted from the source: `C10_lock_discipline_extracted`. -/
theorem C10_once_partial (T : Code → Opts → Nat → Option Factory) (progs : List (List (Request Opts)))
    (sched : List Label) (hs : SchedSafe T (init progs) sched) (c : Code) (o : Opts) :
    xcount (run T (init progs) sched) c o ≤ 1 :=
  ((Inv_reach T progs sched hs).once c o).1

/-- …and the one conversion that ran is the one every later request is served: as long as some live
function uses the code object, the pair is in the cache or about to be stored by the lock holder. -/
theorem C10_once_kept_partial (T : Code → Opts → Nat → Option Factory) (progs : List (List (Request Opts)))
    (sched : List Label) (hs : SchedSafe T (init progs) sched) (c : Code) (o : Opts)
    (h : 0 < xcount (run T (init progs) sched) c o) (hl : live (run T (init progs) sched) c = true) :
    (table (run T (init progs) sched) c o).isSome = true ∨ Storing (run T (init progs) sched) c o := by
  rcases ((Inv_reach T progs sched hs).once c o).2 h with h | h | h
  · exact Or.inl h
  · exact Or.inr h
  · rw [hl] at h; cases h

/-- **The lock discipline of the model is the one of the source** (regenerated by the translator,
`tools/extract_cachelock.py` → `Generated/CacheLock.lean`, on every run): in
`PyToPy.transform_function` the first `has`/fetch and `instantiate` are outside, the re-check, its
fetch, the conversion (`super().transform_function`, `factory.create`) and the store are lexically
inside `with self._cache_lock`; the lock is an `RLock`, the outer dictionary a `WeakKeyDictionary` keyed
by `entity.__code__`, the subkey is `ctx.options`, `has` is `get` + `in`, `__getitem__` is `get` +
create-if-missing, `instantiate` receives the requesting function's globals, closure, defaults and
kwdefaults.  If the conversion call (or the store, or the re-check) moves out of the critical section,
or the lock is taken by explicit acquire/release, this ceases to compile. -/
theorem C10_lock_discipline_extracted :
    Malt.Gen.CacheLock.sites =
      [("has", (Pc.has1 false : Pc Unit).locked), ("get", (Pc.get1 false : Pc Unit).locked),
       ("has", (Pc.has1 true : Pc Unit).locked), ("get", (Pc.get1 true : Pc Unit).locked),
       ("xform", (Pc.xform : Pc Unit).locked), ("create", (Pc.xform : Pc Unit).locked),
       ("store", (Pc.st2 () 0 : Pc Unit).locked), ("inst", (Pc.inst () false : Pc Unit).locked)] ∧
    Malt.Gen.CacheLock.lockKind = "threading.RLock()" ∧
    Malt.Gen.CacheLock.outerKind = "weakref.WeakKeyDictionary()" ∧
    Malt.Gen.CacheLock.keyExpr = "entity.__code__ | entity" ∧
    Malt.Gen.CacheLock.subkeyExpr = "ctx.options" ∧
    Malt.Gen.CacheLock.hasOps = ["outer.get", "in"] ∧
    Malt.Gen.CacheLock.getitemOps = ["outer.get", "outer.set{}"] ∧
    Malt.Gen.CacheLock.cachedFactoryExpr = "self._cache[fn][cache_subkey]" ∧
    Malt.Gen.CacheLock.instantiateArgs =
      [("globals_", "fn.__globals__"), ("closure", "fn.__closure__ or ()"), ("defaults", "fn.__defaults__"),
       ("kwdefaults", "getattr(fn, '__kwdefaults__', None)")] := by
  decide

/- FULL STATEMENT (false of the pinned tree — `C10_no_error_counterexample`):
     ∀ T progs sched, ∀ e ∈ finished (run T (init progs) sched), e.2 = none →
       T e.1.code e.1.opts e.1.env.sig = none -/

/-- **Thread safety of the lock-free fast path**: in a history whose distinct code objects have
distinct values a request raises only if its *own* conversion raises — never a `KeyError` from the
cache (the entry a reader saw in `has` is still there when it fetches it), under every interleaving. -/
theorem C10_error_only_partial (T : Code → Opts → Nat → Option Factory) (progs : List (List (Request Opts)))
    (sched : List Label) (hs : SchedSafe T (init progs) sched) :
    ∀ e ∈ finished (run T (init progs) sched), e.2 = none → T e.1.code e.1.opts e.1.env.sig = none := by
  intro e he hnone
  obtain ⟨th, hth, hr⟩ := mem_finished he
  exact (ErrInv_run (Inv_init progs (mem_allReqs progs)) (ErrInv_init progs) sched hs).1 th hth e hr hnone

/-- …so if every function of the history is convertible, no request ever fails. -/
theorem C10_no_error_partial (T : Code → Opts → Nat → Option Factory) (progs : List (List (Request Opts)))
    (hT : ∀ r ∈ allReqs progs, (T r.code r.opts r.env.sig).isSome = true)
    (sched : List Label) (hs : SchedSafe T (init progs) sched) :
    ∀ e ∈ finished (run T (init progs) sched), ∃ f, e.2 = some f := by
  intro e he
  cases h : e.2 with
  | some f => exact ⟨f, rfl⟩
  | none =>
    obtain ⟨th, hth, hr⟩ := mem_finished he
    have heP : e.1 ∈ allReqs progs := (G_reach T progs sched).resP th hth e hr
    have := hT e.1 heP
    rw [C10_error_only_partial T progs sched hs e he h] at this
    cases this

/-- **The lock is never leaked**: whenever no thread is inside `transform_function`'s critical
section — in particular after a conversion raised — the lock is free. -/
theorem C10_lock_released_partial (T : Code → Opts → Nat → Option Factory) (progs : List (List (Request Opts)))
    (sched : List Label) (hs : SchedSafe T (init progs) sched)
    (h : ∀ th ∈ (run T (init progs) sched).threads, th.pc.locked = false) :
    (run T (init progs) sched).lock = none := by
  cases hl : (run T (init progs) sched).lock with
  | none => rfl
  | some tn =>
    obtain ⟨t, n⟩ := tn
    obtain ⟨_, th, hth, hlk⟩ := (Inv_reach T progs sched hs).lock1 t n hl
    rw [h th (List.mem_of_getElem? hth)] at hlk
    cases hlk

/-- **Mutual exclusion** (the mechanism): at most one thread is inside `with self._cache_lock`, it is
the owner of the lock, and every write to the dictionaries happens there. -/
theorem C10_mutex_partial (T : Code → Opts → Nat → Option Factory) (progs : List (List (Request Opts)))
    (sched : List Label) (hs : SchedSafe T (init progs) sched) (t t' : Tid) (th th' : Thread Opts Factory)
    (h : (run T (init progs) sched).threads[t]? = some th) (hl : th.pc.locked = true)
    (h' : (run T (init progs) sched).threads[t']? = some th') (hl' : th'.pc.locked = true) : t = t' :=
  holder_unique (Inv_reach T progs sched hs) h hl h' hl'

/-- **No deadlock** (local form): in every reachable state in which some request is unfinished, some
thread can take a step that strictly decreases the remaining `work` — the owner of the lock is never
blocked, and nobody is blocked when the lock is free.  (`work` = 18 per unfinished request minus the
position of the request in flight; no step of any thread, and no `gc`, ever increases it:
`step_work_le`.) -/
theorem C10_progress_partial (T : Code → Opts → Nat → Option Factory) (progs : List (List (Request Opts)))
    (sched : List Label) (hs : SchedSafe T (init progs) sched)
    (h : ∃ th ∈ (run T (init progs) sched).threads, th.todo ≠ []) :
    ∃ t, work (step T (run T (init progs) sched) (.thr t)) < work (run T (init progs) sched) :=
  progress (Inv_reach T progs sched hs) h

/-- **No deadlock, no livelock** (global form): whatever happened so far (any schedule, fair or
not), the execution can be continued — by at most `work` further thread steps — to a state in which
every request of every thread has finished.  Since `work` never increases and every non-blocked step
decreases it, every scheduler that keeps scheduling a thread that is not blocked gets there. -/
theorem C10_can_complete_partial (T : Code → Opts → Nat → Option Factory) (progs : List (List (Request Opts)))
    (sched : List Label) (hs : SchedSafe T (init progs) sched) :
    ∃ more : List Label, more.length ≤ work (run T (init progs) sched) ∧
      ∀ th ∈ (run T (init progs) (sched ++ more)).threads, th.todo = [] := by
  obtain ⟨more, hlen, hfin⟩ := can_complete (T := T) _ (Inv_reach T progs sched hs) (Nat.le_refl _)
  refine ⟨more, hlen, ?_⟩
  have : run T (init progs) (sched ++ more) = run T (run T (init progs) sched) more := by
    simp [run, List.foldl_append]
  rw [this]; exact hfin

/-- **No aliasing**: requests that differ in the code value or in the options are never served the
same factory, provided distinct keys have distinct conversions (otherwise sharing is unobservable). -/
theorem C10_no_alias (T : Code → Opts → Nat → Option Factory)
    (hinj : ∀ c o s c' o' s' f, T c o s = some f → T c' o' s' = some f → c.val = c'.val ∧ o = o')
    (progs : List (List (Request Opts))) (sched : List Label) :
    ∀ e ∈ finished (run T (init progs) sched), ∀ e' ∈ finished (run T (init progs) sched),
      ∀ f f', e.2 = some f → e'.2 = some f' →
      (e.1.code.val ≠ e'.1.code.val ∨ e.1.opts ≠ e'.1.opts) → f ≠ f' := by
  intro e he e' he' f f' hf hf' hne heq
  obtain ⟨r0, _, hv0, _, h1⟩ := C10_served T progs sched e he f hf
  obtain ⟨r1, _, hv1, _, h2⟩ := C10_served T progs sched e' he' f' hf'
  rw [← heq] at h2
  obtain ⟨hv, ho⟩ := hinj _ _ _ _ _ _ _ h1 h2
  rcases hne with h | h
  · exact h (hv0.symm.trans (hv.trans hv1))
  · exact h ho

/-- **No stale code**: a redefinition (a code object with a new value) is never served a factory
converted for the old code — for any options, any schedule, with or without `gc` of the old code. -/
theorem C10_no_stale (T : Code → Opts → Nat → Option Factory)
    (hinj : ∀ c o s c' o' s' f, T c o s = some f → T c' o' s' = some f → c.val = c'.val ∧ o = o')
    (progs : List (List (Request Opts))) (sched : List Label) (old : Code) :
    ∀ e ∈ finished (run T (init progs) sched), e.1.code.val ≠ old.val →
      ∀ f, e.2 = some f → ∀ o s, T old o s ≠ some f := by
  intro e he hne f hf o s heq
  obtain ⟨r0, _, hv0, _, h1⟩ := C10_served T progs sched e he f hf
  exact hne (hv0.symm.trans (hinj _ _ _ _ _ _ _ h1 heq).1)

/- FULL STATEMENT (false of the pinned tree): the same without `ValInj` — the `KeyError` outcome of
   `C10_no_error_counterexample` and the second conversion of `C10_once_counterexample` are not
   behaviours of the atomic specification. -/

/-- **Refinement** to the atomic specification "lookup-or-convert" (`Malt.Cache.Spec`): for every
history whose distinct code objects have distinct values and every schedule, some sequence of atomic
steps — one `serve` per request, taken when a converting request stores its factory or when a
request that found the factory returns; one `gc` per effective `gc` — leads the specification from
its initial state to the abstraction (`abs`: cache contents as a lookup function; per thread the
remaining requests and the outcomes so far, a request counting as served from its linearisation
point on) of the implementation's state. -/
theorem C10_refines_partial (T : Code → Opts → Nat → Option Factory) (progs : List (List (Request Opts)))
    (V : ValInj (allReqs progs)) (sched : List Label) :
    ∃ ls : List Spec.SLabel,
      Spec.srun T (Spec.sinit progs) ls = abs (allReqs progs) (run T (init progs) sched) := by
  have h0 : Inj (init progs : State Opts Factory) := by
    intro e he; simp [init] at he
  have h1 : Own T (init progs : State Opts Factory) := by
    intro t th r rest hth _ f hf
    simp only [init, List.getElem?_map, Option.map_eq_some_iff] at hth
    obtain ⟨p, _, rfl⟩ := hth
    simp at hf
  obtain ⟨ls, hls⟩ := refines_from (T := T) V sched (Inv_init progs (mem_allReqs progs)) h0 h1
    (ErrInv_init progs)
  rw [abs_init] at hls
  exact ⟨ls, hls⟩

/- FULL STATEMENT (false of the pinned tree — `C10_ideal_needs_sigCoherent`, `C10_ideal_needs_valInj`):
     ∀ T progs sched, ∃ ts, Ideal.irun T (Ideal.iinit progs) ts = (abs (allReqs progs) (run T (init progs) sched)).threads -/

/-- **Refinement to the abstract specification of the property** — no cache at all, "a map from
(function identity incl. closure/globals/defaults binding, options) to a fresh conversion"
(`Malt.Cache.Ideal`): for every history inside the fragment `ValInj ∧ SigCoherent` (the negations of
the two known findings), for ALL schedules (induction over the schedule; any number of threads;
`gc` of code objects and redefinition included), some sequence of atomic "answer this request by a
fresh conversion of exactly this function" steps yields exactly the implementation's observable state
(per thread: remaining requests and outcomes, a request counting as answered from its linearisation
point on). -/
theorem C10_refines_ideal_partial (T : Code → Opts → Nat → Option Factory) (progs : List (List (Request Opts)))
    (V : ValInj (allReqs progs)) (hS : SigCoherent (allReqs progs)) (sched : List Label) :
    ∃ ts : List Tid,
      Ideal.irun T (Ideal.iinit progs) ts = (abs (allReqs progs) (run T (init progs) sched)).threads := by
  obtain ⟨ls, hls⟩ := C10_refines_partial T progs V sched
  refine ⟨ls.filterMap serveTid, ?_⟩
  have h0 : TabOK T (allReqs progs) (Spec.sinit progs : Spec.SState Opts Factory) := by
    constructor
    · intro c o f hf; simp [Spec.sinit] at hf
    · intro th hth r hr
      simp only [Spec.sinit, List.mem_map] at hth
      obtain ⟨p, hp, rfl⟩ := hth
      exact mem_allReqs progs p hp r hr
  have := srun_ideal (T := T) hS ls h0
  rw [hls] at this
  rw [this]; rfl

/-- …in terms of outcomes: inside the fragment every finished request — whether it returned a
function or raised — got exactly the outcome of a fresh conversion of that exact function object
under those exact options (instantiated with its own environment). -/
theorem C10_outcome_ideal_partial (T : Code → Opts → Nat → Option Factory) (progs : List (List (Request Opts)))
    (V : ValInj (allReqs progs)) (hS : SigCoherent (allReqs progs)) (sched : List Label) :
    ∀ e ∈ finished (run T (init progs) sched), e.2 = T e.1.code e.1.opts e.1.env.sig := by
  intro e he
  cases h : e.2 with
  | none =>
    exact (C10_error_only_partial T progs sched (C10_schedSafe_of_valInj T progs V sched) e he h).symm
  | some f =>
    obtain ⟨r0, hr0, hv, _, h1⟩ := C10_served T progs sched e he f h
    obtain ⟨th, hth, hr⟩ := mem_finished he
    have heP : e.1 ∈ allReqs progs := (G_reach T progs sched).resP th hth e hr
    rw [hS r0 hr0 e.1 heP hv, V r0 hr0 e.1 heP hv] at h1
    exact h1.symm

private theorem aux_reach (T : Code → Opts → Nat → Option Factory) (progs : List (List (Request Opts)))
    (V : ValInj (allReqs progs)) (sched : List Label) :
    Inv (allReqs progs) (run T (init progs) sched) ∧ Inj (run T (init progs) sched) ∧
    Own T (run T (init progs) sched) ∧ ErrInv T (run T (init progs) sched) := by
  have h0 : Inj (init progs : State Opts Factory) := by
    intro e he; simp [init] at he
  have h1 : Own T (init progs : State Opts Factory) := by
    intro t th r rest hth _ f hf
    simp only [init, List.getElem?_map, Option.map_eq_some_iff] at hth
    obtain ⟨p, _, rfl⟩ := hth
    simp at hf
  have gen : ∀ (sched : List Label) (s : State Opts Factory), Inv (allReqs progs) s → Inj s → Own T s → ErrInv T s →
      Inv (allReqs progs) (run T s sched) ∧ Inj (run T s sched) ∧ Own T (run T s sched) ∧ ErrInv T (run T s sched) := by
    intro sched
    induction sched with
    | nil => intro s a b c d; exact ⟨a, b, c, d⟩
    | cons l ls ih =>
      intro s a b c d
      exact ih _ (Inv_step a l (stepSafe_of_valInj V a l)) (Inj_step (T := T) a b l) (Own_step c l) (ErrInv_step a d l)
  exact gen sched _ (Inv_init progs (mem_allReqs progs)) h0 h1 (ErrInv_init progs)

/-- **No aliasing, frame form**: a step of a thread changes what a lookup of `(c, o)` finds — for any
code object `c` of the history and any options `o` — only if `(c, o)` is exactly the key of the request
that thread is executing.  Requests on other code, or on the same code under options that differ in
any field, never interfere with it. -/
theorem C10_no_alias_frame_partial (T : Code → Opts → Nat → Option Factory) (progs : List (List (Request Opts)))
    (V : ValInj (allReqs progs)) (sched : List Label) (t : Tid) (c : Code)
    (hc : c ∈ (allReqs progs).map (fun r => r.code)) (o : Opts)
    (h : table (step T (run T (init progs) sched) (.thr t)) c o ≠ table (run T (init progs) sched) c o) :
    ∃ th r rest, (run T (init progs) sched).threads[t]? = some th ∧ th.todo = r :: rest ∧
      r.code = c ∧ r.opts = o := by
  obtain ⟨a, b, c', d⟩ := aux_reach T progs V sched
  exact table_frame V a b c' d t hc o h

/-- What the abstraction keeps of a thread that is between requests: exactly its remaining requests
and its outcomes.  (So at any quiescent point the implementation's observable state *is* a state of
the atomic specification.) -/
theorem C10_refines_observable (P : List (Request Opts)) (s : State Opts Factory) (t : Tid)
    (th : Thread Opts Factory) (h : s.threads[t]? = some th) (hidle : th.pc = .idle) :
    (abs P s).threads[t]? = some { todo := th.todo, results := th.results } := by
  simp [abs, h, absThread, linearised, hidle]

end generic

/-! ## The real subkey type: `ConversionOptions` (C20) -/

instance optsLawful : LawfulBEq Malt.Options.Opts where
  eq_of_beq := fun {a b} h => (Malt.Options.C20_eq_iff a b).mp h
  rfl := fun {a} => (Malt.Options.C20_eq_iff a a).mpr rfl

/-- **Different option sets never alias** (uses C20: `ConversionOptions.__eq__`/`__hash__` is field
equality): two requests on the same code whose options differ in any of the four fields are served
different factories. -/
theorem C10_no_alias_options {Factory : Type} (T : Code → Malt.Options.Opts → Nat → Option Factory)
    (hinj : ∀ c o s c' o' s' f, T c o s = some f → T c' o' s' = some f → c.val = c'.val ∧ o = o')
    (progs : List (List (Request Malt.Options.Opts))) (sched : List Label) :
    ∀ e ∈ finished (run T (init progs) sched), ∀ e' ∈ finished (run T (init progs) sched),
      ∀ f f', e.2 = some f → e'.2 = some f' →
      (e.1.opts.recursive ≠ e'.1.opts.recursive ∨ e.1.opts.userRequested ≠ e'.1.opts.userRequested ∨
       e.1.opts.internal ≠ e'.1.opts.internal ∨ e.1.opts.features ≠ e'.1.opts.features) → f ≠ f' := by
  intro e he e' he' f f' hf hf' hne
  apply C10_no_alias T hinj progs sched e he e' he' f f' hf hf'
  right
  intro heq
  rw [heq] at hne
  simp at hne

/-! ## Non-vacuity and counterexamples (concrete histories and schedules)

Options are modelled by `Nat` here; `T c o s = 1000000·c.id + 10000·c.val + 100·o + s` shows which
source, options and namespace a factory was made from. -/
section examples

private def exT : Code → Nat → Nat → Option Nat := fun c o s =>
  if c.val = 13 then none else some (c.id * 1000000 + c.val * 10000 + o * 100 + s)
private def thr (t n : Nat) : List Label := List.replicate n (.thr t)
private def outs (s : State Nat Nat) : List (List (Option Nat)) := s.threads.map (fun th => th.results.map (·.2))

/-- Two functions sharing one code object (value 7), same namespace view, same options. -/
private def exRace : List (List (Request Nat)) := [[⟨⟨1, 7⟩, 0, ⟨1, 5⟩⟩], [⟨⟨1, 7⟩, 0, ⟨2, 5⟩⟩]]

/-- Both threads race on the same key: both miss in the lock-free check, thread 1 wins the lock and
converts, thread 0 blocks, then finds the entry in the re-check under the lock.  One transformation,
both served the same factory. -/
private def exRaceSched : List Label :=
  thr 0 2 ++ thr 1 2 ++ thr 1 1 ++ thr 0 3 ++ thr 1 8 ++ thr 0 8

example : outs (run exT (init exRace) exRaceSched) = [[some 1070005], [some 1070005]] := by decide
example : xcount (run exT (init exRace) exRaceSched) ⟨1, 7⟩ 0 = 1 := by decide
example : ValInj (allReqs exRace) ∧ SigCoherent (allReqs exRace) := by decide
/-- The hypotheses of the positive theorems are satisfiable by this non-trivial instance. -/
example : ∀ e ∈ finished (run exT (init exRace) exRaceSched), ∃ f, e.2 = some f :=
  C10_no_error_partial exT exRace (by decide) exRaceSched
    (C10_schedSafe_of_valInj exT exRace (by decide) exRaceSched)
/-- …and the refinement theorem applies to it. -/
example : ∃ ls : List Spec.SLabel,
    Spec.srun exT (Spec.sinit exRace) ls = abs (allReqs exRace) (run exT (init exRace) exRaceSched) :=
  C10_refines_partial exT exRace (by decide) exRaceSched
example : work (init exRace : State Nat Nat) = 36 := by decide
/-- An unfair schedule: thread 0 never runs again after blocking on the lock. -/
example : outs (run exT (init exRace) (thr 0 2 ++ thr 1 3 ++ thr 0 5 ++ thr 1 20)) = [[], [some 1070005]] := by
  decide

/-- Different options, different code, redefinition after `gc`. -/
private def exKeys : List (List (Request Nat)) :=
  [[⟨⟨1, 7⟩, 0, ⟨1, 5⟩⟩, ⟨⟨1, 7⟩, 1, ⟨1, 5⟩⟩], [⟨⟨2, 8⟩, 0, ⟨2, 5⟩⟩, ⟨⟨1, 7⟩, 0, ⟨3, 5⟩⟩]]
set_option maxRecDepth 8192 in
example : outs (run exT (init exKeys) (thr 0 30 ++ [.gc ⟨1, 7⟩] ++ thr 1 30)) =
    [[some 1070005, some 1070105], [some 2080005, some 1070005]] := by decide
set_option maxRecDepth 8192 in
example : xcount (run exT (init exKeys) (thr 0 30 ++ [.gc ⟨1, 7⟩] ++ thr 1 30)) ⟨1, 7⟩ 0 = 1 := by decide

/-- COUNTEREXAMPLE to the full result statement (known finding `C10-shared-code-namespace`): two
functions share a code object but see different namespaces (`sig` 1 vs 2, e.g. global `m` is
`malt.experimental` for one and a user object for the other).  The second is served the conversion
made against the first one's namespace. -/
private def exSig : List (List (Request Nat)) := [[⟨⟨1, 7⟩, 0, ⟨1, 1⟩⟩], [⟨⟨1, 7⟩, 0, ⟨2, 2⟩⟩]]
/-- Code objects 1 and 2 are distinct but equal (`exec` of the same source twice, or equal `def`s in two files). -/
private def exKeyErr : List (List (Request Nat)) := [[⟨⟨1, 7⟩, 0, ⟨1, 5⟩⟩], [⟨⟨2, 7⟩, 0, ⟨2, 5⟩⟩]]

theorem C10_result_counterexample :
    ¬ (∀ (T : Code → Nat → Nat → Option Nat) (progs : List (List (Request Nat))) (sched : List Label),
        ∀ e ∈ finished (run T (init progs) sched), ∀ f, e.2 = some f →
          T e.1.code e.1.opts e.1.env.sig = some f) := by
  intro h
  have := h exT exSig (thr 0 12 ++ thr 1 12) (⟨⟨1, 7⟩, 0, ⟨2, 2⟩⟩, some 1070001) (by decide) 1070001 rfl
  exact absurd this (by decide)

/-- COUNTEREXAMPLE to the full result statement, second cause (known finding `C10-equal-code-objects`):
even for a `transform` that ignores the namespace, a function whose code object is equal to, but not
identical with, one converted earlier is served the conversion of the *other* function's source
(whose annotations, decorators, file may differ). -/
theorem C10_result_counterexample_equal_code :
    ¬ (∀ (T : Code → Nat → Nat → Option Nat), EnvIrrelevant T →
        ∀ (progs : List (List (Request Nat))) (sched : List Label),
        ∀ e ∈ finished (run T (init progs) sched), ∀ f, e.2 = some f →
          T e.1.code e.1.opts e.1.env.sig = some f) := by
  intro h
  have := h (fun c o _ => exT c o 0) (fun _ _ _ _ => rfl) exKeyErr (thr 0 12 ++ thr 1 12)
    (⟨⟨2, 7⟩, 0, ⟨2, 5⟩⟩, some 1070000) (by decide) 1070000 rfl
  exact absurd this (by decide)

example : ¬ SigCoherent (allReqs exSig) := by decide

/-- COUNTEREXAMPLE to the full once statement (known finding `C10-equal-code-objects`): code objects
1 and 2 are distinct but equal (`exec` of the same source twice).  Thread 0 converts (1, options 0);
thread 1 converts (2, options 1) — stored in the bucket keyed by object 1; object 1 dies; thread 1 asks
for (2, options 1) again while object 2 stayed alive: second transformation. -/
private def exEq : List (List (Request Nat)) :=
  [[⟨⟨1, 7⟩, 0, ⟨1, 5⟩⟩], [⟨⟨2, 7⟩, 1, ⟨2, 5⟩⟩, ⟨⟨2, 7⟩, 1, ⟨2, 5⟩⟩]]

theorem C10_once_counterexample :
    ¬ (∀ (T : Code → Nat → Nat → Option Nat) (progs : List (List (Request Nat))) (sched : List Label) (c : Code) (o : Nat),
        xcount (run T (init progs) sched) c o ≤ 1) := by
  intro h
  have := h exT exEq (thr 0 12 ++ thr 1 12 ++ [.gc ⟨1, 7⟩] ++ thr 1 12) ⟨2, 7⟩ 1
  exact absurd this (by decide)

example : ¬ ValInj (allReqs exEq) := by decide

/-- COUNTEREXAMPLE to the full no-error statement (same finding): thread 1 sees the entry in the
lock-free `has` (through the bucket of the equal code object 1); object 1 dies; `_cached_factory`
finds no bucket, creates an empty one and raises `KeyError`. -/
theorem C10_no_error_counterexample :
    ¬ (∀ (T : Code → Nat → Nat → Option Nat) (progs : List (List (Request Nat))) (sched : List Label),
        ∀ e ∈ finished (run T (init progs) sched), e.2 = none → T e.1.code e.1.opts e.1.env.sig = none) := by
  intro h
  have := h exT exKeyErr (thr 0 12 ++ thr 1 3 ++ [.gc ⟨1, 7⟩] ++ thr 1 4)
    (⟨⟨2, 7⟩, 0, ⟨2, 5⟩⟩, none) (by decide) rfl
  exact absurd this (by decide)

/-- A conversion that raises (code value 13): each request retries and fails, nothing is cached, the
lock is released every time and the other thread is not disturbed. -/
private def exFail : List (List (Request Nat)) :=
  [[⟨⟨3, 13⟩, 0, ⟨1, 5⟩⟩, ⟨⟨3, 13⟩, 0, ⟨1, 5⟩⟩], [⟨⟨1, 7⟩, 0, ⟨2, 5⟩⟩]]
set_option maxRecDepth 8192 in
example : outs (run exT (init exFail) (thr 0 5 ++ thr 1 3 ++ thr 0 20 ++ thr 1 20)) =
    [[none, none], [some 1070005]] := by decide
set_option maxRecDepth 8192 in
example : (run exT (init exFail) (thr 0 5 ++ thr 1 3 ++ thr 0 20 ++ thr 1 20)).lock = none := by decide
set_option maxRecDepth 8192 in
example : xcount (run exT (init exFail) (thr 0 5 ++ thr 1 3 ++ thr 0 20 ++ thr 1 20)) ⟨3, 13⟩ 0 = 0 := by decide

/-- The refinement to the cache-less specification FAILS without `SigCoherent` (known finding
`C10-shared-code-namespace`): a history with `ValInj` in which an outcome is not the fresh conversion. -/
theorem C10_ideal_needs_sigCoherent :
    ¬ (∀ (progs : List (List (Request Nat))) (sched : List Label), ValInj (allReqs progs) →
        ∀ e ∈ finished (run exT (init progs) sched), e.2 = exT e.1.code e.1.opts e.1.env.sig) := by
  intro h
  have := h exSig (thr 0 12 ++ thr 1 12) (by decide) (⟨⟨1, 7⟩, 0, ⟨2, 2⟩⟩, some 1070001) (by decide)
  exact absurd this (by decide)

/-- …and FAILS without `ValInj` (known finding `C10-equal-code-objects`): a history with `SigCoherent`
in which an outcome is not the fresh conversion (it is the conversion of the *other* function's
source).  So the theorem (`C10_refines_ideal_partial`) and the decidable classifier
`ValInj ∧ SigCoherent` partition the histories: inside, every schedule refines the specification;
for each hypothesis there is a history violating only it on which the refinement fails. -/
theorem C10_ideal_needs_valInj :
    ¬ (∀ (progs : List (List (Request Nat))) (sched : List Label), SigCoherent (allReqs progs) →
        ∀ e ∈ finished (run exT (init progs) sched), e.2 = exT e.1.code e.1.opts e.1.env.sig) := by
  intro h
  have := h exKeyErr (thr 0 12 ++ thr 1 12) (by decide) (⟨⟨2, 7⟩, 0, ⟨2, 5⟩⟩, some 1070005) (by decide)
  exact absurd this (by decide)

example : ValInj (allReqs exSig) ∧ ¬ SigCoherent (allReqs exSig) := by decide
example : SigCoherent (allReqs exKeyErr) ∧ ¬ ValInj (allReqs exKeyErr) := by decide

/-- Redefinition with the SAME source (`exec` twice): object 1 is converted, dies, and only then is
the equal-valued object 2 used.  `ValInj` fails (static), the dynamic hypothesis `SchedSafe` holds, so
the once / no-error / lock theorems apply: the new definition is converted once, no stale hit. -/
private def exRedefine : List (List (Request Nat)) := [[⟨⟨1, 7⟩, 0, ⟨1, 5⟩⟩], [⟨⟨2, 7⟩, 0, ⟨2, 5⟩⟩, ⟨⟨2, 7⟩, 0, ⟨2, 5⟩⟩]]
private def exRedefineSched : List Label := thr 0 12 ++ [.gc ⟨1, 7⟩] ++ thr 1 24
set_option maxRecDepth 8192 in
example : ¬ ValInj (allReqs exRedefine) ∧ SchedSafe exT (init exRedefine) exRedefineSched := by decide
set_option maxRecDepth 8192 in
example : outs (run exT (init exRedefine) exRedefineSched) = [[some 1070005], [some 2070005, some 2070005]] := by decide
example : xcount (run exT (init exRedefine) exRedefineSched) ⟨2, 7⟩ 0 ≤ 1 :=
  C10_once_partial exT exRedefine exRedefineSched (by decide) ⟨2, 7⟩ 0
/-- The schedules of the two counterexamples are exactly the unsafe ones. -/
example : ¬ SchedSafe exT (init exEq) (thr 0 12 ++ thr 1 12 ++ [.gc ⟨1, 7⟩] ++ thr 1 12) := by decide
example : ¬ SchedSafe exT (init exKeyErr) (thr 0 12 ++ thr 1 3 ++ [.gc ⟨1, 7⟩] ++ thr 1 4) := by decide

end examples

end Malt.Cache
