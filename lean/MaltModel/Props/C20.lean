import MaltModel.Rt.Options
/-!
# C20 — conversion options survive embedding in generated code and key the caches

Property theorems only (helper lemmas are local and private).  The model is
`MaltModel/Rt/Options.lean`; `Feature`, the constructor defaults, `STANDARD_OPTIONS` and the
keyword sources of `call_options` come from `Generated/Options.lean`, regenerated from
`/repo/malt/core/converter.py` on every run.
-/
namespace Malt.Options
open Malt.Gen

private theorem featList_mem (o : Opts) (f : Feature) : f ∈ featList o ↔ o.features f = true := by
  simp [featList, List.mem_filter, Feature.all_complete]

private theorem featSet_many_of_perm (o : Opts) (l : List Feature) (h : l.Perm (featList o)) :
    featSet (.many l) = o.features := by
  funext g
  have : g ∈ l ↔ g ∈ featList o := h.mem_iff
  simp only [featSet]
  by_cases hg : o.features g = true
  · have : g ∈ l := this.mpr ((featList_mem o g).mpr hg)
    simp [this, hg]
  · have hn : g ∉ l := fun hm => hg ((featList_mem o g).mp (this.mp hm))
    simp only [Bool.not_eq_true] at hg
    simp [hn, hg]

private theorem featSet_single_eq (f : Feature) : featSet (.single f) = featSet (.many [f]) := by
  funext g
  by_cases hfg : f = g
  · subst hfg; simp [featSet]
  · simp [featSet, hfg, Ne.symm hfg]

private theorem featList_ext {a b : Opts} (h : featList a = featList b) : a.features = b.features := by
  funext g
  have := featList_mem a g
  have hb := featList_mem b g
  rw [h] at this
  cases ha : a.features g <;> cases hb' : b.features g <;> simp_all

/-- Field-wise extensionality: `__eq__` holds exactly when the four fields are equal. -/
theorem C20_eq_iff_fields (a b : Opts) :
    eq a b = true ↔ (a.recursive = b.recursive ∧ a.userRequested = b.userRequested ∧
                     a.internal = b.internal ∧ a.features = b.features) := by
  constructor
  · intro h
    simp only [eq, asTuple, beq_iff_eq, Prod.mk.injEq] at h
    exact ⟨h.1, h.2.1, h.2.2.1, featList_ext h.2.2.2⟩
  · rintro ⟨h1, h2, h3, h4⟩
    simp [eq, asTuple, featList, h1, h2, h3, h4]

/-- `eq` decides Lean equality of option values. -/
theorem C20_eq_iff (a b : Opts) : eq a b = true ↔ a = b := by
  rw [C20_eq_iff_fields]
  constructor
  · rintro ⟨h1, h2, h3, h4⟩; cases a; cases b; simp_all
  · rintro rfl; simp

/-- Equal options hash equally, for *any* tuple hash. -/
theorem C20_eq_hash {α} (h : Bool × Bool × Bool × List Feature → α) (a b : Opts)
    (hab : eq a b = true) : hash h a = hash h b := by
  simp only [eq, beq_iff_eq] at hab
  simp [hash, hab]

/-- Unequal options compare unequal (no aliasing of cache keys). -/
theorem C20_ne (a b : Opts) (h : a ≠ b) : eq a b = false := by
  cases hh : eq a b with
  | false => rfl
  | true => exact absurd ((C20_eq_iff a b).mp hh) h

/-- Round trip: for every iteration order of the feature set, the embedded expression
evaluates back to an equal options value. -/
theorem C20_roundtrip (o : Opts) (order : List Feature) (hperm : order.Perm (featList o)) :
    evalAst (toAst o order) = o := by
  unfold toAst
  split
  · rename_i h
    exact ((C20_eq_iff _ _).mp h).symm
  · have hf : featSet (evalFeatExpr (featExprOf order)) = o.features := by
      rw [← featSet_many_of_perm o order hperm]
      match order with
      | [] => rfl
      | [f] => exact (featSet_single_eq f)
      | _ :: _ :: _ => rfl
    cases o
    simp_all [evalAst, ctor]

/-- `call_options` keeps the recursion flag and the feature set, drops `user_requested`, and allows
converting user code exactly when recursion is on. -/
theorem C20_callopts (o : Opts) :
    (callOptions o).recursive = o.recursive ∧ (callOptions o).userRequested = false ∧
    (callOptions o).internal = o.recursive ∧ (callOptions o).features = o.features := by
  refine ⟨rfl, rfl, rfl, ?_⟩
  show featSet (.many (featList o)) = o.features
  exact featSet_many_of_perm o _ (List.Perm.refl _)

/-- A feature is reported in use exactly when it or ALL was requested. -/
theorem C20_uses (o : Opts) (f : Feature) :
    uses o f = true ↔ (o.features f = true ∨ o.features .ALL = true) := by
  simp [uses, Bool.or_eq_true, or_comm]

/-- The constructor's normalisation: every spelling of the same set gives the same value. -/
theorem C20_ctor_spelling (r u i : Bool) (fs gs : List Feature) (h : ∀ f, f ∈ fs ↔ f ∈ gs) :
    ctor r u i (.many fs) = ctor r u i (.many gs) := by
  have : featSet (.many fs) = featSet (.many gs) := by
    funext g
    simp only [featSet]
    by_cases hg : g ∈ fs
    · simp [hg, (h g).mp hg]
    · have : g ∉ gs := fun hm => hg ((h g).mpr hm)
      simp [hg, this]
  simp [ctor, this]

theorem C20_ctor_single (r u i : Bool) (f : Feature) :
    ctor r u i (.single f) = ctor r u i (.many [f]) := by
  have : featSet (.single f) = featSet (.many [f]) := featSet_single_eq f
  simp [ctor, this]

theorem C20_ctor_none (r u i : Bool) : ctor r u i .none = ctor r u i (.many []) := by
  have : featSet .none = featSet (.many []) := by funext g; simp [featSet]
  simp [ctor, this]

/-- The options a generated function scope hands to its callees are exactly `call_options()` of its own
options (hence keep recursion flag and features, drop `user_requested`, allow user code iff recursive). -/
theorem C20_scope_callopts (o : Opts) :
    (scopeCallopts o).recursive = o.recursive ∧ (scopeCallopts o).userRequested = false ∧
    (scopeCallopts o).internal = o.recursive ∧ (scopeCallopts o).features = o.features := by
  have h : scopeCallopts o = callOptions o := by simp [scopeCallopts, scopeCalloptsFromCallOptions]
  rw [h]; exact C20_callopts o

/-- Keying the caches: the cache sub-key distinguishes every two unequal option values. -/
theorem C20_cache_key_injective (a b : Opts) (h : eq (cacheKey a) (cacheKey b) = true) : eq a b = true := by
  simpa [cacheKey, cachingKeyIsOptions] using h

/-! Non-vacuity: concrete non-trivial instances. -/
example : evalAst (toAst (ctor true true false (.many [.LISTS, .BUILTIN_FUNCTIONS]))
            [.LISTS, .BUILTIN_FUNCTIONS]) = ctor true true false (.many [.BUILTIN_FUNCTIONS, .LISTS]) := by
  rw [C20_roundtrip]
  · exact C20_ctor_spelling _ _ _ _ _ (by intro f; cases f <;> simp)
  · decide
example : toAst std [] = .std := by decide
example : toAst (ctor true true false (.single .LISTS)) [.LISTS] = .call true true (.bare .LISTS) false := by
  decide
example : uses (ctor false false false (.single .ALL)) .LISTS = true := by decide
example : eq (ctor true false true .none) (ctor true false true (.single .LISTS)) = false := by decide

end Malt.Options
