import MaltModel.Proofs.JumpsBreak
import MaltModel.Proofs.JumpsContinue
import MaltModel.Proofs.JumpsReturn
import MaltModel.Proofs.JumpsSyntax
import MaltModel.Proofs.JumpsFresh
import MaltModel.Proofs.JumpsRewrite
/-
C01 (jump-lowering part): the break / continue / return lowerings preserve the semantics of the shared core
language `Malt.Sem` (Sem/Core.lean).  The lowerings on `Sem.Block` (Conv/JumpsSem.lean) are the semantic
counterparts of the syntactic models Conv/Break.lean, Conv/Continue.lean, Conv/Return.lean; the driver checks
`toSem (model p) = lower (toSem p)` (up to the spelling of generated names) on every generated program.

FULL statements (kept visible; FALSE of the pinned code, see `*_full_false` below):

  theorem break_lowering_correct (X gen) (inj : Injective gen) (body) (fresh : GenNamesFresh gen body)
      (noextra : noExtraB body) :
    ∀ n σ o σ₁, execB X n body σ = some (o, σ₁) →
      ∃ m σ₁', execB X m (lowerBreak gen body) σ = some (brkOut o, σ₁') ∧ Agree (Hid gen) σ₁ σ₁'
  theorem continue_lowering_correct … lowerContinue … (no `continue` outside a loop)
  theorem return_lowering_correct (X dr rv) (dr ≠ rv) (body) (fresh : GenNamesFreshR dr rv body) :
    ∀ n σ o σ₁, execB X n body σ = some (o, σ₁) →
      ∃ m σ₁' o', execB X m (lowerReturn dr rv body) σ = some (o', σ₁') ∧ fnResult o' = fnResult o ∧
        Agree (HidR dr rv) σ₁ σ₁'

What is proved (`…_partial`): the same statements under the additional decidable hypothesis `inS1 body`
(= `finOKB`): no break/continue/return leaves a `finally` block (`escFreeB`: no `return` anywhere inside it,
`break`/`continue` only inside loops of the block itself — the documented exemption of C01, PEP 765), and a
`finally` block that contains a `raise` belongs to a `try` whose body and handlers contain no
break/continue/return.  What is missing is exactly the negation of the second clause: there the pinned
passes ARE wrong (a raise in `finally` replaces a pending jump whose flag has already been set; if the
exception is then caught in the same function, the statements after the handler are skipped).
`inS0 body` (no try/with at all) implies `inS1 body`.

`Agree G σ σ'`: equal effect logs and equal values of every non-generated variable.

Outside the proved fragment by construction of the language: `Malt.Sem`'s `try` has no `else` clause (nor has its
`for`/`while`), so `try … except … else …` is not covered by these theorems.  The passes' treatment of `Try.orelse`
— since the repair of finding `C01-jump-in-try-body-with-else` the continue and return passes wrap the else clause
in `if not <flag>:` when the protected block lexically contains an own `continue` / `return`
(`_has_own_continue` / `_has_own_return`; break lowering turns `break` into `flag = True; continue` first) — is
mirrored by the syntactic models (`Conv/Continue.lean`, `Conv/Return.lean`: `hasOwnContinueB`, `hasOwnReturnB`) and
covered by the per-pass correspondence and the differential three-pass oracle on the try-else program family
(`harness/c01_jumps.py`: `tryelse_programs`), not by a theorem.
-/
namespace Malt.Props.C01Jumps
open Malt.Sem Malt.Sem.Jumps

/-- The generated control variables do not occur in the program. -/
def GenNamesFresh (gen : Gen) (body : Block) : Prop := CleanB (Hid gen) body
def GenNamesFreshR (dr rv : Name) (body : Block) : Prop := CleanB (HidR dr rv) body
def Injective (gen : Gen) : Prop := ∀ p q : List Nat, gen p = gen q → p = q

/-- Fragment S1 (try/finally/with allowed under the `finally` discipline described above); decidable. -/
def inS1 (body : Block) : Prop := finOKB body = true
/-- Fragment S0: no try, no with; decidable. -/
def inS0 (body : Block) : Prop := inS0B body = true

instance (body : Block) : Decidable (inS1 body) := by unfold inS1; infer_instance
instance (body : Block) : Decidable (inS0 body) := by unfold inS0; infer_instance

mutual
private theorem inS0S_finOK : ∀ (s : Stmt), inS0S s = true → finOKS s = true
  | .ifS c t e, h => by
      simp only [inS0S, Bool.and_eq_true] at h
      simp [finOKS, inS0B_finOK t h.1, inS0B_finOK e h.2]
  | .whileS c b, h => by simp only [inS0S] at h; simp [finOKS, inS0B_finOK b h]
  | .forS x it ex b, h => by simp only [inS0S] at h; simp [finOKS, inS0B_finOK b h]
  | .tryS b hs f, h => by simp [inS0S] at h
  | .withS t b, h => by simp [inS0S] at h
  | .assign x e, _ => by simp [finOKS]
  | .expr e, _ => by simp [finOKS]
  | .brk, _ => by simp [finOKS]
  | .cont, _ => by simp [finOKS]
  | .ret e, _ => by simp [finOKS]
  | .raise t, _ => by simp [finOKS]
  | .pass, _ => by simp [finOKS]
private theorem inS0B_finOK : ∀ (b : List Stmt), inS0B b = true → finOKB b = true
  | [], _ => by simp [finOKB]
  | s :: rest, h => by
      simp only [inS0B, Bool.and_eq_true] at h
      simp [finOKB, inS0S_finOK s h.1, inS0B_finOK rest h.2]
end

theorem inS0_inS1 (body : Block) (h : inS0 body) : inS1 body := inS0B_finOK body h

/-! ### semantic preservation (forward simulation, all programs of S1, all stores, oracles and fuel) -/

/-- Break lowering: if the body terminates with outcome `o`, the lowered body terminates with the same
outcome, the same effect log and the same values of all non-generated variables.
(`brkOut o = o` unless `o = break`, which only an ill-formed body — `break` outside a loop — can produce.) -/
theorem break_lowering_correct_partial (X : Ext) (gen : Gen) (inj : Injective gen) (body : Block)
    (fresh : GenNamesFresh gen body) (frag : inS1 body) (noextra : noExtraB body = true)
    (n : Nat) (σ : St) (o : Out) (σ₁ : St) (h : execB X n body σ = some (o, σ₁)) :
    ∃ m σ₁', execB X m (lowerBreak gen body) σ = some (brkOut o, σ₁') ∧ Agree (Hid gen) σ₁ σ₁' :=
  lowerBreak_correct gen X inj body fresh frag noextra n σ o σ₁ h

/-- Continue lowering (the body has no `continue` outside a loop). -/
theorem continue_lowering_correct_partial (X : Ext) (gen : Gen) (inj : Injective gen) (body : Block)
    (fresh : GenNamesFresh gen body) (frag : inS1 body) (wf : topContB body = false)
    (n : Nat) (σ : St) (o : Out) (σ₁ : St) (h : execB X n body σ = some (o, σ₁)) :
    ∃ m σ₁', execB X m (lowerContinue gen body) σ = some (o, σ₁') ∧ Agree (Hid gen) σ₁ σ₁' := by
  have hhit : (cntB gen (gen []) [0] false body).2 = false := by rw [cntB_hit]; exact wf
  obtain ⟨m, σ₁', hx, hag⟩ :=
    lowerContinue_correct gen X inj body fresh frag n σ o σ₁ h (by intro hh; rw [hhit] at hh; cases hh)
  refine ⟨m, σ₁', ?_, hag⟩
  -- the outcome cannot be `continue`: there is none outside a loop
  have hoc : o ≠ .cont := by
    intro hc; subst hc
    obtain ⟨_, _, _, _, _, hp, _⟩ :=
      (csim_all gen X inj n).2.1 body [] [0] false σ σ .cont σ₁ fresh frag (by simp) (Agree.refl _ σ)
        (by intro hh; rcases hh with hh | hh
            · cases hh
            · rw [hhit] at hh; cases hh) h
    have := (hp.1 rfl).1
    rw [hhit] at this; cases this
  have : cntOut o = o := by cases o <;> simp_all [cntOut]
  rw [← this]; exact hx

/-- Return lowering: the caller sees the same result (`fnResult`: falling off the end = `return None`). -/
theorem return_lowering_correct_partial (X : Ext) (dr rv : Name) (hne : dr ≠ rv) (body : Block)
    (fresh : GenNamesFreshR dr rv body) (frag : inS1 body)
    (n : Nat) (σ : St) (o : Out) (σ₁ : St) (h : execB X n body σ = some (o, σ₁)) :
    ∃ m σ₁' o', execB X m (lowerReturn dr rv body) σ = some (o', σ₁') ∧ fnResult o' = fnResult o ∧
      Agree (HidR dr rv) σ₁ σ₁' :=
  lowerReturn_correct dr rv X hne body fresh frag n σ o σ₁ h

/-- The S0 instances (no try/with). -/
theorem break_lowering_correct_S0 (X : Ext) (gen : Gen) (inj : Injective gen) (body : Block)
    (fresh : GenNamesFresh gen body) (frag : inS0 body) (noextra : noExtraB body = true)
    (n : Nat) (σ : St) (o : Out) (σ₁ : St) (h : execB X n body σ = some (o, σ₁)) :
    ∃ m σ₁', execB X m (lowerBreak gen body) σ = some (brkOut o, σ₁') ∧ Agree (Hid gen) σ₁ σ₁' :=
  break_lowering_correct_partial X gen inj body fresh (inS0_inS1 body frag) noextra n σ o σ₁ h

theorem continue_lowering_correct_S0 (X : Ext) (gen : Gen) (inj : Injective gen) (body : Block)
    (fresh : GenNamesFresh gen body) (frag : inS0 body) (wf : topContB body = false)
    (n : Nat) (σ : St) (o : Out) (σ₁ : St) (h : execB X n body σ = some (o, σ₁)) :
    ∃ m σ₁', execB X m (lowerContinue gen body) σ = some (o, σ₁') ∧ Agree (Hid gen) σ₁ σ₁' :=
  continue_lowering_correct_partial X gen inj body fresh (inS0_inS1 body frag) wf n σ o σ₁ h

theorem return_lowering_correct_S0 (X : Ext) (dr rv : Name) (hne : dr ≠ rv) (body : Block)
    (fresh : GenNamesFreshR dr rv body) (frag : inS0 body)
    (n : Nat) (σ : St) (o : Out) (σ₁ : St) (h : execB X n body σ = some (o, σ₁)) :
    ∃ m σ₁' o', execB X m (lowerReturn dr rv body) σ = some (o', σ₁') ∧ fnResult o' = fnResult o ∧
      Agree (HidR dr rv) σ₁ σ₁' :=
  return_lowering_correct_partial X dr rv hne body fresh (inS0_inS1 body frag) n σ o σ₁ h

/-- The conditional-return rewriting (`ConditionalReturnRewriter`, first half of the return pass) preserves the
behaviour exactly — outcome, log and the whole final store — for ALL programs of the core language (full
statement, no hypotheses). -/
theorem conditional_return_rewrite_correct (X : Ext) (body : Block)
    (n : Nat) (σ : St) (r : Out × St) (h : execB X n body σ = some r) :
    ∃ m, execB X m (rewriteReturns body) σ = some r :=
  rewriteReturns_correct X body n σ r h

/-! ### syntactic post-conditions (all programs, no hypotheses) -/

theorem break_lowering_no_break (gen : Gen) (body : Block) : hasBrkB (lowerBreak gen body) = false :=
  lowerBreak_noBrk gen body

theorem continue_lowering_no_continue (gen : Gen) (body : Block) : hasContB (lowerContinue gen body) = false :=
  lowerContinue_noCont gen body

/-- The only `return` of the lowered function body is its last statement (or there is none). -/
theorem return_lowering_single_return (dr rv : Name) (body : Block) :
    (∃ init, lowerReturn dr rv body = init ++ [.ret (some (.var rv))] ∧ hasRetB init = false) ∨
    hasRetB (lowerReturn dr rv body) = false :=
  lowerReturn_onlyLastRet dr rv body

/-! ### the concrete generator satisfies the hypotheses -/

theorem stdGen_injective (tag : Char) : Injective (stdGen tag) := stdGen_inj tag

/-- A program without `$`-names (every program translated from Python) is fresh for the standard generators. -/
theorem userNames_fresh (tag : Char) (body : Block) (h : userNamesB body = true) :
    GenNamesFresh (stdGen tag) body :=
  userNamesB_clean (Hid (stdGen tag)) (by rintro x ⟨q, rfl⟩; exact stdGen_not_user tag q) body h

theorem userNames_freshR (body : Block) (h : userNamesB body = true) : GenNamesFreshR stdDr stdRv body :=
  userNamesB_clean (HidR stdDr stdRv)
    (by rintro x (rfl | rfl) <;> decide) body h

/-! ### counterexamples to the full statements (replayed on the real code by the harness:
    corpus/C01J/raise-in-finally-*.json, finding `C01J-raise-in-finally-over-jump`) -/

/-- `tr(k)`: the tracer returns its first argument. -/
def X0 : Ext := ⟨fun _ args _ => args.headD .none⟩
def σ0 : St := ⟨fun _ => none, []⟩
def tr (k : Int) : Expr := .call "tr" [.const (.int k)]
def trv (k : Int) (x : Name) : Expr := .call "tr" [.const (.int k), .var x]
def dcall : Expr := .call "d" []

/-- ```
try:
    try: return tr(7)
    finally: raise E1
except E1: tr(2)
tr(5)
return tr(0)
``` -/
def cexRet : Block :=
  [.tryS [.tryS [.ret (some (tr 7))] [] [.raise 1]] [(1, [.expr (tr 2)])] [],
   .expr (tr 5),
   .ret (some (tr 0))]

example : ¬ inS1 cexRet := by decide

/-- The full statement of the return lowering is false: on `cexRet` the original logs
`tr 7, tr 2, tr 5, tr 0` and returns 0; the lowered function logs `tr 7, tr 2` and returns 7. -/
theorem return_lowering_full_false :
    ¬ (∀ (X : Ext) (dr rv : Name), dr ≠ rv → ∀ body : Block, GenNamesFreshR dr rv body →
        ∀ (n : Nat) (σ : St) (o : Out) (σ₁ : St), execB X n body σ = some (o, σ₁) →
        ∃ m σ₁' o', execB X m (lowerReturn dr rv body) σ = some (o', σ₁') ∧ fnResult o' = fnResult o ∧
          Agree (HidR dr rv) σ₁ σ₁') := by
  intro H
  have h1 : (execB X0 30 cexRet σ0).map observe =
      some ⟨.ret (.int 0), [.call "tr" [.int 7], .call "tr" [.int 2], .call "tr" [.int 5], .call "tr" [.int 0]]⟩ := by
    decide
  have h2 : (execB X0 30 (lowerReturn stdDr stdRv cexRet) σ0).map observe =
      some ⟨.ret (.int 7), [.call "tr" [.int 7], .call "tr" [.int 2]]⟩ := by
    decide
  cases hr1 : execB X0 30 cexRet σ0 with
  | none => rw [hr1] at h1; cases h1
  | some r1 =>
    obtain ⟨o, σ₁⟩ := r1
    rw [hr1] at h1
    cases hr2 : execB X0 30 (lowerReturn stdDr stdRv cexRet) σ0 with
    | none => rw [hr2] at h2; cases h2
    | some r2 =>
      rw [hr2] at h2
      obtain ⟨m, σ₁', o', hx, _, hag⟩ :=
        H X0 stdDr stdRv (by decide) cexRet (userNames_freshR cexRet (by decide)) 30 σ0 o σ₁ hr1
      have e1 := execB_mono X0 hx (Nat.le_max_left m 30)
      have e2 := execB_mono X0 hr2 (Nat.le_max_right m 30)
      rw [e1] at e2
      simp only [Option.map_some, observe, Option.some.injEq, Obs.mk.injEq] at h1 h2
      have hl : σ₁.log = σ₁'.log := hag.1
      have : r2 = (o', σ₁') := by simpa using e2.symm
      subst this
      rw [h1.2] at hl
      rw [← hl] at h2
      exact absurd h2.2 (by decide)

/-- ```
while d():
    try:
        try: continue
        finally: raise E1
    except E1: tr(2)
    tr(5)
``` with decisions 1, 0: the original logs `d, tr 2, tr 5, d`; after the continue lowering `tr 5` is skipped. -/
def cexCont : Block :=
  [.whileS dcall
    [.tryS [.tryS [.cont] [] [.raise 1]] [(1, [.expr (tr 2)])] [],
     .expr (tr 5)]]

/-- `d()` answers 1 the first time, 0 afterwards. -/
def X1 : Ext := ⟨fun f args log => if f = "d" then (if log.length = 0 then .int 1 else .int 0) else args.headD .none⟩

example : ¬ inS1 cexCont := by decide

example : (execB X1 30 cexCont σ0).map observe =
    some ⟨.normal, [.call "d" [], .call "tr" [.int 2], .call "tr" [.int 5], .call "d" []]⟩ := by decide
example : (execB X1 30 (lowerContinue (stdGen 'c') cexCont) σ0).map observe =
    some ⟨.normal, [.call "d" [], .call "tr" [.int 2], .call "d" []]⟩ := by decide

/-- Same with `break`: the original goes on (`tr 5`, second test); after the break lowering the loop ends. -/
def cexBrk : Block :=
  [.whileS dcall
    [.tryS [.tryS [.brk] [] [.raise 1]] [(1, [.expr (tr 2)])] [],
     .expr (tr 5)]]

example : ¬ inS1 cexBrk := by decide
example : (execB X1 30 cexBrk σ0).map observe =
    some ⟨.normal, [.call "d" [], .call "tr" [.int 2], .call "tr" [.int 5], .call "d" []]⟩ := by decide
example : (execB X1 30 (lowerBreak (stdGen 'b') cexBrk) σ0).map observe =
    some ⟨.normal, [.call "d" [], .call "tr" [.int 2], .call "tr" [.int 5]]⟩ := by decide

/-! ### the hypotheses are satisfiable by concrete non-trivial programs -/

/-- nested loops, `break` inside `if` inside `while` inside `for`, and a `try/finally` around a `break`:
```
for i in n():
    while d():
        if d(): break
        x = tr(1, x)
    try:
        if d(): break
    finally: tr(2)
return tr(0, x)
``` -/
def exBreak : Block :=
  [.forS "i" (.call "n" []) none
    [.whileS dcall [.ifS dcall [.brk] [], .assign "x" (trv 1 "x")],
     .tryS [.ifS dcall [.brk] []] [] [.expr (tr 2)]],
   .ret (some (trv 0 "x"))]

example : Injective (stdGen 'b') ∧ GenNamesFresh (stdGen 'b') exBreak ∧ inS1 exBreak ∧ noExtraB exBreak = true :=
  ⟨stdGen_injective 'b', userNames_fresh 'b' exBreak (by decide), by decide, by decide⟩

/-- `continue` inside `try/finally` inside a loop, a second `continue` under an `if`:
```
while d():
    try:
        if d(): continue
        tr(1)
    finally: tr(2)
    if d(): continue
    tr(3)
``` -/
def exCont : Block :=
  [.whileS dcall
    [.tryS [.ifS dcall [.cont] [], .expr (tr 1)] [] [.expr (tr 2)],
     .ifS dcall [.cont] [],
     .expr (tr 3)]]

/-- a loop with its own `break` inside a `finally` block is inside S1 (no jump leaves the block):
```
while d():
    try:
        if d(): continue
    finally:
        while d():
            if d(): break
            tr(1)
    tr(2)
``` -/
def exFin : Block :=
  [.whileS dcall
    [.tryS [.ifS dcall [.cont] []] [] [.whileS dcall [.ifS dcall [.brk] [], .expr (tr 1)]],
     .expr (tr 2)]]

example : inS1 exFin ∧ GenNamesFresh (stdGen 'c') exFin ∧ topContB exFin = false :=
  ⟨by decide, userNames_fresh 'c' exFin (by decide), by decide⟩

example : Injective (stdGen 'c') ∧ GenNamesFresh (stdGen 'c') exCont ∧ inS1 exCont ∧ topContB exCont = false :=
  ⟨stdGen_injective 'c', userNames_fresh 'c' exCont (by decide), by decide, by decide⟩

/-- `return` inside nested loops, inside `with`, and in a handler:
```
for i in n():
    while d():
        with cm(4):
            if d(): return tr(1, i)
    tr(2)
try: raise E1
except E1: return tr(3)
tr(5)
``` -/
def exRet : Block :=
  [.forS "i" (.call "n" []) none
    [.whileS dcall [.withS 4 [.ifS dcall [.ret (some (trv 1 "i"))] []]],
     .expr (tr 2)],
   .tryS [.raise 1] [(1, [.ret (some (tr 3))])] [],
   .expr (tr 5)]

example : stdDr ≠ stdRv ∧ GenNamesFreshR stdDr stdRv exRet ∧ inS1 exRet :=
  ⟨by decide, userNames_freshR exRet (by decide), by decide⟩

/-- The rewriting moves `tr(5)` and the final return into the else branch:
```
if d(): return tr(1)
else: tr(2)
tr(5)
return tr(0)
``` -/
def exRw : Block :=
  [.ifS dcall [.ret (some (tr 1))] [.expr (tr 2)], .expr (tr 5), .ret (some (tr 0))]

example : rewriteReturns exRw =
    [.ifS dcall [.ret (some (tr 1))] [.expr (tr 2), .expr (tr 5), .ret (some (tr 0))]] := by rfl

/-- S0 instance: the first two statements of `exRet` without the `with`. -/
def exRet0 : Block :=
  [.forS "i" (.call "n" []) none
    [.whileS dcall [.ifS dcall [.ret (some (trv 1 "i"))] []],
     .expr (tr 2)],
   .expr (tr 5)]

example : inS0 exRet0 ∧ GenNamesFreshR stdDr stdRv exRet0 := ⟨by decide, userNames_freshR exRet0 (by decide)⟩

end Malt.Props.C01Jumps
