import MaltModel.Rt.Errors
import MaltModel.Proofs.C12SrcMap
import MaltModel.Proofs.C12Stack
import MaltModel.Proofs.C12Check
import MaltModel.Proofs.C12Nested
/-!
# C12 — errors in converted code are reported at the original source location

Property theorems only (helper lemmas live in `Proofs/C12SrcMap.lean`, `Proofs/C12Stack.lean`).
Model: `MaltModel/Rt/Errors.lean`; `KNOWN_STRING_CONSTRUCTOR_ERRORS`, the pass-through error classes,
the fallback type and the `[1:]` slice come from `Generated/Errors.lean` (regenerated from
`malt/pyct/error_utils.py` and `malt/impl/api.py` on every run).

Where the pinned code deviates from the property the full statement is given as a comment, the
`…_partial` theorem carries the decidable hypothesis that excludes the deviation, and a Lean
counterexample shows the hypothesis cannot be dropped (known findings in `known_findings.d/C12.json`).
-/
namespace Malt.Errors

/-! ## 1. Source map -/

/-- Exact characterisation: an entry of the map is the per-line fold (`pick`) of the overlap rules
over the annotated nodes on that line, in walk order; lines are independent of each other. -/
theorem C12_srcmap_entry_iff (items : List WalkItem) (k : LineLoc) (o : Origin) :
    (k, o) ∈ createSourceMap items ↔ pick (originsAt items k) = some o := by
  rw [← get_createSourceMap]
  exact ⟨get_of_mem (nodupKeys_createSourceMap items), mem_of_get⟩

/-- Entries for lines of the generated file `G` are right, whatever else the map contains:
if every annotated node on generated line `g` carries the origin of the statement that line was
generated from (`src g`, a function of the line alone: one statement per line; this is what origin
inheritance through the passes provides), then the entry for `g` is `src g` in the user file `U`. -/
theorem C12_srcmap (G U : String) (src : Nat → Nat) (items : List WalkItem)
    (horigin : ∀ it ∈ items, ∀ k o, it.key = some k → it.origin = some o → k.file = G →
                 o.file = U ∧ o.line = src k.line) :
    ∀ k o, (k, o) ∈ createSourceMap items → k.file = G → o.file = U ∧ o.line = src k.line := by
  intro k o hmem hk
  have hp := (C12_srcmap_entry_iff items k o).mp hmem
  obtain ⟨it, hit, hkey, horg⟩ := mem_originsAt (pick_mem hp)
  exact horigin it hit k o hkey horg hk

/- FULL STATEMENT (false of the pinned code, see `C12_srcmap_counterexample`):
   theorem C12_srcmap_full … : ∀ k o, (k, o) ∈ createSourceMap items → k.file = G ∧ o.file = U ∧ o.line = src k.line
   i.e. *every* entry sends a generated line to the original line of its statement. -/

/-- The full statement under the hypothesis that every annotated pair of the walk is positioned in the
generated file (`keysInGenerated`).  The pinned code violates the hypothesis: `copy_origin` annotates
the shared `ast.Load()`/`ast.Store()` singletons, which the walk pairs with themselves. -/
theorem C12_srcmap_partial (G U : String) (src : Nat → Nat) (items : List WalkItem)
    (hkeys : ∀ it ∈ items, ∀ k, it.key = some k → it.origin ≠ none → k.file = G)
    (horigin : ∀ it ∈ items, ∀ k o, it.key = some k → it.origin = some o → k.file = G →
                 o.file = U ∧ o.line = src k.line) :
    ∀ k o, (k, o) ∈ createSourceMap items → k.file = G ∧ o.file = U ∧ o.line = src k.line := by
  intro k o hmem
  have hp := (C12_srcmap_entry_iff items k o).mp hmem
  obtain ⟨it, hit, hkey, horg⟩ := mem_originsAt (pick_mem hp)
  have hk : k.file = G := hkeys it hit k hkey (by simp [horg])
  exact ⟨hk, horigin it hit k o hkey horg hk⟩

/-- Every annotated node's line is in the map (no line with an annotated node is left unmapped). -/
theorem C12_srcmap_complete (items : List WalkItem) (it : WalkItem) (hit : it ∈ items)
    (k : LineLoc) (o : Origin) (hk : it.key = some k) (ho : it.origin = some o) :
    ∃ o', (k, o') ∈ createSourceMap items := by
  have hne : originsAt items k ≠ [] := by
    intro h
    have : o ∈ originsAt items k := by
      unfold originsAt
      exact List.mem_filterMap.mpr ⟨it, hit, by simp [hk, ho]⟩
    rw [h] at this; cases this
  obtain ⟨o', ho'⟩ := pick_isSome hne
  exact ⟨o', (C12_srcmap_entry_iff items k o').mpr ho'⟩

/-- Among nodes that come from the same original line the first one in walk order wins
(so the recorded column is that of the first node visited). -/
theorem C12_srcmap_first_wins (items : List WalkItem) (k : LineLoc) (o : Origin) (os : List Origin)
    (hos : originsAt items k = o :: os) (hsame : ∀ o' ∈ os, o'.lineLoc = o.lineLoc) :
    (k, o) ∈ createSourceMap items := by
  rw [C12_srcmap_entry_iff, hos]
  exact pick_first o os hsame

/-- Across different original lines the leftmost original column wins, later nodes only replace on a
strictly smaller column. -/
theorem C12_srcmap_leftmost (ex o : Origin) (h : ex.lineLoc ≠ o.lineLoc) :
    pick [ex, o] = some (if ex.col ≤ o.col then ex else o) := by
  by_cases hc : ex.col ≤ o.col <;> simp [pick, pickStep, keep, h, hc]

/-- The walk order does not matter for the *line* an entry points to: when all annotated nodes of a
generated line come from one original line (one statement per line), every permutation of the walk
(a different traversal order of `parallel_walk`) yields the same keys with the same original lines. -/
theorem C12_srcmap_order_irrelevant (items items' : List WalkItem) (hperm : items.Perm items')
    (hone : ∀ it₁ ∈ items, ∀ it₂ ∈ items, ∀ k o₁ o₂, it₁.key = some k → it₂.key = some k →
              it₁.origin = some o₁ → it₂.origin = some o₂ → o₁.lineLoc = o₂.lineLoc) :
    ∀ k o, (k, o) ∈ createSourceMap items → ∃ o', (k, o') ∈ createSourceMap items' ∧ o'.lineLoc = o.lineLoc := by
  intro k o hmem
  have hp := (C12_srcmap_entry_iff items k o).mp hmem
  obtain ⟨it, hit, hkey, horg⟩ := mem_originsAt (pick_mem hp)
  have hit' : it ∈ items' := hperm.mem_iff.mp hit
  have hne : originsAt items' k ≠ [] := by
    intro h
    have : o ∈ originsAt items' k := by
      unfold originsAt
      exact List.mem_filterMap.mpr ⟨it, hit', by simp [hkey, horg]⟩
    rw [h] at this; cases this
  obtain ⟨o', ho'⟩ := pick_isSome hne
  obtain ⟨it2, hit2, hkey2, horg2⟩ := mem_originsAt (pick_mem ho')
  refine ⟨o', (C12_srcmap_entry_iff items' k o').mpr ho', ?_⟩
  exact hone it2 (hperm.mem_iff.mpr hit2) it hit k o' o hkey2 hkey horg2 horg

section srcmap_examples
private def gfile := "/tmp/__autograph_generated_file1.py"
private def ufile := "/u/case.py"
private def o19 (col : Nat) : Origin := ⟨ufile, 19, col, some "top", "r += sum(lvl1(x))"⟩
private def o18 : Origin := ⟨ufile, 18, 8, some "top", "if i:"⟩
/-- generated lines 30..33 of the probe program: `def if_body():` (from the `if` on line 18) and the two
lines generated from `r += sum(lvl1(x))` (line 19); the nodes of one line differ only in their column. -/
private def exItems : List WalkItem :=
  [ ⟨some ⟨gfile, 30⟩, some o18⟩, ⟨some ⟨gfile, 32⟩, some (o19 12)⟩, ⟨some ⟨gfile, 32⟩, some (o19 17)⟩,
    ⟨some ⟨gfile, 33⟩, none⟩, ⟨some ⟨gfile, 33⟩, some (o19 12)⟩, ⟨none, some o18⟩ ]
private def exSrc : Nat → Nat := fun g => if g = 30 then 18 else 19

/-- The hypotheses of `C12_srcmap_partial` hold of a non-trivial instance … -/
example : (∀ it ∈ exItems, ∀ k, it.key = some k → it.origin ≠ none → k.file = gfile) ∧
    (∀ it ∈ exItems, ∀ k o, it.key = some k → it.origin = some o → k.file = gfile →
        o.file = ufile ∧ o.line = exSrc k.line) :=
  ⟨(hasForeignKey_false_iff gfile exItems).mp (by decide), originOk_all (by decide)⟩
/-- … and the map it concludes about has three entries. -/
example : createSourceMap exItems =
    [(⟨gfile, 30⟩, o18), (⟨gfile, 32⟩, o19 12), (⟨gfile, 33⟩, o19 12)] := by decide

/-- COUNTEREXAMPLE to the full statement (known finding `C12-srcmap-foreign-key`): the `Load()` singleton,
annotated by `copy_origin` with the `if` on user line 18, is paired with itself; the map gets an entry
whose key is a line of the *user* file. -/
theorem C12_srcmap_counterexample :
    ∃ items : List WalkItem,
      (∀ it ∈ items, ∀ k o, it.key = some k → it.origin = some o → k.file = gfile →
          o.file = ufile ∧ o.line = exSrc k.line) ∧
      hasForeignKey gfile items = true ∧
      ¬ (∀ k o, (k, o) ∈ createSourceMap items → k.file = gfile) :=
  ⟨exItems ++ [⟨some ⟨ufile, 18⟩, some o18⟩], originOk_all (by decide), by decide,
   fun h => absurd (h ⟨ufile, 18⟩ o18 (by decide)) (by decide)⟩
end srcmap_examples

/-! ## 2. Translated stack -/

/-- The translated stack, exactly: below the innermost converted site every frame outside `api.py` is
listed as it is, then one entry per converted function, innermost first, taken from its source map. -/
theorem C12_stack_exact (api msg : String) (L : List ConvLevel) (T : List Frame) (hne : L ≠ [])
    (hS : ∀ l ∈ L, SiteMapped l) (hK : ∀ l ∈ L, KeysInGen l) (hB : BelowForeign L T) :
    ∃ md, runChain api msg L T = some md ∧ md.cause = msg ∧
      md.stack.map FrameInfo.loc =
        ((lastBelow L T).reverse.filter (fun f => decide (f.file ≠ api))).map Frame.loc
          ++ L.reverse.map (fun l => l.siteOrigin.loc) ∧
      md.stack.filter (·.converted) = L.reverse.map (fun l => FrameInfo.ofOrigin l.siteOrigin) := by
  refine ⟨_, runChain_eq api msg L T hne hS hK hB, rfl, ?_, ?_⟩
  · -- the converter's own frames are recognised by FILE IDENTITY (what the translator read from the source on this run):
    -- only a frame whose path equals the converter module's path is elided
    have hft : ∀ f : Frame, (!Gen.Errors.converterFrameTest f.file api) = decide (f.file ≠ api) := by
      intro f; simp [Gen.Errors.converterFrameTest]
    simp only [innerInfos, List.map_append, elide_map_loc, List.map_nil, List.nil_append, List.map_map, hft]
    rfl
  · rw [List.filter_append]
    have h1 : (innerInfos api (lastBelow L T)).filter (·.converted) = [] := by
      rw [List.filter_eq_nil_iff]
      intro fi hfi
      simp [elide_not_converted api _ [] (by simp) fi hfi]
    have h2 : (L.reverse.map (fun l => FrameInfo.ofOrigin l.siteOrigin)).filter (·.converted)
        = L.reverse.map (fun l => FrameInfo.ofOrigin l.siteOrigin) := by
      rw [List.filter_eq_self]
      intro fi hfi
      obtain ⟨l, _, rfl⟩ := List.mem_map.mp hfi
      rfl
    rw [h1, h2]; rfl

/-- **User frames are never dropped.** Of a traceback no frame of which is mapped, every frame whose
file is not the converter module's own path is listed, with its file, function and line — in particular a
frame of a *user* module that merely shares the converter module's base name (`project/api.py`).
The proof rests on the frame filter comparing full paths (`Gen.Errors.converterFrameTest`, read from
`_stack_trace_inside_mapped_code` on every run); a weaker comparison makes it fail to compile. -/
theorem C12_user_frames_never_dropped (m : SourceMap) (api : String) (B : List Frame)
    (hB : ∀ f ∈ B, get m ⟨f.file, f.line⟩ = none) :
    ∀ f ∈ B, f.file ≠ api → f.loc ∈ (stackInsideMappedCode B m api).map FrameInfo.loc := by
  intro f hf hne
  rw [stackInside_unmapped m api B hB, elide_map_loc]
  simp only [List.map_nil, List.nil_append, List.mem_map, List.mem_filter, List.mem_reverse]
  refine ⟨f, ⟨hf, ?_⟩, rfl⟩
  simp [Gen.Errors.converterFrameTest, hne]

example : (stackInsideMappedCode [⟨"/u/project/main.py", 30, "lookup", ""⟩, ⟨"/u/project/api.py", 6, "scale", "return v // d"⟩]
            [] "/repo/malt/impl/api.py").map FrameInfo.loc
    = [("/u/project/api.py", some "scale", 6), ("/u/project/main.py", some "lookup", 30)] := by decide

/-- The translated stack with its markers, exactly (documented in g3doc/reference/error_handling.md):
below the innermost converted site every frame outside `api.py` is listed unchanged and carries `**`
(allow-listed) iff its caller is an `api.py` frame — code AutoGraph reached but did not convert —;
then one `*` (converted) entry per converted function. -/
theorem C12_stack_markers (api msg : String) (L : List ConvLevel) (T : List Frame) (hne : L ≠ [])
    (hS : ∀ l ∈ L, SiteMapped l) (hK : ∀ l ∈ L, KeysInGen l) (hB : BelowForeign L T) :
    runChain api msg L T = some
      ⟨(markSpec api false (lastBelow L T)).reverse ++ L.reverse.map (fun l => FrameInfo.ofOrigin l.siteOrigin), msg⟩ := by
  rw [runChain_eq api msg L T hne hS hK hB, innerInfos, elide_eq_markSpec]

private theorem lastBelow_eq (L : List ConvLevel) (T : List Frame) (hne : L ≠ []) :
    lastBelow L T = (L.getLast hne).post ++ T := by
  induction L with
  | nil => exact absurd rfl hne
  | cons l ls ih =>
    cases ls with
    | nil => rfl
    | cons l' ls' => rw [lastBelow_cons_cons, ih (by simp)]; simp [List.getLast_cons]

private theorem flatMap_getLast? (L : List ConvLevel) (hne : L ≠ []) :
    ((L.flatMap (fun l => l.outer ++ [l.orig])).map Frame.loc).getLast? = some (L.getLast hne).orig.loc := by
  rcases List.eq_nil_or_concat L with h | ⟨init, last, h⟩
  · exact absurd h hne
  · subst h
    simp [List.concat_eq_append, List.flatMap_append]

private theorem userLocs_reverse (api U : String) (L : List ConvLevel) (T post : List Frame) (stack : List FrameInfo)
    (hapi : api ≠ U) (hpost : ∀ f ∈ post, f.file ≠ U)
    (hsite : ∀ l ∈ L, l.siteOrigin.loc = l.orig.loc) (hsiteU : ∀ l ∈ L, l.orig.loc.1 = U)
    (hloc : stack.map FrameInfo.loc =
          ((post ++ T).reverse.filter (fun f => decide (f.file ≠ api))).map Frame.loc
            ++ L.reverse.map (fun l => l.siteOrigin.loc)) :
    (userLocs U stack).reverse
        = L.map (fun l => l.orig.loc) ++ (T.filter (fun f => decide (f.file = U))).map Frame.loc := by
  unfold userLocs
  rw [hloc]
  simp only [List.filter_append, List.reverse_append, List.map_reverse, List.filter_reverse, List.reverse_reverse,
    List.filter_map, List.filter_filter, List.map_append]
  have hA : List.filter ((fun p => decide (p.fst = U)) ∘ fun l : ConvLevel => l.siteOrigin.loc) L = L := by
    rw [List.filter_eq_self]
    intro l hl
    simp [hsite l hl, hsiteU l hl]
  have hP : List.filter (fun a => ((fun p : Loc3 => decide (p.fst = U)) ∘ Frame.loc) a && decide (a.file ≠ api)) post = [] := by
    rw [List.filter_eq_nil_iff]
    intro f hf
    simp [Frame.loc, hpost f hf]
  have hT : List.filter (fun a => ((fun p : Loc3 => decide (p.fst = U)) ∘ Frame.loc) a && decide (a.file ≠ api)) T
      = T.filter (fun f => decide (f.file = U)) := by
    apply List.filter_congr
    intro f _
    by_cases hf : f.file = U
    · have : ¬ U = api := fun h => hapi h.symm
      simp [Frame.loc, hf, this]
    · simp [Frame.loc, hf]
  rw [hA, hP, hT]
  simp only [List.map_nil, List.nil_append]
  congr 1
  exact List.map_congr_left hsite

/-- one frame per converted function is a sublist of all the frames those functions contribute -/
private theorem map_orig_sublist (L : List ConvLevel) :
    (L.map (fun l => l.orig.loc)).Sublist ((L.flatMap (fun l => l.outer ++ [l.orig])).map Frame.loc) := by
  induction L with
  | nil => simp
  | cons l ls ih =>
    simp only [List.map_cons, List.flatMap_cons, List.map_append, List.map_nil]
    have h1 : [l.orig.loc].Sublist (l.outer.map Frame.loc ++ [l.orig.loc]) := List.sublist_append_right _ _
    exact List.Sublist.append h1 ih

/- FULL STATEMENT (false of the pinned code): `C12_stack_partial` without `hK` (keys of a source map
   lie in its generated file), without `hB` (no converted function is re-entered further down the
   path) and without the function-name part of `hR` (frames inside lambdas). Counterexamples below. -/

/-- **Stack theorem.** For a call path of converted functions `L` (outermost first, any depth) followed
by an unconverted tail `T` (unconverted callees, builtins calling back, machinery), with a failing
statement at the bottom: the exception's metadata
 * carries the original message,
 * lists exactly one converted entry per separately converted function, innermost first, each at the
   original (file, function, line) of the statement that function was executing,
 * lists user frames that all are frames of the unconverted run's traceback, in the same order,
 * and its innermost user frame is the innermost user frame of that traceback — the (file, function,
   line) of the statement that failed.
By induction on the depth of the chain (`runChain_eq`). -/
theorem C12_stack_partial (api U msg : String) (L : List ConvLevel) (T : List Frame) (hne : L ≠ [])
    (hS : ∀ l ∈ L, SiteMapped l) (hK : ∀ l ∈ L, KeysInGen l) (hB : BelowForeign L T)
    (hR : ∀ l ∈ L, SiteResolved U l) (hapi : api ≠ U)
    (hpost : ∀ f ∈ (L.getLast hne).post, f.file ≠ U) :
    ∃ md, runChain api msg L T = some md ∧ md.cause = msg ∧
      md.stack.filter (·.converted) = L.reverse.map (fun l => FrameInfo.ofOrigin l.siteOrigin) ∧
      (md.stack.filter (·.converted)).map FrameInfo.loc = L.reverse.map (fun l => l.orig.loc) ∧
      (userLocs U md.stack).reverse.Sublist ((origTraceback U L T).map Frame.loc) ∧
      (userLocs U md.stack).head? = ((origTraceback U L T).map Frame.loc).getLast? := by
  obtain ⟨md, hrun, hcause, hloc, hconv⟩ := C12_stack_exact api msg L T hne hS hK hB
  have hsite : ∀ l ∈ L, l.siteOrigin.loc = l.orig.loc := by
    intro l hl
    obtain ⟨_, h1, h2, h3⟩ := hR l hl
    simp [Origin.loc, Frame.loc, h1, h2, h3]
  have hsiteU : ∀ l ∈ L, l.orig.loc.1 = U := fun l hl => (hR l hl).1
  -- the listed user frames, outermost first
  have huser : (userLocs U md.stack).reverse
      = L.map (fun l => l.orig.loc) ++ (T.filter (fun f => decide (f.file = U))).map Frame.loc := by
    rw [lastBelow_eq L T hne] at hloc
    exact userLocs_reverse api U L T _ md.stack hapi hpost hsite hsiteU hloc
  refine ⟨md, hrun, hcause, hconv, ?_, ?_, ?_⟩
  · rw [hconv, List.map_map]
    exact List.map_congr_left (fun l hl => by simpa [FrameInfo.ofOrigin, FrameInfo.loc, Origin.loc] using hsite l (List.mem_reverse.mp hl))
  · rw [huser]
    unfold origTraceback
    rw [List.map_append]
    refine List.Sublist.append ?_ (List.Sublist.refl _)
    exact map_orig_sublist L
  · have h1 : (userLocs U md.stack).head? = (userLocs U md.stack).reverse.getLast? := by simp
    rw [h1, huser]
    unfold origTraceback
    rw [List.map_append, List.getLast?_append, List.getLast?_append, flatMap_getLast? L hne]
    have : (L.map (fun l => l.orig.loc)).getLast? = some (L.getLast hne).orig.loc := by
      rcases List.eq_nil_or_concat L with h | ⟨init, last, h⟩
      · exact absurd h hne
      · subst h; simp [List.concat_eq_append]
    rw [this]

/-- **Verified checker** for recorded runs: when a recorded chain decomposes into levels and passes the
decidable test, the model's translated stack satisfies the conclusion test `conclusionHolds` against
the user frames of the unconverted run (so a recorded run that passes `stackHypsB` but whose real stack
fails `conclusionHolds` shows that implementation and model disagree on that very run). -/
theorem C12_stack_check_sound (api U msg : String) (raw : List RawLevel) (L : List ConvLevel) (T : List Frame)
    (hd : decompose raw = some (L, T)) (hh : stackHypsB api U L T = true) :
    ∃ md, runChain api msg L T = some md ∧
      conclusionHolds U L md.stack ((origTraceback U L T).map Frame.loc) = true := by
  have hne : L ≠ [] := by
    intro h; subst h
    cases raw with
    | nil => simp [decompose] at hd
    | cons r rs =>
      cases rs with
      | nil => simp only [decompose] at hd; split at hd <;> simp at hd
      | cons r' rs' =>
        simp only [decompose] at hd
        split at hd
        · cases hd
        · split at hd <;> simp at hd
  simp only [stackHypsB, Bool.and_eq_true, decide_eq_true_eq] at hh
  obtain ⟨⟨⟨⟨hK, hB⟩, hR⟩, hapi⟩, hpost⟩ := hh
  have hpost' : ∀ f ∈ (L.getLast hne).post, f.file ≠ U := by
    rw [lastBelow_eq L T hne] at hpost
    simpa using hpost
  obtain ⟨md, hrun, _, _, hconv, hsub, hhead⟩ :=
    C12_stack_partial api U msg L T hne (decompose_siteMapped raw L T hd) hK hB hR hapi hpost'
  refine ⟨md, hrun, ?_⟩
  simp only [conclusionHolds, Bool.and_eq_true, decide_eq_true_eq, List.isSublist_iff_sublist]
  exact ⟨⟨hconv, hsub⟩, hhead⟩

section stack_examples
private def apiF := "/repo/malt/impl/api.py"
private def uF := "/u/p1.py"
private def gTop := "/tmp/gen_top.py"
private def gL1 := "/tmp/gen_lvl1.py"
private def oTop : Origin := ⟨uF, 19, 12, some "top", "r += sum(lvl1(x))"⟩
private def oL1 : Origin := ⟨uF, 13, 4, some "lvl1", "t = [mid(v) for v in (1, x)]"⟩
/-- The probe program (`design-notes/probes/probe_error_chain_and_source_map.py`):
converted `top` → converted `lvl1` → do_not_convert `mid` → `lvl2` → `lvl3` (ZeroDivisionError). -/
private def exTop : ConvLevel :=
  { genFile := gTop, map := [(⟨gTop, 40⟩, ⟨uF, 17, 4, some "top", "for i in range(2):"⟩), (⟨gTop, 38⟩, ⟨uF, 18, 8, some "top", "if i:"⟩), (⟨gTop, 33⟩, oTop)],
    pre := [⟨gTop, 40, "ag__top", ""⟩, ⟨"/repo/malt/operators/control_flow.py", 449, "for_stmt", ""⟩, ⟨gTop, 38, "loop_body", ""⟩,
            ⟨"/repo/malt/operators/control_flow.py", 1200, "if_stmt", ""⟩],
    site := ⟨gTop, 33, "if_body", ""⟩, post := [⟨apiF, 377, "converted_call", ""⟩],
    siteOrigin := oTop, orig := ⟨uF, 19, "top", "r += sum(lvl1(x))"⟩, outer := [] }
private def exL1 : ConvLevel :=
  { genFile := gL1, map := [(⟨gL1, 10⟩, oL1)], pre := [], site := ⟨gL1, 10, "ag__lvl1", ""⟩,
    post := [⟨apiF, 331, "converted_call", ""⟩, ⟨apiF, 459, "_call_unconverted", ""⟩],
    siteOrigin := oL1, orig := ⟨uF, 13, "lvl1", "t = [mid(v) for v in (1, x)]"⟩, outer := [] }
private def exTail : List Frame :=
  [⟨apiF, 577, "wrapper", ""⟩, ⟨uF, 11, "mid", "return lvl2(x)"⟩, ⟨uF, 6, "lvl2", "while lvl3(x) > y and y < 3:"⟩, ⟨uF, 3, "lvl3", "return 10 // x"⟩]

/-- The hypotheses of `C12_stack_partial` hold of this instance … -/
example : (∀ l ∈ [exTop, exL1], SiteMapped l) ∧ (∀ l ∈ [exTop, exL1], KeysInGen l) ∧ BelowForeign [exTop, exL1] exTail
    ∧ (∀ l ∈ [exTop, exL1], SiteResolved uF l) ∧ apiF ≠ uF ∧ (∀ f ∈ exL1.post, f.file ≠ uF) := by
  refine ⟨by decide, by decide, by decide, by decide, by decide, by decide⟩
/-- … and the model computes the stack observed on the real code:
lvl3:3, lvl2:6, mid:11 (allow-listed), lvl1:13 *, top:19 *. -/
example : (runChain apiF "ZeroDivisionError: integer division or modulo by zero" [exTop, exL1] exTail).map
      (fun md => md.stack.map (fun fi => (fi.fn, fi.line, fi.converted, fi.allowlisted)))
    = some [(some "lvl3", 3, false, false), (some "lvl2", 6, false, false), (some "mid", 11, false, true),
            (some "lvl1", 13, true, false), (some "top", 19, true, false)] := by decide

/-- COUNTEREXAMPLE without `hB` (known finding `C12-reentrant-conversion`): a function that calls itself
(one conversion, one generated file, entered twice).  The outer level finds the *inner* activation's
frame first, so the stack lists the failing line twice and never the line of the recursive call. -/
private def oRecCall : Origin := ⟨uF, 20, 8, some "rec", "return rec(x - 1)"⟩
private def oRecFail : Origin := ⟨uF, 21, 4, some "rec", "return 10 // x"⟩
private def recMap : SourceMap := [(⟨"/tmp/gen_rec.py", 14⟩, oRecCall), (⟨"/tmp/gen_rec.py", 20⟩, oRecFail)]
private def recOuter : ConvLevel :=
  { genFile := "/tmp/gen_rec.py", map := recMap, pre := [⟨"/tmp/gen_rec.py", 25, "ag__rec", ""⟩], site := ⟨"/tmp/gen_rec.py", 14, "if_body", ""⟩,
    post := [⟨apiF, 377, "converted_call", ""⟩], siteOrigin := oRecCall, orig := ⟨uF, 20, "rec", ""⟩, outer := [] }
private def recInner : ConvLevel :=
  { recOuter with pre := [], site := ⟨"/tmp/gen_rec.py", 20, "ag__rec", ""⟩, post := [], siteOrigin := oRecFail, orig := ⟨uF, 21, "rec", ""⟩ }
theorem C12_stack_reentrant_counterexample :
    (∀ l ∈ [recOuter, recInner], SiteMapped l) ∧ (∀ l ∈ [recOuter, recInner], KeysInGen l) ∧
    ¬ BelowForeign [recOuter, recInner] [] ∧
    (runChain apiF "m" [recOuter, recInner] []).map (fun md => md.stack.map FrameInfo.loc)
      = some [(uF, some "rec", 21), (uF, some "rec", 21)] := by
  refine ⟨by decide, by decide, by decide, by decide⟩

/-- COUNTEREXAMPLE without `hK` (known finding `C12-srcmap-foreign-key`): `g`'s source map holds a key in the
*user* file (line 4 of `h`, left on the `Load()` singleton by an earlier conversion of `h`).  `g` calls
`map(h, …)`; `h` runs unconverted and fails on line 4.  The scan takes the unconverted frame for a
converted one and stops there: `g` gets no entry of its own. -/
private def oG : Origin := ⟨uF, 9, 4, some "g", "b = list(map(h, [x]))"⟩
private def oH4 : Origin := ⟨uF, 4, 4, some "h", "for i in range(10 // z):"⟩
private def junkG : ConvLevel :=
  { genFile := "/tmp/gen_g.py", map := [(⟨"/tmp/gen_g.py", 9⟩, oG), (⟨uF, 4⟩, oH4)], pre := [], site := ⟨"/tmp/gen_g.py", 9, "ag__g", ""⟩,
    post := [⟨apiF, 331, "converted_call", ""⟩], siteOrigin := oG, orig := ⟨uF, 9, "g", ""⟩, outer := [] }
theorem C12_stack_foreign_key_counterexample :
    SiteMapped junkG ∧ ¬ KeysInGen junkG ∧ BelowForeign [junkG] [⟨uF, 4, "h", ""⟩] ∧
    (runChain apiF "m" [junkG] [⟨uF, 4, "h", ""⟩]).map (fun md => md.stack.map (fun fi => (fi.loc, fi.converted)))
      = some [((uF, some "h", 4), true)] := by
  refine ⟨by decide, by decide, by decide, by decide⟩

/-- COUNTEREXAMPLE to the function part of `SiteResolved` (known finding `C12-lambda-function-name`):
the failing expression is the body of a lambda bound on line 9; unconverted, the innermost frame is
`<lambda>`; `OriginResolver` only tracks `FunctionDef`s, so the origin says `lam2`. -/
private def oLam : Origin := ⟨uF, 9, 8, some "lam2", "g = lambda v: 10 // v"⟩
private def lamLevel : ConvLevel :=
  { genFile := "/tmp/gen_lam.py", map := [(⟨"/tmp/gen_lam.py", 9⟩, oLam)], pre := [⟨"/tmp/gen_lam.py", 10, "ag__lam2", ""⟩],
    site := ⟨"/tmp/gen_lam.py", 9, "<lambda>", ""⟩, post := [], siteOrigin := oLam, orig := ⟨uF, 9, "<lambda>", ""⟩, outer := [⟨uF, 10, "lam2", ""⟩] }
theorem C12_stack_lambda_counterexample :
    SiteMapped lamLevel ∧ KeysInGen lamLevel ∧ BelowForeign [lamLevel] [] ∧ ¬ SiteResolved uF lamLevel ∧
    ((runChain apiF "m" [lamLevel] []).map (fun md => (userLocs uF md.stack).head?))
      ≠ some (((origTraceback uF [lamLevel] []).map Frame.loc).getLast?) := by
  refine ⟨by decide, by decide, by decide, by decide, by decide⟩
end stack_examples

/-! ## 3. Daisy chaining, as the harness observes it -/

/-- Every level adds exactly one frame to the stack of the level below it (or fails). -/
theorem C12_chain_adds_one (tb : List Frame) (c : Metadata) (msg : String) (m : SourceMap) (api : String)
    (md : Metadata) (h : Metadata.init tb (some c) msg m api = some md) :
    ∃ fi, md.stack = c.stack ++ [fi] ∧ (stackInsideMappedCode tb m api).getLast? = some fi ∧ md.cause = c.cause := by
  unfold Metadata.init at h
  simp only at h
  split at h
  · rename_i l hl
    cases h
    exact ⟨l, rfl, hl, rfl⟩
  · cases h

/-- The cause message is fixed by the innermost level and never changes on the way out. -/
theorem C12_cause_preserved (excName excStr api : String) (ls : List Level) (prev md : Metadata)
    (h : attachAll excName excStr api ls (some prev) = some (some md)) : md.cause = prev.cause := by
  induction ls generalizing prev with
  | nil => simp [attachAll] at h; rw [h]
  | cons l ls ih =>
    simp only [attachAll] at h
    split at h
    · cases h
    · rename_i md' hmd'
      have := ih md' h
      rw [this]
      unfold attach at hmd'
      obtain ⟨_, _, _, hc⟩ := C12_chain_adds_one _ _ _ _ _ _ hmd'
      exact hc

/-- **Nested wrappers accumulate.** An exception travelling outwards through any interleaving of
converted calls (`some a`: `_attach_error_metadata` runs) and `malt.convert` wrappers (`none`: the
exception is re-created by `to_exception` and raised anew — with whatever traceback) ends up with
one converted entry per converted call, innermost first, after the frames below the innermost site;
the cause message is the innermost one.  The wrappers change nothing in the metadata: the proof uses
that `to_exception` does not mark the new exception `ag_pass_through`
(`Gen.Errors.toExceptionSetsPassThrough = false`, read from the source on every run) — with the mark
set, `_attach_error_metadata` would skip every enclosing level. -/
theorem C12_nested_accumulates (en es api : String) (a0 : ALevel) (rest : List (Option ALevel))
    (h0 : a0.ok) (hr : ∀ a, some a ∈ rest → a.ok) :
    runEvents en es api (evOf (some a0) :: rest.map evOf) ⟨none, false⟩ =
      some ⟨some ⟨elide api a0.below.reverse [] ++
                  FrameInfo.ofOrigin a0.siteOrigin :: (rest.filterMap id).map (fun a => FrameInfo.ofOrigin a.siteOrigin),
                 en ++ ": " ++ es⟩, false⟩ := by
  have hat := attach_ok en es api a0 h0 none
  have hlv : a0.level.map = a0.map := rfl
  simp only [evOf, runEvents, attachState, Bool.and_false, hlv, hat]
  simp only [Bool.false_eq_true, if_false, Option.map_some]
  -- what the translator read from `to_exception` on this run:
  have hpt : Gen.Errors.toExceptionSetsPassThrough = false := rfl
  rw [runEvents_accumulates hpt en es api rest _ hr]
  simp

/-- One converted entry per converted call on the path, however many wrappers lie in between. -/
theorem C12_nested_entry_count (en es api : String) (a0 : ALevel) (rest : List (Option ALevel))
    (h0 : a0.ok) (hr : ∀ a, some a ∈ rest → a.ok) :
    ∃ st, runEvents en es api (evOf (some a0) :: rest.map evOf) ⟨none, false⟩ = some st ∧
      ∃ md, st.md = some md ∧ (md.stack.filter (·.converted)).length = 1 + (rest.filterMap id).length := by
  refine ⟨_, C12_nested_accumulates en es api a0 rest h0 hr, _, rfl, ?_⟩
  rw [List.filter_append]
  have h1 : (elide api a0.below.reverse []).filter (·.converted) = [] := by
    rw [List.filter_eq_nil_iff]
    intro fi hfi
    simp [elide_not_converted api _ [] (by simp) fi hfi]
  have h2 : ∀ l : List ALevel, (l.map (fun a => FrameInfo.ofOrigin a.siteOrigin)).filter (·.converted)
      = l.map (fun a => FrameInfo.ofOrigin a.siteOrigin) := by
    intro l
    rw [List.filter_eq_self]
    intro fi hfi
    obtain ⟨a, _, rfl⟩ := List.mem_map.mp hfi
    rfl
  have hc : (FrameInfo.ofOrigin a0.siteOrigin).converted = true := rfl
  rw [h1, List.nil_append, List.filter_cons, if_pos hc, h2]
  simp
  omega

section nested_examples
private def nApi := "/repo/malt/impl/api.py"
private def nU := "/u/n1.py"
private def oLeaf : Origin := ⟨nU, 5, 8, some "leaf", "raise KeyError('k%d' % x)"⟩
private def oRelay : Origin := ⟨nU, 9, 4, some "relay", "y = LEAF(x)"⟩
private def oEntry : Origin := ⟨nU, 15, 8, some "entry", "t += RELAY(x)"⟩
private def cc : Frame := ⟨nApi, 377, "converted_call", ""⟩
/-- leaf converted by its own wrapper, relay and entry by the outer one; the inner wrapper raised a fresh
`StagingError`, so the outer levels see only the wrapper's frame below their sites. -/
private def aLeaf : ALevel := ⟨[(⟨"/tmp/g_leaf.py", 18⟩, oLeaf)], cc, [⟨"/tmp/g_leaf.py", 22, "ag__leaf", ""⟩], ⟨"/tmp/g_leaf.py", 18, "if_body", ""⟩, [], oLeaf⟩
private def aRelay : ALevel := ⟨[(⟨"/tmp/g_relay.py", 10⟩, oRelay)], cc, [], ⟨"/tmp/g_relay.py", 10, "ag__relay", ""⟩,
  [⟨nApi, 331, "converted_call", ""⟩, ⟨nApi, 459, "_call_unconverted", ""⟩, ⟨nApi, 629, "wrapper", ""⟩], oRelay⟩
private def aEntry : ALevel := ⟨[(⟨"/tmp/g_entry.py", 30⟩, oEntry)], cc, [⟨"/tmp/g_entry.py", 40, "ag__entry", ""⟩], ⟨"/tmp/g_entry.py", 30, "loop_body", ""⟩,
  [cc, ⟨"/tmp/g_relay.py", 10, "ag__relay", ""⟩, ⟨nApi, 629, "wrapper", ""⟩], oEntry⟩
example : aLeaf.ok ∧ (∀ a, some a ∈ [none, some aRelay, some aEntry, none] → a.ok) := by
  refine ⟨by decide, ?_⟩
  intro a ha
  simp at ha
  rcases ha with rfl | rfl <;> decide
example : ((runEvents "KeyError" "'k1'" nApi ([some aLeaf, none, some aRelay, some aEntry, none].map evOf) ⟨none, false⟩).bind (·.md)).map
      (fun md => md.stack.map FrameInfo.loc)
    = some [(nU, some "leaf", 5), (nU, some "relay", 9), (nU, some "entry", 15)] := by decide
end nested_examples

/-! ## 4. Type and message of the re-created exception -/

/-- **Decision table**, stated outright (this is the whole of `ErrorMetadataBase.create_exception` +
`_ErrorMetadata.create_exception`). -/
theorem C12_type (t : ExcType) :
    createException t =
      if t.isMaltError then Created.sameType
      else if inKnown t then Created.sameType
      else if isKeyError t then Created.keyErrorSubclass
      else if t.initIsExceptionInit then Created.sameType
      else Created.staging := by
  unfold createException baseCreate
  cases t.isMaltError <;> cases inKnown t <;> cases isKeyError t <;> cases t.initIsExceptionInit <;> rfl

/- FULL STATEMENT (false of the pinned code, see `C12_type_counterexample`):
   ∀ t, t.wf → (createException t ≠ .staging ↔ expectedSame t)
   "the same type whenever that type takes a plain message and defines no initialiser of its own,
    a StagingError otherwise". -/

/-- The rule of the property, for every type that does not inherit a builtin's initialiser other than
`Exception`'s. -/
theorem C12_type_partial (t : ExcType) (hwf : t.wf = true) (hcls : inheritsBuiltinInit t = false) :
    (createException t ≠ Created.staging ↔ expectedSame t = true) ∧
    (createException t = Created.keyErrorSubclass → isKeyError t = true) := by
  rw [C12_type]
  obtain ⟨name, ud, me, ie, ui, nb⟩ := t
  unfold ExcType.wf at hwf
  unfold inheritsBuiltinInit at hcls
  unfold expectedSame inKnown isKeyError
  unfold plainBuiltin at *
  simp only at hwf hcls ⊢
  by_cases hnbE : nb = "Exception"
  · subst hnbE
    generalize hkn : Gen.Errors.knownStringConstructorErrors.contains name = kn at *
    by_cases hnm : "Exception" = name <;> by_cases hke : name = "KeyError" <;>
    cases ud <;> cases me <;> cases ie <;> cases ui <;> cases kn <;> simp_all
  · by_cases hnm : nb = name
    · subst hnm
      generalize hkn : Gen.Errors.knownStringConstructorErrors.contains nb = kn at *
      by_cases hke : nb = "KeyError" <;>
      cases ud <;> cases me <;> cases ie <;> cases ui <;> cases kn <;> simp_all
    · generalize hkn : Gen.Errors.knownStringConstructorErrors.contains name = kn at *
      generalize hkb : Gen.Errors.knownStringConstructorErrors.contains nb = kb at *
      by_cases hke : name = "KeyError" <;> by_cases hkb2 : nb = "KeyError" <;>
      cases ud <;> cases me <;> cases ie <;> cases ui <;> cases kn <;> cases kb <;> simp_all

/- FULL STATEMENT (false of the pinned code, see `C12_type_nested_counterexample`):
   ∀ t n, (rewriteN t n) = typeAfter t (createException t)   — further wrappers never change the type again. -/

/-- Nested wrappers re-create an already re-created exception: for every type the first rewrite does
not turn into the `KeyError` stand-in, all later rewrites keep the type the first one chose. -/
theorem C12_type_nested_partial (t : ExcType) (h : createException t ≠ Created.keyErrorSubclass) (n : Nat) :
    rewriteN t n = typeAfter t (createException t) := by
  have hfix : createException (typeAfter t (createException t)) = Created.sameType := by
    cases hc : createException t with
    | sameType => simpa [typeAfter] using hc
    | keyErrorSubclass => exact absurd hc h
    | staging => simp [typeAfter, createException]
  induction n with
  | zero => rfl
  | succ n ih =>
    show typeAfter (rewriteN t n) (createException (rewriteN t n)) = _
    rw [ih, hfix]
    rfl

section type_examples
/-- `class U(Exception): pass` keeps its type; `ZeroDivisionError` (own slot wrapper, not in the list)
becomes `StagingError`; `KeyError` becomes the same-named subclass; `ValueError` is in the list. -/
private def tU : ExcType := ⟨"U", true, false, true, false, "Exception"⟩
private def tZero : ExcType := ⟨"ZeroDivisionError", false, false, false, false, "ZeroDivisionError"⟩
private def tKey : ExcType := ⟨"KeyError", false, false, false, false, "KeyError"⟩
private def tVal : ExcType := ⟨"ValueError", false, false, false, false, "ValueError"⟩
private def tU2 : ExcType := ⟨"U2", true, false, false, true, "Exception"⟩
private def tW : ExcType := ⟨"W", true, false, false, false, "ValueError"⟩
example : tU.wf = true ∧ inheritsBuiltinInit tU = false ∧ createException tU = .sameType := by decide
example : tZero.wf = true ∧ inheritsBuiltinInit tZero = false ∧ createException tZero = .staging := by decide
example : tKey.wf = true ∧ createException tKey = .keyErrorSubclass := by decide
example : tVal.wf = true ∧ createException tVal = .sameType := by decide
example : tU2.wf = true ∧ inheritsBuiltinInit tU2 = false ∧ createException tU2 = .staging ∧ expectedSame tU2 = false := by decide

/-- COUNTEREXAMPLE to the full statement (known finding `C12-builtin-derived-type`):
`class W(ValueError): pass` takes a plain message and defines no initialiser of its own, yet it is
re-created as `StagingError` (`W.__init__` is `ValueError.__init__`, not `Exception.__init__`, and
`W` itself is not in the list). -/
theorem C12_type_counterexample :
    tW.wf = true ∧ expectedSame tW = true ∧ createException tW = .staging ∧ inheritsBuiltinInit tW = true := by decide
/-- COUNTEREXAMPLE (known finding `C12-nested-keyerror`): a `KeyError` raised below two nested wrappers reaches
the caller as `StagingError` — the second wrapper sees `MultilineMessageKeyError`, which is neither
`KeyError` itself nor a type with a plain initialiser. -/
theorem C12_type_nested_counterexample :
    createException tKey = .keyErrorSubclass ∧ (rewriteN tKey 0).name = "KeyError" ∧
    (rewriteN tKey 1).name = "StagingError" ∧ rewriteN tKey 1 ≠ typeAfter tKey (createException tKey) := by decide
end type_examples

/-- **Message carried**: every line of the original `"<Type>: <message>"` appears (indented) in the new
message, the cause is never rewritten by outer levels (`C12_cause_preserved`), and every listed frame
is named in it. -/
theorem C12_message_carried (md : Metadata) :
    (∀ l ∈ splitLines md.cause, ("    " ++ l) ∈ getMessageLines md) ∧
    (∀ fi ∈ md.stack, ∀ s ∈ frameLines fi, s ∈ getMessageLines md) := by
  constructor
  · intro l hl
    unfold getMessageLines
    simp only [List.mem_append, List.mem_map]
    exact Or.inl (Or.inr ⟨l, hl, rfl⟩)
  · intro fi hfi s hs
    unfold getMessageLines
    simp only [List.mem_append, List.mem_flatMap, List.mem_reverse]
    exact Or.inl (Or.inl (Or.inl (Or.inr ⟨fi, hfi, hs⟩)))

example : getMessageLines ⟨[FrameInfo.ofOrigin ⟨"/u/p.py", 3, 4, some "f", "  return 10 // x"⟩], "ZeroDivisionError: division by zero"⟩
    = ["in user code:", "", "    File \"/u/p.py\", line 3, in f  *", "        return 10 // x", "",
       "    ZeroDivisionError: division by zero", ""] := by decide

/-! ## 5. Origin inheritance on replacement nodes -/

/-- `Base.visit`: after a replacement every top-level replacement node has an origin as soon as the
replaced node or its parent had one; nodes that brought their own keep it; the others get the
replaced node's (else the parent's). -/
theorem C12_origin_inherit (no po : Option Origin) (result : List ONode) (o : Origin)
    (h : no.orElse (fun _ => po) = some o) :
    (inheritOrigin no po result).map ONode.origin = result.map (fun n => some (n.origin.getD o)) := by
  unfold inheritOrigin
  rw [h]
  simp only [List.map_map]
  apply List.map_congr_left
  intro n _
  obtain ⟨on, cs⟩ := n
  cases on <;> rfl

/-- `copy_origin`: every node under the targets carries the source's origin afterwards. -/
theorem C12_origin_copy (o : Origin) (to : List ONode) :
    ∀ x ∈ allOriginsList (copyOrigin (some o) to), x = some o :=
  copyOriginList_all o to

example : (inheritOrigin (some (⟨"/u/p.py", 5, 2, some "f", "while c:"⟩ : Origin)) none
            [.mk none [.mk none []], .mk (some ⟨"/u/p.py", 6, 4, some "f", "x = 1"⟩) []]).map ONode.origin
    = [some ⟨"/u/p.py", 5, 2, some "f", "while c:"⟩, some ⟨"/u/p.py", 6, 4, some "f", "x = 1"⟩] := by decide

end Malt.Errors
