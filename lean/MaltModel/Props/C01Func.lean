import MaltModel.Proofs.FuncSim
import MaltModel.Proofs.FuncCheck
import MaltModel.Proofs.FuncWrapper
/-!
# C01 (semantic core) — functionalisation preserves semantics under the default operators

`control_flow_correct`: for every program of the jump-free fragment (`AStmt`: assign / expression statement /
pass / raise / `if` / `while` / `for` with the optional extra loop test / `return` at the top level of the
function body / and, as pass-through statements whose blocks may contain all of these, `with` and
`try` with `except E<tag>` handlers and `finally` — semantics of `Sem.withS` / `Sem.tryS`), every liveness annotation that is `LiveConsistent`, every
`declared`/`undefined` satisfying the inclusions that `_get_block_vars` guarantees (`DeclB`, `DefB`), every
external-call oracle, every fuel and every pair of initial states that agree on the variables live at entry:
a terminating run of the source program (`Malt.Sem.execB` on the erased program) is matched by a run of the
functionalised program under the **native** operator semantics (`execN`: Python fallbacks + Python's
function-local scoping of the generated bodies) with the *same outcome* (return value / exception — reads of
`Undefined` placeholders and of unbound variables are the same `nameError`), the *same effect log*, and final
states agreeing on the variables live at exit.

Proof: `Proofs/FuncSim.lean`, one induction on fuel over four mutually dependent simulation statements with the
liveness-indexed relation `Agree`.  The fact that carries it: a name assigned in a body and not in `declared`
is frame-local **and dead** (`locals_dead`).

The negative theorems show that the hypotheses are needed, on the shapes where the tree violates or violated them
(DESIGN §8): a `for` target live across a zero-trip loop (the liveness of /repo is not `LiveConsistent` there), and a
variable whose read the annotation does not see (a closure declaring it `nonlocal`: what /repo computed before
commit ccf3d44).
-/
namespace Malt.Func
open Malt.Sem

/-- **Functionalisation preserves semantics** (native operators). -/
theorem control_flow_correct (X : Ext) (p : ABlock) (D O : List Name) (hyp : FuncHyp D p O)
    (σ : St) (σ' : TSt) (hag : Agree (blockIn p O) σ σ') (hb : BoundSub σ D)
    (n : Nat) (o : Out) (σ₁ : St) (h : execB X n (eraseB p) σ = some (o, σ₁)) :
    ∃ m σ₁', execNB X m (funcB p) σ' = some (o, σ₁') ∧ σ₁'.log = σ₁.log ∧ (o = .normal → Agree O σ₁ σ₁') := by
  obtain ⟨⟨m, σ₁', hx, hout⟩, _, _⟩ :=
    (sim_all X n).2.1 p ExcCtx.top D O σ σ' o σ₁ hyp.live hyp.decl hyp.defd hyp.jump hag hb h
  exact ⟨m, σ₁', hx, hout.1, hout.2.1⟩

/-- The same, for a plain `Malt.Sem` program and a position-indexed annotation: whenever the program is in the
fragment (`annotB` succeeds), `func ann p` is defined and simulates `p`. -/
theorem control_flow_correct_sem (X : Ext) (ann : Ann) (p : Block) (q : ABlock) (hq : annotB ann 0 p = some q)
    (D O : List Name) (hyp : FuncHyp D q O)
    (σ : St) (σ' : TSt) (hag : Agree (blockIn q O) σ σ') (hb : BoundSub σ D)
    (n : Nat) (o : Out) (σ₁ : St) (h : execB X n p σ = some (o, σ₁)) :
    ∃ t, func ann p = some t ∧
      ∃ m σ₁', execNB X m t σ' = some (o, σ₁') ∧ σ₁'.log = σ₁.log ∧ (o = .normal → Agree O σ₁ σ₁') := by
  refine ⟨funcB q, by simp [func, hq], ?_⟩
  have he : eraseB q = p := annotB_erase p ann 0 q hq
  exact control_flow_correct X q D O hyp σ σ' hag hb n o σ₁ (by rw [he]; exact h)

/-- Whole-function form: called on the same arguments (the variables in `D` are the parameters), the converted
function has the same observation: outcome and ordered effect log. -/
theorem control_flow_correct_observe (X : Ext) (p : ABlock) (D : List Name) (hyp : FuncHyp D p [])
    (σ : St) (hb : BoundSub σ D) (n : Nat) (r : Out × St) (h : execB X n (eraseB p) σ = some r) :
    ∃ m r', execNB X m (funcB p) (TSt.ofSt σ) = some r' ∧ (r'.1, r'.2.log) = (r.1, r.2.log) := by
  obtain ⟨o, σ₁⟩ := r
  obtain ⟨m, σ₁', hx, hl, _⟩ := control_flow_correct X p D [] hyp σ (TSt.ofSt σ) (agree_ofSt _ σ) hb n o σ₁ h
  exact ⟨m, (o, σ₁'), hx, by simp [hl]⟩

/-- The same inside an arbitrary exception context `K` (e.g. for a block that is the body of an enclosing `try`):
after an exception `e` the states also agree on what `K` says the handler / `finally` of `e` needs. -/
theorem control_flow_correct_ctx (X : Ext) (K : ExcCtx) (p : ABlock) (D O : List Name)
    (hl : LiveB K p O) (hd : DeclB p) (hf : DefB D p) (hj : retTopB p = true)
    (σ : St) (σ' : TSt) (hag : Agree (blockIn p O) σ σ') (hb : BoundSub σ D)
    (n : Nat) (o : Out) (σ₁ : St) (h : execB X n (eraseB p) σ = some (o, σ₁)) :
    ∃ m σ₁', execNB X m (funcB p) σ' = some (o, σ₁') ∧ σ₁'.log = σ₁.log ∧ (o = .normal → Agree O σ₁ σ₁') ∧
      (∀ e, o = .exc e → Agree (K.get e) σ₁ σ₁') := by
  obtain ⟨⟨m, σ₁', hx, hout⟩, _, _⟩ := (sim_all X n).2.1 p K D O σ σ' o σ₁ hl hd hf hj hag hb h
  exact ⟨m, σ₁', hx, hout.1, hout.2.1, hout.2.2⟩

/-- `annotB` accepts every `Malt.Sem` program without `break`/`continue` — with or without `try`/`with`. -/
theorem annotB_total_of_noJump (p : Block) (ann : Ann) (h : noJumpB p = true) : ∃ q, annotB ann 0 p = some q :=
  annotB_total p ann 0 h

/-- The executable checker of all hypotheses (run by the harness on the real annotations) is sound. -/
theorem funcHyp_checker_sound (D : List Name) (p : ABlock) (O : List Name) (h : funcHyp D p O = true) :
    FuncHyp D p O := funcHyp_sound D p O h

/-- The `LiveConsistent` checker is sound. -/
theorem liveConsistent_checker_sound (p : ABlock) (O : List Name) (h : liveConsistent p O = true) :
    LiveConsistent p O := liveConsistent_sound p O h

/-- Determinism across fuels (used by the negative theorems). -/
theorem execNB_det (X : Ext) {m k : Nat} {b : TBlock} {σ : TSt} {r r' : Out × TSt}
    (h : execNB X m b σ = some r) (h' : execNB X k b σ = some r') : r = r' := by
  have a := execNB_mono X h (Nat.le_max_left m k)
  have b := execNB_mono X h' (Nat.le_max_right m k)
  rw [a] at b; exact Option.some.inj b

/-! ## The function wrapper and the return-value protocol

`Func/Wrapper.lean` models what `converters/functions.py` and the return pass generate around a converted body
and what `FunctionScope` / `UndefinedReturnValue` do at run time:
```
def f(params):
    with ag__.FunctionScope('f', 'fscope', <options>) as fscope:
        [do_return = False; retval_ = ag__.UndefinedReturnValue()]      # only when the source has a `return`
        <functionalised body>
        [return fscope.ret(retval_, do_return)]
```
`callW` / `callConverted` run it: `__enter__` pushes the status context iff `user_requested`, the block runs under
the native operators, `__exit__` pops on every outcome and — the model's assumption `exitSwallows = false`, tied
to the real class by the harness obligation `correspondence:function-scope-protocol` — never swallows an
exception; falling off the end is `None`; `fscope.ret` turns the `UndefinedReturnValue` placeholder into `None`.
The source side is the lowered body (`Lowered.prog`: the output shape of the return pass, no `return` left inside,
result in `retval_`) and the caller's view `fnOutcome` of its outcome (`normal ↦ return None`). -/

/-- **The function wrapper is correct** (both shapes).  For every lowered body `l` — `plain q` (the source has no
`return`) or `rets do_return retval_ … mid` (`do_return = False; retval_ = None; mid; return retval_`) — that is
well formed (`wf`: no `return` inside, nothing inside reads `retval_`) and satisfies the hypotheses of
`control_flow_correct`: calling the converted function (wrapper ∘ functionalised body, any name, any
`user_requested`) in a state agreeing with the source state on the live-in variables yields **the same result**
— including `None` when the source falls off the end or `retval_` still holds the placeholder, and the same
exception when one propagates through the `with` — **the same effect log**, and restores the conversion-status
stack. -/
theorem function_wrapper_correct (X : Ext) (l : Lowered) (hwf : l.wf = true) (name : String) (userRequested : Bool)
    (D : List Name) (hyp : FuncHyp D l.prog [])
    (σ : St) (σ' : TSt) (hag : Agree (blockIn l.prog []) σ σ') (hb : BoundSub σ D) (stk : CtxStack)
    (n : Nat) (o : Out) (σ₁ : St) (h : execB X n (eraseB l.prog) σ = some (o, σ₁)) :
    ∃ m τ, callConverted X m l name userRequested σ' stk = some (fnOutcome o, τ, stk) ∧ τ.log = σ₁.log :=
  wrapper_both X l hwf name userRequested D hyp σ σ' hag hb stk n o σ₁ h

/-- Falling off the end of the source body: the converted function returns `None`. -/
theorem function_wrapper_falls_off_end (X : Ext) (l : Lowered) (hwf : l.wf = true) (name : String) (ur : Bool)
    (D : List Name) (hyp : FuncHyp D l.prog [])
    (σ : St) (σ' : TSt) (hag : Agree (blockIn l.prog []) σ σ') (hb : BoundSub σ D) (stk : CtxStack)
    (n : Nat) (σ₁ : St) (h : execB X n (eraseB l.prog) σ = some (.normal, σ₁)) :
    ∃ m τ, callConverted X m l name ur σ' stk = some (.ret .none, τ, stk) ∧ τ.log = σ₁.log :=
  wrapper_both X l hwf name ur D hyp σ σ' hag hb stk n .normal σ₁ h

/-- An exception of the source body propagates through the `with ag__.FunctionScope(…)` unchanged, and the status
stack is restored (`__exit__` ran). -/
theorem function_wrapper_exception_propagates (X : Ext) (l : Lowered) (hwf : l.wf = true) (name : String) (ur : Bool)
    (D : List Name) (hyp : FuncHyp D l.prog [])
    (σ : St) (σ' : TSt) (hag : Agree (blockIn l.prog []) σ σ') (hb : BoundSub σ D) (stk : CtxStack)
    (n : Nat) (e : Exc) (σ₁ : St) (h : execB X n (eraseB l.prog) σ = some (.exc e, σ₁)) :
    ∃ m τ, callConverted X m l name ur σ' stk = some (.exc e, τ, stk) ∧ τ.log = σ₁.log :=
  wrapper_both X l hwf name ur D hyp σ σ' hag hb stk n (.exc e) σ₁ h

/-- The assumption about `FunctionScope.__exit__` is needed: a scope whose `__exit__` returned a true value would
turn every exception into `return None`, which is not what the caller of the source function sees. -/
theorem exit_must_not_swallow (e : Exc) : (if true then Out.ret .none else Out.exc e) ≠ fnOutcome (.exc e) := by
  simp [fnOutcome]

/-- **Whole converted function** (wrapper ∘ functionalised body), from a plain `Malt.Sem` lowered body `s`
(`SrcLowered`: exactly the two output shapes of the jump-lowering model's `lowerReturn`) and a position-indexed
annotation: called on the same arguments (the variables in `D` are the parameters), the source function
(`callS`: the body's outcome as the caller sees it) and the converted function return the same result with the
same effect log.  `annotL ann s` is `annotB ann 0 s.prog` with the shape kept (`annotL_of_annotB`). -/
theorem converted_function_correct (X : Ext) (ann : Ann) (s : SrcLowered) (l : Lowered) (hl : annotL ann s = some l)
    (hwf : l.wf = true) (name : String) (userRequested : Bool) (D : List Name) (hyp : FuncHyp D l.prog [])
    (σ : St) (hb : BoundSub σ D) (stk : CtxStack)
    (n : Nat) (r : Out) (σ₁ : St) (h : callS X n s.prog σ = some (r, σ₁)) :
    ∃ m τ, callConverted X m l name userRequested (TSt.ofSt σ) stk = some (r, τ, stk) ∧ τ.log = σ₁.log := by
  simp only [callS, Option.map_eq_some_iff, Prod.mk.injEq] at h
  obtain ⟨⟨o, σ₁'⟩, hx, rfl, rfl⟩ := h
  have he := annotL_erase ann s l hl
  exact wrapper_both X l hwf name userRequested D hyp σ (TSt.ofSt σ) (agree_ofSt _ σ) hb stk n o σ₁'
    (by rw [he]; exact hx)

/-- The annotated lowered body of `converted_function_correct` exists, with its shape, whenever `annotB` accepts the
lowered program (it accepts every program without `break`/`continue`: `annotB_total_of_noJump`). -/
theorem annotL_of_annotB (ann : Ann) (s : SrcLowered) (q : ABlock) (hq : annotB ann 0 s.prog = some q) :
    ∃ l, annotL ann s = some l ∧ l.prog = q :=
  annotL_prog ann s q hq

/-- **Nested converted functions**, as far as `Malt.Sem` can say it (`_partial`: `Malt.Sem` has no `def` statement
and no closures — a call of a nested function is modelled as a call in a fresh frame `argState params args log`
that binds the parameters only and continues the caller's effect log; capture of enclosing variables is outside the
model).  A nested `def` is converted with `call_options()` (`user_requested = False`): its scope does not touch the
status stack; it is entered while the enclosing function's scope is open (`outer.enter stk`).  The nested call
returns what the source nested function returns, continues the log identically, and hands the enclosing scope's
stack back unchanged — so the enclosing function's own `__exit__` restores `stk`. -/
theorem nested_function_call_correct_partial (X : Ext) (outer : Wrapper) (l : Lowered) (hwf : l.wf = true)
    (name : String) (params : List Name) (args : List Val) (log : List Event) (hyp : FuncHyp params l.prog [])
    (stk : CtxStack)
    (n : Nat) (o : Out) (σ₁ : St) (h : execB X n (eraseB l.prog) (argState params args log) = some (o, σ₁)) :
    ∃ m τ, callConverted X m l name false (TSt.ofSt (argState params args log)) (outer.enter stk) =
        some (fnOutcome o, τ, outer.enter stk) ∧ τ.log = σ₁.log ∧ outer.exit (outer.enter stk) = stk := by
  have hb : BoundSub (argState params args log) params := by
    intro y hy
    simp only [argState, ne_eq, Option.map_eq_none_iff] at hy
    cases hf : (params.zip args).find? (fun b => b.1 == y) with
    | none => exact absurd hf hy
    | some b =>
      have hm := List.mem_of_find?_eq_some hf
      have hp := List.find?_some hf
      have : b.1 = y := by simpa using hp
      rw [← this]
      exact (List.of_mem_zip hm).1
  obtain ⟨m, τ, hc, hlog⟩ := wrapper_both X l hwf name false params hyp _ (TSt.ofSt _) (agree_ofSt _ _) hb
    (outer.enter stk) n o σ₁ h
  exact ⟨m, τ, hc, hlog, Wrapper.exit_enter outer stk⟩

/-! ## Examples: the hypotheses are satisfiable by non-trivial programs -/
namespace Examples

def X0 : Ext := ⟨fun _ _ _ => .none⟩
def st (bs : List (Name × Val)) : St := ⟨fun x => (bs.find? (fun b => b.1 == x)).map (·.2), []⟩

/-- A loop with carried variables `s`, `i`, and a loop-local temporary `t` that is NOT declared:
```
s = 0; i = 0
while i < n:
    t = i * 2          # frame-local in loop_body, dead outside
    s = s + t
    i = i + 1
return s
``` -/
def loopProg : ABlock :=
  [ .assign {liveIn := ["n"], liveOut := ["n", "s"]} "s" (.const (.int 0)),
    .assign {liveIn := ["n", "s"], liveOut := ["n", "s", "i"]} "i" (.const (.int 0)),
    .whileS {liveIn := ["n", "s", "i"], liveOut := ["s"], definedIn := ["n", "s", "i"],
             declared := ["i", "s"], undefined := ["t"]}
      (.bin .lt (.var "i") (.var "n"))
      [ .assign {liveIn := ["n", "s", "i"], liveOut := ["n", "s", "i", "t"]} "t" (.bin .mul (.var "i") (.const (.int 2))),
        .assign {liveIn := ["n", "s", "i", "t"], liveOut := ["n", "s", "i"]} "s" (.bin .add (.var "s") (.var "t")),
        .assign {liveIn := ["n", "s", "i"], liveOut := ["n", "s", "i"]} "i" (.bin .add (.var "i") (.const (.int 1))) ],
    .ret {liveIn := ["s"], liveOut := []} (some (.var "s")) ]

example : funcHyp ["n"] loopProg [] = true := by decide
example : (execB X0 12 (eraseB loopProg) (st [("n", .int 3)])).map (·.1) = some (.ret (.int 6)) := by decide
example : (execNB X0 14 (funcB loopProg) (TSt.ofSt (st [("n", .int 3)]))).map (·.1) = some (.ret (.int 6)) := by decide
/-- `t` is frame-local to the generated `loop_body`. -/
example : localsOf (funcB [ .assign {} "t" (.const (.int 0)), .assign {} "s" (.var "t") ]) ["i", "s"] = ["t"] := by decide

/-- A branch-local temporary that is not declared, and a variable possibly undefined before the `if`:
```
if c:
    t = c + 1         # local to if_body
    y = t * 2
# y possibly undefined here: `y = ag__.Undefined('y')` is emitted, y is declared
return y
``` -/
def branchProg : ABlock :=
  [ .ifS {liveIn := ["c", "y"], liveOut := ["y"], definedIn := ["c"], declared := ["y"], undefined := ["t", "y"], nouts := 1}
      (.var "c")
      [ .assign {liveIn := ["c"], liveOut := ["t"]} "t" (.bin .add (.var "c") (.const (.int 1))),
        .assign {liveIn := ["t"], liveOut := ["y"]} "y" (.bin .mul (.var "t") (.const (.int 2))) ]
      [ .pass {liveIn := ["y"], liveOut := ["y"]} ],
    .ret {liveIn := ["y"], liveOut := []} (some (.var "y")) ]

example : funcHyp ["c"] branchProg [] = true := by decide
example : (execB X0 6 (eraseB branchProg) (st [("c", .int 4)])).map (·.1) = some (.ret (.int 10)) := by decide
example : (execNB X0 9 (funcB branchProg) (TSt.ofSt (st [("c", .int 4)]))).map (·.1) = some (.ret (.int 10)) := by decide
/-- `c = 0`: the source reads the unbound `y`, the converted code reads the `Undefined` placeholder — the same
NameError-class observation. -/
example : (execB X0 6 (eraseB branchProg) (st [("c", .int 0)])).map (·.1) = some (.exc (.nameError "y")) := by decide
example : (execNB X0 9 (funcB branchProg) (TSt.ofSt (st [("c", .int 0)]))).map (·.1) = some (.exc (.nameError "y")) := by decide

/-- A `for` with an extra loop test (the shape `break` lowering produces) and nested `if`:
```
acc = 0; brk = 0
for x in xs  [extra test: not brk]:
    if x < 0: brk = 1
    else: acc = acc + x
return acc
``` -/
def forProg : ABlock :=
  [ .assign {liveIn := ["xs"], liveOut := ["xs", "acc"]} "acc" (.const (.int 0)),
    .assign {liveIn := ["xs", "acc"], liveOut := ["xs", "acc", "brk"]} "brk" (.const (.int 0)),
    .forS {liveIn := ["xs", "acc", "brk"], liveOut := ["acc"], definedIn := ["xs", "acc", "brk"],
           declared := ["acc", "brk"], undefined := ["x"]}
      "x" (.var "xs") (some (.not (.var "brk")))
      [ .ifS {liveIn := ["xs", "acc", "brk", "x"], liveOut := ["xs", "acc", "brk"], definedIn := ["xs", "acc", "brk", "x"],
              declared := ["acc", "brk"], undefined := [], nouts := 2}
          (.bin .lt (.var "x") (.const (.int 0)))
          [ .assign {liveIn := ["xs", "acc"], liveOut := ["xs", "acc", "brk"]} "brk" (.const (.int 1)) ]
          [ .assign {liveIn := ["xs", "acc", "brk", "x"], liveOut := ["xs", "acc", "brk"]} "acc" (.bin .add (.var "acc") (.var "x")) ] ],
    .ret {liveIn := ["acc"], liveOut := []} (some (.var "acc")) ]

example : funcHyp ["xs"] forProg [] = true := by decide
example : (execB X0 12 (eraseB forProg) (st [("xs", .list [1, 2, -1, 5])])).map (·.1) = some (.ret (.int 3)) := by decide
example : (execNB X0 16 (funcB forProg) (TSt.ofSt (st [("xs", .list [1, 2, -1, 5])]))).map (·.1) = some (.ret (.int 3)) := by decide

/-- Pass-through statements: `with` and `try / except E1 / finally` around functionalised conditionals; an
explicit `raise` inside a generated `if_body` reaches the handler, which reads a variable assigned before the raise
(so that variable is in the conditional's state tuple, not frame-local); the `finally` block reads nothing.
```
r = 0
with cm(7):
    try:
        if c:
            r = c + 1
            raise E1
        r = 5
    except E1:
        if r < 3: r = r * 10
    finally:
        pass
return r
``` -/
def tryProg : ABlock :=
  [ .assign {liveIn := ["c"], liveOut := ["c", "r"]} "r" (.const (.int 0)),
    .withS {liveIn := ["c", "r"], liveOut := ["r"]} 7
      [ .tryS {liveIn := ["c", "r"], liveOut := ["r"]}
          [ .ifS {liveIn := ["c", "r"], liveOut := ["r"], definedIn := ["c", "r"], declared := ["r"], undefined := [], nouts := 1}
              (.var "c")
              [ .assign {liveIn := ["c"], liveOut := ["r"]} "r" (.bin .add (.var "c") (.const (.int 1))),
                .raise {liveIn := ["r"], liveOut := ["r"]} 1 ]
              [ .pass {liveIn := ["r"], liveOut := ["r"]} ],
            .assign {liveIn := [], liveOut := ["r"]} "r" (.const (.int 5)) ]
          [ (1, [ .ifS {liveIn := ["r"], liveOut := ["r"], definedIn := ["c", "r"], declared := ["r"], undefined := [], nouts := 1}
                    (.bin .lt (.var "r") (.const (.int 3)))
                    [ .assign {liveIn := ["r"], liveOut := ["r"]} "r" (.bin .mul (.var "r") (.const (.int 10))) ]
                    [ .pass {liveIn := ["r"], liveOut := ["r"]} ] ]) ]
          [ .pass {liveIn := ["r"], liveOut := ["r"]} ] ],
    .ret {liveIn := ["r"], liveOut := []} (some (.var "r")) ]

example : funcHyp ["c"] tryProg [] = true := by decide
/-- c = 1: the body raises after `r = 2`, the handler makes it 20; c = 0: no raise, 5.  Same on both sides,
including the enter/exit events of the `with`. -/
example : (execB X0 10 (eraseB tryProg) (st [("c", .int 1)])).map (fun r => (r.1, r.2.log)) =
    some (.ret (.int 20), [.enter 7, .exit 7]) := by decide
example : (execNB X0 14 (funcB tryProg) (TSt.ofSt (st [("c", .int 1)]))).map (fun r => (r.1, r.2.log)) =
    some (.ret (.int 20), [.enter 7, .exit 7]) := by decide
example : (execNB X0 14 (funcB tryProg) (TSt.ofSt (st [("c", .int 0)]))).map (·.1) = some (.ret (.int 5)) := by decide

/-- The theorem instantiated: every run of `loopProg` is matched. -/
example (n : Int) (k : Nat) (r : Out × St) (h : execB X0 k (eraseB loopProg) (st [("n", .int n)]) = some r) :
    ∃ m r', execNB X0 m (funcB loopProg) (TSt.ofSt (st [("n", .int n)])) = some r' ∧ (r'.1, r'.2.log) = (r.1, r.2.log) :=
  control_flow_correct_observe X0 loopProg ["n"] (funcHyp_sound _ _ _ (by decide)) _
    (fun y hy => by
      simp only [st, List.find?] at hy
      by_cases hyn : ("n" == y) = true
      · have : y = "n" := by simpa using (beq_iff_eq.mp hyn).symm
        simp [this]
      · simp [hyn] at hy) k r h

/-! ### wrapped functions -/

/-- Shape (a), falling off the end: `def f(a): tr(a)` returns `None` after logging the call. -/
def fallOff : Lowered := .plain [ .expr {liveIn := ["a"], liveOut := []} (.call "tr" [.var "a"]) ]

example : fallOff.wf = true ∧ funcHyp ["a"] fallOff.prog [] = true := by decide
example : (callConverted X0 5 fallOff "f" true (TSt.ofSt (st [("a", .int 4)])) []).map (fun r => (r.1, r.2.1.log, r.2.2)) =
    some (.ret .none, [.call "tr" [.int 4]], []) := by decide

/-- Shape (b), a conditional return: `def f(c): if c: return 7` — lowered
```
do_return = False; retval_ = None
if c:
    do_return = True; retval_ = 7
return retval_
```
and converted (the block inside the `with` is `do_return = False; retval_ = UndefinedReturnValue(); if_stmt(…)`,
followed by `return fscope.ret(retval_, do_return)`). -/
def condRet : Lowered :=
  .rets "do_return" "retval_"
    {liveIn := ["c"], liveOut := ["c", "do_return"]}
    {liveIn := ["c", "do_return"], liveOut := ["c", "do_return", "retval_"]}
    {liveIn := ["do_return", "retval_"], liveOut := []}
    [ .ifS {liveIn := ["c", "do_return", "retval_"], liveOut := ["do_return", "retval_"],
            definedIn := ["c", "do_return", "retval_"], declared := ["do_return", "retval_"], undefined := [], nouts := 2}
        (.var "c")
        [ .assign {liveIn := [], liveOut := ["do_return"]} "do_return" (.const (.int 1)),
          .assign {liveIn := ["do_return"], liveOut := ["do_return", "retval_"]} "retval_" (.const (.int 7)) ]
        [ .pass {liveIn := ["do_return", "retval_"], liveOut := ["do_return", "retval_"]} ] ]

example : condRet.wf = true ∧ funcHyp ["c"] condRet.prog [] = true := by decide
/-- c = 1: both return 7. -/
example : (execB X0 8 (eraseB condRet.prog) (st [("c", .int 1)])).map (·.1) = some (.ret (.int 7)) := by decide
example : (callConverted X0 9 condRet "f" true (TSt.ofSt (st [("c", .int 1)])) [.disabled]).map (fun r => (r.1, r.2.2)) =
    some (.ret (.int 7), [.disabled]) := by decide
/-- c = 0: the source falls through to `return retval_` with `None`; the converted code passes the
`UndefinedReturnValue` placeholder to `fscope.ret`, which gives `None`. -/
example : (execB X0 8 (eraseB condRet.prog) (st [("c", .int 0)])).map (·.1) = some (.ret .none) := by decide
example : (callConverted X0 9 condRet "f" true (TSt.ofSt (st [("c", .int 0)])) []).map (fun r => (r.1, r.2.1.env "retval_")) =
    some (.ret .none, .undef) := by decide

/-- An exception through the `with`: `def f(c): with cm(7): (if c: raise E3); return 1` — the `with cm` exit is logged,
the exception leaves the function, the status stack is restored. -/
def excThrough : Lowered :=
  .rets "do_return" "retval_"
    {liveIn := ["c"], liveOut := ["c", "do_return"]}
    {liveIn := ["c", "do_return"], liveOut := ["c", "do_return", "retval_"]}
    {liveIn := ["do_return", "retval_"], liveOut := []}
    [ .withS {liveIn := ["c"], liveOut := []} 7
        [ .ifS {liveIn := ["c"], liveOut := [], definedIn := ["c", "do_return", "retval_"], declared := [], undefined := [], nouts := 0}
            (.var "c")
            [ .raise {liveIn := [], liveOut := []} 3 ]
            [ .pass {liveIn := [], liveOut := []} ] ],
      .assign {liveIn := [], liveOut := ["do_return"]} "do_return" (.const (.int 1)),
      .assign {liveIn := ["do_return"], liveOut := ["do_return", "retval_"]} "retval_" (.const (.int 1)) ]

example : excThrough.wf = true ∧ funcHyp ["c"] excThrough.prog [] = true := by decide
example : (execB X0 9 (eraseB excThrough.prog) (st [("c", .int 1)])).map (fun r => (r.1, r.2.log)) =
    some (.exc (.user 3), [.enter 7, .exit 7]) := by decide
example : (callConverted X0 10 excThrough "f" true (TSt.ofSt (st [("c", .int 1)])) [.unspecified]).map
      (fun r => (r.1, r.2.1.log, r.2.2)) = some (.exc (.user 3), [.enter 7, .exit 7], [.unspecified]) := by decide
example : (callConverted X0 10 excThrough "f" true (TSt.ofSt (st [("c", .int 0)])) []).map (·.1) = some (.ret (.int 1)) := by decide

/-- The theorem instantiated: every call of the converted `condRet` is matched, for every argument and stack. -/
example (c : Int) (stk : CtxStack) (k : Nat) (o : Out) (σ₁ : St)
    (h : execB X0 k (eraseB condRet.prog) (st [("c", .int c)]) = some (o, σ₁)) :
    ∃ m τ, callConverted X0 m condRet "f" true (TSt.ofSt (st [("c", .int c)])) stk = some (fnOutcome o, τ, stk) ∧
      τ.log = σ₁.log :=
  function_wrapper_correct X0 condRet (by decide) "f" true ["c"] (funcHyp_sound _ _ _ (by decide)) _ _
    (agree_ofSt _ _)
    (fun y hy => by
      simp only [st, List.find?] at hy
      by_cases hyn : ("c" == y) = true
      · have : y = "c" := by simpa using (beq_iff_eq.mp hyn).symm
        simp [this]
      · simp [hyn] at hy) stk k o σ₁ h

/-- The same body from its plain `Malt.Sem` form through `annotL` (the whole-function statement). -/
example : ∃ ann, annotL ann (.rets "do_return" "retval_" (eraseB condRet.inner)) = some condRet :=
  ⟨fun p => match p with
    | [0] => {liveIn := ["c"], liveOut := ["c", "do_return"]}
    | [1] => {liveIn := ["c", "do_return"], liveOut := ["c", "do_return", "retval_"]}
    | [3] => {liveIn := ["do_return", "retval_"], liveOut := []}
    | [2] => {liveIn := ["c", "do_return", "retval_"], liveOut := ["do_return", "retval_"],
              definedIn := ["c", "do_return", "retval_"], declared := ["do_return", "retval_"], undefined := [], nouts := 2}
    | [2, 0, 0] => {liveIn := [], liveOut := ["do_return"]}
    | [2, 0, 1] => {liveIn := ["do_return"], liveOut := ["do_return", "retval_"]}
    | [2, 1, 0] => {liveIn := ["do_return", "retval_"], liveOut := ["do_return", "retval_"]}
    | _ => {}, rfl⟩

end Examples

/-! ## The hypotheses are needed (Lean-checked counterexamples; both shapes fail on the pinned tree) -/
namespace Counter
open Examples

/-- (a) `for` target live across a zero-trip loop, **with the annotations the pinned tree computes**
(`liveness.py` kills the target in the loop header also on the exit edge, so `i ∉ liveIn(for) = liveOut(if)`):
```
if c: i = 5
else: i = 6
for i in xs: pass
return i
``` -/
def zeroTrip : ABlock :=
  [ .ifS {liveIn := ["c", "xs"], liveOut := ["xs"], definedIn := ["c", "xs"], declared := [], undefined := ["i"], nouts := 0}
      (.var "c")
      [ .assign {liveIn := ["xs"], liveOut := ["xs"]} "i" (.const (.int 5)) ]
      [ .assign {liveIn := ["xs"], liveOut := ["xs"]} "i" (.const (.int 6)) ],
    .forS {liveIn := ["xs"], liveOut := ["i"], definedIn := ["c", "xs", "i"], declared := ["i"], undefined := []}
      "i" (.var "xs") none
      [ .pass {liveIn := ["xs"], liveOut := ["xs"]} ],
    .ret {liveIn := ["i"], liveOut := []} (some (.var "i")) ]

def zeroTripIn : St := st [("c", .int 1), ("xs", .list [])]

/-- `declared`/`undefined` are exactly what `_get_block_vars` makes of that liveness; definedness and
jump-freeness hold; only `LiveConsistent` fails — at `liveIn(for) ⊇ liveOut(for)`. -/
example : declB zeroTrip = true ∧ defB ["c", "xs"] zeroTrip = true ∧ retTopB zeroTrip = true ∧
    liveConsistent zeroTrip [] = false := by decide

theorem zeroTrip_source : (execB X0 6 (eraseB zeroTrip) zeroTripIn).map (·.1) = some (.ret (.int 5)) := by decide
theorem zeroTrip_target : (execNB X0 8 (funcB zeroTrip) (TSt.ofSt zeroTripIn)).map (·.1) = some (.exc (.nameError "i")) := by
  decide

/-- `control_flow_correct` without `LiveConsistent` is false (zero-trip `for` target). -/
theorem live_consistent_needed :
    ¬ (∀ (X : Ext) (p : ABlock) (D O : List Name), DeclB p → DefB D p → retTopB p = true →
        ∀ (σ : St) (σ' : TSt), Agree (blockIn p O) σ σ' → BoundSub σ D →
        ∀ (n : Nat) (o : Out) (σ₁ : St), execB X n (eraseB p) σ = some (o, σ₁) →
        ∃ m σ₁', execNB X m (funcB p) σ' = some (o, σ₁')) := by
  intro H
  have hs := zeroTrip_source
  have ht := zeroTrip_target
  cases hsrc : execB X0 6 (eraseB zeroTrip) zeroTripIn with
  | none => rw [hsrc] at hs; simp at hs
  | some r =>
    obtain ⟨o, σ₁⟩ := r
    rw [hsrc] at hs; simp at hs; subst hs
    cases htgt : execNB X0 8 (funcB zeroTrip) (TSt.ofSt zeroTripIn) with
    | none => rw [htgt] at ht; simp at ht
    | some r' =>
      obtain ⟨o', τ⟩ := r'
      rw [htgt] at ht; simp at ht; subst ht
      obtain ⟨m, σ₁', hm⟩ := H X0 zeroTrip ["c", "xs"] [] (declB_sound _ (by decide)) (defB_sound _ _ (by decide)) (by decide)
        zeroTripIn (TSt.ofSt zeroTripIn) (agree_ofSt _ _)
        (fun y hy => by
          simp only [zeroTripIn, st, List.find?] at hy
          by_cases h1 : ("c" == y) = true
          · have : y = "c" := by simpa using (beq_iff_eq.mp h1).symm
            simp [this]
          · by_cases h2 : ("xs" == y) = true
            · have : y = "xs" := by simpa using (beq_iff_eq.mp h2).symm
              simp [this]
            · simp [h1, h2] at hy)
        6 _ σ₁ hsrc
      have := execNB_det X0 hm htgt
      simp at this

/-- (b) a read that the liveness annotation does not see: the model under an annotation that LACKS the closure term.
Before /repo commit ccf3d44 this was what `liveness.py` computed for a closure `g` that declares `nonlocal x`
(`x = x + 1; return x`) called after the conditional: `fn_scope.read - fn_scope.bound` dropped `x`, so `x = 10` was a
dead store for the analysis and `x` was left out of the `nonlocal` list of `if_body` (11 in the original, 1 converted —
reproduced on the real code at the time; fixed since, the witness is in corpus/C02 and passes).  The statement below
remains a fact about the model: *given* such an annotation (the closure call is written inline, `x = x + 1; y = x`,
annotated as not reading `x`), `DeclB`/`DefB` hold, `LiveConsistent` fails, and the results differ.
```
x = 0
if c: x = 10
y = g()            # inline: x = x + 1; y = x      — annotated as not reading x
return y
``` -/
def closureRead : ABlock :=
  [ .assign {liveIn := ["c"], liveOut := ["c"]} "x" (.const (.int 0)),
    .ifS {liveIn := ["c"], liveOut := [], definedIn := ["c", "x"], declared := [], undefined := [], nouts := 0}
      (.var "c")
      [ .assign {liveIn := [], liveOut := []} "x" (.const (.int 10)) ]
      [ .pass {liveIn := [], liveOut := []} ],
    .assign {liveIn := [], liveOut := []} "x" (.bin .add (.var "x") (.const (.int 1))),
    .assign {liveIn := [], liveOut := ["y"]} "y" (.var "x"),
    .ret {liveIn := ["y"], liveOut := []} (some (.var "y")) ]

example : declB closureRead = true ∧ defB ["c"] closureRead = true ∧ retTopB closureRead = true ∧
    liveConsistent closureRead [] = false := by decide
/-- 11 in the original, 1 in the converted function — the values the probe showed before ccf3d44. -/
theorem closureRead_source : (execB X0 7 (eraseB closureRead) (st [("c", .int 1)])).map (·.1) = some (.ret (.int 11)) := by decide
theorem closureRead_target : (execNB X0 9 (funcB closureRead) (TSt.ofSt (st [("c", .int 1)]))).map (·.1) = some (.ret (.int 1)) := by
  decide

/-- (c) with a *consistent* liveness, leaving a live-out variable out of `declared` changes the result:
`DeclB` is needed.
```
x = 1
if c: x = 2        # declared = []  (should be [x])
return x
``` -/
def missingDecl : ABlock :=
  [ .assign {liveIn := ["c"], liveOut := ["c", "x"]} "x" (.const (.int 1)),
    .ifS {liveIn := ["c", "x"], liveOut := ["x"], definedIn := ["c", "x"], declared := [], undefined := [], nouts := 0}
      (.var "c")
      [ .assign {liveIn := [], liveOut := ["x"]} "x" (.const (.int 2)) ]
      [ .pass {liveIn := ["x"], liveOut := ["x"]} ],
    .ret {liveIn := ["x"], liveOut := []} (some (.var "x")) ]

example : liveConsistent missingDecl [] = true ∧ defB ["c"] missingDecl = true ∧ retTopB missingDecl = true ∧
    declB missingDecl = false := by decide
theorem missingDecl_source : (execB X0 6 (eraseB missingDecl) (st [("c", .int 1)])).map (·.1) = some (.ret (.int 2)) := by decide
theorem missingDecl_target : (execNB X0 8 (funcB missingDecl) (TSt.ofSt (st [("c", .int 1)]))).map (·.1) = some (.ret (.int 1)) := by
  decide

/-- `control_flow_correct` without the `declared ⊇ modified ∩ (liveIn ∪ liveOut)` inclusion is false. -/
theorem declared_needed :
    ¬ (∀ (X : Ext) (p : ABlock) (D O : List Name), LiveConsistent p O → DefB D p → retTopB p = true →
        ∀ (σ : St) (σ' : TSt), Agree (blockIn p O) σ σ' → BoundSub σ D →
        ∀ (n : Nat) (o : Out) (σ₁ : St), execB X n (eraseB p) σ = some (o, σ₁) →
        ∃ m σ₁', execNB X m (funcB p) σ' = some (o, σ₁')) := by
  intro H
  have hs := missingDecl_source
  have ht := missingDecl_target
  cases hsrc : execB X0 6 (eraseB missingDecl) (st [("c", .int 1)]) with
  | none => rw [hsrc] at hs; simp at hs
  | some r =>
    obtain ⟨o, σ₁⟩ := r
    rw [hsrc] at hs; simp at hs; subst hs
    cases htgt : execNB X0 8 (funcB missingDecl) (TSt.ofSt (st [("c", .int 1)])) with
    | none => rw [htgt] at ht; simp at ht
    | some r' =>
      obtain ⟨o', τ⟩ := r'
      rw [htgt] at ht; simp at ht; subst ht
      obtain ⟨m, σ₁', hm⟩ := H X0 missingDecl ["c"] [] (liveConsistent_sound _ _ (by decide)) (defB_sound _ _ (by decide)) (by decide)
        (st [("c", .int 1)]) (TSt.ofSt (st [("c", .int 1)])) (agree_ofSt _ _)
        (fun y hy => by
          simp only [st, List.find?] at hy
          by_cases h1 : ("c" == y) = true
          · have : y = "c" := by simpa using (beq_iff_eq.mp h1).symm
            simp [this]
          · simp [h1] at hy)
        6 _ σ₁ hsrc
      have := execNB_det X0 hm htgt
      simp at this

/-- (d) a `finally` block that reads a variable the `try` body assigns inside a conditional: an *implicit*
exception raised before the assignment (here: the unbound `u` in the test) runs the `finally` block in a state the
liveness annotation does not describe ("the CFG does not wire raise to finally") — `LiveConsistent` rejects the
annotation (`K.other ⊆ liveIn` fails at the `if`), and indeed the results differ: the original reads the caller-visible
`y = 1` in `finally`, the converted code …also does here; the point of the example is only that the checker
refuses it, as the property text exempts such programs. -/
def finallyReads : ABlock :=
  [ .assign {liveIn := [], liveOut := ["u"]} "y" (.const (.int 1)),
    .tryS {liveIn := ["u"], liveOut := []}
      [ .ifS {liveIn := ["u"], liveOut := ["y"], definedIn := ["y"], declared := ["y"], undefined := [], nouts := 1}
          (.var "u")
          [ .assign {liveIn := [], liveOut := ["y"]} "y" (.const (.int 2)) ]
          [ .assign {liveIn := [], liveOut := ["y"]} "y" (.const (.int 3)) ] ]
      []
      [ .expr {liveIn := ["y"], liveOut := []} (.var "y") ] ]

example : liveConsistent finallyReads [] = false := by decide

end Counter
end Malt.Func
