import MaltModel.Proofs.C14Table
import MaltModel.Proofs.C14Frames
/-!
# C14 — builtin overloads behave like the builtins on ordinary Python values

Property theorems only.  Model: `MaltModel/Rt/Builtins.lean`; the overload and helper parameter
lists, their forwarding calls and `UNSPECIFIED` tests, `SUPPORTED_BUILTINS`, `BUILTIN_FUNCTIONS_MAP`,
the `innermost=` arguments of the frame search and the `eval` argument tuple are
`Generated/Builtins.lean`, re-extracted from `/repo/malt/operators/py_builtins.py` and
`/repo/malt/impl/api.py` on every run, so every theorem below is re-checked against what the code
says now.  The builtin side (`specTable`) is the library reference, cross-checked at run time.

What the pinned code falsifies (kept as comments with Lean-checked counterexamples):
* `eval`/`locals` inside a functionalised loop/branch body resolve to the body's frame;
* `eval(src, g)` gets the frame's locals instead of `g`; `eval(src, None, …)` gets py_builtins' globals.
-/
namespace Malt.Builtins
open Malt.Gen.Builtins

variable {α : Type} [DecidableEq α]

/-! ## Call binding -/

omit [DecidableEq α] in
/-- `bind` succeeds exactly on the calls that satisfy the declarative acceptance condition, and
then binds every parameter as `envOf` says. -/
theorem C14_bind_ok_iff (sig : Signature) (c : CallShape α) (env : Env α) :
    bind sig c = .ok env ↔ (accepts sig c = true ∧ env = envOf sig c) := bind_ok_iff

omit [DecidableEq α] in
/-- The error scan in CPython's order (keywords left to right, then too many positionals, then
missing parameters) finds an error exactly when the call is not accepted, and it is that error
`bind` reports. -/
theorem C14_bind_error_iff (sig : Signature) (c : CallShape α) :
    (firstErr sig c = none ↔ accepts sig c = true) ∧
    (∀ e, bind sig c = .error e → firstErr sig c = some e) :=
  ⟨firstErr_none_iff sig c, bind_error_is_firstErr sig c⟩

omit [DecidableEq α] in
/-- The order in which keywords are written is irrelevant: a signature without `**kwargs` accepts a
call under every permutation of its keywords or under none, and binds the same values. -/
theorem C14_bind_keyword_order (sig : Signature) (hv : hasVarKw sig = false) (pos : List (Val α))
    (kw kw' : List (String × Val α)) (h : kw.Perm kw') (env : Env α) :
    bind sig ⟨pos, kw⟩ = .ok env ↔ bind sig ⟨pos, kw'⟩ = .ok env := by
  rw [bind_ok_iff, bind_ok_iff, accepts_kw_perm sig pos h]
  constructor
  · rintro ⟨ha, he⟩
    have hn : keysNodup kw = true := by
      rw [← accepts_kw_perm sig pos h] at ha
      exact (accepts_parts ha).2.1
    exact ⟨ha, by rw [he, envOf_kw_perm sig hv pos h hn]⟩
  · rintro ⟨ha, he⟩
    have hn : keysNodup kw = true := by
      rw [← accepts_kw_perm sig pos h] at ha
      exact (accepts_parts ha).2.1
    exact ⟨ha, by rw [he, envOf_kw_perm sig hv pos h hn]⟩

example : bind [⟨"iterable", .posOnly, none⟩, ⟨"key", .kwOnly, some "None"⟩, ⟨"reverse", .kwOnly, some "False"⟩]
      (⟨[.arg 1], [("reverse", .arg 2), ("key", .arg 3)]⟩ : CallShape Nat)
    = bind [⟨"iterable", .posOnly, none⟩, ⟨"key", .kwOnly, some "None"⟩, ⟨"reverse", .kwOnly, some "False"⟩]
      ⟨[.arg 1], [("key", .arg 3), ("reverse", .arg 2)]⟩ := rfl

example : bind [⟨"a", .posOnly, none⟩, ⟨"b", .posOrKw, some "1"⟩, ⟨"r", .varPos, none⟩, ⟨"k", .kwOnly, none⟩]
    (⟨[.arg 1, .arg 2, .arg 3], [("k", .arg 4)]⟩ : CallShape Nat)
    = .ok [("a", .val (.arg 1)), ("b", .val (.arg 2)), ("r", .star [.arg 3]), ("k", .val (.arg 4))] := rfl
example : bind [⟨"a", .posOnly, none⟩, ⟨"b", .posOrKw, some "1"⟩]
    (⟨[.arg 1, .arg 2], [("b", .arg 4)]⟩ : CallShape Nat) = .error (.multipleValues "b") := rfl
example : bind [⟨"a", .posOnly, none⟩] (⟨[], [("a", .arg 4)]⟩ : CallShape Nat) = .error .posOnlyAsKeyword := rfl

/-! ## Forwarding preserves the builtin's binding

(Until /repo commit 295ca80 the overload of `enumerate` named its first parameter `s`, and the
statement carried the hypothesis "not `enumerate` called with keyword `iterable`"; the fix removed
the need for it, and the former counterexample is now a positive example below.) -/

/-- For every substituted builtin, every documented form of its signature and EVERY call shape
(any number of positionals, any keywords) that the form accepts, the overload accepts the call, the
call that reaches the real builtin is accepted by the same form, and the builtin's parameters are
bound to the same argument values (`zip`'s `strict` up to its truth value, which is all `zip` reads).
`_partial` only because of `userShape`: user code cannot name the `UNSPECIFIED` sentinel (without it
the statement is false, see the `range(1, UNSPECIFIED)` example below). -/
theorem C14_forward_partial (truthy : α → Bool) (b : String) (hb : b ∈ supportedBuiltins)
    (form : Signature) (hf : form ∈ spec b) (c : CallShape α) (hu : userShape c = true)
    (env : Env α) (hacc : bind form c = .ok env) :
    ∃ r env', forward truthy b c = .ok r ∧ r.callee = b ∧ bind form r.call = .ok env' ∧
      envEquiv truthy b env env' = true := by
  obtain ⟨ha, rfl⟩ := bind_ok hacc
  suffices h : Preserved truthy b form c by
    obtain ⟨r, h1, h2, h3, h4⟩ := h
    exact ⟨r, _, h1, h2, bind_of_accepts h3, h4⟩
  simp only [supportedBuiltins, List.mem_cons, List.not_mem_nil, or_false] at hb
  rcases hb with rfl | rfl | rfl | rfl | rfl | rfl | rfl | rfl | rfl | rfl | rfl | rfl | rfl
  all_goals simp [spec, specTable, List.lookup] at hf
  · subst hf; exact preserved_abs truthy c ha
  · subst hf; exact preserved_float truthy c ha
  · rcases hf with rfl | rfl
    · exact preserved_int1 truthy c ha
    · exact preserved_int2 truthy c hu ha
  · subst hf; exact preserved_len truthy c ha
  · subst hf; exact preserved_print truthy c ha
  · rcases hf with rfl | rfl
    · exact preserved_range1 truthy c ha
    · exact preserved_range2 truthy c hu ha
  · subst hf
    exact preserved_enumerate truthy c ha
  · subst hf; exact preserved_zip truthy c hu ha
  · subst hf; exact preserved_map truthy c ha
  · subst hf; exact preserved_filter truthy c ha
  · subst hf; exact preserved_any truthy c ha
  · subst hf; exact preserved_all truthy c ha
  · subst hf; exact preserved_sorted truthy c hu ha

/-- Non-vacuity: `sorted(xs, reverse=r, key=k)` reaches `sorted(xs, key=k, reverse=r)`. -/
example : forward (fun _ : Nat => true) "sorted" ⟨[.arg 1], [("reverse", .arg 2), ("key", .arg 3)]⟩
    = .ok ⟨"sorted", ⟨[.arg 1], [("key", .arg 3), ("reverse", .arg 2)]⟩, true⟩ := rfl
example : forward (fun _ : Nat => true) "int" ⟨[.arg 1], [("base", .arg 2)]⟩
    = .ok ⟨"int", ⟨[.arg 1, .arg 2], []⟩, true⟩ := rfl
example : forward (fun _ : Nat => true) "range" ⟨[.arg 1, .arg 2], []⟩
    = .ok ⟨"range", ⟨[.arg 1, .arg 2], []⟩, true⟩ := rfl
example : forward (fun n : Nat => n != 0) "zip" ⟨[.arg 1, .arg 2], [("strict", .arg 7)]⟩
    = .ok ⟨"zip", ⟨[.arg 1, .arg 2], [("strict", .const "True")]⟩, true⟩ := rfl
example : forward (fun n : Nat => n != 0) "zip" ⟨[.arg 1, .arg 2], [("strict", .arg 0)]⟩
    = .ok ⟨"zip", ⟨[.arg 1, .arg 2], []⟩, true⟩ := rfl

/-- Remark (outside the property, which quantifies over calls the builtin accepts): the overloads are
more permissive than the builtins — `abs(x=v)` and `sorted(xs, k, r)` are TypeErrors for the builtin
but go through the overload. -/
example : (∀ form ∈ spec "abs", accepts form (⟨[], [("x", .arg 1)]⟩ : CallShape Nat) = false) ∧
    forward (fun _ : Nat => true) "abs" ⟨[], [("x", .arg 1)]⟩ = .ok ⟨"abs", ⟨[.arg 1], []⟩, true⟩ := by
  refine ⟨by decide, rfl⟩
example : (∀ form ∈ spec "sorted", accepts form (⟨[.arg 1, .arg 2, .arg 3], []⟩ : CallShape Nat) = false) ∧
    forward (fun _ : Nat => true) "sorted" ⟨[.arg 1, .arg 2, .arg 3], []⟩
      = .ok ⟨"sorted", ⟨[.arg 1], [("key", .arg 2), ("reverse", .arg 3)]⟩, true⟩ := by
  refine ⟨by decide, rfl⟩

/-- The former witness of the `enumerate` finding (fixed by 295ca80) is now a positive example:
`enumerate(iterable=xs, start=n)` and `enumerate(start=n, iterable=xs)` reach `enumerate(xs, n)`. -/
example : forward (fun _ : Nat => true) "enumerate" ⟨[], [("iterable", .arg 7), ("start", .arg 1)]⟩
    = .ok ⟨"enumerate", ⟨[.arg 7, .arg 1], []⟩, true⟩ := rfl
example : forward (fun _ : Nat => true) "enumerate" ⟨[], [("start", .arg 1), ("iterable", .arg 7)]⟩
    = .ok ⟨"enumerate", ⟨[.arg 7, .arg 1], []⟩, true⟩ := rfl
example : forward (fun _ : Nat => true) "enumerate" ⟨[], [("iterable", .arg 7)]⟩
    = .ok ⟨"enumerate", ⟨[.arg 7, .const "0"], []⟩, true⟩ := rfl

/-! ## Same outcome: value, lazy object, output, exception -/

/-- Accepted calls never fail inside the library: any exception the caller sees is raised by the
real builtin on the forwarded (equivalent) arguments — hence has the builtin's own type. -/
theorem C14_errors_partial (truthy : α → Bool) (b : String) (hb : b ∈ supportedBuiltins)
    (form : Signature) (hf : form ∈ spec b) (c : CallShape α) (hu : userShape c = true)
    (hacc : accepts form c = true) :
    ∀ e, forward truthy b c ≠ .error e := by
  intro e he
  obtain ⟨r, _, h1, _⟩ := C14_forward_partial truthy b hb form hf c hu _ (bind_of_accepts hacc)
  rw [he] at h1; cases h1

/-- For ANY behaviour `sem` of the real builtins that depends only on how their parameters are
bound (up to what the builtin can observe), calling the substitute gives the same outcome as
calling the builtin: same value / lazy object / output / exception. -/
theorem C14_same_outcome_partial {Out : Type} (truthy : α → Bool) (sem : String → Env α → Out)
    (typeError : Out) (raise : FwdErr → Out)
    (hsem : ∀ b e e', envEquiv truthy b e e' = true → sem b e = sem b e')
    (b : String) (hb : b ∈ supportedBuiltins) (form : Signature) (hf : form ∈ spec b)
    (c : CallShape α) (hu : userShape c = true) (hacc : accepts form c = true) :
    runOverload truthy sem typeError raise b form c = runBuiltin (sem b) typeError form c := by
  obtain ⟨r, env', h1, h2, h3, h4⟩ :=
    C14_forward_partial truthy b hb form hf c hu _ (bind_of_accepts hacc)
  simp only [runOverload, runBuiltin, h1, h2, h3, bind_of_accepts hacc]
  exact (hsem b _ _ h4).symm

/-- The hypotheses are satisfiable non-trivially: a `sem` that reports which builtin ran. -/
example : runOverload (fun _ : Nat => true) (fun b _ => b) "TypeError" (fun _ => "library error") "sorted"
      [⟨"iterable", .posOnly, none⟩, ⟨"key", .kwOnly, some "None"⟩, ⟨"reverse", .kwOnly, some "False"⟩]
      ⟨[.arg 1], [("reverse", .arg 2)]⟩ = "sorted" := rfl
/-- Why `userShape` is assumed: if user code could pass the sentinel, `range(1, UNSPECIFIED)` would
silently become `range(1)`. -/
example : forward (fun _ : Nat => true) "range" ⟨[.arg 1, .const "UNSPECIFIED"], []⟩
    = .ok ⟨"range", ⟨[.arg 1], []⟩, true⟩ := rfl

omit [DecidableEq α] in
/-- A builtin that is not substituted is called as is. -/
theorem C14_unsubstituted_identity (truthy : α → Bool) (b : String) (hb : b ∉ supportedBuiltins)
    (c : CallShape α) : forward truthy b c = .ok ⟨b, c, true⟩ := by
  have : supportedBuiltins.contains b = false := by
    cases h : supportedBuiltins.contains b with
    | false => rfl
    | true => exact absurd (List.contains_iff_mem.mp h) hb
  simp [forward, overloadName, hb]

example : forward (fun _ : Nat => true) "next" ⟨[.arg 1], []⟩ = .ok ⟨"next", ⟨[.arg 1], []⟩, true⟩ := rfl

/-- The substitution tables are closed: every supported builtin has a table entry, the entry names
a defined overload, the overload forwards to a defined helper, and every branch of that helper
calls the builtin itself and returns its result (`print`'s helper drops `print`'s `None`). -/
theorem C14_tables_closed (b : String) (hb : b ∈ supportedBuiltins) :
    ∃ on ov h, overloadName b = some on ∧ findOverload on = some ov ∧
      findHelper ov.call.callee = some h ∧ h.branches ≠ [] ∧
      ∀ br ∈ h.branches, br.call.callee = b ∧
        ((ov.ret == .value && br.ret == .value) = true ∨ b = "print") :=
  closedFor_elim (closedFor_all b hb)

/-! ## The forwarding theorem over the whole extracted table

Stated once over `BUILTIN_FUNCTIONS_MAP` as extracted (`mappedBuiltins`, 14 entries: the 13 supported
builtins and `next`, which is mapped but not in `SUPPORTED_BUILTINS`) and over registries that may
have entries (`staged`).  Adding a map entry without a specification row, or one whose overload,
helper or registry dispatch is not as required, breaks `C14_table_rows` and this theorem.

What remains outside (`_partial`), each with its reason:
* `userShape` — an argument that IS the `UNSPECIFIED` sentinel (false without it: `range(1, UNSPECIFIED)`);
* `unstaged` — an argument that is an instance of a type registered in the overload's registry: the
  override is called instead (by design; `C14_staged_goes_to_override` shows the dispatch);
* call shapes the builtin's own signature rejects (outside the property; positional ones are
  covered by `C14_arity_errors_partial`, keyword ones only by the remark that overloads are more permissive);
* exceptions raised while evaluating `bool(strict)` (truth value modelled total);
* the checks `converted_call` makes before its builtin branch (allowlist cache, disabled context,
  `functools.partial` unwrapping) — property C13.

Full statement (FALSE without the two hypotheses): the same conclusion for every `c` accepted by `form`. -/

/-- Every key of `BUILTIN_FUNCTIONS_MAP` and every member of `SUPPORTED_BUILTINS` has a complete row:
a specification, a defined overload with a well-formed registry dispatch, a defined helper all of
whose branches call that builtin and return its result, no truth test other than `_py_zip`'s. -/
theorem C14_table_rows (b : String) (hb : b ∈ mappedBuiltins ++ supportedBuiltins) :
    ∃ on ov hl, builtinFunctionsMap.lookup b = some on ∧ findOverload on = some ov ∧
      dispatchWellFormed ov = true ∧ spec b ≠ [] ∧ findHelper ov.call.callee = some hl ∧
      ∀ br ∈ hl.branches, br.call.callee = b ∧
        ((ov.ret == .value && br.ret == .value) = true ∨ b = "print") ∧
        (∀ g ∈ br.guards, ∀ p, g = .truthy p → hl.name = "_py_zip" ∧ p = "strict") :=
  rowOk_elim (rowOk_all b hb)

/-- For every entry of the extracted map, every documented form and EVERY call shape the form
accepts, with no staged argument: the substitute binds the call, dispatches to its `_py_*`
implementation, the builtin it reaches is `b` itself and its result is returned as is, the builtin's
parameters are bound to the same argument values (positional-only / keyword names / defaults as
documented), and every value that reaches the builtin is one of the caller's values passed on
untouched or a literal of the library source (no extra evaluation). -/
theorem C14_forward_table_partial (staged : Staging α) (truthy : α → Bool) (b : String)
    (hb : b ∈ mappedBuiltins) (form : Signature) (hf : form ∈ spec b) (c : CallShape α)
    (hu : userShape c = true) (hst : unstaged staged c) (env : Env α) (hacc : bind form c = .ok env) :
    ∃ r env', callMappedS staged truthy b c = .ok (.py r) ∧ r.callee = b ∧
      (r.tail = true ∨ b = "print") ∧ bind form r.call = .ok env' ∧
      envEquiv truthy b env env' = true ∧
      (∀ v ∈ valuesOf r.call, v ∈ valuesOf c ∨ isConst v = true) := by
  obtain ⟨on, ov, hl, h1, h2, hw, _, h3, hbr⟩ := C14_table_rows b (List.mem_append_left _ hb)
  have hpm : PreservedM truthy b form c := by
    obtain ⟨ha, rfl⟩ := bind_ok hacc
    have hsup : b ∈ supportedBuiltins → PreservedM truthy b form c := by
      intro hs
      obtain ⟨r, env', e1, e2, e3, e4⟩ := C14_forward_partial truthy b hs form hf c hu _ (bind_of_accepts ha)
      exact preservedM_of_preserved truthy b hs form c ⟨r, e1, e2, (bind_ok e3).1, by rw [(bind_ok e3).2] at e4; exact e4⟩
    simp only [mappedBuiltins, builtinFunctionsMap, List.map_cons, List.map_nil, List.mem_cons, List.not_mem_nil,
      or_false] at hb
    rcases hb with rfl | rfl | rfl | rfl | rfl | rfl | rfl | rfl | rfl | rfl | rfl | rfl | rfl | rfl
    case inr.inr.inr.inr.inr.inr.inr.inr.inr.inl =>
      simp [spec, specTable, List.lookup] at hf
      rcases hf with rfl | rfl
      · exact preservedM_next1 truthy c ha
      · exact preservedM_next2 truthy c hu ha
    all_goals exact hsup (by decide)
  obtain ⟨r, e1, e2, e3, e4⟩ := hpm
  obtain ⟨_, rfl⟩ := bind_ok hacc
  rw [callMapped_unfold truthy b on ov c h1 h2] at e1
  obtain ⟨_, _, hl', _, br, _, _, _, hh, _, hpick, _, _, ht⟩ := callOverload_inv truthy ov c r e1
  rw [h3] at hh; injection hh with hh; subst hh
  refine ⟨r, _, ?_, e2, ?_, bind_of_accepts e3, e4, callOverload_provenance truthy ov c r e1⟩
  · rw [callMappedS_unfold staged truthy b on ov c h1 h2, callOverloadS_unstaged staged truthy ov c hw hst, e1]
    rfl
  · rw [ht]; exact (hbr br (pickBranch_mem truthy _ _ _ hpick)).2.1

/-- Non-vacuity: `next(it, d)` through the table entry, registries arbitrary, nothing staged. -/
example : callMappedS (fun _ _ => none) (fun _ : Nat => true) "next" ⟨[.arg 1, .arg 2], []⟩
    = .ok (.py ⟨"next", ⟨[.arg 1, .arg 2], []⟩, true⟩) := rfl
example : callMappedS (fun _ _ => none) (fun _ : Nat => true) "next" ⟨[.arg 1], []⟩
    = .ok (.py ⟨"next", ⟨[.arg 1], []⟩, true⟩) := rfl

/-- The dispatch when an argument IS staged (why `unstaged` is assumed): `abs(x)` with `x` of a
registered type calls the override with `x`; `zip(a, b)` calls an override only if both are staged
with the same one; `print(a, b)` takes the first staged object's. -/
theorem C14_staged_goes_to_override :
    callMappedS (fun reg a => if reg = "abs_registry" ∧ a = 7 then some 1 else none) (fun _ : Nat => true)
      "abs" ⟨[.arg 7], []⟩ = .ok (.override 1 ⟨[.arg 7], []⟩) ∧
    callMappedS (fun reg a => if reg = "zip_registry" then some a else none) (fun _ : Nat => true)
      "zip" ⟨[.arg 3, .arg 3], []⟩ = .ok (.override 3 ⟨[.arg 3, .arg 3], [("strict", .const "False")]⟩) ∧
    callMappedS (fun reg a => if reg = "zip_registry" then some a else none) (fun _ : Nat => true)
      "zip" ⟨[.arg 3, .arg 4], []⟩ = .ok (.py ⟨"zip", ⟨[.arg 3, .arg 4], []⟩, true⟩) ∧
    callMappedS (fun reg a => if reg = "print_registry" ∧ a = 9 then some 2 else none) (fun _ : Nat => true)
      "print" ⟨[.arg 1, .arg 9], [("sep", .arg 5)]⟩ = .ok (.override 2 ⟨[.arg 1, .arg 9], [("sep", .arg 5)]⟩) :=
  ⟨rfl, rfl, rfl, rfl⟩

/-! ### Registries are independent

`registryFreshPerInstance` is read by the translator from `malt/utils/type_registry.py`
(`__init__(self)` binds `self._registry = {}`; no class-level or module-level state); each
`X_registry = type_registry.TypeRegistry()` in py_builtins.py is a separate construction. -/

/-- The extracted registry table: construction is per instance, the registry names are distinct,
every overload consults a declared registry and no two overloads consult the same one. -/
theorem C14_registry_table : registryTableOk = true := by decide

omit [DecidableEq α] in
/-- Registering an override for a type in registry `reg₁` does not change the dispatch, hence the
whole behaviour, of any overload that consults a different registry (or none) — for every type
test, every prior registry contents, every call. -/
theorem C14_registries_independent (isInst : α → Nat → Bool) (st : RegState) (reg₁ : String) (t o : Nat)
    (truthy : α → Bool) (ov : Overload) (hne : dispatchReg ov ≠ some reg₁) (c : CallShape α) :
    (∀ env : Env α, dispatchOf (stagingOf isInst (register st reg₁ t o)) ov env = dispatchOf (stagingOf isInst st) ov env) ∧
    callOverloadS (stagingOf isInst (register st reg₁ t o)) truthy ov c = callOverloadS (stagingOf isInst st) truthy ov c := by
  have key : ∀ r, dispatchReg ov = some r → ∀ a,
      stagingOf isInst (register st reg₁ t o) r a = stagingOf isInst st r a := by
    intro r hr a
    have : r ≠ reg₁ := fun e => hne (by rw [hr, e])
    simp [stagingOf, register, this]
  exact ⟨fun env => dispatchOf_congr _ _ ov env key, callOverloadS_congr _ _ truthy ov c key⟩

/-- Non-vacuity, on the extracted table: after `len_registry.register(T, o)`, `abs(v)` for `v : T`
still takes the default path to `abs`, while `len(v)` goes to the override. -/
example :
    let st := register (fun _ => []) "len_registry" 5 1
    let stg : Staging Nat := stagingOf (fun a t => a == t) st
    callMappedS stg (fun _ => true) "abs" ⟨[.arg 5], []⟩ = .ok (.py ⟨"abs", ⟨[.arg 5], []⟩, true⟩) ∧
    callMappedS stg (fun _ => true) "len" ⟨[.arg 5], []⟩ = .ok (.override 1 ⟨[.arg 5], []⟩) ∧
    callMappedS stg (fun _ => true) "sorted" ⟨[.arg 5], []⟩ = .ok (.py ⟨"sorted", ⟨[.arg 5], []⟩, true⟩) :=
  ⟨rfl, rfl, rfl⟩

omit [DecidableEq α] in
/-- No extra evaluation, any arguments at all (accepted or not, staged or not): if an overload of the
table reaches its builtin, every value it hands over is one of the caller's own argument values or
a literal; and the only argument whose truth value the library tests is `zip`'s `strict`. -/
theorem C14_no_extra_evaluation (truthy : α → Bool) (b : String) (hb : b ∈ mappedBuiltins)
    (c : CallShape α) (r : Fwd α) (h : callMapped truthy b c = .ok r) :
    (∀ v ∈ valuesOf r.call, v ∈ valuesOf c ∨ isConst v = true) ∧
    ∃ on ov hl, builtinFunctionsMap.lookup b = some on ∧ findOverload on = some ov ∧
      findHelper ov.call.callee = some hl ∧
      (∀ env1 : Env α, ∀ v ∈ truthTested truthy env1 hl.branches, v ∈ envVals env1) ∧
      (∀ br ∈ hl.branches, ∀ g ∈ br.guards, ∀ p, g = .truthy p → hl.name = "_py_zip" ∧ p = "strict") := by
  obtain ⟨on, ov, hl, h1, h2, _, _, h3, hbr⟩ := C14_table_rows b (List.mem_append_left _ hb)
  rw [callMapped_unfold truthy b on ov c h1 h2] at h
  exact ⟨callOverload_provenance truthy ov c r h, on, ov, hl, h1, h2, h3,
    fun env1 => truthTested_vals truthy env1 hl.branches,
    fun br hb' g hg p hp => (hbr br hb').2.2 g hg p hp⟩

example : truthTested (fun n : Nat => n != 0) [("iterables", .star [.arg 1]), ("strict", .val (.arg 7))]
    [⟨[.truthy "strict"], ⟨"zip", [], some "iterables", [("strict", .lit "True")], none⟩, .value⟩,
     ⟨[], ⟨"zip", [], some "iterables", [], none⟩, .value⟩] = [.arg 7] := rfl

/-! ## Arity errors (positional calls)

Full statement (FALSE of the pinned code, counterexample below): whenever every documented form of
`b` rejects `b(*pos)`, the substitute raises TypeError. -/

omit [DecidableEq α] in
/-- For every entry of the map and every purely positional call that the builtin's signature rejects
(too few or too many arguments), the caller gets a TypeError: from the library's own binding, or
from the builtin, which is handed a call that every documented form rejects (`map(f)`).  Excluded:
`sorted` with 2 or 3 positionals, which the overload accepts. -/
theorem C14_arity_errors_partial (truthy : α → Bool) (b : String) (hb : b ∈ mappedBuiltins)
    (pos : List (Val α)) (hrej : AllReject b (⟨pos, []⟩ : CallShape α))
    (hs : ¬ (b = "sorted" ∧ 2 ≤ pos.length ∧ pos.length ≤ 3)) : ArityError truthy b ⟨pos, []⟩ := by
  simp only [mappedBuiltins, builtinFunctionsMap, List.map_cons, List.map_nil, List.mem_cons, List.not_mem_nil,
    or_false] at hb
  rcases hb with rfl | rfl | rfl | rfl | rfl | rfl | rfl | rfl | rfl | rfl | rfl | rfl | rfl | rfl
  · exact arity_abs truthy pos hrej
  · exact arity_any truthy pos hrej
  · exact arity_all truthy pos hrej
  · exact arity_enumerate truthy pos hrej
  · exact arity_filter truthy pos hrej
  · exact arity_float truthy pos hrej
  · exact arity_int truthy pos hrej
  · exact arity_len truthy pos hrej
  · exact arity_map truthy pos hrej
  · exact arity_next truthy pos hrej
  · exact arity_print truthy pos hrej
  · exact arity_range truthy pos hrej
  · exact arity_sorted truthy pos hrej (fun h => hs ⟨rfl, h⟩)
  · exact arity_zip truthy pos hrej

example : ArityError (fun _ : Nat => true) "range" ⟨[.arg 1, .arg 2, .arg 3, .arg 4], []⟩ :=
  .inl ⟨_, rfl⟩
/-- Counterexample to the full statement: `sorted(xs, k)` is rejected by the builtin's signature, the
overload forwards it as `sorted(xs, key=k)`. -/
example : AllReject "sorted" (⟨[.arg 1, .arg 2], []⟩ : CallShape Nat) ∧
    callMapped (fun _ : Nat => true) "sorted" ⟨[.arg 1, .arg 2], []⟩
      = .ok ⟨"sorted", ⟨[.arg 1], [("key", .arg 2)]⟩, true⟩ ∧
    accepts [⟨"iterable", .posOnly, none⟩, ⟨"key", .kwOnly, some "None"⟩, ⟨"reverse", .kwOnly, some "False"⟩]
      (⟨[.arg 1], [("key", .arg 2)]⟩ : CallShape Nat) = true := by
  refine ⟨?_, rfl, rfl⟩
  intro form hf
  simp [spec, specTable, List.lookup] at hf
  subst hf; rfl

/-! ## Results are the builtin's own objects -/

omit [DecidableEq α] in
/-- Whatever the arguments: when the overload of a substituted builtin returns, the callee it
reached is that builtin, and — except for `print`, whose helper drops `print`'s `None` and returns
`None` itself — the overload's result is the very object the builtin returned (a tail call). -/
theorem C14_result (truthy : α → Bool) (b : String) (hb : b ∈ supportedBuiltins) (c : CallShape α)
    (r : Fwd α) (h : forward truthy b c = .ok r) : r.callee = b ∧ (r.tail = true ∨ b = "print") := by
  obtain ⟨on, ov, hl, h1, h2, h3, _, h5⟩ := C14_tables_closed b hb
  rw [forward_unfold truthy b on ov c h1 h2] at h
  obtain ⟨hl', br, hh, hbr, hc, ht⟩ := callOverload_ok truthy ov c r h
  rw [h3] at hh; injection hh with hh; subst hh
  refine ⟨by rw [hc]; exact (h5 br hbr).1, ?_⟩
  rw [ht]
  exact (h5 br hbr).2

omit [DecidableEq α] in
/-- Lazy results (`enumerate`, `filter`, `map`, `range`, `zip`) are the builtin's own lazy object:
nothing is materialised or wrapped, so items are produced exactly when the builtin produces them. -/
theorem C14_lazy (truthy : α → Bool) (b : String) (hb : b ∈ lazyBuiltins) (c : CallShape α)
    (r : Fwd α) (h : forward truthy b c = .ok r) : r.callee = b ∧ r.tail = true := by
  have hs : b ∈ supportedBuiltins := by
    have : ∀ b ∈ lazyBuiltins, b ∈ supportedBuiltins := by decide
    exact this b hb
  obtain ⟨h1, h2⟩ := C14_result truthy b hs c r h
  refine ⟨h1, ?_⟩
  rcases h2 with h2 | rfl
  · exact h2
  · exact absurd hb (by decide)

example : (forward (fun _ : Nat => true) "map" ⟨[.arg 1, .arg 2, .arg 3], []⟩).toOption.map (·.tail) = some true := by decide

/-! ## Frame search (`eval`, `locals`, `globals`, zero-argument `super`)

`stack` lists the frames from `_find_originating_frame`'s own frame outwards.  In generated code the
stack at a `converted_call(…, fscope)` is

    lib ++ caller :: mid ++ user :: outer

`lib` = library frames (they have no local called like the scope object bound to it), `caller` = the
generated function that contains the call (it references `fscope`, so it holds it), `user` = the
converted user function (binds `fscope` in its `with`), `outer` = the user's callers (a recursive
activation has its own scope object).  `caller` *is* `user` exactly when the call is not inside a
functionalised loop/branch body.

Full statement (FALSE of the pinned code, see `C14_frames_counterexample`):

    theorem C14_frames : findOriginatingFrame name id true (lib ++ caller :: mid ++ user :: outer)
                           = some (index of user)
-/

/-- What the generated tables say about the four context-sensitive builtins: each is routed by
`converted_call` to its own wrapper with the caller's scope object; the `innermost=` each wrapper
passes; `locals()` hands back the found frame's `f_locals`, `globals()` its `f_globals`; `super()`
reads `__class__` and the first variable name. -/
theorem C14_frame_search_modes :
    innermostOf "eval" = some true ∧ innermostOf "locals" = some true ∧
    innermostOf "globals" = some true ∧ innermostOf "super" = some false ∧
    findOriginatingFrameIsModelledLoop = true ∧
    frameAttrOf "locals" = some "f_locals" ∧ frameAttrOf "globals" = some "f_globals" ∧
    superTypeKey = "__class__" ∧ superSelfIndex = 0 ∧
    wrapperOf "eval" = some ("eval_in_original_context", ["f", "args", "caller_fn_scope"]) ∧
    wrapperOf "super" = some ("super_in_original_context", ["f", "args", "caller_fn_scope"]) ∧
    wrapperOf "globals" = some ("globals_in_original_context", ["caller_fn_scope"]) ∧
    wrapperOf "locals" = some ("locals_in_original_context", ["caller_fn_scope"]) := by decide

/-- `eval`/`locals`/`globals` resolve to the innermost frame holding the scope object: the frame of
the generated function that contains the call. -/
theorem C14_frames_innermost (name : String) (id : Nat) (b : String) (inn : Bool)
    (hb : b = "eval" ∨ b = "locals" ∨ b = "globals") (hi : innermostOf b = some inn)
    (lib : List Frame) (caller : Frame) (rest : List Frame)
    (hlib : ∀ f ∈ lib, f.holds name id = false) (hc : caller.holds name id = true) :
    findOriginatingFrame name id inn (lib ++ caller :: rest) = some lib.length := by
  have : inn = true := by
    rcases hb with rfl | rfl | rfl <;> simpa [innermostOf, frameSearchInnermost, List.lookup] using hi.symm
  subst this
  simpa [findOriginatingFrame] using findLoop_innermost name id caller rest hc lib 0 none hlib

/-- Hypothesis `mid = []`, i.e. the call is directly in the user function's body, not inside a
functionalised loop/branch body: then `eval`/`locals` see the user function's frame. -/
theorem C14_frames_partial (name : String) (id : Nat) (b : String) (inn : Bool)
    (hb : b = "eval" ∨ b = "locals") (hi : innermostOf b = some inn)
    (lib : List Frame) (user : Frame) (outer : List Frame)
    (hlib : ∀ f ∈ lib, f.holds name id = false) (hu : user.holds name id = true) :
    ∃ i, findOriginatingFrame name id inn (lib ++ user :: outer) = some i ∧
      (lib ++ user :: outer)[i]? = some user := by
  refine ⟨lib.length, C14_frames_innermost name id b inn ?_ hi lib user outer hlib hu, by simp⟩
  rcases hb with h | h
  · exact .inl h
  · exact .inr (.inl h)

example : findOriginatingFrame "fscope" 1 true
    [⟨"_find_originating_frame", [("caller_fn_scope", 1)], 9, []⟩, ⟨"eval_in_original_context", [("caller_fn_scope", 1)], 9, []⟩,
     ⟨"converted_call", [("caller_fn_scope", 1)], 8, []⟩, ⟨"ag__ev", [("c", 2), ("fscope", 1), ("zz", 4)], 7, ["c"]⟩,
     ⟨"caller", [("fscope", 6)], 7, []⟩] = some 3 := by decide

/-- Finer hypothesis (what the class predicate `bodyHidesName` negates): at ANY nesting, if the frame
found shows every user variable the call needs exactly as the user function's frame does — the
generated body references it, so it is among the body's free variables — then name lookups through
the frame found give the user frame's objects. -/
theorem C14_frames_visible_partial (name : String) (id : Nat) (needed : List String) (stack : List Frame)
    (h : bodyHidesName name id needed stack = false)
    (i j : Nat) (hi : findOriginatingFrame name id true stack = some i)
    (hj : findOriginatingFrame name id false stack = some j)
    (found user : Frame) (ha : stack[i]? = some found) (hb : stack[j]? = some user) :
    ∀ n ∈ needed, found.locals.lookup n = user.locals.lookup n := by
  intro n hn
  simp only [bodyHidesName, hi, hj, ha, hb, Bool.not_eq_false', lookupAgree, List.all_eq_true, beq_iff_eq] at h
  exact h n hn

/-- At nesting depth 0 the class predicate is false whatever the call needs. -/
theorem C14_frames_visible_depth0 (name : String) (id : Nat) (needed : List String)
    (lib : List Frame) (user : Frame) (outer : List Frame)
    (hlib : ∀ f ∈ lib, f.holds name id = false) (hu : user.holds name id = true)
    (hout : ∀ f ∈ outer, f.holds name id = false) :
    bodyHidesName name id needed (lib ++ user :: outer) = false := by
  have h1 : findOriginatingFrame name id true (lib ++ user :: outer) = some lib.length := by
    simpa [findOriginatingFrame] using findLoop_innermost name id user outer hu lib 0 none hlib
  have h2 : findOriginatingFrame name id false (lib ++ user :: outer) = some lib.length := by
    simpa [findOriginatingFrame] using findLoop_outermost name id user outer hu hout lib 0 none
  simp [bodyHidesName, h1, h2, lookupAgree]

example : bodyHidesName "fscope" 1 ["zz"]
    [⟨"lib", [], 9, []⟩, ⟨"if_body", [("fscope", 1), ("r", 5)], 7, []⟩,
     ⟨"ag__ev", [("c", 2), ("fscope", 1), ("zz", 4)], 7, ["c"]⟩] = true := by decide
example : bodyHidesName "fscope" 1 ["r"]
    [⟨"lib", [], 9, []⟩, ⟨"if_body", [("fscope", 1), ("r", 5)], 7, []⟩,
     ⟨"ag__ev", [("c", 2), ("fscope", 1), ("zz", 4), ("r", 5)], 7, ["c"]⟩] = false := by decide

/-- Counterexample to the full statement: inside `if_body` the frame found is `if_body`'s, and the
user's local `zz`, which `if_body` does not reference, is not among its `f_locals`
(`eval('zz + 1')` → NameError). -/
theorem C14_frames_counterexample :
    let lib : List Frame := [⟨"_find_originating_frame", [("caller_fn_scope", 1)], 9, []⟩,
                             ⟨"eval_in_original_context", [("caller_fn_scope", 1)], 9, []⟩,
                             ⟨"converted_call", [("caller_fn_scope", 1)], 8, []⟩]
    let body : Frame := ⟨"if_body", [("fscope", 1), ("r", 5)], 7, []⟩
    let mid : List Frame := [⟨"_py_if_stmt", [("body", 3)], 6, []⟩, ⟨"if_stmt", [("body", 3)], 6, []⟩]
    let user : Frame := ⟨"ag__ev", [("c", 2), ("fscope", 1), ("zz", 4), ("if_body", 3)], 7, ["c"]⟩
    let stack := lib ++ body :: mid ++ [user]
    findOriginatingFrame "fscope" 1 true stack = some 3 ∧ stack[3]? = some body ∧
    stack[6]? = some user ∧ body.locals.lookup "zz" = none ∧ user.locals.lookup "zz" = some 4 := by
  decide

/-- Zero-argument `super` (full strength, any nesting): the outermost frame holding the scope
object is the converted user function's own frame, whatever generated bodies lie in between. -/
theorem C14_super_frame (name : String) (id : Nat) (inn : Bool) (hi : innermostOf "super" = some inn)
    (pre : List Frame) (user : Frame) (outer : List Frame)
    (hu : user.holds name id = true) (hout : ∀ f ∈ outer, f.holds name id = false) :
    ∃ i, findOriginatingFrame name id inn (pre ++ user :: outer) = some i ∧
      (pre ++ user :: outer)[i]? = some user ∧
      ((pre ++ user :: outer)[i]?).bind superArgs = superSpec user := by
  have : inn = false := by simpa [innermostOf, frameSearchInnermost, List.lookup] using hi.symm
  subst this
  refine ⟨pre.length, ?_, by simp, ?_⟩
  · simpa [findOriginatingFrame] using findLoop_outermost name id user outer hu hout pre 0 none
  · simp only [List.getElem?_append_right (Nat.le_refl _), Nat.sub_self, List.getElem?_cons_zero, Option.bind_some,
      superArgs, superSpec, superTypeKey, superSelfIndex]
    cases user.varnames <;> cases List.lookup "__class__" user.locals <;> simp

example : findOriginatingFrame "fscope" 1 false
    [⟨"lib", [], 9, []⟩, ⟨"loop_body", [("fscope", 1)], 7, ["itr"]⟩, ⟨"if_body", [("fscope", 1)], 7, []⟩,
     ⟨"ag__m", [("self", 2), ("fscope", 1), ("__class__", 3)], 7, ["self"]⟩,
     ⟨"ag__m", [("self", 2), ("fscope", 8), ("__class__", 3)], 7, ["self"]⟩] = some 3 := by decide

/-- `globals()` (full strength, any nesting): every frame that holds the scope object belongs to
code generated into the user function's module, so whichever of them the search returns has the
user function's globals. -/
theorem C14_globals (name : String) (id : Nat) (inn : Bool) (stack : List Frame) (g : Nat)
    (hg : ∀ f ∈ stack, f.holds name id = true → f.globals = g)
    (i : Nat) (h : findOriginatingFrame name id inn stack = some i) :
    (stack[i]?).map (·.globals) = some g := by
  rcases findLoop_some name id inn stack 0 none i h with h' | ⟨_, f, hf, hh⟩
  · cases h'
  · simp only [Nat.sub_zero] at hf
    rw [hf]
    simp [hg f (List.mem_of_getElem? hf) hh]

example : ((([⟨"lib", [], 9, []⟩, ⟨"loop_body", [("fscope", 1)], 7, ["itr"]⟩, ⟨"ag__f", [("fscope", 1)], 7, []⟩] : List Frame)[1]?).map
    (·.globals)) = some 7 := by decide

/-! ## The namespaces `eval` ends up with

Full statement (FALSE of the pinned code): `evalForward lib user extra = evalSpec user extra` for
every `extra` of length ≤ 2. -/

/-- With the frame found being the user's: `eval(src)` and `eval(src, g, l)` (`g` a mapping) use
exactly the namespaces the library reference prescribes for a call from the user's frame. -/
theorem C14_eval_args_partial (lib user : Nat) (extra : List EArg) (h : evalArgsFaithful extra = true) :
    evalForward lib user extra = evalSpec user extra := by
  match extra, h with
  | [], _ => rfl
  | [.ns g, .none], _ => rfl
  | [.ns g, .ns l], _ => rfl

example : evalForward 0 1 [] = some (.frameGlobals 1, .frameLocals 1) := rfl
example : evalForward 0 1 [.ns (.obj 5), .ns (.obj 6)] = some (.obj 5, .obj 6) := rfl
example : evalArgsFaithful [.ns (.obj 5), .none] = true := rfl

/-- The excluded argument lists are exactly the two finding classes. -/
theorem C14_eval_classes (extra : List EArg) (hl : extra.length ≤ 2) :
    evalArgsFaithful extra = false ↔ (evalGlobalsOnly extra = true ∨ evalNoneGlobals extra = true) := by
  match extra, hl with
  | [], _ => simp [evalArgsFaithful, evalGlobalsOnly, evalNoneGlobals]
  | [.none], _ => simp [evalArgsFaithful, evalGlobalsOnly, evalNoneGlobals]
  | [.ns _], _ => simp [evalArgsFaithful, evalGlobalsOnly, evalNoneGlobals]
  | [.none, _], _ => simp [evalArgsFaithful, evalGlobalsOnly, evalNoneGlobals]
  | [.ns _, _], _ => simp [evalArgsFaithful, evalGlobalsOnly, evalNoneGlobals]

/-- `eval(src, g)`: the library reference says locals = `g`; the wrapper passes the frame's locals. -/
theorem C14_eval_globals_only_deviates (lib user : Nat) (g : Ns) :
    evalSpec user [.ns g] = some (g, g) ∧
    evalForward lib user [.ns g] = some (g, .frameLocals user) := ⟨rfl, rfl⟩

/-- `eval(src, None)` / `eval(src, None, l)`: globals should be the user frame's; the real `eval`
is called from py_builtins (frame `lib`) with `None`, so it takes py_builtins' module globals. -/
theorem C14_eval_none_globals_deviates (lib user : Nat) :
    evalSpec user [.none] = some (.frameGlobals user, .frameLocals user) ∧
    evalForward lib user [.none] = some (.frameGlobals lib, .frameLocals user) ∧
    (∀ l, evalSpec user [.none, .ns l] = some (.frameGlobals user, l) ∧
          evalForward lib user [.none, .ns l] = some (.frameGlobals lib, l)) :=
  ⟨rfl, rfl, fun _ => ⟨rfl, rfl⟩⟩

/-! ## The frame discipline, for every nesting depth

`GenStack name id g d gen u` (model file): the frames of one activation of a converted function seen
from a call site nested in `d` functionalised bodies — `d` generated frames holding the scope object,
interleaved with operator frames that do not, ending in the user function's frame `u`; all holders
run in the generated module's globals `g`.  The whole stack is `lib ++ gen ++ outer` (`lib` = the
library frames between the search and the call site, `outer` = the user's callers; neither holds
this activation's scope object).  The search must skip exactly the generated frames.  The recorded
real stacks are checked to be of this form by the driver (`genDepth`, `genGlobalsOk`), and
`C14_recorded_stack_is_generated` is the soundness of that checker.

Full statement for `eval`/`locals` (FALSE of the pinned code for `d > 0`, see
`C14_frames_counterexample`): the frame found is `u`.  Proved: `super` and `globals` at full strength
for every depth; `eval`/`locals` find the innermost generated frame, which is `u` iff `d = 0`, and
under the negation of the listed findings (`bodyHidesName`, the `eval` argument classes) they see the
user's namespaces. -/

/-- Whatever real stack passes the driver's check is an activation obeying the discipline. -/
theorem C14_recorded_stack_is_generated (name : String) (id g n : Nat) (stack : List Frame)
    (hd : genDepth name id stack = some n) (hg : genGlobalsOk name id g stack = true) :
    ∃ lib gen outer u, stack = lib ++ gen ++ outer ∧ GenStack name id g n gen u ∧
      (∀ f ∈ lib, f.holds name id = false) ∧ (∀ f ∈ outer, f.holds name id = false) :=
  genStack_of_check name id g n stack hd hg

example : genDepth "fscope" 1
    [⟨"lib", [], 9, []⟩, ⟨"loop_body", [("fscope", 1)], 7, ["itr"]⟩, ⟨"for_stmt", [], 6, []⟩, ⟨"if_body", [("fscope", 1)], 7, []⟩,
     ⟨"if_stmt", [], 6, []⟩, ⟨"ag__m", [("self", 2), ("fscope", 1)], 7, ["self"]⟩, ⟨"caller", [("fscope", 8)], 3, []⟩] = some 2 := by decide

/-- Zero-argument `super`, every depth (full strength): the search skips all `d` generated frames
and the operator frames between them and returns the user function's frame, from which `__class__`
and the first argument are read. -/
theorem C14_super_all_depths (name : String) (id g d : Nat) (inn : Bool)
    (hi : innermostOf "super" = some inn) (lib gen outer : List Frame) (u : Frame)
    (hgen : GenStack name id g d gen u) (hout : ∀ f ∈ outer, f.holds name id = false) :
    ∃ i, findOriginatingFrame name id inn (lib ++ gen ++ outer) = some i ∧
      i = lib.length + gen.length - 1 ∧ (lib ++ gen ++ outer)[i]? = some u ∧
      ((lib ++ gen ++ outer)[i]?).bind superArgs = superSpec u := by
  obtain ⟨pre, hpre, hu, _, _, _⟩ := hgen.split
  have hst : lib ++ gen ++ outer = (lib ++ pre) ++ u :: outer := by rw [hpre]; simp
  obtain ⟨i, h1, h2, h3⟩ := C14_super_frame name id inn hi (lib ++ pre) u outer hu hout
  have hidx : findOriginatingFrame name id inn ((lib ++ pre) ++ u :: outer) = some (lib ++ pre).length := by
    have : inn = false := by simpa [innermostOf, frameSearchInnermost, List.lookup] using hi.symm
    subst this
    simpa [findOriginatingFrame] using findLoop_outermost name id u outer hu hout (lib ++ pre) 0 none
  rw [hst]
  refine ⟨i, h1, ?_, h2, h3⟩
  rw [h1] at hidx
  injection hidx with hidx
  rw [hidx, hpre]
  simp only [List.length_append, List.length_cons, List.length_nil]
  omega

/-- `eval`/`locals`/`globals`, every depth: the search stops at the innermost generated frame — the
one containing the call — and that frame is the user function's exactly when the call is not nested
in a functionalised body. -/
theorem C14_frames_all_depths (name : String) (id g d : Nat) (b : String) (inn : Bool)
    (hb : b = "eval" ∨ b = "locals" ∨ b = "globals") (hi : innermostOf b = some inn)
    (lib gen outer : List Frame) (u : Frame) (hgen : GenStack name id g d gen u)
    (hlib : ∀ f ∈ lib, f.holds name id = false) :
    ∃ c t, gen = c :: t ∧ findOriginatingFrame name id inn (lib ++ gen ++ outer) = some lib.length ∧
      (lib ++ gen ++ outer)[lib.length]? = some c ∧ c.globals = g ∧
      (lib.length = lib.length + gen.length - 1 ↔ d = 0) ∧ (d = 0 → c = u) := by
  obtain ⟨c, t, hct, hc, hcg, h0⟩ := hgen.head
  obtain ⟨pre, hpre, _, _, hd, hd0⟩ := hgen.split
  refine ⟨c, t, hct, ?_, ?_, hcg, ?_, fun h => (h0 h).1⟩
  · have := C14_frames_innermost name id b inn hb hi lib c (t ++ outer) hlib hc
    rw [hct]; simpa using this
  · rw [hct]; simp
  · rw [hpre]
    simp only [List.length_append, List.length_cons, List.length_nil]
    constructor
    · intro h; omega
    · intro h; rw [hd0 h]; simp

/-- `globals()`, every depth and either search mode (full strength): the frame found runs in the
user function's globals. -/
theorem C14_globals_all_depths (name : String) (id g d : Nat) (inn : Bool)
    (lib gen outer : List Frame) (u : Frame) (hgen : GenStack name id g d gen u)
    (hlib : ∀ f ∈ lib, f.holds name id = false) (hout : ∀ f ∈ outer, f.holds name id = false)
    (i : Nat) (h : findOriginatingFrame name id inn (lib ++ gen ++ outer) = some i) :
    ((lib ++ gen ++ outer)[i]?).map (·.globals) = some u.globals := by
  obtain ⟨_, _, _, hug, _, _⟩ := hgen.split
  rw [hug]
  apply C14_globals name id inn _ g _ i h
  intro f hf hh
  simp only [List.mem_append] at hf
  rcases hf with (hf | hf) | hf
  · rw [hlib f hf] at hh; cases hh
  · exact hgen.globals f hf hh
  · rw [hout f hf] at hh; cases hh

/-- On a stack obeying the discipline the class predicate of the body finding says exactly: the
innermost generated frame does not show a needed user variable the way the user's frame does. -/
theorem C14_bodyHidesName_all_depths (name : String) (id g d : Nat) (needed : List String)
    (lib gen outer : List Frame) (u c : Frame) (t : List Frame) (hgen : GenStack name id g d gen u)
    (hct : gen = c :: t)
    (hlib : ∀ f ∈ lib, f.holds name id = false) (hout : ∀ f ∈ outer, f.holds name id = false) :
    bodyHidesName name id needed (lib ++ gen ++ outer) = !lookupAgree c u needed := by
  obtain ⟨pre, hpre, hu, _, _, _⟩ := hgen.split
  obtain ⟨c', t', hct', hc, _, _⟩ := hgen.head
  rw [hct] at hct'; injection hct' with e1 e2; subst e1 e2
  have h1 : findOriginatingFrame name id true (lib ++ gen ++ outer) = some lib.length := by
    have := findLoop_innermost name id c (t ++ outer) hc lib 0 none hlib
    rw [hct]; simpa [findOriginatingFrame] using this
  have h2 : findOriginatingFrame name id false (lib ++ gen ++ outer) = some (lib ++ pre).length := by
    have := findLoop_outermost name id u outer hu hout (lib ++ pre) 0 none
    rw [hpre]; simpa [findOriginatingFrame] using this
  have e1 : (lib ++ gen ++ outer)[lib.length]? = some c := by rw [hct]; simp
  have e2 : (lib ++ gen ++ outer)[(lib ++ pre).length]? = some u := by
    rw [hpre]
    have : lib ++ (pre ++ [u]) ++ outer = (lib ++ pre) ++ u :: outer := by simp
    rw [this]; simp
  simp only [bodyHidesName, h1, h2, e1, e2]

/-- `eval` and `locals`, every depth, under the negation of the listed findings: if the innermost
generated frame shows every user variable the call needs as the user's frame does (negation of
`bodyHidesName`) and the `eval` arguments are of a faithful form (negation of the two `eval` classes),
then the namespaces used are the user's: the user function's globals, the user's objects for every
needed name, and for `eval` the (globals, locals) pair the library reference prescribes. -/
theorem C14_eval_locals_in_context_partial (name : String) (id g d : Nat) (b : String) (inn : Bool)
    (hb : b = "eval" ∨ b = "locals") (hi : innermostOf b = some inn)
    (needed : List String) (extra : List EArg)
    (lib gen outer : List Frame) (u : Frame) (hgen : GenStack name id g d gen u)
    (hlib : ∀ f ∈ lib, f.holds name id = false) (hout : ∀ f ∈ outer, f.holds name id = false)
    (hvis : bodyHidesName name id needed (lib ++ gen ++ outer) = false)
    (hargs : evalArgsFaithful extra = true) :
    ∃ i found, findOriginatingFrame name id inn (lib ++ gen ++ outer) = some i ∧
      (lib ++ gen ++ outer)[i]? = some found ∧ found.globals = u.globals ∧
      (∀ n ∈ needed, found.locals.lookup n = u.locals.lookup n) ∧
      (∀ libFrame, evalForward libFrame i extra = evalSpec i extra) := by
  have hb' : b = "eval" ∨ b = "locals" ∨ b = "globals" := by
    rcases hb with h | h
    · exact .inl h
    · exact .inr (.inl h)
  obtain ⟨c, t, hct, hfind, hget, hcg, _, _⟩ :=
    C14_frames_all_depths name id g d b inn hb' hi lib gen outer u hgen hlib
  obtain ⟨_, _, _, hug, _, _⟩ := hgen.split
  refine ⟨lib.length, c, hfind, hget, by rw [hcg, hug], ?_, fun l => C14_eval_args_partial l _ extra hargs⟩
  rw [C14_bodyHidesName_all_depths name id g d needed lib gen outer u c t hgen hct hlib hout] at hvis
  simp only [Bool.not_eq_false', lookupAgree, List.all_eq_true, beq_iff_eq] at hvis
  exact hvis

/-- Non-vacuity: a depth-2 activation (loop body inside an if body) whose innermost frame shows `u`. -/
example : GenStack "fscope" 1 7 2
    [⟨"loop_body", [("fscope", 1), ("u", 4)], 7, ["itr"]⟩, ⟨"for_stmt", [], 6, []⟩,
     ⟨"if_body", [("fscope", 1), ("u", 4)], 7, []⟩, ⟨"if_stmt", [], 6, []⟩,
     ⟨"ag__f", [("a", 2), ("fscope", 1), ("u", 4), ("v", 5)], 7, ["a"]⟩]
    ⟨"ag__f", [("a", 2), ("fscope", 1), ("u", 4), ("v", 5)], 7, ["a"]⟩ :=
  .body 1 _ [⟨"for_stmt", [], 6, []⟩] _ _ rfl rfl (by decide)
    (.body 0 _ [⟨"if_stmt", [], 6, []⟩] _ _ rfl rfl (by decide) (.user _ rfl rfl))

/-! ## Content of the user frame seen by a dynamic read

Full statement (FALSE of the pinned code, see `C14_dynamic_read_counterexample`):
`convFrame ws st n = origFrame ws st n` for every name — an `eval('x')`/`locals()['x']` placed after a
functionalised block sees the writes the block made to `x`. The converter makes a body's assignment
`nonlocal` only for names its static liveness analysis finds read later; a read through
`eval`/`locals` is invisible to it. -/

private theorem applyWrites_agree (n : String) (k1 k2 : Write → Bool) :
    ∀ (ws : List Write) (s1 s2 : String → Option Nat), s1 n = s2 n →
      (∀ w ∈ ws, w.name = n → k1 w = k2 w) → applyWrites k1 ws s1 n = applyWrites k2 ws s2 n := by
  intro ws
  induction ws with
  | nil => intro s1 s2 h _; exact h
  | cons w r ih =>
    intro s1 s2 h hk
    simp only [applyWrites]
    apply ih
    · by_cases hn : w.name = n
      · have := hk w (List.mem_cons_self ..) hn
        rw [this]
        cases k2 w <;> simp [h, hn]
      · have hn' : ¬ n = w.name := fun e => hn e.symm
        cases k1 w <;> cases k2 w <;> simp [h, hn']
    · intro w' hw' hn
      exact hk w' (List.mem_cons_of_mem _ hw') hn

/-- If no name the call reads dynamically is assigned in a generated body without a `nonlocal`
declaration, the converted function's frame shows, for those names, exactly what the original
function's frame shows — for every sequence of writes and every initial frame. -/
theorem C14_dynamic_read_partial (needed : List String) (ws : List Write) (st : String → Option Nat)
    (h : staleDynamicRead needed ws = false) : ∀ n ∈ needed, convFrame ws st n = origFrame ws st n := by
  intro n hn
  apply applyWrites_agree n _ _ ws st st rfl
  intro w hw hname
  simp only [staleDynamicRead, List.any_eq_false, List.any_eq_true, Bool.and_eq_true, beq_iff_eq, Bool.not_eq_true',
    not_exists, not_and] at h
  have := h n hn w hw
  cases hb : w.inBody <;> cases hd : w.nonlocalDecl <;> simp
  exact absurd hd (by simpa [hname, hb] using this)

example : staleDynamicRead ["x"] [⟨"x", 5, true, true⟩, ⟨"y", 1, true, false⟩, ⟨"x", 7, false, false⟩] = false := by decide

/-- Counterexample to the full statement: `x = -1; if c: x = 5; return eval('x')` — the body's `x = 5`
is a local of `if_body`, the user frame still has the old `x`. -/
theorem C14_dynamic_read_counterexample :
    let ws : List Write := [⟨"x", 0, false, false⟩, ⟨"x", 5, true, false⟩]
    staleDynamicRead ["x"] ws = true ∧ origFrame ws (fun _ => none) "x" = some 5 ∧
    convFrame ws (fun _ => none) "x" = some 0 := by
  decide

end Malt.Builtins
