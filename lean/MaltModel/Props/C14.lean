import MaltModel.Proofs.C14Forward
import MaltModel.Proofs.C14Frames
/-!
# C14 — builtin overloads behave like the builtins on ordinary Python values

Property theorems only.  Model: `MaltModel/Rt/Builtins.lean`; the overload and helper parameter
lists, their forwarding calls and `UNSPECIFIED` tests, `SUPPORTED_BUILTINS`, `BUILTIN_FUNCTIONS_MAP`,
the `innermost=` arguments of the frame search and the `eval` argument tuple are
`Generated/Builtins.lean`, re-extracted from `/repo/malt/operators/py_builtins.py` and
`/repo/malt/impl/api.py` on every run, so every theorem below is re-checked against what the code
says now.  The builtin side (`specTable`) is the library reference, cross-checked at run time.

What the pinned code falsifies (kept as comments with Lean-checked counterexamples):
* `eval`/`locals` inside a functionalised loop/branch body resolve to the body's frame;
* `eval(src, g)` gets the frame's locals instead of `g`; `eval(src, None, …)` gets py_builtins' globals.
-/
namespace Malt.Builtins
open Malt.Gen.Builtins

variable {α : Type} [DecidableEq α]

/-! ## Call binding -/

omit [DecidableEq α] in
/-- `bind` succeeds exactly on the calls that satisfy the declarative acceptance condition, and
then binds every parameter as `envOf` says. -/
theorem C14_bind_ok_iff (sig : Signature) (c : CallShape α) (env : Env α) :
    bind sig c = .ok env ↔ (accepts sig c = true ∧ env = envOf sig c) := bind_ok_iff

omit [DecidableEq α] in
/-- The error scan in CPython's order (keywords left to right, then too many positionals, then
missing parameters) finds an error exactly when the call is not accepted, and it is that error
`bind` reports. -/
theorem C14_bind_error_iff (sig : Signature) (c : CallShape α) :
    (firstErr sig c = none ↔ accepts sig c = true) ∧
    (∀ e, bind sig c = .error e → firstErr sig c = some e) :=
  ⟨firstErr_none_iff sig c, bind_error_is_firstErr sig c⟩

omit [DecidableEq α] in
/-- The order in which keywords are written is irrelevant: a signature without `**kwargs` accepts a
call under every permutation of its keywords or under none, and binds the same values. -/
theorem C14_bind_keyword_order (sig : Signature) (hv : hasVarKw sig = false) (pos : List (Val α))
    (kw kw' : List (String × Val α)) (h : kw.Perm kw') (env : Env α) :
    bind sig ⟨pos, kw⟩ = .ok env ↔ bind sig ⟨pos, kw'⟩ = .ok env := by
  rw [bind_ok_iff, bind_ok_iff, accepts_kw_perm sig pos h]
  constructor
  · rintro ⟨ha, he⟩
    have hn : keysNodup kw = true := by
      rw [← accepts_kw_perm sig pos h] at ha
      exact (accepts_parts ha).2.1
    exact ⟨ha, by rw [he, envOf_kw_perm sig hv pos h hn]⟩
  · rintro ⟨ha, he⟩
    have hn : keysNodup kw = true := by
      rw [← accepts_kw_perm sig pos h] at ha
      exact (accepts_parts ha).2.1
    exact ⟨ha, by rw [he, envOf_kw_perm sig hv pos h hn]⟩

example : bind [⟨"iterable", .posOnly, none⟩, ⟨"key", .kwOnly, some "None"⟩, ⟨"reverse", .kwOnly, some "False"⟩]
      (⟨[.arg 1], [("reverse", .arg 2), ("key", .arg 3)]⟩ : CallShape Nat)
    = bind [⟨"iterable", .posOnly, none⟩, ⟨"key", .kwOnly, some "None"⟩, ⟨"reverse", .kwOnly, some "False"⟩]
      ⟨[.arg 1], [("key", .arg 3), ("reverse", .arg 2)]⟩ := rfl

example : bind [⟨"a", .posOnly, none⟩, ⟨"b", .posOrKw, some "1"⟩, ⟨"r", .varPos, none⟩, ⟨"k", .kwOnly, none⟩]
    (⟨[.arg 1, .arg 2, .arg 3], [("k", .arg 4)]⟩ : CallShape Nat)
    = .ok [("a", .val (.arg 1)), ("b", .val (.arg 2)), ("r", .star [.arg 3]), ("k", .val (.arg 4))] := rfl
example : bind [⟨"a", .posOnly, none⟩, ⟨"b", .posOrKw, some "1"⟩]
    (⟨[.arg 1, .arg 2], [("b", .arg 4)]⟩ : CallShape Nat) = .error (.multipleValues "b") := rfl
example : bind [⟨"a", .posOnly, none⟩] (⟨[], [("a", .arg 4)]⟩ : CallShape Nat) = .error .posOnlyAsKeyword := rfl

/-! ## Forwarding preserves the builtin's binding

(Until /repo commit 295ca80 the overload of `enumerate` named its first parameter `s`, and the
statement carried the hypothesis "not `enumerate` called with keyword `iterable`"; the fix removed
the need for it, and the former counterexample is now a positive example below.) -/

/-- For every substituted builtin, every documented form of its signature and EVERY call shape
(any number of positionals, any keywords) that the form accepts, the overload accepts the call, the
call that reaches the real builtin is accepted by the same form, and the builtin's parameters are
bound to the same argument values (`zip`'s `strict` up to its truth value, which is all `zip` reads).
`_partial` only because of `userShape`: user code cannot name the `UNSPECIFIED` sentinel (without it
the statement is false, see the `range(1, UNSPECIFIED)` example below). -/
theorem C14_forward_partial (truthy : α → Bool) (b : String) (hb : b ∈ supportedBuiltins)
    (form : Signature) (hf : form ∈ spec b) (c : CallShape α) (hu : userShape c = true)
    (env : Env α) (hacc : bind form c = .ok env) :
    ∃ r env', forward truthy b c = .ok r ∧ r.callee = b ∧ bind form r.call = .ok env' ∧
      envEquiv truthy b env env' = true := by
  obtain ⟨ha, rfl⟩ := bind_ok hacc
  suffices h : Preserved truthy b form c by
    obtain ⟨r, h1, h2, h3, h4⟩ := h
    exact ⟨r, _, h1, h2, bind_of_accepts h3, h4⟩
  simp only [supportedBuiltins, List.mem_cons, List.not_mem_nil, or_false] at hb
  rcases hb with rfl | rfl | rfl | rfl | rfl | rfl | rfl | rfl | rfl | rfl | rfl | rfl | rfl
  all_goals simp [spec, specTable, List.lookup] at hf
  · subst hf; exact preserved_abs truthy c ha
  · subst hf; exact preserved_float truthy c ha
  · rcases hf with rfl | rfl
    · exact preserved_int1 truthy c ha
    · exact preserved_int2 truthy c hu ha
  · subst hf; exact preserved_len truthy c ha
  · subst hf; exact preserved_print truthy c ha
  · rcases hf with rfl | rfl
    · exact preserved_range1 truthy c ha
    · exact preserved_range2 truthy c hu ha
  · subst hf
    exact preserved_enumerate truthy c ha
  · subst hf; exact preserved_zip truthy c hu ha
  · subst hf; exact preserved_map truthy c ha
  · subst hf; exact preserved_filter truthy c ha
  · subst hf; exact preserved_any truthy c ha
  · subst hf; exact preserved_all truthy c ha
  · subst hf; exact preserved_sorted truthy c hu ha

/-- Non-vacuity: `sorted(xs, reverse=r, key=k)` reaches `sorted(xs, key=k, reverse=r)`. -/
example : forward (fun _ : Nat => true) "sorted" ⟨[.arg 1], [("reverse", .arg 2), ("key", .arg 3)]⟩
    = .ok ⟨"sorted", ⟨[.arg 1], [("key", .arg 3), ("reverse", .arg 2)]⟩, true⟩ := rfl
example : forward (fun _ : Nat => true) "int" ⟨[.arg 1], [("base", .arg 2)]⟩
    = .ok ⟨"int", ⟨[.arg 1, .arg 2], []⟩, true⟩ := rfl
example : forward (fun _ : Nat => true) "range" ⟨[.arg 1, .arg 2], []⟩
    = .ok ⟨"range", ⟨[.arg 1, .arg 2], []⟩, true⟩ := rfl
example : forward (fun n : Nat => n != 0) "zip" ⟨[.arg 1, .arg 2], [("strict", .arg 7)]⟩
    = .ok ⟨"zip", ⟨[.arg 1, .arg 2], [("strict", .const "True")]⟩, true⟩ := rfl
example : forward (fun n : Nat => n != 0) "zip" ⟨[.arg 1, .arg 2], [("strict", .arg 0)]⟩
    = .ok ⟨"zip", ⟨[.arg 1, .arg 2], []⟩, true⟩ := rfl

/-- Remark (outside the property, which quantifies over calls the builtin accepts): the overloads are
more permissive than the builtins — `abs(x=v)` and `sorted(xs, k, r)` are TypeErrors for the builtin
but go through the overload. -/
example : (∀ form ∈ spec "abs", accepts form (⟨[], [("x", .arg 1)]⟩ : CallShape Nat) = false) ∧
    forward (fun _ : Nat => true) "abs" ⟨[], [("x", .arg 1)]⟩ = .ok ⟨"abs", ⟨[.arg 1], []⟩, true⟩ := by
  refine ⟨by decide, rfl⟩
example : (∀ form ∈ spec "sorted", accepts form (⟨[.arg 1, .arg 2, .arg 3], []⟩ : CallShape Nat) = false) ∧
    forward (fun _ : Nat => true) "sorted" ⟨[.arg 1, .arg 2, .arg 3], []⟩
      = .ok ⟨"sorted", ⟨[.arg 1], [("key", .arg 2), ("reverse", .arg 3)]⟩, true⟩ := by
  refine ⟨by decide, rfl⟩

/-- The former witness of the `enumerate` finding (fixed by 295ca80) is now a positive example:
`enumerate(iterable=xs, start=n)` and `enumerate(start=n, iterable=xs)` reach `enumerate(xs, n)`. -/
example : forward (fun _ : Nat => true) "enumerate" ⟨[], [("iterable", .arg 7), ("start", .arg 1)]⟩
    = .ok ⟨"enumerate", ⟨[.arg 7, .arg 1], []⟩, true⟩ := rfl
example : forward (fun _ : Nat => true) "enumerate" ⟨[], [("start", .arg 1), ("iterable", .arg 7)]⟩
    = .ok ⟨"enumerate", ⟨[.arg 7, .arg 1], []⟩, true⟩ := rfl
example : forward (fun _ : Nat => true) "enumerate" ⟨[], [("iterable", .arg 7)]⟩
    = .ok ⟨"enumerate", ⟨[.arg 7, .const "0"], []⟩, true⟩ := rfl

/-! ## Same outcome: value, lazy object, output, exception -/

/-- Accepted calls never fail inside the library: any exception the caller sees is raised by the
real builtin on the forwarded (equivalent) arguments — hence has the builtin's own type. -/
theorem C14_errors_partial (truthy : α → Bool) (b : String) (hb : b ∈ supportedBuiltins)
    (form : Signature) (hf : form ∈ spec b) (c : CallShape α) (hu : userShape c = true)
    (hacc : accepts form c = true) :
    ∀ e, forward truthy b c ≠ .error e := by
  intro e he
  obtain ⟨r, _, h1, _⟩ := C14_forward_partial truthy b hb form hf c hu _ (bind_of_accepts hacc)
  rw [he] at h1; cases h1

/-- For ANY behaviour `sem` of the real builtins that depends only on how their parameters are
bound (up to what the builtin can observe), calling the substitute gives the same outcome as
calling the builtin: same value / lazy object / output / exception. -/
theorem C14_same_outcome_partial {Out : Type} (truthy : α → Bool) (sem : String → Env α → Out)
    (typeError : Out) (raise : FwdErr → Out)
    (hsem : ∀ b e e', envEquiv truthy b e e' = true → sem b e = sem b e')
    (b : String) (hb : b ∈ supportedBuiltins) (form : Signature) (hf : form ∈ spec b)
    (c : CallShape α) (hu : userShape c = true) (hacc : accepts form c = true) :
    runOverload truthy sem typeError raise b form c = runBuiltin (sem b) typeError form c := by
  obtain ⟨r, env', h1, h2, h3, h4⟩ :=
    C14_forward_partial truthy b hb form hf c hu _ (bind_of_accepts hacc)
  simp only [runOverload, runBuiltin, h1, h2, h3, bind_of_accepts hacc]
  exact (hsem b _ _ h4).symm

/-- The hypotheses are satisfiable non-trivially: a `sem` that reports which builtin ran. -/
example : runOverload (fun _ : Nat => true) (fun b _ => b) "TypeError" (fun _ => "library error") "sorted"
      [⟨"iterable", .posOnly, none⟩, ⟨"key", .kwOnly, some "None"⟩, ⟨"reverse", .kwOnly, some "False"⟩]
      ⟨[.arg 1], [("reverse", .arg 2)]⟩ = "sorted" := rfl
/-- Why `userShape` is assumed: if user code could pass the sentinel, `range(1, UNSPECIFIED)` would
silently become `range(1)`. -/
example : forward (fun _ : Nat => true) "range" ⟨[.arg 1, .const "UNSPECIFIED"], []⟩
    = .ok ⟨"range", ⟨[.arg 1], []⟩, true⟩ := rfl

omit [DecidableEq α] in
/-- A builtin that is not substituted is called as is. -/
theorem C14_unsubstituted_identity (truthy : α → Bool) (b : String) (hb : b ∉ supportedBuiltins)
    (c : CallShape α) : forward truthy b c = .ok ⟨b, c, true⟩ := by
  have : supportedBuiltins.contains b = false := by
    cases h : supportedBuiltins.contains b with
    | false => rfl
    | true => exact absurd (List.contains_iff_mem.mp h) hb
  simp [forward, overloadName, hb]

example : forward (fun _ : Nat => true) "next" ⟨[.arg 1], []⟩ = .ok ⟨"next", ⟨[.arg 1], []⟩, true⟩ := rfl

/-- The substitution tables are closed: every supported builtin has a table entry, the entry names
a defined overload, the overload forwards to a defined helper, and every branch of that helper
calls the builtin itself and returns its result (`print`'s helper drops `print`'s `None`). -/
theorem C14_tables_closed (b : String) (hb : b ∈ supportedBuiltins) :
    ∃ on ov h, overloadName b = some on ∧ findOverload on = some ov ∧
      findHelper ov.call.callee = some h ∧ h.branches ≠ [] ∧
      ∀ br ∈ h.branches, br.call.callee = b ∧
        ((ov.ret == .value && br.ret == .value) = true ∨ b = "print") :=
  closedFor_elim (closedFor_all b hb)

/-! ## Results are the builtin's own objects -/

omit [DecidableEq α] in
/-- Whatever the arguments: when the overload of a substituted builtin returns, the callee it
reached is that builtin, and — except for `print`, whose helper drops `print`'s `None` and returns
`None` itself — the overload's result is the very object the builtin returned (a tail call). -/
theorem C14_result (truthy : α → Bool) (b : String) (hb : b ∈ supportedBuiltins) (c : CallShape α)
    (r : Fwd α) (h : forward truthy b c = .ok r) : r.callee = b ∧ (r.tail = true ∨ b = "print") := by
  obtain ⟨on, ov, hl, h1, h2, h3, _, h5⟩ := C14_tables_closed b hb
  rw [forward_unfold truthy b on ov c h1 h2] at h
  obtain ⟨hl', br, hh, hbr, hc, ht⟩ := callOverload_ok truthy ov c r h
  rw [h3] at hh; injection hh with hh; subst hh
  refine ⟨by rw [hc]; exact (h5 br hbr).1, ?_⟩
  rw [ht]
  exact (h5 br hbr).2

omit [DecidableEq α] in
/-- Lazy results (`enumerate`, `filter`, `map`, `range`, `zip`) are the builtin's own lazy object:
nothing is materialised or wrapped, so items are produced exactly when the builtin produces them. -/
theorem C14_lazy (truthy : α → Bool) (b : String) (hb : b ∈ lazyBuiltins) (c : CallShape α)
    (r : Fwd α) (h : forward truthy b c = .ok r) : r.callee = b ∧ r.tail = true := by
  have hs : b ∈ supportedBuiltins := by
    have : ∀ b ∈ lazyBuiltins, b ∈ supportedBuiltins := by decide
    exact this b hb
  obtain ⟨h1, h2⟩ := C14_result truthy b hs c r h
  refine ⟨h1, ?_⟩
  rcases h2 with h2 | rfl
  · exact h2
  · exact absurd hb (by decide)

example : (forward (fun _ : Nat => true) "map" ⟨[.arg 1, .arg 2, .arg 3], []⟩).toOption.map (·.tail) = some true := by decide

/-! ## Frame search (`eval`, `locals`, `globals`, zero-argument `super`)

`stack` lists the frames from `_find_originating_frame`'s own frame outwards.  In generated code the
stack at a `converted_call(…, fscope)` is

    lib ++ caller :: mid ++ user :: outer

`lib` = library frames (they have no local called like the scope object bound to it), `caller` = the
generated function that contains the call (it references `fscope`, so it holds it), `user` = the
converted user function (binds `fscope` in its `with`), `outer` = the user's callers (a recursive
activation has its own scope object).  `caller` *is* `user` exactly when the call is not inside a
functionalised loop/branch body.

Full statement (FALSE of the pinned code, see `C14_frames_counterexample`):

    theorem C14_frames : findOriginatingFrame name id true (lib ++ caller :: mid ++ user :: outer)
                           = some (index of user)
-/

/-- What the generated tables say about the four context-sensitive builtins: each is routed by
`converted_call` to its own wrapper with the caller's scope object; the `innermost=` each wrapper
passes; `locals()` hands back the found frame's `f_locals`, `globals()` its `f_globals`; `super()`
reads `__class__` and the first variable name. -/
theorem C14_frame_search_modes :
    innermostOf "eval" = some true ∧ innermostOf "locals" = some true ∧
    innermostOf "globals" = some true ∧ innermostOf "super" = some false ∧
    findOriginatingFrameIsModelledLoop = true ∧
    frameAttrOf "locals" = some "f_locals" ∧ frameAttrOf "globals" = some "f_globals" ∧
    superTypeKey = "__class__" ∧ superSelfIndex = 0 ∧
    wrapperOf "eval" = some ("eval_in_original_context", ["f", "args", "caller_fn_scope"]) ∧
    wrapperOf "super" = some ("super_in_original_context", ["f", "args", "caller_fn_scope"]) ∧
    wrapperOf "globals" = some ("globals_in_original_context", ["caller_fn_scope"]) ∧
    wrapperOf "locals" = some ("locals_in_original_context", ["caller_fn_scope"]) := by decide

/-- `eval`/`locals`/`globals` resolve to the innermost frame holding the scope object: the frame of
the generated function that contains the call. -/
theorem C14_frames_innermost (name : String) (id : Nat) (b : String) (inn : Bool)
    (hb : b = "eval" ∨ b = "locals" ∨ b = "globals") (hi : innermostOf b = some inn)
    (lib : List Frame) (caller : Frame) (rest : List Frame)
    (hlib : ∀ f ∈ lib, f.holds name id = false) (hc : caller.holds name id = true) :
    findOriginatingFrame name id inn (lib ++ caller :: rest) = some lib.length := by
  have : inn = true := by
    rcases hb with rfl | rfl | rfl <;> simpa [innermostOf, frameSearchInnermost, List.lookup] using hi.symm
  subst this
  simpa [findOriginatingFrame] using findLoop_innermost name id caller rest hc lib 0 none hlib

/-- Hypothesis `mid = []`, i.e. the call is directly in the user function's body, not inside a
functionalised loop/branch body: then `eval`/`locals` see the user function's frame. -/
theorem C14_frames_partial (name : String) (id : Nat) (b : String) (inn : Bool)
    (hb : b = "eval" ∨ b = "locals") (hi : innermostOf b = some inn)
    (lib : List Frame) (user : Frame) (outer : List Frame)
    (hlib : ∀ f ∈ lib, f.holds name id = false) (hu : user.holds name id = true) :
    ∃ i, findOriginatingFrame name id inn (lib ++ user :: outer) = some i ∧
      (lib ++ user :: outer)[i]? = some user := by
  refine ⟨lib.length, C14_frames_innermost name id b inn ?_ hi lib user outer hlib hu, by simp⟩
  rcases hb with h | h
  · exact .inl h
  · exact .inr (.inl h)

example : findOriginatingFrame "fscope" 1 true
    [⟨"_find_originating_frame", [("caller_fn_scope", 1)], 9, []⟩, ⟨"eval_in_original_context", [("caller_fn_scope", 1)], 9, []⟩,
     ⟨"converted_call", [("caller_fn_scope", 1)], 8, []⟩, ⟨"ag__ev", [("c", 2), ("fscope", 1), ("zz", 4)], 7, ["c"]⟩,
     ⟨"caller", [("fscope", 6)], 7, []⟩] = some 3 := by decide

/-- Finer hypothesis (what the class predicate `bodyHidesName` negates): at ANY nesting, if the frame
found shows every user variable the call needs exactly as the user function's frame does — the
generated body references it, so it is among the body's free variables — then name lookups through
the frame found give the user frame's objects. -/
theorem C14_frames_visible_partial (name : String) (id : Nat) (needed : List String) (stack : List Frame)
    (h : bodyHidesName name id needed stack = false)
    (i j : Nat) (hi : findOriginatingFrame name id true stack = some i)
    (hj : findOriginatingFrame name id false stack = some j)
    (found user : Frame) (ha : stack[i]? = some found) (hb : stack[j]? = some user) :
    ∀ n ∈ needed, found.locals.lookup n = user.locals.lookup n := by
  intro n hn
  simp only [bodyHidesName, hi, hj, ha, hb, Bool.not_eq_false', lookupAgree, List.all_eq_true, beq_iff_eq] at h
  exact h n hn

/-- At nesting depth 0 the class predicate is false whatever the call needs. -/
theorem C14_frames_visible_depth0 (name : String) (id : Nat) (needed : List String)
    (lib : List Frame) (user : Frame) (outer : List Frame)
    (hlib : ∀ f ∈ lib, f.holds name id = false) (hu : user.holds name id = true)
    (hout : ∀ f ∈ outer, f.holds name id = false) :
    bodyHidesName name id needed (lib ++ user :: outer) = false := by
  have h1 : findOriginatingFrame name id true (lib ++ user :: outer) = some lib.length := by
    simpa [findOriginatingFrame] using findLoop_innermost name id user outer hu lib 0 none hlib
  have h2 : findOriginatingFrame name id false (lib ++ user :: outer) = some lib.length := by
    simpa [findOriginatingFrame] using findLoop_outermost name id user outer hu hout lib 0 none
  simp [bodyHidesName, h1, h2, lookupAgree]

example : bodyHidesName "fscope" 1 ["zz"]
    [⟨"lib", [], 9, []⟩, ⟨"if_body", [("fscope", 1), ("r", 5)], 7, []⟩,
     ⟨"ag__ev", [("c", 2), ("fscope", 1), ("zz", 4)], 7, ["c"]⟩] = true := by decide
example : bodyHidesName "fscope" 1 ["r"]
    [⟨"lib", [], 9, []⟩, ⟨"if_body", [("fscope", 1), ("r", 5)], 7, []⟩,
     ⟨"ag__ev", [("c", 2), ("fscope", 1), ("zz", 4), ("r", 5)], 7, ["c"]⟩] = false := by decide

/-- Counterexample to the full statement: inside `if_body` the frame found is `if_body`'s, and the
user's local `zz`, which `if_body` does not reference, is not among its `f_locals`
(`eval('zz + 1')` → NameError). -/
theorem C14_frames_counterexample :
    let lib : List Frame := [⟨"_find_originating_frame", [("caller_fn_scope", 1)], 9, []⟩,
                             ⟨"eval_in_original_context", [("caller_fn_scope", 1)], 9, []⟩,
                             ⟨"converted_call", [("caller_fn_scope", 1)], 8, []⟩]
    let body : Frame := ⟨"if_body", [("fscope", 1), ("r", 5)], 7, []⟩
    let mid : List Frame := [⟨"_py_if_stmt", [("body", 3)], 6, []⟩, ⟨"if_stmt", [("body", 3)], 6, []⟩]
    let user : Frame := ⟨"ag__ev", [("c", 2), ("fscope", 1), ("zz", 4), ("if_body", 3)], 7, ["c"]⟩
    let stack := lib ++ body :: mid ++ [user]
    findOriginatingFrame "fscope" 1 true stack = some 3 ∧ stack[3]? = some body ∧
    stack[6]? = some user ∧ body.locals.lookup "zz" = none ∧ user.locals.lookup "zz" = some 4 := by
  decide

/-- Zero-argument `super` (full strength, any nesting): the outermost frame holding the scope
object is the converted user function's own frame, whatever generated bodies lie in between. -/
theorem C14_super_frame (name : String) (id : Nat) (inn : Bool) (hi : innermostOf "super" = some inn)
    (pre : List Frame) (user : Frame) (outer : List Frame)
    (hu : user.holds name id = true) (hout : ∀ f ∈ outer, f.holds name id = false) :
    ∃ i, findOriginatingFrame name id inn (pre ++ user :: outer) = some i ∧
      (pre ++ user :: outer)[i]? = some user ∧
      ((pre ++ user :: outer)[i]?).bind superArgs = superSpec user := by
  have : inn = false := by simpa [innermostOf, frameSearchInnermost, List.lookup] using hi.symm
  subst this
  refine ⟨pre.length, ?_, by simp, ?_⟩
  · simpa [findOriginatingFrame] using findLoop_outermost name id user outer hu hout pre 0 none
  · simp only [List.getElem?_append_right (Nat.le_refl _), Nat.sub_self, List.getElem?_cons_zero, Option.bind_some,
      superArgs, superSpec, superTypeKey, superSelfIndex]
    cases user.varnames <;> cases List.lookup "__class__" user.locals <;> simp

example : findOriginatingFrame "fscope" 1 false
    [⟨"lib", [], 9, []⟩, ⟨"loop_body", [("fscope", 1)], 7, ["itr"]⟩, ⟨"if_body", [("fscope", 1)], 7, []⟩,
     ⟨"ag__m", [("self", 2), ("fscope", 1), ("__class__", 3)], 7, ["self"]⟩,
     ⟨"ag__m", [("self", 2), ("fscope", 8), ("__class__", 3)], 7, ["self"]⟩] = some 3 := by decide

/-- `globals()` (full strength, any nesting): every frame that holds the scope object belongs to
code generated into the user function's module, so whichever of them the search returns has the
user function's globals. -/
theorem C14_globals (name : String) (id : Nat) (inn : Bool) (stack : List Frame) (g : Nat)
    (hg : ∀ f ∈ stack, f.holds name id = true → f.globals = g)
    (i : Nat) (h : findOriginatingFrame name id inn stack = some i) :
    (stack[i]?).map (·.globals) = some g := by
  rcases findLoop_some name id inn stack 0 none i h with h' | ⟨_, f, hf, hh⟩
  · cases h'
  · simp only [Nat.sub_zero] at hf
    rw [hf]
    simp [hg f (List.mem_of_getElem? hf) hh]

example : ((([⟨"lib", [], 9, []⟩, ⟨"loop_body", [("fscope", 1)], 7, ["itr"]⟩, ⟨"ag__f", [("fscope", 1)], 7, []⟩] : List Frame)[1]?).map
    (·.globals)) = some 7 := by decide

/-! ## The namespaces `eval` ends up with

Full statement (FALSE of the pinned code): `evalForward lib user extra = evalSpec user extra` for
every `extra` of length ≤ 2. -/

/-- With the frame found being the user's: `eval(src)` and `eval(src, g, l)` (`g` a mapping) use
exactly the namespaces the library reference prescribes for a call from the user's frame. -/
theorem C14_eval_args_partial (lib user : Nat) (extra : List EArg) (h : evalArgsFaithful extra = true) :
    evalForward lib user extra = evalSpec user extra := by
  match extra, h with
  | [], _ => rfl
  | [.ns g, .none], _ => rfl
  | [.ns g, .ns l], _ => rfl

example : evalForward 0 1 [] = some (.frameGlobals 1, .frameLocals 1) := rfl
example : evalForward 0 1 [.ns (.obj 5), .ns (.obj 6)] = some (.obj 5, .obj 6) := rfl
example : evalArgsFaithful [.ns (.obj 5), .none] = true := rfl

/-- The excluded argument lists are exactly the two finding classes. -/
theorem C14_eval_classes (extra : List EArg) (hl : extra.length ≤ 2) :
    evalArgsFaithful extra = false ↔ (evalGlobalsOnly extra = true ∨ evalNoneGlobals extra = true) := by
  match extra, hl with
  | [], _ => simp [evalArgsFaithful, evalGlobalsOnly, evalNoneGlobals]
  | [.none], _ => simp [evalArgsFaithful, evalGlobalsOnly, evalNoneGlobals]
  | [.ns _], _ => simp [evalArgsFaithful, evalGlobalsOnly, evalNoneGlobals]
  | [.none, _], _ => simp [evalArgsFaithful, evalGlobalsOnly, evalNoneGlobals]
  | [.ns _, _], _ => simp [evalArgsFaithful, evalGlobalsOnly, evalNoneGlobals]

/-- `eval(src, g)`: the library reference says locals = `g`; the wrapper passes the frame's locals. -/
theorem C14_eval_globals_only_deviates (lib user : Nat) (g : Ns) :
    evalSpec user [.ns g] = some (g, g) ∧
    evalForward lib user [.ns g] = some (g, .frameLocals user) := ⟨rfl, rfl⟩

/-- `eval(src, None)` / `eval(src, None, l)`: globals should be the user frame's; the real `eval`
is called from py_builtins (frame `lib`) with `None`, so it takes py_builtins' module globals. -/
theorem C14_eval_none_globals_deviates (lib user : Nat) :
    evalSpec user [.none] = some (.frameGlobals user, .frameLocals user) ∧
    evalForward lib user [.none] = some (.frameGlobals lib, .frameLocals user) ∧
    (∀ l, evalSpec user [.none, .ns l] = some (.frameGlobals user, l) ∧
          evalForward lib user [.none, .ns l] = some (.frameGlobals lib, l)) :=
  ⟨rfl, rfl, fun _ => ⟨rfl, rfl⟩⟩

/-! ## Content of the user frame seen by a dynamic read

Full statement (FALSE of the pinned code, see `C14_dynamic_read_counterexample`):
`convFrame ws st n = origFrame ws st n` for every name — an `eval('x')`/`locals()['x']` placed after a
functionalised block sees the writes the block made to `x`. The converter makes a body's assignment
`nonlocal` only for names its static liveness analysis finds read later; a read through
`eval`/`locals` is invisible to it. -/

private theorem applyWrites_agree (n : String) (k1 k2 : Write → Bool) :
    ∀ (ws : List Write) (s1 s2 : String → Option Nat), s1 n = s2 n →
      (∀ w ∈ ws, w.name = n → k1 w = k2 w) → applyWrites k1 ws s1 n = applyWrites k2 ws s2 n := by
  intro ws
  induction ws with
  | nil => intro s1 s2 h _; exact h
  | cons w r ih =>
    intro s1 s2 h hk
    simp only [applyWrites]
    apply ih
    · by_cases hn : w.name = n
      · have := hk w (List.mem_cons_self ..) hn
        rw [this]
        cases k2 w <;> simp [h, hn]
      · have hn' : ¬ n = w.name := fun e => hn e.symm
        cases k1 w <;> cases k2 w <;> simp [h, hn']
    · intro w' hw' hn
      exact hk w' (List.mem_cons_of_mem _ hw') hn

/-- If no name the call reads dynamically is assigned in a generated body without a `nonlocal`
declaration, the converted function's frame shows, for those names, exactly what the original
function's frame shows — for every sequence of writes and every initial frame. -/
theorem C14_dynamic_read_partial (needed : List String) (ws : List Write) (st : String → Option Nat)
    (h : staleDynamicRead needed ws = false) : ∀ n ∈ needed, convFrame ws st n = origFrame ws st n := by
  intro n hn
  apply applyWrites_agree n _ _ ws st st rfl
  intro w hw hname
  simp only [staleDynamicRead, List.any_eq_false, List.any_eq_true, Bool.and_eq_true, beq_iff_eq, Bool.not_eq_true',
    not_exists, not_and] at h
  have := h n hn w hw
  cases hb : w.inBody <;> cases hd : w.nonlocalDecl <;> simp
  exact absurd hd (by simpa [hname, hb] using this)

example : staleDynamicRead ["x"] [⟨"x", 5, true, true⟩, ⟨"y", 1, true, false⟩, ⟨"x", 7, false, false⟩] = false := by decide

/-- Counterexample to the full statement: `x = -1; if c: x = 5; return eval('x')` — the body's `x = 5`
is a local of `if_body`, the user frame still has the old `x`. -/
theorem C14_dynamic_read_counterexample :
    let ws : List Write := [⟨"x", 0, false, false⟩, ⟨"x", 5, true, false⟩]
    staleDynamicRead ["x"] ws = true ∧ origFrame ws (fun _ => none) "x" = some 5 ∧
    convFrame ws (fun _ => none) "x" = some 0 := by
  decide

end Malt.Builtins
