import MaltModel.Conv.Contract
/-! # C03 — emitted operator calls obey the operator calling contract (under construction) -/
namespace Malt.Conv.Contract

theorem C03_placeholder : True := trivial

end Malt.Conv.Contract
