import MaltModel.Proofs.C03Store
/-!
# C03 — emitted operator calls obey the operator calling contract

Model: `Conv/BlockVars.lean` (`_get_block_vars`), `Conv/ControlFlow.lean` (`ControlFlowTransformer`),
`Conv/Contract.lean` (the contract as predicates on generated code + the verified checker + the store
semantics of the state functions).  All theorems are about `cfOutput env nm root`, the output of the model
of the pass, for ALL source trees `root`, ALL annotation tables / directive tables `env` and ALL namer states
`nm`.  The only hypothesis is `cleanS root`: the source itself contains no statement `ag__.if_stmt(...)`,
`ag__.while_stmt(...)`, `ag__.for_stmt(...)` (the `ag__` namespace belongs to the converter).

`emitted g` lists every operator call of a tree with its functions resolved (`none` = malformed call), so
"`∀ o ∈ emitted g, ∃ c, o = some c ∧ P c`" says: every call is well formed and satisfies `P`.
-/
namespace Malt.Conv.Contract
open Malt Malt.Py Malt.Naming Malt.Conv.ControlFlow

private theorem model_good (env : Env) (nm : Namer) (root : Stmt) (h : cleanS root = true) :
    ∀ o ∈ emitted (cfOutput env nm root), ∃ c, o = some c ∧ Good c ∧ OptsOk env (sourceLoopsS root) c ∧ CallbacksDeclare c := by
  intro o ho
  obtain ⟨c, hc, hg, ho', hcb⟩ := tStmt_good env (sourceLoopsS root) root {} nm h (fun _ hl => hl) [] o ho
  exact ⟨c, hc, hg, ho', hcb⟩

private theorem state_of_good {c : OpCall} (hg : Good c) :
    ∃ gs ts es, getterTuple c = some gs ∧ setterTargets c = some ts ∧ entriesOf gs = some es ∧
      ts.mapM exprQN = some (es.map (·.qn)) ∧ (es.map (·.qn)).Nodup ∧ es.length = c.names.length := by
  obtain ⟨hl, ⟨gs, ts, hgs, hts, h3⟩, _, _, ⟨ts', qs, hts', hqs, hnd⟩, _, _⟩ := hg
  obtain ⟨es, he, hq⟩ := entries_of_all3 h3
  rw [hts] at hts'
  cases hts'
  rw [hq] at hqs
  cases hqs
  refine ⟨gs, ts, es, hgs, hts, he, hq, hnd, ?_⟩
  have := mapM_length' he
  rw [this, (All3.lengths h3).1]

private theorem set_get_of {c : OpCall} {gs ts : List Expr} {es : List Entry} (hd : SetterDeclares c)
    (hgs : getterTuple c = some gs) (hts : setterTargets c = some ts) (he : entriesOf gs = some es)
    (hq : ts.mapM exprQN = some (es.map (·.qn))) (hlen : es.length = c.names.length)
    (σ : Store) (vs : List Val) (n : Nat) (hcl : classify σ es = .lawful) (hv : vs.length = c.names.length) :
    ∃ σ', runSetter c vs σ = some σ' ∧ (runGetter c ⟨σ', n⟩).1 = some vs := by
  obtain ⟨hu, hm, hdep, hal⟩ := lawful_facts hcl
  obtain ⟨σ', hs, hgv⟩ := getS_setS es vs σ (slotsOf σ es) (locs_of_located es σ hu hm) (independent_of_class hdep)
    (nodup_of_class hal) (by rw [hlen, hv])
  refine ⟨σ', ?_, ?_⟩
  · simp only [runSetter, hts, hq, setterTarget_id hd hts hq, setS, List.length_map, hlen, hv, if_true, hs]
  · simp only [runGetter, hgs]
    rw [evalGetter_eq_getS gs es _ he]
    exact hgv

private theorem get_set_of {c : OpCall} {gs ts : List Expr} {es : List Entry} (hd : SetterDeclares c)
    (hgs : getterTuple c = some gs) (hts : setterTargets c = some ts) (he : entriesOf gs = some es)
    (hq : ts.mapM exprQN = some (es.map (·.qn)))
    (σ : Store) (vs : List Val) (n : Nat) (hu : undefBaseAt σ es = false) (hm : missingAt σ es = false)
    (hr : (runGetter c ⟨σ, n⟩).1 = some vs) : runSetter c vs σ = some σ := by
  simp only [runGetter, hgs] at hr
  rw [evalGetter_eq_getS gs es _ he] at hr
  have hvl : vs.length = es.length := mapM_length' hr
  simp only [runSetter, hts, hq, setterTarget_id hd hts hq, setS, List.length_map, hvl, if_true]
  exact setS_getS es vs σ hu hm hr

/-! ## The syntactic contract -/

/-- The names tuple, the tuple returned by the getter and the tuple assigned by the setter have equal length. -/
theorem C03_lengths (env : Env) (nm : Namer) (root : Stmt) (h : cleanS root = true) :
    ∀ o ∈ emitted (cfOutput env nm root), ∃ c, o = some c ∧ Lengths c := by
  intro o ho
  obtain ⟨c, hc, hg, _⟩ := model_good env nm root h o ho
  exact ⟨c, hc, hg.1⟩

/-- Position by position the three tuples denote the same variable: `names[i] = 's'`, `getter[i]` reads `qnOf s`
(through `ag__.ldu(lambda: …, 's')` when `s` is composite), `setter[i]` assigns `qnOf s`. -/
theorem C03_positions (env : Env) (nm : Namer) (root : Stmt) (h : cleanS root = true) :
    ∀ o ∈ emitted (cfOutput env nm root), ∃ c, o = some c ∧ Positions c := by
  intro o ho
  obtain ⟨c, hc, hg, _⟩ := model_good env nm root h o ho
  exact ⟨c, hc, hg.2.1⟩

/-- "Denotes" is anchored in `str`: the variable `qnOf s` that position `i` reads and writes prints back (`str(qn)`)
to exactly the string `s` found in the names tuple — for every string, well-formed or not. -/
theorem C03_name_is_str_of_variable (s : String) : (qnOf s).toString = s := qnOf_toString s

/-- The same, by index. -/
theorem C03_positions_at (env : Env) (nm : Namer) (root : Stmt) (h : cleanS root = true) :
    ∀ o ∈ emitted (cfOutput env nm root), ∃ c gs ts, o = some c ∧ getterTuple c = some gs ∧
      setterTargets c = some ts ∧
      ∀ (i : Nat) (n g t : Expr), c.names[i]? = some n → gs[i]? = some g → ts[i]? = some t → PosOk n g t := by
  intro o ho
  obtain ⟨c, hc, hg, _⟩ := model_good env nm root h o ho
  obtain ⟨gs, ts, hgs, hts, h3⟩ := hg.2.1
  refine ⟨c, gs, ts, hc, hgs, hts, ?_⟩
  generalize c.names = ns at h3
  clear hgs hts hg
  induction h3 with
  | nil => intro i n g t hn; simp at hn
  | cons hp _ ih =>
    intro i n g t hn hg' ht
    cases i with
    | zero =>
      simp only [List.getElem?_cons_zero, Option.some.injEq] at hn hg' ht
      subst hn hg' ht; exact hp
    | succ j =>
      simp only [List.getElem?_cons_succ] at hn hg' ht
      exact ih j n g t hn hg' ht

/-- No variable occurs twice in a state tuple. -/
theorem C03_distinct (env : Env) (nm : Namer) (root : Stmt) (h : cleanS root = true) :
    ∀ o ∈ emitted (cfOutput env nm root), ∃ c, o = some c ∧ Distinct c := by
  intro o ho
  obtain ⟨c, hc, hg, _⟩ := model_good env nm root h o ho
  exact ⟨c, hc, hg.2.2.2.2.1⟩

/-- The setter assigns the variables of the enclosing function: every simple state variable is declared `global` /
`nonlocal` in it. -/
theorem C03_setter_declares (env : Env) (nm : Namer) (root : Stmt) (h : cleanS root = true) :
    ∀ o ∈ emitted (cfOutput env nm root), ∃ c, o = some c ∧ SetterDeclares c := by
  intro o ho
  obtain ⟨c, hc, hg, _⟩ := model_good env nm root h o ho
  exact ⟨c, hc, hg.2.2.2.2.2.2⟩

/-- getter 0, setter 1, body 0 (`for_stmt`: 1), orelse / test / extra_test 0 parameters — plain positional
parameters only; `extra_test` may be `None` only in a `for_stmt`. -/
theorem C03_arity (env : Env) (nm : Namer) (root : Stmt) (h : cleanS root = true) :
    ∀ o ∈ emitted (cfOutput env nm root), ∃ c, o = some c ∧ Arity c := by
  intro o ho
  obtain ⟨c, hc, hg, _⟩ := model_good env nm root h o ho
  exact ⟨c, hc, hg.2.2.1⟩

/-- `nouts` of an `if_stmt` is an integer constant with `0 ≤ nouts ≤ len(symbol_names)`, and outputs occupy the
positions `< nouts`: the names are `_get_block_vars`' variables of one `if` node, none of the first `nouts` is
input-only and every later one is (`inputOnly` = modified, live into and not live out of the statement). -/
theorem C03_nouts (env : Env) (nm : Namer) (root : Stmt) (h : cleanS root = true) :
    ∀ o ∈ emitted (cfOutput env nm root), ∃ c, o = some c ∧ Nouts c ∧
      (c.kind = .ifStmt → ∃ r : BlockVars.Result,
        (∃ fs id, r = env.blockVars fs id ((env.scope id "BODY_SCOPE").bound ++ (env.scope id "ORELSE_SCOPE").bound)) ∧
        c.names = r.scopeVars.map strConst ∧ natConst? c.last = some r.nouts ∧
        r.nouts ≤ r.scopeVars.length ∧
        (∀ v ∈ r.scopeVars.take r.nouts, r.inputOnly.contains v = false) ∧
        (∀ v ∈ r.scopeVars.drop r.nouts, r.inputOnly.contains v = true)) := by
  intro o ho
  obtain ⟨c, hc, hg, hopt, _⟩ := model_good env nm root h o ho
  refine ⟨c, hc, hg.2.2.2.1, ?_⟩
  intro hk
  simp only [OptsOk, hk] at hopt
  obtain ⟨fs, id, hn, hl⟩ := hopt
  refine ⟨_, ⟨fs, id, rfl⟩, hn, ?_, ?_⟩
  · rw [hl]; exact natConst_intConst _
  · exact BlockVars.blockVars_nouts ..

/-- Loop options: a `for_stmt` carries exactly the `set_loop_options` keywords annotated on THAT source loop
followed by `iterate_names` = the unparsed target of that loop (and its body function unpacks that target); a
`while_stmt` carries exactly the keywords annotated on THAT loop (and its test function returns that loop's test). -/
theorem C03_opts (env : Env) (nm : Namer) (root : Stmt) (h : cleanS root = true) :
    ∀ o ∈ emitted (cfOutput env nm root), ∃ c, o = some c ∧
      (c.kind = .forStmt → ∃ l ∈ sourceLoopsS root, l.isFor = true ∧
        c.last = loopOptions env.dirs l.id [("iterate_names", strConst (unparseE l.header))] ∧
        forBodyTarget c = some (splice .store l.header)) ∧
      (c.kind = .whileStmt → ∃ l ∈ sourceLoopsS root, l.isFor = false ∧
        c.last = loopOptions env.dirs l.id [] ∧ whileTest c = some (splice .load l.header)) := by
  intro o ho
  obtain ⟨c, hc, _, hopt, _⟩ := model_good env nm root h o ho
  refine ⟨c, hc, ?_, ?_⟩ <;> intro hk <;> simp only [OptsOk, hk] at hopt <;> exact hopt

/-! ## The contract as ONE statement -/

/-- **The contract handed to third-party operator implementations**, for all three operators at once: for every source tree
(without `ag__.*_stmt` statements of its own), every annotation / directive table and every namer state, EVERY
`ag__.if_stmt` / `ag__.while_stmt` / `ag__.for_stmt` call in the output of the model — at any nesting depth, inside generated
body functions included — is well formed (its functions are defined in its block) and satisfies `OperatorContract`:
lengths, positions, distinctness, arities, getter purity, declarations of setter and callbacks, `nouts` bounds, the first
`nouts` entries are EXACTLY the outputs (`BlockVars.isOutput`), and `opts` are exactly the directives annotated on that loop
(+ `iterate_names`).  Proof: structural induction `tStmt_good` (Proofs/C03Model.lean) + the facts about `_get_block_vars`
(Proofs/C03BlockVars.lean). -/
theorem C03_operator_contract (env : Env) (nm : Namer) (root : Stmt) (h : cleanS root = true) :
    ∀ o ∈ emitted (cfOutput env nm root), ∃ c, o = some c ∧ OperatorContract env (sourceLoopsS root) c := by
  intro o ho
  obtain ⟨c, hc, hg, hopt, hcb⟩ := model_good env nm root h o ho
  refine ⟨c, hc, ⟨hg.1, hg.2.1, hg.2.2.2.2.1, hg.2.2.1, hg.2.2.2.2.2.1, hg.2.2.2.2.2.2, hcb, hg.2.2.2.1, ?_, hopt⟩⟩
  intro hk
  have hopt' := hopt
  simp only [OptsOk, hk] at hopt'
  obtain ⟨fs, id, hn, hl⟩ := hopt'
  refine ⟨fs, id, _, rfl, hn, by rw [hl]; exact natConst_intConst _, ?_, ?_⟩
  · rw [hn, List.length_map]
    exact (BlockVars.blockVars_nouts ..).1
  · intro i v hi
    exact BlockVars.blockVars_outputs_first _ _ _ _ _ _ i v hi

/-- What "output" means: a simple output that is neither live into nor live out of the statement is a name the enclosing
function declares `global` / `nonlocal`; every other output is composite or live out. -/
theorem C03_outputs_are_live_out_or_outer (m li lo di g n : List String) (v : String)
    (hv : v ∈ (BlockVars.blockVars m li lo di g n).scopeVars) (ho : BlockVars.isOutput li lo v = true) :
    BlockVars.isComposite v = true ∨ lo.contains v = true ∨ (n ++ g).contains v = true := by
  cases hc : BlockVars.isComposite v
  · cases hout : lo.contains v
    · right; right
      cases hin : li.contains v
      · exact BlockVars.output_not_live_is_outer m li lo di g n v hv hc hin hout
      · exfalso
        have hin' : v ∈ li := by simpa using hin
        have hout' : v ∉ lo := by simpa using hout
        simp [BlockVars.isOutput, hc] at ho
        rcases ho with h1 | h1
        · exact h1 hin'
        · exact hout' h1
    · right; left; rfl
  · left; rfl

/-! ## Getter / setter algebra (store semantics of `Conv.Contract`) -/

/-- Reading state has no effect: every element of the getter tuple is a plain read, and evaluating the getter
leaves the world (store and effect count) as it was. -/
theorem C03_get_pure (env : Env) (nm : Namer) (root : Stmt) (h : cleanS root = true) :
    ∀ o ∈ emitted (cfOutput env nm root), ∃ c, o = some c ∧ GetterPure c ∧ ∀ w : World, (runGetter c w).2 = w := by
  intro o ho
  obtain ⟨c, hc, hg, _⟩ := model_good env nm root h o ho
  refine ⟨c, hc, hg.2.2.2.2.2.1, ?_⟩
  obtain ⟨gs, hgs, hall⟩ := hg.2.2.2.2.2.1
  intro w
  simp only [runGetter, hgs]
  exact evalGetter_pure gs w hall

/-! ### The classes of (state tuple, store) pairs

`classify σ es` puts every pair into exactly one of `undefinedBase`, `missingComposite`, `dependent`, `aliased`, `lawful`
(decidable, `Conv/Contract.lean`).  The three laws are theorems on `lawful`; each of the other classes has a Lean
counterexample below, the first three are the listed findings of the pinned code. -/

/-- The partition: a pair is lawful iff it is in none of the four exceptional classes. -/
theorem C03_state_classes (σ : Store) (es : List Entry) :
    classify σ es = .lawful ↔
      (undefBaseAt σ es = false ∧ missingAt σ es = false ∧ dependentAt σ es = false ∧ aliasedAt σ es = false) :=
  ⟨lawful_facts, fun h => lawful_of_facts h.1 h.2.1 h.2.2.1 h.2.2.2⟩

/-
The full statement "a write followed by a read returns what was written",

  theorem C03_set_get : ∀ o ∈ emitted (cfOutput env nm root), ∃ c, o = some c ∧
      ∀ σ vs n, vs.length = c.names.length → ∃ σ', runSetter c vs σ = some σ' ∧ (runGetter c ⟨σ', n⟩).1 = some vs

is FALSE of the pinned code: for `('dd[x]', 'x')` the tuple assignment writes `dd[<old x>]`, then `x`, and the read
evaluates `dd[<new x>]` (`C03_set_get_counterexample`, class `dependent`; corpus/C03/index_in_state.json); it raises when a
base holds `Undefined` (class `undefinedBase`) or an entry cannot be located (class `missingComposite`); and two aliasing
entries read back the later value (class `aliased`, `C03_aliased_counterexample`).  What holds:
-/

/-- `get_state()` after `set_state(vs)` returns `vs`, component by component — for every call the pass can emit, every
store in the class `lawful` for its state tuple, and every `vs` of the right length. -/
theorem C03_set_get_partial (env : Env) (nm : Namer) (root : Stmt) (h : cleanS root = true) :
    ∀ o ∈ emitted (cfOutput env nm root), ∃ c es, o = some c ∧ entries c = some es ∧
      ∀ (σ : Store) (vs : List Val) (n : Nat), classify σ es = .lawful → vs.length = c.names.length →
        ∃ σ', runSetter c vs σ = some σ' ∧ (runGetter c ⟨σ', n⟩).1 = some vs := by
  intro o ho
  obtain ⟨c, hc, hg, _⟩ := model_good env nm root h o ho
  obtain ⟨gs, ts, es, hgs, hts, he, hq, hnd, hlen⟩ := state_of_good hg
  refine ⟨c, es, hc, by simp [entries, hgs, he], ?_⟩
  intro σ vs n hcl hv
  exact set_get_of hg.2.2.2.2.2.2 hgs hts he hq hlen σ vs n hcl hv

private theorem i20 : Int.repr 2 ≠ Int.repr 0 := by simp [Int.repr]

/-- The counterexample to the full statement (class `dependent`): the state tuple `('dd[x]', 'x')` with `dd` an object,
`x = 0`, `dd[0] = 5`, written with `(1, 2)`, reads back `(Undefined, 2)`. -/
theorem C03_set_get_counterexample :
    let es : List Entry := [{ qn := .sub (.sym "dd") (.sym "x"), guarded := true, label := strConst "dd[x]" },
                            { qn := .sym "x", guarded := false, label := .noneMarker }]
    let σ : Store := fun q =>
      if q = .sym "dd" then some (.obj 0) else if q = .sym "x" then some (.int 0)
      else if q = .sub (objLit 0) (.lit "int" (toString (0 : Int))) then some (.int 5) else none
    let vs : List Val := [.int 1, .int 2]
    classify σ es = .dependent ∧
    ∃ σ', assignSeq (es.map (·.qn)) vs σ = some σ' ∧ getS es σ' ≠ some vs := by
  intro es σ vs
  have h20 := i20
  refine ⟨?_, ?_⟩
  · simp [es, σ, classify, undefBaseAt, missingAt, dependentAt, slotsOf, reads, resolve, Res.read, Res.slots, resolveIdx,
      valLit, objLit]
  · refine ⟨_, by simp [es, σ, vs, assignSeq, resolve, Res.read, resolveIdx, valLit, objLit]; rfl, ?_⟩
    simp [es, vs, getS, readEntry, resolve, Res.read, resolveIdx, update, valLit, objLit, h20]

/-- Class `aliased`: `('o.a', 'p.a')` with `o is p`, written with `(1, 2)`, reads back `(2, 2)`. -/
theorem C03_aliased_counterexample :
    let es : List Entry := [{ qn := .attr (.sym "o") "a", guarded := true, label := strConst "o.a" },
                            { qn := .attr (.sym "p") "a", guarded := true, label := strConst "p.a" }]
    let σ : Store := fun q =>
      if q = .sym "o" then some (.obj 0) else if q = .sym "p" then some (.obj 0)
      else if q = .attr (objLit 0) "a" then some (.int 5) else none
    classify σ es = .aliased ∧
    ∃ σ', assignSeq (es.map (·.qn)) [.int 1, .int 2] σ = some σ' ∧ getS es σ' = some [.int 2, .int 2] := by
  intro es σ
  refine ⟨?_, ?_⟩
  · simp [es, σ, classify, undefBaseAt, missingAt, dependentAt, aliasedAt, nodupB, slotsOf, reads, resolve, Res.read,
      Res.slots, objLit]
  · refine ⟨_, by simp [es, σ, assignSeq, resolve, Res.read, objLit]; rfl, ?_⟩
    simp [es, getS, readEntry, resolve, Res.read, update, objLit]

/-
The full statement "writing back what was just read changes nothing",

  theorem C03_get_set : ∀ o ∈ emitted (cfOutput env nm root), ∃ c, o = some c ∧
      ∀ σ vs n, (runGetter c ⟨σ, n⟩).1 = some vs → runSetter c vs σ = some σ

is FALSE of the pinned code: a composite entry (`d['k']`, `o.a`) that the store lacks is read through `ag__.ldu` as
`Undefined('d[…]')` and the write-back CREATES it (`C03_get_set_counterexample`, class `missingComposite`,
corpus/C03/missing_composite.json); with a base that holds the `Undefined` placeholder the read succeeds and the write-back
RAISES (`C03_undefined_base_counterexample`, class `undefinedBase`, corpus/C03/composite_base_undefined.json).  What holds:
-/

/-- `set_state(get_state())` is the identity on the caller-visible store — for every call the pass can emit and every
store that is in neither of the classes `undefinedBase`, `missingComposite` for its state tuple (in particular every
`lawful` one; dependence and aliasing do not matter here). -/
theorem C03_get_set_partial (env : Env) (nm : Namer) (root : Stmt) (h : cleanS root = true) :
    ∀ o ∈ emitted (cfOutput env nm root), ∃ c es, o = some c ∧ entries c = some es ∧
      ∀ (σ : Store) (vs : List Val) (n : Nat), undefBaseAt σ es = false → missingAt σ es = false →
        (runGetter c ⟨σ, n⟩).1 = some vs → runSetter c vs σ = some σ := by
  intro o ho
  obtain ⟨c, hc, hg, _⟩ := model_good env nm root h o ho
  obtain ⟨gs, ts, es, hgs, hts, he, hq, _, _⟩ := state_of_good hg
  exact ⟨c, es, hc, by simp [entries, hgs, he],
    fun σ vs n hu hm hr => get_set_of hg.2.2.2.2.2.2 hgs hts he hq σ vs n hu hm hr⟩

/-- Class `missingComposite`: the state tuple `("d['k']",)` of `if a: d['k'] = 1` with `d` an empty dict: the guarded read
yields `Undefined`, the write-back creates the entry. -/
theorem C03_get_set_counterexample :
    let e : Entry := { qn := .sub (.sym "d") (.lit "str" "'k'"), guarded := true, label := strConst "d['k']" }
    let σ : Store := fun q => if q = .sym "d" then some (.obj 0) else none
    classify σ [e] = .missingComposite ∧
    ∃ (vs : List Val) (σ' : Store), getS [e] σ = some vs ∧ assignSeq [e.qn] vs σ = some σ' ∧ σ' ≠ σ := by
  intro e σ
  refine ⟨by simp [e, σ, classify, undefBaseAt, missingAt, resolve, Res.read, resolveIdx, objLit], ?_⟩
  refine ⟨[.undef (labelStr e.label)], _, ?_, by simp [e, σ, assignSeq, resolve, Res.read, resolveIdx, objLit]; rfl, ?_⟩
  · simp [e, σ, getS, readEntry, resolve, Res.read, resolveIdx, objLit]
  · intro heq
    have := congrFun heq (.sub (objLit 0) (.lit "str" "'k'"))
    simp [σ, update, objLit] at this

/-- Class `undefinedBase`: the state tuple `('p.v',)` with `p = Undefined('p')`: the read succeeds (the placeholder answers
every attribute with itself), the write-back raises. -/
theorem C03_undefined_base_counterexample :
    let e : Entry := { qn := .attr (.sym "p") "v", guarded := true, label := strConst "p.v" }
    let σ : Store := fun q => if q = .sym "p" then some (.undef "p") else none
    classify σ [e] = .undefinedBase ∧ getS [e] σ = some [.undef "p"] ∧ assignSeq [e.qn] [.undef "p"] σ = none := by
  intro e σ
  refine ⟨by simp [e, σ, classify, undefBaseAt, resolve, Res.read], by simp [e, σ, getS, readEntry, resolve, Res.read],
    by simp [e, σ, assignSeq, resolve, Res.read]⟩

/-- Hence the unconditional law fails. -/
theorem C03_get_set_full_is_false :
    ¬ ∀ (es : List Entry) (vs : List Val) (σ σ' : Store), getS es σ = some vs →
        assignSeq (es.map (·.qn)) vs σ = some σ' → σ' = σ := by
  intro hall
  obtain ⟨_, vs, σ', h1, h2, h3⟩ := C03_get_set_counterexample
  exact h3 (hall _ vs _ σ' h1 h2)

/-! ### Non-vacuity of the hypotheses -/

/-- `cleanS` holds of ordinary source trees (here `if c: x = 1` followed by nothing), so the theorems above apply. -/
example : cleanS (.if_ 1 (.name 2 "c" .load) [.assign 3 [.name 4 "x" .store] (.const 5 "int" "1"),
    .expr 6 (.call 7 (.name 8 "tr" .load) [] [])] []) = true := by
  simp [cleanS, cleanL, isOpCall, opCall?, agOp?]

/-- ... and fails of a tree that calls the operator itself. -/
example : cleanS (.expr 1 (.call 2 (.attr 3 (.name 4 "ag__" .load) "if_stmt" .load) [] [])) = false := by
  simp [cleanS, isOpCall, opCall?, agOp?, kindOfOp]

/-- The class `lawful` is inhabited by a tuple with a composite entry: `('o.a', 'x')` with `o` an object that has `a`. -/
example :
    let es : List Entry := [{ qn := .attr (.sym "o") "a", guarded := true, label := strConst "o.a" },
                            { qn := .sym "x", guarded := false, label := .noneMarker }]
    let σ : Store := fun q =>
      if q = .sym "o" then some (.obj 0) else if q = .sym "x" then some (.int 1)
      else if q = .attr (objLit 0) "a" then some (.int 7) else none
    classify σ es = .lawful ∧ getS es σ = some [.int 7, .int 1] := by
  intro es σ
  refine ⟨?_, ?_⟩
  · simp [es, σ, classify, undefBaseAt, missingAt, dependentAt, aliasedAt, nodupB, slotsOf, reads, resolve, Res.read,
      Res.slots, objLit]
  · simp [es, σ, getS, readEntry, resolve, Res.read, objLit]

/-! ## The verified checker (run on the REAL final generated code) -/

/-- `contractOk g = true` implies: every operator call of `g` is well formed and satisfies lengths, positions,
arity, nouts bounds, distinctness, getter purity and the setter's declarations. -/
theorem C03_contractOk_sound (g : ParsedOutput) (h : contractOk g = true) :
    ∀ o ∈ emitted g, ∃ c, o = some c ∧ Lengths c ∧ Positions c ∧ Arity c ∧ Nouts c ∧ Distinct c ∧ GetterPure c ∧
      SetterDeclares c :=
  contractOk_sound' h

/-- For code accepted by the checker the getter/setter algebra holds as for the model's output. -/
theorem C03_contractOk_algebra (g : ParsedOutput) (h : contractOk g = true) :
    ∀ o ∈ emitted g, ∃ c es, o = some c ∧ entries c = some es ∧ (∀ w : World, (runGetter c w).2 = w) ∧
      (∀ (σ : Store) (vs : List Val) (n : Nat), classify σ es = .lawful →
        vs.length = c.names.length → ∃ σ', runSetter c vs σ = some σ' ∧ (runGetter c ⟨σ', n⟩).1 = some vs) ∧
      (∀ (σ : Store) (vs : List Val) (n : Nat), undefBaseAt σ es = false → missingAt σ es = false →
        (runGetter c ⟨σ, n⟩).1 = some vs → runSetter c vs σ = some σ) := by
  intro o ho
  obtain ⟨c, hc, hg⟩ := contractOk_sound' h o ho
  obtain ⟨gs, ts, es, hgs, hts, he, hq, _, hlen⟩ := state_of_good hg
  refine ⟨c, es, hc, by simp [entries, hgs, he], ?_, ?_, ?_⟩
  · obtain ⟨gs', hgs', hall⟩ := hg.2.2.2.2.2.1
    intro w
    simp only [runGetter, hgs']
    exact evalGetter_pure gs' w hall
  · intro σ vs n hcl hv
    exact set_get_of hg.2.2.2.2.2.2 hgs hts he hq hlen σ vs n hcl hv
  · intro σ vs n hu hm hr
    exact get_set_of hg.2.2.2.2.2.2 hgs hts he hq σ vs n hu hm hr

end Malt.Conv.Contract
