import MaltModel.Proofs.C03Store
/-!
# C03 — emitted operator calls obey the operator calling contract

Model: `Conv/BlockVars.lean` (`_get_block_vars`), `Conv/ControlFlow.lean` (`ControlFlowTransformer`),
`Conv/Contract.lean` (the contract as predicates on generated code + the verified checker + the store
semantics of the state functions).  All theorems are about `cfOutput env nm root`, the output of the model
of the pass, for ALL source trees `root`, ALL annotation tables / directive tables `env` and ALL namer states
`nm`.  The only hypothesis is `cleanS root`: the source itself contains no statement `ag__.if_stmt(...)`,
`ag__.while_stmt(...)`, `ag__.for_stmt(...)` (the `ag__` namespace belongs to the converter).

`emitted g` lists every operator call of a tree with its functions resolved (`none` = malformed call), so
"`∀ o ∈ emitted g, ∃ c, o = some c ∧ P c`" says: every call is well formed and satisfies `P`.
-/
namespace Malt.Conv.Contract
open Malt Malt.Py Malt.Naming Malt.Conv.ControlFlow

private theorem model_good (env : Env) (nm : Namer) (root : Stmt) (h : cleanS root = true) :
    ∀ o ∈ emitted (cfOutput env nm root), ∃ c, o = some c ∧ Good c ∧ OptsOk env (sourceLoopsS root) c := by
  intro o ho
  obtain ⟨c, hc, hg, ho'⟩ := tStmt_good env (sourceLoopsS root) root {} nm h (fun _ hl => hl) [] o ho
  exact ⟨c, hc, hg, ho'⟩

/-- What `Good` gives about the state functions: one list of entries read by the getter and written by the setter. -/
private theorem state_of_good {c : OpCall} (hg : Good c) :
    ∃ gs ts es, getterTuple c = some gs ∧ setterTargets c = some ts ∧ entriesOf gs = some es ∧
      ts.mapM exprQN = some (es.map (·.qn)) ∧ (es.map (·.qn)).Nodup ∧ es.length = c.names.length := by
  obtain ⟨hl, ⟨gs, ts, hgs, hts, h3⟩, _, _, ⟨ts', qs, hts', hqs, hnd⟩, _, _⟩ := hg
  obtain ⟨es, he, hq⟩ := entries_of_all3 h3
  rw [hts] at hts'
  cases hts'
  rw [hq] at hqs
  cases hqs
  refine ⟨gs, ts, es, hgs, hts, he, hq, hnd, ?_⟩
  have := mapM_length' he
  rw [this, (All3.lengths h3).1]

private theorem independent_of {es : List Entry} (h : dependentEntries es = false) :
    Independent (es.map (·.qn)) := by
  intro q hq k hk hmem
  obtain ⟨e, he, rfl⟩ := List.mem_map.mp hq
  have h1 := List.any_eq_false.mp h e he
  have h2 : ∀ (x : String), x ∈ indexSyms e.qn → ∀ (x_1 : Entry), x_1 ∈ es → ¬x_1.qn = QN.sym x := by
    simpa using h1
  obtain ⟨e', he', hq'⟩ := List.mem_map.mp hmem
  exact h2 k hk e' he' hq'

private theorem locs_of {es : List Entry} {σ : Store} (h : aliasedEntries es σ = false) :
    ∃ ls, (es.map (·.qn)).mapM (loc σ) = some ls ∧ ls.Nodup := by
  unfold aliasedEntries at h
  split at h
  · rename_i ls hls
    refine ⟨ls, ?_, ?_⟩
    · rw [← hls]
      clear hls h
      induction es with
      | nil => rfl
      | cons e es ih => simp only [List.map_cons, List.mapM_cons, ih]
    · apply nodupB_sound
      simpa using h
  · cases h

private theorem set_get_of {c : OpCall} {gs ts : List Expr} {es : List Entry}
    (hgs : getterTuple c = some gs) (hts : setterTargets c = some ts) (he : entriesOf gs = some es)
    (hq : ts.mapM exprQN = some (es.map (·.qn))) (hlen : es.length = c.names.length)
    (σ : Store) (vs : List Val) (n : Nat) (hdep : dependentEntries es = false) (hal : aliasedEntries es σ = false)
    (hv : vs.length = c.names.length) :
    ∃ σ', runSetter c vs σ = some σ' ∧ (runGetter c ⟨σ', n⟩).1 = some vs := by
  obtain ⟨ls, hls, hnd⟩ := locs_of hal
  obtain ⟨σ', hs, hgv⟩ := getS_setS es vs σ ls (independent_of hdep) hls hnd (by rw [hlen, hv])
  refine ⟨σ', ?_, ?_⟩
  · simp only [runSetter, hts, hq, setS, List.length_map, hlen, hv, if_true, hs]
  · simp only [runGetter, hgs]
    rw [evalGetter_eq_getS gs es _ he]
    exact hgv

private theorem get_set_of {c : OpCall} {gs ts : List Expr} {es : List Entry}
    (hgs : getterTuple c = some gs) (hts : setterTargets c = some ts) (he : entriesOf gs = some es)
    (hq : ts.mapM exprQN = some (es.map (·.qn)))
    (σ : Store) (vs : List Val) (n : Nat) (hm : missingComposite c σ = false)
    (hr : (runGetter c ⟨σ, n⟩).1 = some vs) : runSetter c vs σ = some σ := by
  simp only [runGetter, hgs] at hr
  rw [evalGetter_eq_getS gs es _ he] at hr
  have hex : ∀ e ∈ es, e.guarded = true → (loc σ e.qn).bind σ ≠ none := by
    intro e hmem hgd hnone
    simp only [missingComposite, entries, hgs, Option.bind_some, he] at hm
    have := List.any_eq_false.mp hm e hmem
    simp [hgd, hnone] at this
  have hvl : vs.length = es.length := mapM_length' hr
  simp only [runSetter, hts, hq, setS, List.length_map, hvl, if_true]
  exact setS_getS es vs σ hex hr

/-! ## The syntactic contract -/

/-- The names tuple, the tuple returned by the getter and the tuple assigned by the setter have equal length. -/
theorem C03_lengths (env : Env) (nm : Namer) (root : Stmt) (h : cleanS root = true) :
    ∀ o ∈ emitted (cfOutput env nm root), ∃ c, o = some c ∧ Lengths c := by
  intro o ho
  obtain ⟨c, hc, hg, _⟩ := model_good env nm root h o ho
  exact ⟨c, hc, hg.1⟩

/-- Position by position the three tuples denote the same variable: `names[i] = 's'`, `getter[i]` reads `qnOf s`
(through `ag__.ldu(lambda: …, 's')` when `s` is composite), `setter[i]` assigns `qnOf s`. -/
theorem C03_positions (env : Env) (nm : Namer) (root : Stmt) (h : cleanS root = true) :
    ∀ o ∈ emitted (cfOutput env nm root), ∃ c, o = some c ∧ Positions c := by
  intro o ho
  obtain ⟨c, hc, hg, _⟩ := model_good env nm root h o ho
  exact ⟨c, hc, hg.2.1⟩

/-- "Denotes" is anchored in `str`: the variable `qnOf s` that position `i` reads and writes prints back (`str(qn)`)
to exactly the string `s` found in the names tuple — for every string, well-formed or not. -/
theorem C03_name_is_str_of_variable (s : String) : (qnOf s).toString = s := qnOf_toString s

/-- The same, by index. -/
theorem C03_positions_at (env : Env) (nm : Namer) (root : Stmt) (h : cleanS root = true) :
    ∀ o ∈ emitted (cfOutput env nm root), ∃ c gs ts, o = some c ∧ getterTuple c = some gs ∧
      setterTargets c = some ts ∧
      ∀ (i : Nat) (n g t : Expr), c.names[i]? = some n → gs[i]? = some g → ts[i]? = some t → PosOk n g t := by
  intro o ho
  obtain ⟨c, hc, hg, _⟩ := model_good env nm root h o ho
  obtain ⟨gs, ts, hgs, hts, h3⟩ := hg.2.1
  refine ⟨c, gs, ts, hc, hgs, hts, ?_⟩
  generalize c.names = ns at h3
  clear hgs hts hg
  induction h3 with
  | nil => intro i n g t hn; simp at hn
  | cons hp _ ih =>
    intro i n g t hn hg' ht
    cases i with
    | zero =>
      simp only [List.getElem?_cons_zero, Option.some.injEq] at hn hg' ht
      subst hn hg' ht; exact hp
    | succ j =>
      simp only [List.getElem?_cons_succ] at hn hg' ht
      exact ih j n g t hn hg' ht

/-- No variable occurs twice in a state tuple. -/
theorem C03_distinct (env : Env) (nm : Namer) (root : Stmt) (h : cleanS root = true) :
    ∀ o ∈ emitted (cfOutput env nm root), ∃ c, o = some c ∧ Distinct c := by
  intro o ho
  obtain ⟨c, hc, hg, _⟩ := model_good env nm root h o ho
  exact ⟨c, hc, hg.2.2.2.2.1⟩

/-- The setter assigns the variables of the enclosing function: every simple state variable is declared `global` /
`nonlocal` in it. -/
theorem C03_setter_declares (env : Env) (nm : Namer) (root : Stmt) (h : cleanS root = true) :
    ∀ o ∈ emitted (cfOutput env nm root), ∃ c, o = some c ∧ SetterDeclares c := by
  intro o ho
  obtain ⟨c, hc, hg, _⟩ := model_good env nm root h o ho
  exact ⟨c, hc, hg.2.2.2.2.2.2⟩

/-- getter 0, setter 1, body 0 (`for_stmt`: 1), orelse / test / extra_test 0 parameters — plain positional
parameters only; `extra_test` may be `None` only in a `for_stmt`. -/
theorem C03_arity (env : Env) (nm : Namer) (root : Stmt) (h : cleanS root = true) :
    ∀ o ∈ emitted (cfOutput env nm root), ∃ c, o = some c ∧ Arity c := by
  intro o ho
  obtain ⟨c, hc, hg, _⟩ := model_good env nm root h o ho
  exact ⟨c, hc, hg.2.2.1⟩

/-- `nouts` of an `if_stmt` is an integer constant with `0 ≤ nouts ≤ len(symbol_names)`, and outputs occupy the
positions `< nouts`: the names are `_get_block_vars`' variables of one `if` node, none of the first `nouts` is
input-only and every later one is (`inputOnly` = modified, live into and not live out of the statement). -/
theorem C03_nouts (env : Env) (nm : Namer) (root : Stmt) (h : cleanS root = true) :
    ∀ o ∈ emitted (cfOutput env nm root), ∃ c, o = some c ∧ Nouts c ∧
      (c.kind = .ifStmt → ∃ r : BlockVars.Result,
        (∃ fs id, r = env.blockVars fs id ((env.scope id "BODY_SCOPE").bound ++ (env.scope id "ORELSE_SCOPE").bound)) ∧
        c.names = r.scopeVars.map strConst ∧ natConst? c.last = some r.nouts ∧
        r.nouts ≤ r.scopeVars.length ∧
        (∀ v ∈ r.scopeVars.take r.nouts, r.inputOnly.contains v = false) ∧
        (∀ v ∈ r.scopeVars.drop r.nouts, r.inputOnly.contains v = true)) := by
  intro o ho
  obtain ⟨c, hc, hg, hopt⟩ := model_good env nm root h o ho
  refine ⟨c, hc, hg.2.2.2.1, ?_⟩
  intro hk
  simp only [OptsOk, hk] at hopt
  obtain ⟨fs, id, hn, hl⟩ := hopt
  refine ⟨_, ⟨fs, id, rfl⟩, hn, ?_, ?_⟩
  · rw [hl]; exact natConst_intConst _
  · exact BlockVars.blockVars_nouts ..

/-- Loop options: a `for_stmt` carries exactly the `set_loop_options` keywords annotated on THAT source loop
followed by `iterate_names` = the unparsed target of that loop (and its body function unpacks that target); a
`while_stmt` carries exactly the keywords annotated on THAT loop (and its test function returns that loop's test). -/
theorem C03_opts (env : Env) (nm : Namer) (root : Stmt) (h : cleanS root = true) :
    ∀ o ∈ emitted (cfOutput env nm root), ∃ c, o = some c ∧
      (c.kind = .forStmt → ∃ l ∈ sourceLoopsS root, l.isFor = true ∧
        c.last = loopOptions env.dirs l.id [("iterate_names", strConst (unparseE l.header))] ∧
        forBodyTarget c = some (splice .store l.header)) ∧
      (c.kind = .whileStmt → ∃ l ∈ sourceLoopsS root, l.isFor = false ∧
        c.last = loopOptions env.dirs l.id [] ∧ whileTest c = some (splice .load l.header)) := by
  intro o ho
  obtain ⟨c, hc, _, hopt⟩ := model_good env nm root h o ho
  refine ⟨c, hc, ?_, ?_⟩ <;> intro hk <;> simp only [OptsOk, hk] at hopt <;> exact hopt

/-! ## Getter / setter algebra (store semantics of `Conv.Contract`) -/

/-- Reading state has no effect: every element of the getter tuple is a plain read, and evaluating the getter
leaves the world (store and effect count) as it was. -/
theorem C03_get_pure (env : Env) (nm : Namer) (root : Stmt) (h : cleanS root = true) :
    ∀ o ∈ emitted (cfOutput env nm root), ∃ c, o = some c ∧ GetterPure c ∧ ∀ w : World, (runGetter c w).2 = w := by
  intro o ho
  obtain ⟨c, hc, hg, _⟩ := model_good env nm root h o ho
  refine ⟨c, hc, hg.2.2.2.2.2.1, ?_⟩
  obtain ⟨gs, hgs, hall⟩ := hg.2.2.2.2.2.1
  intro w
  simp only [runGetter, hgs]
  exact evalGetter_pure gs w hall

/-
The full statement "a write followed by a read returns what was written",

  theorem C03_set_get : ∀ o ∈ emitted (cfOutput env nm root), ∃ c, o = some c ∧
      ∀ σ vs n, vs.length = c.names.length → ∃ σ', runSetter c vs σ = some σ' ∧ (runGetter c ⟨σ', n⟩).1 = some vs

is FALSE of the pinned code for a state tuple such as `('dd[x]', 'x')`: the tuple assignment writes `dd[<old x>]`,
then `x`, and the read evaluates `dd[<new x>]` (`C03_set_get_counterexample`; replayed on the real code by
corpus/C03/index_in_state.json; finding class `state_entry_indexes_by_state_entry` = `dependentEntries es = true`).
It also fails when two entries alias at run time (`aliasedEntries es σ = true`).  What holds:
-/

/-- A write followed by a read returns what was written, `get (set vs σ) = vs`, PROVIDED no entry's location
depends on a variable of the same tuple and the entries denote pairwise distinct locations at call time. -/
theorem C03_set_get_partial (env : Env) (nm : Namer) (root : Stmt) (h : cleanS root = true) :
    ∀ o ∈ emitted (cfOutput env nm root), ∃ c es, o = some c ∧ entries c = some es ∧
      ∀ (σ : Store) (vs : List Val) (n : Nat), dependentEntries es = false → aliasedEntries es σ = false →
        vs.length = c.names.length →
        ∃ σ', runSetter c vs σ = some σ' ∧ (runGetter c ⟨σ', n⟩).1 = some vs := by
  intro o ho
  obtain ⟨c, hc, hg, _⟩ := model_good env nm root h o ho
  obtain ⟨gs, ts, es, hgs, hts, he, hq, hnd, hlen⟩ := state_of_good hg
  refine ⟨c, es, hc, by simp [entries, hgs, he], ?_⟩
  intro σ vs n hdep hal hv
  exact set_get_of hgs hts he hq hlen σ vs n hdep hal hv

/-- The counterexample to the full statement: the state tuple `('dd[x]', 'x')` with `x = 0`, written with `(1, 2)`,
reads back `(Undefined, 2)`. -/
theorem C03_set_get_counterexample :
    let es : List Entry := [{ qn := .sub (.sym "dd") (.sym "x"), guarded := true, label := strConst "dd[x]" },
                            { qn := .sym "x", guarded := false, label := .noneMarker }]
    let σ : Store := fun q => if q = .sym "x" then some (.int 0) else none
    let vs : List Val := [.int 1, .int 2]
    dependentEntries es = true ∧ aliasedEntries es σ = false ∧
    ∃ σ', assignSeq (es.map (·.qn)) vs σ = some σ' ∧ getS es σ' ≠ some vs := by
  intro es σ vs
  have h20 : Int.repr 2 ≠ Int.repr 0 := by simp [Int.repr]
  refine ⟨by simp [es, dependentEntries, indexSyms], ?_, _, rfl, ?_⟩
  · simp [es, σ, aliasedEntries, loc, resolveIdx, valLit, nodupB]
  · simp [es, vs, σ, getS, readEntry, loc, resolveIdx, update, valLit, h20]

/-
The full statement "writing back what was just read changes nothing",

  theorem C03_get_set : ∀ o ∈ emitted (cfOutput env nm root), ∃ c, o = some c ∧
      ∀ σ vs n, (runGetter c ⟨σ, n⟩).1 = some vs → runSetter c vs σ = some σ

is FALSE of the pinned code: a composite entry (`d['k']`, `o.a`) that the store lacks is read through `ag__.ldu`
as `Undefined('d[…]')`, and the write-back then CREATES it (`C03_get_set_counterexample` below; replayed on the
real code by corpus/C03/missing_composite.json; finding class `missing_composite_written_back` =
`missingComposite c σ = true`).  What holds:
-/

/-- Writing back what was just read changes nothing, PROVIDED every guarded (composite) entry of the state tuple
exists in the store at call time. -/
theorem C03_get_set_partial (env : Env) (nm : Namer) (root : Stmt) (h : cleanS root = true) :
    ∀ o ∈ emitted (cfOutput env nm root), ∃ c, o = some c ∧
      ∀ (σ : Store) (vs : List Val) (n : Nat), missingComposite c σ = false →
        (runGetter c ⟨σ, n⟩).1 = some vs → runSetter c vs σ = some σ := by
  intro o ho
  obtain ⟨c, hc, hg, _⟩ := model_good env nm root h o ho
  obtain ⟨gs, ts, es, hgs, hts, he, hq, _, _⟩ := state_of_good hg
  exact ⟨c, hc, fun σ vs n hm hr => get_set_of hgs hts he hq σ vs n hm hr⟩

/-- The counterexample to the full statement: the state tuple `("d['k']",)` of `if a: d['k'] = 1` in a store where
`d` is bound and `d['k']` is missing: the guarded read yields `Undefined`, the write-back creates the entry.
(`getterDen_guardedVar`: every composite state variable is read through `ag__.ldu`, i.e. is such a guarded entry.) -/
theorem C03_get_set_counterexample :
    let e : Entry := { qn := .sub (.sym "d") (.lit "str" "'k'"), guarded := true, label := strConst "d['k']" }
    let σ : Store := fun q => if q = .sym "d" then some (.obj 0) else none
    ∃ (vs : List Val) (σ' : Store), getS [e] σ = some vs ∧ assignSeq [e.qn] vs σ = some σ' ∧ σ' ≠ σ := by
  intro e σ
  refine ⟨[.undef (labelStr e.label)], _, ?_, rfl, ?_⟩
  · simp [e, σ, getS, readEntry, loc, resolveIdx]
  · intro heq
    have := congrFun heq (.sub (.sym "d") (.lit "str" "'k'"))
    simp [e, σ, update] at this

/-- Hence the unconditional law fails. -/
theorem C03_get_set_full_is_false :
    ¬ ∀ (es : List Entry) (vs : List Val) (σ σ' : Store), getS es σ = some vs →
        assignSeq (es.map (·.qn)) vs σ = some σ' → σ' = σ := by
  intro hall
  obtain ⟨vs, σ', h1, h2, h3⟩ := C03_get_set_counterexample
  exact h3 (hall _ vs _ σ' h1 h2)

/-! ### Non-vacuity of the hypotheses -/

/-- `cleanS` holds of ordinary source trees (here `if c: x = 1` followed by nothing), so the theorems above apply. -/
example : cleanS (.if_ 1 (.name 2 "c" .load) [.assign 3 [.name 4 "x" .store] (.const 5 "int" "1"),
    .expr 6 (.call 7 (.name 8 "tr" .load) [] [])] []) = true := by
  simp [cleanS, cleanL, isOpCall, opCall?, agOp?]

/-- ... and fails of a tree that calls the operator itself. -/
example : cleanS (.expr 1 (.call 2 (.attr 3 (.name 4 "ag__" .load) "if_stmt" .load) [] [])) = false := by
  simp [cleanS, isOpCall, opCall?, agOp?, kindOfOp]

/-- A store in which the guarded entry `o.a` exists satisfies the hypothesis of `C03_get_set_partial`, and the
law holds there; with the entry missing the hypothesis fails. -/
example :
    let e : Entry := { qn := .attr (.sym "o") "a", guarded := true, label := strConst "o.a" }
    let σ : Store := fun q => if q = .attr (.sym "o") "a" then some (.int 7) else none
    getS [e] σ = some [.int 7] ∧ assignSeq [e.qn] [.int 7] σ = some σ ∧
    ((loc σ e.qn).bind σ).isNone = false ∧ ((loc (fun _ => none) e.qn).bind (fun _ => none : Store)).isNone = true := by
  intro e σ
  refine ⟨by simp [e, σ, getS, readEntry, loc], ?_, by simp [e, σ, loc], by simp [e, loc]⟩
  have : update σ (.attr (.sym "o") "a") (.int 7) = σ := by
    funext q
    by_cases hq : q = .attr (.sym "o") "a" <;> simp [σ, update, hq]
  simp [e, assignSeq, loc, this]

/-- The hypotheses of `C03_set_get_partial` hold of the tuple `('o.a', 'x')` in any store. -/
example (σ : Store) :
    let es : List Entry := [{ qn := .attr (.sym "o") "a", guarded := true, label := strConst "o.a" },
                            { qn := .sym "x", guarded := false, label := .noneMarker }]
    dependentEntries es = false ∧ aliasedEntries es σ = false := by
  intro es
  exact ⟨by simp [es, dependentEntries, indexSyms], by simp [es, aliasedEntries, loc, nodupB]⟩

/-! ## The verified checker (run on the REAL final generated code) -/

/-- `contractOk g = true` implies: every operator call of `g` is well formed and satisfies lengths, positions,
arity, nouts bounds, distinctness, getter purity and the setter's declarations. -/
theorem C03_contractOk_sound (g : ParsedOutput) (h : contractOk g = true) :
    ∀ o ∈ emitted g, ∃ c, o = some c ∧ Lengths c ∧ Positions c ∧ Arity c ∧ Nouts c ∧ Distinct c ∧ GetterPure c ∧
      SetterDeclares c :=
  contractOk_sound' h

/-- For code accepted by the checker the getter/setter algebra holds as for the model's output. -/
theorem C03_contractOk_algebra (g : ParsedOutput) (h : contractOk g = true) :
    ∀ o ∈ emitted g, ∃ c es, o = some c ∧ entries c = some es ∧ (∀ w : World, (runGetter c w).2 = w) ∧
      (∀ (σ : Store) (vs : List Val) (n : Nat), dependentEntries es = false → aliasedEntries es σ = false →
        vs.length = c.names.length → ∃ σ', runSetter c vs σ = some σ' ∧ (runGetter c ⟨σ', n⟩).1 = some vs) ∧
      (∀ (σ : Store) (vs : List Val) (n : Nat), missingComposite c σ = false →
        (runGetter c ⟨σ, n⟩).1 = some vs → runSetter c vs σ = some σ) := by
  intro o ho
  obtain ⟨c, hc, hg⟩ := contractOk_sound' h o ho
  obtain ⟨gs, ts, es, hgs, hts, he, hq, _, hlen⟩ := state_of_good hg
  refine ⟨c, es, hc, by simp [entries, hgs, he], ?_, ?_, ?_⟩
  · obtain ⟨gs', hgs', hall⟩ := hg.2.2.2.2.2.1
    intro w
    simp only [runGetter, hgs']
    exact evalGetter_pure gs' w hall
  · intro σ vs n hdep hal hv
    exact set_get_of hgs hts he hq hlen σ vs n hdep hal hv
  · intro σ vs n hm hr
    exact get_set_of hgs hts he hq σ vs n hm hr

end Malt.Conv.Contract
