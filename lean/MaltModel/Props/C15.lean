import MaltModel.Rt.Dedent
import MaltModel.Rt.Lambda
import MaltModel.Proofs.C15Dedent
import MaltModel.Proofs.C15Lex
/-!
# C15 — source recovery returns exactly the code of the function being converted

Property theorems only (helper lemmas are private).  Models: `MaltModel/Rt/Lambda.lean`
(`_parse_lambda`, `_node_matches_argspec`) and `MaltModel/Rt/Dedent.lean`
(`_unfold_continuations`, `dedent_block`, with CPython's tokenizer as an input oracle).
-/

/-! ## Lambdas: candidate selection -/
namespace Malt.Lambda

private theorem filter_eq_singleton_mem {α} {p : α → Bool} {l : List α} {a b : α}
    (h : l.filter p = [a]) (hb : b ∈ l) (hp : p b = true) : b = a := by
  have : b ∈ l.filter p := List.mem_filter.mpr ⟨hb, hp⟩
  rw [h] at this
  simpa using this

private theorem sel_nil (cands d spec) (h : cands.filter (spans d) = []) :
    select cands d spec = .noMatch := by
  unfold select; rw [h]

private theorem sel_one (cands d spec c) (h : cands.filter (spans d) = [c]) :
    select cands d spec = .ok c := by
  unfold select; rw [h]

private theorem sel_many (cands d spec c1 c2 t) (h : cands.filter (spans d) = c1 :: c2 :: t) :
    select cands d spec = match (c1 :: c2 :: t).filter (fun c => nodeMatches c.sig spec) with
      | [c] => .ok c | _ => .ambiguous := by
  unfold select; rw [h]; rfl

/-- What the selection guarantees for ALL inputs (the contract the code actually implements): the node
returned is a candidate that spans the definition line, and either it is the only such candidate, or its
argspec-visible signature equals the function's and no other spanning candidate has that signature. -/
theorem C15_lambda_select_sound (cands : List Cand) (d : Nat) (spec : ArgSpec) (n : Cand)
    (h : select cands d spec = .ok n) :
    n ∈ cands ∧ spans d n = true ∧
    (cands.filter (spans d) = [n] ∨
      (nodeMatches n.sig spec = true ∧
        ∀ m ∈ cands, spans d m = true → nodeMatches m.sig spec = true → m = n)) := by
  match hcs : cands.filter (spans d) with
  | [] => rw [sel_nil _ _ _ hcs] at h; cases h
  | [c] =>
    rw [sel_one _ _ _ _ hcs] at h
    cases h
    have hm : n ∈ cands.filter (spans d) := by rw [hcs]; simp
    exact ⟨(List.mem_filter.mp hm).1, (List.mem_filter.mp hm).2, Or.inl rfl⟩
  | c1 :: c2 :: t =>
    rw [sel_many _ _ _ _ _ _ hcs] at h
    split at h
    · rename_i c hc
      cases h
      have hm : n ∈ (c1 :: c2 :: t).filter (fun c => nodeMatches c.sig spec) := by rw [hc]; simp
      have hm1 := List.mem_filter.mp hm
      have hm2 : n ∈ cands.filter (spans d) := by rw [hcs]; exact hm1.1
      have hm3 := List.mem_filter.mp hm2
      refine ⟨hm3.1, hm3.2, Or.inr ⟨hm1.2, ?_⟩⟩
      intro m hmc hsp hmt
      have : m ∈ cands.filter (spans d) := List.mem_filter.mpr ⟨hmc, hsp⟩
      rw [hcs] at this
      exact filter_eq_singleton_mem hc this hmt
    · cases h

/-- Otherwise an error: no candidate spans the line, or the signature does not single one out. -/
theorem C15_lambda_errors (cands : List Cand) (d : Nat) (spec : ArgSpec) :
    (select cands d spec = .noMatch ↔ cands.filter (spans d) = []) ∧
    (select cands d spec = .ambiguous →
      2 ≤ (cands.filter (spans d)).length ∧
      ((cands.filter (spans d)).filter (fun c => nodeMatches c.sig spec)).length ≠ 1) := by
  match hcs : cands.filter (spans d) with
  | [] => simp [sel_nil _ _ _ hcs]
  | [c] => simp [sel_one _ _ _ _ hcs]
  | c1 :: c2 :: t =>
    rw [sel_many _ _ _ _ _ _ hcs]
    constructor
    · constructor
      · intro h; split at h <;> cases h
      · intro h; cases h
    · intro h
      refine ⟨by simp, ?_⟩
      split at h
      · cases h
      · rename_i h2
        intro hl
        obtain ⟨c, hc⟩ := List.length_eq_one_iff.mp hl
        exact h2 c hc

/-- `_node_matches_argspec` accepts the very lambda it is called for — for ALL lambdas, positional-only
parameters included (since /repo e1be7e7; before that fix it rejected every lambda with a `/`). -/
theorem C15_nodeMatches_self (s : Sig) : nodeMatches s (specOf s) = true := by
  simp [nodeMatches, specOf]

/-- **The lambda returned is the one that created the function object — never another one.**  Full statement,
no hypothesis on the signatures (it carried `posonlyAmbiguity = false` until /repo e1be7e7 fixed
`_node_matches_argspec`).  `hmem`, `hspan` and the use of `specOf tgt.sig` are the CPython facts (the creating
node is in the searched module tree, starts at `co_firstlineno`, and `getfullargspec` reports its parameters);
the harness checks them on every case.  Otherwise the result is an explicit error (`C15_lambda_errors`). -/
theorem C15_lambda (cands : List Cand) (d : Nat) (tgt n : Cand)
    (hmem : tgt ∈ cands) (hspan : spans d tgt = true)
    (h : select cands d (specOf tgt.sig) = .ok n) : n = tgt := by
  have hin : tgt ∈ cands.filter (spans d) := List.mem_filter.mpr ⟨hmem, hspan⟩
  rcases C15_lambda_select_sound cands d _ n h with ⟨_, _, hsole | ⟨_, huniq⟩⟩
  · rw [hsole] at hin
    have : tgt = n := by simpa using hin
    exact this.symm
  · exact (huniq tgt hmem hspan (C15_nodeMatches_self _)).symm

/-- and a lambda is never refused for lack of a match while it spans its own line: the only errors left are
"no candidate spans the line" and a genuine tie of parameter names -/
theorem C15_lambda_total (cands : List Cand) (d : Nat) (tgt : Cand)
    (hmem : tgt ∈ cands) (hspan : spans d tgt = true) :
    select cands d (specOf tgt.sig) = .ok tgt ∨ select cands d (specOf tgt.sig) = .ambiguous := by
  cases hs : select cands d (specOf tgt.sig) with
  | ok n => left; rw [C15_lambda cands d tgt n hmem hspan hs]
  | ambiguous => right; rfl
  | noMatch =>
    have := ((C15_lambda_errors cands d (specOf tgt.sig)).1.mp hs)
    have hin : tgt ∈ cands.filter (spans d) := List.mem_filter.mpr ⟨hmem, hspan⟩
    rw [this] at hin
    simp at hin

private theorem nodeMatches_iff (m t : Sig) : nodeMatches m (specOf t) = true ↔ specOf m = specOf t := by
  simp only [nodeMatches, specOf, Bool.and_eq_true, beq_iff_eq, ArgSpec.mk.injEq]
  constructor
  · rintro ⟨⟨⟨h1, h2⟩, h3⟩, h4⟩; exact ⟨h1, h2.symm, h3.symm, h4⟩
  · rintro ⟨h1, h2, h3, h4⟩; exact ⟨⟨⟨h1, h2.symm⟩, h3.symm⟩, h4⟩

private theorem filter_eq_singleton {α} [DecidableEq α] (p : α → Bool) (a : α) :
    ∀ (l : List α), l.Nodup → a ∈ l → p a = true → (∀ b ∈ l, p b = true → b = a) → l.filter p = [a] := by
  intro l
  induction l with
  | nil => intro _ h; simp at h
  | cons x xs ih =>
    intro hnd hmem hpa huniq
    have hnd' := List.nodup_cons.mp hnd
    by_cases hx : x = a
    · subst hx
      have : xs.filter p = [] := by
        rw [List.filter_eq_nil_iff]
        intro b hb hpb
        have := huniq b (List.mem_cons_of_mem _ hb) (by simpa using hpb)
        subst this
        exact hnd'.1 hb
      simp [List.filter, hpa, this]
    · have hmem' : a ∈ xs := by
        rcases List.mem_cons.mp hmem with h | h
        · exact absurd h.symm hx
        · exact h
      have hpx : p x = false := by
        cases hp : p x with
        | false => rfl
        | true => exact absurd (huniq x (by simp) hp) hx
      simp only [List.filter, hpx]
      exact ih hnd'.2 hmem' hpa (fun b hb => huniq b (List.mem_cons_of_mem _ hb))

/-- **Any number of lambdas per line, distinguishable ones.**  If no other candidate spanning the definition
line has the target's visible signature (names/arity as `_node_matches_argspec` compares them), the target is
RETURNED — selection succeeds and is right.  (`cands.Nodup`: candidates are distinct AST nodes.) -/
theorem C15_lambda_distinct (cands : List Cand) (d : Nat) (tgt : Cand) (hnd : cands.Nodup)
    (hmem : tgt ∈ cands) (hspan : spans d tgt = true) (hdist : distinguishable cands d tgt = true) :
    select cands d (specOf tgt.sig) = .ok tgt := by
  have hin : tgt ∈ cands.filter (spans d) := List.mem_filter.mpr ⟨hmem, hspan⟩
  have hndf : (cands.filter (spans d)).Nodup := hnd.filter _
  have hsing : (cands.filter (spans d)).filter (fun c => nodeMatches c.sig (specOf tgt.sig)) = [tgt] := by
    apply filter_eq_singleton _ _ _ hndf hin (C15_nodeMatches_self _)
    intro b hb hpb
    simp only [distinguishable, List.all_eq_true, Bool.or_eq_true, beq_iff_eq, bne_iff_ne, ne_eq] at hdist
    rcases hdist b hb with h | h
    · exact h
    · exact absurd ((nodeMatches_iff _ _).mp hpb) h
  match hcs : cands.filter (spans d) with
  | [] => rw [hcs] at hin; simp at hin
  | [c] =>
    rw [hcs] at hin
    have : tgt = c := by simpa using hin
    rw [sel_one _ _ _ _ hcs, this]
  | c1 :: c2 :: t =>
    rw [sel_many _ _ _ _ _ _ hcs]
    rw [hcs] at hsing
    rw [hsing]

/-- **Ambiguity is REPORTED, never resolved silently.**  If another candidate on the line has the target's
visible signature, the result is the explicit error — whatever the number and order of lambdas on the line. -/
theorem C15_lambda_ambiguity_reported (cands : List Cand) (d : Nat) (tgt : Cand)
    (hmem : tgt ∈ cands) (hspan : spans d tgt = true) (hdist : distinguishable cands d tgt = false) :
    select cands d (specOf tgt.sig) = .ambiguous := by
  have hin : tgt ∈ cands.filter (spans d) := List.mem_filter.mpr ⟨hmem, hspan⟩
  -- a second, different candidate with the same visible signature
  have hex : ∃ m ∈ cands.filter (spans d), m ≠ tgt ∧ nodeMatches m.sig (specOf tgt.sig) = true := by
    unfold distinguishable at hdist
    rw [List.all_eq_false] at hdist
    obtain ⟨m, hm, hne⟩ := hdist
    simp only [Bool.or_eq_true, beq_iff_eq, bne_iff_ne, ne_eq, not_or, Decidable.not_not] at hne
    exact ⟨m, hm, hne.1, (nodeMatches_iff _ _).mpr hne.2⟩
  obtain ⟨m, hm, hne, hmm⟩ := hex
  cases hs : select cands d (specOf tgt.sig) with
  | ambiguous => rfl
  | noMatch =>
    have := (C15_lambda_errors cands d (specOf tgt.sig)).1.mp hs
    rw [this] at hin; simp at hin
  | ok n =>
    exfalso
    rcases C15_lambda_select_sound cands d _ n hs with ⟨_, _, hsole | ⟨_, huniq⟩⟩
    · rw [hsole] at hin hm
      have h1 : tgt = n := by simpa using hin
      have h2 : m = n := by simpa using hm
      exact hne (h2.trans h1.symm)
    · have h1 := huniq tgt hmem hspan (C15_nodeMatches_self _)
      have hm' := List.mem_filter.mp hm
      have h2 := huniq m hm'.1 hm'.2 hmm
      exact hne (h2.trans h1.symm)

/-- **Partition.**  For every list of distinct candidate nodes and every lambda among them that spans its
definition line, exactly one of two things happens: the lambdas on the line are distinguishable and the right node
is returned, or they are not and the explicit ambiguity error is raised.  A wrong lambda is impossible. -/
theorem C15_lambda_partition (cands : List Cand) (d : Nat) (tgt : Cand) (hnd : cands.Nodup)
    (hmem : tgt ∈ cands) (hspan : spans d tgt = true) :
    (distinguishable cands d tgt = true ∧ select cands d (specOf tgt.sig) = .ok tgt) ∨
    (distinguishable cands d tgt = false ∧ select cands d (specOf tgt.sig) = .ambiguous) := by
  cases h : distinguishable cands d tgt with
  | true => exact Or.inl ⟨rfl, C15_lambda_distinct cands d tgt hnd hmem hspan h⟩
  | false => exact Or.inr ⟨rfl, C15_lambda_ambiguity_reported cands d tgt hmem hspan h⟩

/-- With the whole search: statements up to the first one starting after `def_line` are searched, so the
creating node is among the candidates whenever its top-level statement starts at or before that line and
the statements' line numbers are non-decreasing (CPython). -/
theorem C15_lambda_search (pre post : List Top) (t : Top) (d : Nat) (c : Cand)
    (hpre : ∀ u ∈ pre, u.lineno ≤ d) (ht : t.lineno ≤ d) (hc : c ∈ t.lams) :
    c ∈ lambdaNodes d (pre ++ t :: post) := by
  unfold lambdaNodes
  induction pre with
  | nil =>
    simp only [List.nil_append, searchNodes, ht, if_true, List.flatMap_cons, List.mem_append]
    exact Or.inl hc
  | cons u us ih =>
    have hu : u.lineno ≤ d := hpre u (by simp)
    simp only [List.cons_append, searchNodes, hu, if_true, List.flatMap_cons, List.mem_append]
    exact Or.inr (ih (fun v hv => hpre v (by simp [hv])))

/-! Non-vacuity.  DESIGN §8's `(lambda x, /, y: x-y, lambda x, y: x+y)[0]` used to be the counterexample (the
OTHER lambda was returned); after e1be7e7 both nodes match the argspec `(x, y)` and the answer is the explicit
ambiguity error — never a wrong lambda. -/

private def lamPos : Cand := ⟨0, 1, 1, ⟨["x"], ["y"], none, [], none⟩⟩     -- lambda x, /, y: x - y
private def lamPlain : Cand := ⟨1, 1, 1, ⟨[], ["x", "y"], none, [], none⟩⟩  -- lambda x, y: x + y
private def lamOther : Cand := ⟨2, 1, 2, ⟨[], ["z"], some "a", ["k"], none⟩⟩ -- lambda z, *a, k: …
private def lamPos2 : Cand := ⟨3, 1, 1, ⟨["u"], ["v"], none, [], none⟩⟩    -- lambda u, /, v: …

/-- the former counterexample: now an explicit error for either lambda of the pair … -/
example : select [lamPos, lamPlain] 1 (specOf lamPos.sig) = .ambiguous ∧
    select [lamPos, lamPlain] 1 (specOf lamPlain.sig) = .ambiguous := by decide
/-- … and a positional-only lambda next to lambdas with other parameter names is recovered -/
example : select [lamPos, lamOther, lamPos2] 1 (specOf lamPos.sig) = .ok lamPos ∧
    select [lamPos, lamOther, lamPos2] 1 (specOf lamPos2.sig) = .ok lamPos2 := by decide
example : nodeMatches lamPos.sig (specOf lamPos.sig) = true := by decide
/-- the hypotheses of `C15_lambda` with several candidates on the line -/
example : lamPlain ∈ [lamPlain, lamOther] ∧ spans 1 lamPlain = true ∧
    select [lamPlain, lamOther] 1 (specOf lamPlain.sig) = .ok lamPlain := by decide
/-- five lambdas on one line, two of them with the same parameter names: the three others are recovered, the tie
is reported for both of its members -/
example :
    let l := [lamPos, lamOther, lamPos2, lamPlain, { lamPlain with id := 9 }]
    l.Nodup ∧ distinguishable l 1 lamPos2 = true ∧ select l 1 (specOf lamPos2.sig) = .ok lamPos2 ∧
    select l 1 (specOf lamOther.sig) = .ok lamOther ∧
    distinguishable l 1 lamPlain = false ∧ select l 1 (specOf lamPlain.sig) = .ambiguous ∧
    distinguishable l 1 lamPos = false ∧ select l 1 (specOf lamPos.sig) = .ambiguous := by decide
/-- identical signatures: an explicit error, not a guess -/
example : select [lamPlain, { lamPlain with id := 7 }] 1 (specOf lamPlain.sig) = .ambiguous := by decide
example : select [lamOther] 3 (specOf lamOther.sig) = .noMatch := by decide

end Malt.Lambda

/-! ## Text: unfolding of continuations -/
namespace Malt.Dedent

private theorem unfold_cons_ne (c : Char) (r : Str) (h : c ≠ '\\') : unfold (c :: r) = c :: unfold r := by
  cases r with
  | nil => simp [unfold]
  | cons d r => simp [unfold, h]

private theorem unfold_bs_ne (d : Char) (r : Str) (h : d ≠ '\n') :
    unfold ('\\' :: d :: r) = '\\' :: unfold (d :: r) := by
  simp [unfold, h]

/-- `a` does not end with a backslash, so no backslash-newline straddles the seam -/
private theorem unfold_append (a b : Str) (h : endsBs a = false) : unfold (a ++ b) = unfold a ++ unfold b := by
  induction a using unfold.induct with
  | case1 => simp [unfold]
  | case2 c =>
    have hc : c ≠ '\\' := by
      intro he; subst he; simp [endsBs] at h
    simp [unfold, unfold_cons_ne _ _ hc]
  | case3 c d r hcd ih =>
    have h' : endsBs r = false := by
      cases r with
      | nil => simp [endsBs]
      | cons x xs => simpa [endsBs] using h
    simp [unfold, hcd, ih h']
  | case4 c d r hcd ih =>
    have h' : endsBs (d :: r) = false := by simpa [endsBs] using h
    have : unfold (c :: d :: (r ++ b)) = c :: unfold (d :: (r ++ b)) := by
      simp [unfold, hcd]
    simp only [List.cons_append]
    rw [this]
    have ih' := ih h'
    simp only [List.cons_append] at ih'
    rw [ih']
    simp [unfold, hcd]

private theorem unfold_id (s : Str) (h : hasCont s = false) : unfold s = s := by
  induction s using unfold.induct with
  | case1 => rfl
  | case2 c => rfl
  | case3 c d r hcd _ => simp [hasCont, hcd] at h
  | case4 c d r hcd ih =>
    have h' : hasCont (d :: r) = false := by
      simp only [hasCont, Bool.or_eq_false_iff] at h
      exact h.2
    simp [unfold, hcd, ih h']

/-- a well-formed gap does not end in a backslash, and neither does its unfolding -/
private theorem gapOk_endsBs (g : Str) (h : gapOk g = true) : endsBs g = false := by
  induction g using gapOk.induct with
  | case1 => simp [endsBs]
  | case2 c =>
    simp only [gapOk, isBlank, Bool.or_eq_true, decide_eq_true_eq] at h
    rcases h with h | h <;> subst h <;> simp [endsBs]
  | case3 c d r hb ih =>
    simp only [gapOk, hb, if_true] at h
    have := ih h
    cases r with
    | nil =>
      simp only [gapOk, isBlank, Bool.or_eq_true, decide_eq_true_eq] at h
      rcases h with h | h <;> subst h <;> simp [endsBs]
    | cons x xs => simpa [endsBs] using this
  | case4 c d r hb ih =>
    simp only [gapOk, hb, Bool.false_eq_true, if_false, Bool.and_eq_true, decide_eq_true_eq] at h
    obtain ⟨⟨hc, hd⟩, hr⟩ := h
    subst hc; subst hd
    have := ih hr
    cases r with
    | nil => simp [endsBs]
    | cons x xs => simpa [endsBs] using this

/-
Full statement (what the property asks for): for every source text, unfolding preserves the token sequence.
FALSE of the pinned code: `code_string.replace('\\\n', '')` also rewrites the inside of string literals and
comments (counterexamples below).  Proved: the `_partial` form under `unfoldSafe` — every backslash-newline
lies in a gap between tokens.  Its negation is the class `backslash_newline_inside_string_or_comment`
(`contInsideToken`).  What CPython adds on top (re-tokenising the unfolded text yields the same tokens) needs
two more hypotheses on the gaps (`contJoinsTokens`, `contInIndentation` both false); that step is a property
of CPython's tokenizer and is checked on every generated case by the harness, not proved.
-/

/-- If backslash-newline occurs only as a continuation between tokens, unfolding the text is deleting the
continuations from the gaps: the token sequence (kinds and texts) is untouched. -/
theorem C15_unfold_partial (as : List ATok) (h : unfoldSafe as = true) :
    unfold (renderA as) = renderA (unfoldGaps as) ∧
    (unfoldGaps as).map (·.tok) = as.map (·.tok) := by
  constructor
  · induction as with
    | nil => simp [renderA, unfoldGaps, unfold]
    | cons a as ih =>
      simp only [unfoldSafe, List.all_cons, Bool.and_eq_true] at h
      obtain ⟨⟨hg, ht⟩, hrest⟩ := h
      have ih' := ih (by simpa [unfoldSafe] using hrest)
      simp only [textSafe, Bool.and_eq_true, Bool.not_eq_true'] at ht
      simp only [renderA, unfoldGaps, List.flatMap_cons, List.map_cons] at ih' ⊢
      rw [List.append_assoc, unfold_append _ _ (gapOk_endsBs _ hg), unfold_append _ _ ht.2,
        unfold_id _ ht.1, ih']
      simp
  · simp [unfoldGaps, List.map_map, Function.comp_def]

/-- nothing to unfold: the text is unchanged -/
theorem C15_unfold_noop (s : Str) (h : hasCont s = false) : unfold s = s := unfold_id s h

private def tk (k : Kind) (s : String) : Tok := ⟨k, s.toList, 0, 0, 0, 0⟩

/-- non-vacuity: `x = 1 + \⏎    2` -/
example : unfoldSafe [⟨[], tk .NAME "x"⟩, ⟨[' '], tk .OP "="⟩, ⟨[' '], tk .NUMBER "1"⟩, ⟨[' '], tk .OP "+"⟩,
    ⟨" \\\n    ".toList, tk .NUMBER "2"⟩, ⟨[], tk .NEWLINE "\n"⟩] = true := by decide

/-- counterexample 1 (raw string, DESIGN §8): the STRING token `r"""ab\⏎cd"""` becomes `r"""abcd"""` —
a different token, a different value ('ab\\\ncd' vs 'abcd') -/
example : unfold (renderA [⟨[], tk .NAME "s"⟩, ⟨[' '], tk .OP "="⟩, ⟨[' '], tk .STRING "r\"\"\"ab\\\ncd\"\"\""⟩]) =
    renderA [⟨[], tk .NAME "s"⟩, ⟨[' '], tk .OP "="⟩, ⟨[' '], tk .STRING "r\"\"\"abcd\"\"\""⟩] := by decide

/-- counterexample 2 (comment ending in a backslash): the NL token and the next statement `y = 2` end up
inside the comment -/
example : unfold (renderA [⟨[], tk .NAME "x"⟩, ⟨[' '], tk .COMMENT "# c \\"⟩, ⟨[], tk .NL "\n"⟩,
      ⟨[], tk .NAME "y"⟩, ⟨[' '], tk .OP "="⟩, ⟨[' '], tk .NUMBER "2"⟩]) =
    renderA [⟨[], tk .NAME "x"⟩, ⟨[' '], tk .COMMENT "# c y = 2"⟩] := by decide

/-- so the unhypothesised statement is false -/
example : ¬ (∀ as : List ATok, unfold (renderA as) = renderA (unfoldGaps as)) := by
  intro h
  have := h [⟨[], tk .STRING "r'a\\\nb'"⟩]
  exact absurd this (by decide)

example : contInsideToken [⟨[], tk .STRING "r'a\\\nb'"⟩] = true := by decide
example : contInsideToken [⟨[], tk .NAME "x"⟩, ⟨[' '], tk .COMMENT "# c \\"⟩, ⟨[], tk .NL "\n"⟩] = true := by decide
/-- `x = a\⏎if b else c` : the continuation is the only separator of `a` and `if` -/
example : contJoinsTokens [⟨[], tk .NAME "a"⟩, ⟨"\\\n".toList, tk .NAME "if"⟩] = true := by decide
example : contInIndentation [⟨[], tk .NEWLINE "\n"⟩, ⟨"    \\\n    ".toList, tk .NAME "y"⟩] = true := by decide

end Malt.Dedent

/-! ## Text: dedenting -/
namespace Malt.Dedent

/-- **Text-level dedent theorem.**  Let `code` be any source text and `as` the oracle's token stream for
`unfold code`, annotated with the gaps (so that `unfold code = renderA as`).  If the stream is well formed
(`wf`: it starts with the INDENT announcing the non-empty block indentation `p`; gaps are blanks; tokens other
than string literals and the literal parts of f-strings are single-line; no gap follows an f-string literal part;
the stream is balanced and ends with ENDMARKER) and obeys the tokenizer's indentation discipline
(`startsOk`), then `dedent_block`
* succeeds, and its result is the SAME tokens with other gaps (`renderA as'`, `as'.map tok = as.map tok`):
  no token — in particular no string literal, including its interior lines — is altered;
* the gap before the first token of every logical line loses exactly the prefix `p`;
* the gap before the first token of any other physical line (blank, comment, bracket continuation) only loses
  leading blanks; all other gaps are unchanged  (`dedentSpec`, MaltModel/Rt/Dedent.lean).
Both hypotheses are decidable and are EVALUATED by the driver on the real token stream of every case; the
harness compares `renderA (adjust p as)` with the real output. -/
theorem C15_dedent_text (p : Str) (as : List ATok) (code : Str)
    (hwf : wf p as = true) (hstarts : startsOk p as = true) (hcode : unfold code = renderA as) :
    dedentBlock code (as.map (·.tok)) = .ok (renderA (adjust p as)) ∧
    dedentSpec p as (adjust p as) = true := by
  constructor
  · unfold dedentBlock
    rw [hcode]
    exact dedentCore_wf p as hwf
  · obtain ⟨hpne, h0⟩ := wf_wfGo0 p as hwf
    have := mainSpec p hpne as 0 true false true [] h0 hstarts rfl (by simp)
    simpa [dedentSpec, adjust] using this

/-- A block that is not indented (the first token that is not NL/NEWLINE/STRING/COMMENT is no INDENT) is
returned as it is, apart from the unfolding. -/
theorem C15_dedent_unindented (code : Str) (toks : List Tok)
    (h : blockIndent toks = none ∨ blockIndent toks = some []) : dedentBlock code toks = .ok (unfold code) := by
  unfold dedentBlock dedentCore
  rcases h with h | h <;> rw [h] <;> simp

/-- the specification leaves every token as it is (kind, text, position): "string-interior lines untouched" -/
theorem C15_dedent_tokens_untouched (p : Str) : ∀ (lg sl : Bool) (as bs : List ATok),
    dedentSpecGo p lg sl as bs = true → bs.map (·.tok) = as.map (·.tok) := by
  intro lg sl as
  induction as generalizing lg sl with
  | nil => intro bs h; cases bs with
    | nil => rfl
    | cons b bs => simp [dedentSpecGo] at h
  | cons a as ih =>
    intro bs h
    cases bs with
    | nil => simp [dedentSpecGo] at h
    | cons b bs =>
      simp only [dedentSpecGo, Bool.and_eq_true, beq_iff_eq] at h
      obtain ⟨htok, h⟩ := h
      simp only [List.map_cons, htok, List.cons.injEq, true_and]
      split at h
      · exact ih _ _ _ (by simp only [Bool.and_eq_true] at h; exact h.2)
      · split at h
        · exact ih _ _ _ (by simp only [Bool.and_eq_true] at h; exact h.2)
        · split at h
          · exact ih _ _ _ (by simp only [Bool.and_eq_true] at h; exact h.2)
          · exact ih _ _ _ (by simp only [Bool.and_eq_true] at h; exact h.2)

/-- one physical line, logical-line start: exactly the prefix is removed (what the final loop of
`dedent_block` does with a line `p ++ ind ++ rest` against the untokenized `ind ++ rest'`) -/
theorem C15_fixLine_logical_start (p ind rest rest' : Str) (hp : p.all isSpace = true)
    (hi : ind.all isSpace = true) (hr : headNonSpace rest = true) (hr' : headNonSpace rest' = true) :
    fixLine (p ++ ind ++ rest) (ind ++ rest') = ind ++ rest := by
  have hpi : (p ++ ind).all isSpace = true := by simp [List.all_append, hp, hi]
  rw [fixLine_fresh (p ++ ind) ind rest rest' hpi hi hr hr']
  simp only [trimTo, List.length_append]
  by_cases h : p.length + ind.length > ind.length
  · simp only [h, if_true]
    have : p.length + ind.length - ind.length = p.length := by omega
    rw [this, List.drop_left]
  · have : p = [] := by
      have : p.length = 0 := by omega
      exact List.eq_nil_of_length_eq_zero this
    subst this; simp

/-- one physical line inside a multi-line string: both sides carry the same text, the line is untouched -/
theorem C15_fixLine_string_interior (l : Str) : fixLine l l = l := fixLine_self l

private def tk' (k : Kind) (s : String) : Tok := ⟨k, s.toList, 0, 0, 0, 0⟩

/-- non-vacuity: an indented method with a nested block, a bracket continuation that is under-indented, a
triple-quoted string with an under-indented interior line, a comment line and a blank line:
```
    def f():
        x = [1,
  2]
        s = """a
 b"""
    # c

        return x
```
-/
private def exAtoks : List ATok := [
  ⟨[], tk' .INDENT "    "⟩, ⟨"    ".toList, tk' .NAME "def"⟩, ⟨[' '], tk' .NAME "f"⟩, ⟨[], tk' .OP "("⟩, ⟨[], tk' .OP ")"⟩,
  ⟨[], tk' .OP ":"⟩, ⟨[], tk' .NEWLINE "\n"⟩,
  ⟨[], tk' .INDENT "        "⟩, ⟨"        ".toList, tk' .NAME "x"⟩, ⟨[' '], tk' .OP "="⟩, ⟨[' '], tk' .OP "["⟩,
  ⟨[], tk' .NUMBER "1"⟩, ⟨[], tk' .OP ","⟩, ⟨[], tk' .NL "\n"⟩,
  ⟨"  ".toList, tk' .NUMBER "2"⟩, ⟨[], tk' .OP "]"⟩, ⟨[], tk' .NEWLINE "\n"⟩,
  ⟨"        ".toList, tk' .NAME "s"⟩, ⟨[' '], tk' .OP "="⟩, ⟨[' '], tk' .STRING "\"\"\"a\n b\"\"\""⟩, ⟨[], tk' .NEWLINE "\n"⟩,
  ⟨"    ".toList, tk' .COMMENT "# c"⟩, ⟨[], tk' .NL "\n"⟩,
  ⟨[], tk' .NL "\n"⟩,
  ⟨"        ".toList, tk' .NAME "return"⟩, ⟨[' '], tk' .NAME "x"⟩, ⟨[], tk' .NEWLINE "\n"⟩,
  ⟨[], tk' .DEDENT ""⟩, ⟨[], tk' .DEDENT ""⟩, ⟨[], tk' .ENDMARKER ""⟩]

example : wf "    ".toList exAtoks = true ∧ startsOk "    ".toList exAtoks = true := by decide
example : String.ofList (renderA exAtoks) =
    "    def f():\n        x = [1,\n  2]\n        s = \"\"\"a\n b\"\"\"\n    # c\n\n        return x\n" := by decide
example : String.ofList (renderA (adjust "    ".toList exAtoks)) =
    "def f():\n    x = [1,\n  2]\n    s = \"\"\"a\n b\"\"\"\n    # c\n\n    return x\n" := by decide

/-- non-vacuity with an f-string (3.12 token stream): a triple-quoted f-string with an escaped brace, an
under-indented replacement field and a whitespace-only last line:
```
    def f(a):
        s = f"""x{{
  {a}
 """
        return s
```
-/
private def exFstr : List ATok := [
  ⟨[], tk' .INDENT "    "⟩, ⟨"    ".toList, tk' .NAME "def"⟩, ⟨[' '], tk' .NAME "f"⟩, ⟨[], tk' .OP "("⟩, ⟨[], tk' .NAME "a"⟩,
  ⟨[], tk' .OP ")"⟩, ⟨[], tk' .OP ":"⟩, ⟨[], tk' .NEWLINE "\n"⟩,
  ⟨[], tk' .INDENT "        "⟩, ⟨"        ".toList, tk' .NAME "s"⟩, ⟨[' '], tk' .OP "="⟩,
  ⟨[' '], tk' .FSTRING_START "f\"\"\""⟩, ⟨[], tk' .FSTRING_MIDDLE "x{"⟩, ⟨[], tk' .FSTRING_MIDDLE "\n  "⟩,
  ⟨[], tk' .OP "{"⟩, ⟨[], tk' .NAME "a"⟩, ⟨[], tk' .OP "}"⟩, ⟨[], tk' .FSTRING_MIDDLE "\n "⟩,
  ⟨[], tk' .FSTRING_END "\"\"\""⟩, ⟨[], tk' .NEWLINE "\n"⟩,
  ⟨"        ".toList, tk' .NAME "return"⟩, ⟨[' '], tk' .NAME "s"⟩, ⟨[], tk' .NEWLINE "\n"⟩,
  ⟨[], tk' .DEDENT ""⟩, ⟨[], tk' .DEDENT ""⟩, ⟨[], tk' .ENDMARKER ""⟩]

example : wf "    ".toList exFstr = true ∧ startsOk "    ".toList exFstr = true := by decide
example : String.ofList (renderA exFstr) =
    "    def f(a):\n        s = f\"\"\"x{{\n  {a}\n \"\"\"\n        return s\n" := by decide
example : String.ofList (renderA (adjust "    ".toList exFstr)) =
    "def f(a):\n    s = f\"\"\"x{{\n  {a}\n \"\"\"\n    return s\n" := by decide

end Malt.Dedent

/-! ## Text, without the tokenizer oracle: the Lean lexer (MaltModel/Rt/Lex.lean)

`Lex.step` is a look-ahead-free automaton for Python's string literals, comments and explicit continuations.
The fragment predicate `contsInCode` ("every backslash-newline is read in plain code") is the NEGATION of the
finding class `backslash_newline_inside_string_or_comment`; theorem and classifier partition all texts. -/
namespace Malt.Lex
open Malt.Dedent

/-- **Unfolding, closed form over ALL texts in the fragment.**  If every backslash-newline of `s` is read in plain
code, then on `_unfold_continuations(s)` the automaton reads every remaining character in the SAME mode as before
(the run is the old run minus the continuation characters, and it ends in the same mode): every string literal
and every comment is preserved character for character, and `unfold` coincides with the token-aware unfolding
`specUnfold`. -/
theorem C15_unfold_lex (s : Str) (h : contsInCode .c0 s = true) :
    trace .c0 (unfold s) = dropConts (trace .c0 s) ∧ final .c0 (unfold s) = final .c0 s ∧
    unfold s = specUnfold .c0 s :=
  ⟨(trace_unfold s .c0 h).1, (trace_unfold s .c0 h).2, unfold_eq_spec s .c0 h⟩

/-- **Exactly when.**  The textual `replace('\\\n', '')` agrees with the token-aware unfolding if AND ONLY IF no
backslash-newline lies inside a string literal or a comment (or behind a pending quote/backslash): outside the
fragment `_unfold_continuations` provably deletes characters that are not a continuation. -/
theorem C15_unfold_lex_exact (s : Str) : unfold s = specUnfold .c0 s ↔ contsInCode .c0 s = true := by
  constructor
  · intro h
    apply contsInCode_of_count
    have h1 := unfold_length s
    have h2 := specUnfold_length s .c0
    rw [h] at h1
    omega
  · exact unfold_eq_spec s .c0

/-- non-vacuity: continuations between tokens, a string containing `#` and an escaped quote, a comment -/
example : contsInCode .c0 "x = 1 + \\\n    f('a#\\'b')  # c \\ d\ny = \"\"\"t\n\"\"\" \\\n".toList = true := by decide
/-- the raw-string finding: outside the fragment, and `unfold` differs from the token-aware unfolding -/
example : contsInCode .c0 "s = r'a\\\nb'".toList = false ∧
    unfold "s = r'a\\\nb'".toList ≠ specUnfold .c0 "s = r'a\\\nb'".toList := by decide
/-- the comment finding -/
example : contsInCode .c0 "x = 1  # c \\\ny = 2\n".toList = false := by decide
/-- an escaped backslash followed by the newline inside a non-raw string -/
example : contsInCode .c0 "s = \"\"\"a\\\\\nb\"\"\"".toList = false := by decide

/-
Full statement (what the property asks for, now closed over the text — no tokenizer oracle):

    theorem C15_recover : ∀ s, the token sequence of dedent_block(s) = the token sequence of s, gaps modulo the
                               common indentation

It is FALSE of the pinned code outside the fragment (`C15_unfold_lex_exact`: `unfold` then deletes characters of
string literals / comments; Lean counterexamples above and in known_findings.d/C15.json).  Proved: the `_partial`
form on the fragment
  (F1) `contsInCode .c0 s`                          — negation of class backslash_newline_inside_string_or_comment
  (F2) `wf p as ∧ startsOk p as ∧ renderA as = unfold s` for `as = lexA (unfold s)`
                                                     — the Lean lexer's stream of the unfolded text is well formed
                                                       (not mixing tabs/spaces, balanced, ends with ENDMARKER, …)
Both are decidable; the driver op `c15.why` evaluates them and names the reason when one fails, so theorem and
classifier partition the inputs.  What stays sampled: that `tokenize` agrees with `lexA` (correspondence on every
generated and /repo source), and that re-lexing the unfolded text gives the chunks of the original (needs the two
further classes backslash_newline_joins_adjacent_tokens / backslash_newline_in_indentation to be excluded; checked
per case, not proved).
-/

/-- **`dedent_block ∘ unfold_continuations` on the fragment, over the Lean lexer.**  The result is the text of the
SAME token sequence (`lexA (unfold s)`, every string literal and comment untouched) with gaps rewritten as
`dedentSpec` prescribes: logical-line starts lose exactly the common indentation `p`, other line-initial gaps only
lose leading blanks; and `unfold s` is the token-aware unfolding of `s`. -/
theorem C15_recover_partial (s p : Str)
    (hF1 : contsInCode .c0 s = true)
    (hr : renderA (lexA (unfold s)) = unfold s)
    (hwf : wf p (lexA (unfold s)) = true) (hst : startsOk p (lexA (unfold s)) = true) :
    unfold s = specUnfold .c0 s ∧
    dedentBlock s ((lexA (unfold s)).map (·.tok)) = .ok (renderA (adjust p (lexA (unfold s)))) ∧
    dedentSpec p (lexA (unfold s)) (adjust p (lexA (unfold s))) = true ∧
    (adjust p (lexA (unfold s))).map (·.tok) = (lexA (unfold s)).map (·.tok) := by
  have h := C15_dedent_text p (lexA (unfold s)) s hwf hst hr.symm
  exact ⟨unfold_eq_spec s .c0 hF1, h.1, h.2, C15_dedent_tokens_untouched p true true _ _ h.2⟩

private def exSrc : Str :=
  "    def f(a):\n        x = [1,\n  2]  # c\n        s = r\"\"\"a\n b\"\"\" + \\\n            'q#'\n\n        return x\n".toList

/-- non-vacuity: the hypotheses hold for an indented method with an under-indented bracket continuation, a
comment, a raw triple-quoted string with an under-indented line, a continuation and a blank line — computed by
the Lean lexer alone -/
example : contsInCode .c0 exSrc = true ∧ renderA (lexA (unfold exSrc)) = unfold exSrc ∧
    wf "    ".toList (lexA (unfold exSrc)) = true ∧ startsOk "    ".toList (lexA (unfold exSrc)) = true := by
  decide +kernel
example : String.ofList (renderA (adjust "    ".toList (lexA (unfold exSrc)))) =
    "def f(a):\n    x = [1,\n  2]  # c\n    s = r\"\"\"a\n b\"\"\" +             'q#'\n\n    return x\n" := by decide +kernel

end Malt.Lex
