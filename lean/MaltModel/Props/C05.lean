import MaltModel.Cfg.AstToCfg
import MaltModel.Cfg.Check
import MaltModel.Proofs.C05Check
import MaltModel.Proofs.C05Paths3C
import MaltModel.Proofs.C05Wf
import MaltModel.Proofs.C05Owners
/-!
# C05 — the control-flow graph contains every control path that can execute

Model: `Cfg/Builder.lean` (mirror of `GraphBuilder`), `Cfg/AstToCfg.lean` (mirror of `AstToCfg`), `Py/Trace.lean`
(`walkFn`: the control-skeleton semantics; an oracle decides every test, loop continuation and handler choice).
Checkers: `Cfg/Check.lean`.  Helper developments: `Proofs/C05*.lean`.
-/
namespace Malt.Cfg
open Malt.Py

/-! ## Successor / predecessor mirror -/

/-- Successors / predecessors of a node of a finished graph: both are read off the same edge list
(`_connect_nodes` is the only writer of `next`, `prev` and `forward_edges`).  The mirror on the REAL `Node` objects is
checked by the harness on every graph. -/
def Graph.succ (g : Graph) (a : NodeId) : List NodeId := (g.edges.filter (fun e => e.1 == a)).map (·.2)
def Graph.pred (g : Graph) (b : NodeId) : List NodeId := (g.edges.filter (fun e => e.2 == b)).map (·.1)

theorem C05_mirror (g : Graph) (a b : NodeId) : b ∈ g.succ a ↔ a ∈ g.pred b := by
  simp [Graph.succ, Graph.pred, List.mem_map, List.mem_filter]

/-! ## Verified checkers (run on the implementation's real graphs on every run) -/

/-- A graph accepted by `wellFormed` is well-formed: no duplicate nodes, edges/exits/errors/roots inside the node set,
one entry which is a root and has no predecessor, and every node is reachable from the entry or from the start of a
dead-code region (a node created while the leaf set was empty). -/
theorem C05_wellformed_checker (g : Graph) (h : wellFormed g = true) : WellFormed g :=
  wellFormed_sound g h

/-- A graph accepted by `pathCheck fn g` contains EVERY walk of `fn` (all fuels, all oracles) as a path: the trace starts
at the entry, consecutive executed nodes are edges, and a completed walk ends in an exit or error node. -/
theorem C05_paths_checker (i : Nat) (name : String) (args : Expr) (body : List Stmt) (decs rets : List Expr)
    (isAsync : Bool) (g : Graph)
    (h : pathCheck (.functionDef i name args body decs rets isAsync) g = true) (fuel : Nat) (ω : Oracle) :
    IsPath g (walkFn fuel (.functionDef i name args body decs rets isAsync) ω) :=
  pathCheck_sound i name args body decs rets isAsync g h fuel ω

/-! ## Every statement kind has its visitor -/

/-- Every statement of the modelled language is handled by a `visit_*` method the model mirrors by name (`modelVisitors`,
compared on every run with the methods the real `AstToCfg` class actually has): no statement kind silently falls back to
`generic_visit`. -/
theorem C05_visitors_cover_statements (s : Stmt) (inLoop : Bool) (h : s.supported inLoop = true) :
    stmtKindName s ∈ modelVisitors ∨ (∃ i ty nm b, s = .handler i ty nm b) := by
  cases s <;> simp_all [Stmt.supported, stmtKindName, modelVisitors]

/-! ## Well-formedness of every graph the model builds

For ALL root functions (any `Stmt` tree, including `try`/`finally`, async constructs, duplicate ids, …): whenever the
builder does not raise, every graph it returns — the root's, and those of nested functions and lambdas — is well-formed:
no duplicate nodes; edges, exits, errors and roots inside the node index; the entry is the first node, is a root and has no
predecessor; and every node is reachable from a root, i.e. from the entry or from the start of a dead-code region (a node
created while the leaf set was empty).  Proof: `Proofs/C05Wf.lean` (an invariant of the builder preserved by every step). -/

theorem C05_wellformed (fn : Stmt) (herr : (build fn).err = none) (id : Nat) (g : Graph)
    (hg : (id, g) ∈ (build fn).cfgs) : WellFormed g :=
  build_wellFormed fn herr (id, g) hg

/-! ## Statement-level edges agree with the node graph -/

private theorem mem_stmtNextOf (ow : List (NodeId × List Nat)) (edges : List (NodeId × NodeId)) (s : Nat) (n : NodeId) :
    n ∈ stmtNextOf ow edges s ↔ ∃ a, (a, n) ∈ edges ∧ s ∈ ownersOf ow a ∧ s ∉ ownersOf ow n := by
  simp only [stmtNextOf, List.mem_map, List.mem_filter, Bool.and_eq_true, List.contains_eq_mem, decide_eq_true_eq,
    Bool.not_eq_true', decide_eq_false_iff_not]
  constructor
  · rintro ⟨⟨a, c⟩, ⟨he, h1, h2⟩, rfl⟩; exact ⟨a, he, h1, h2⟩
  · rintro ⟨a, he, h1, h2⟩; exact ⟨(a, n), ⟨he, h1, h2⟩, rfl⟩

private theorem mem_stmtPrevOf (ow : List (NodeId × List Nat)) (edges : List (NodeId × NodeId)) (s : Nat) (n : NodeId) :
    n ∈ stmtPrevOf ow edges s ↔ ∃ c, (n, c) ∈ edges ∧ s ∈ ownersOf ow c ∧ s ∉ ownersOf ow n := by
  simp only [stmtPrevOf, List.mem_map, List.mem_filter, Bool.and_eq_true, List.contains_eq_mem, decide_eq_true_eq,
    Bool.not_eq_true', decide_eq_false_iff_not]
  constructor
  · rintro ⟨⟨a, c⟩, ⟨he, h1, h2⟩, rfl⟩; exact ⟨c, he, h1, h2⟩
  · rintro ⟨c, he, h1, h2⟩; exact ⟨(n, c), ⟨he, h1, h2⟩, rfl⟩

/-- For every finished builder: `stmt_next[s]` is exactly the set of targets of edges that leave the extent of `s`
(source owned by `s`, target not), `stmt_prev[s]` dually — for every statement key of the maps. -/
theorem C05_stmt_edges (b : B) (s : Nat) (l : List NodeId) :
    ((s, l) ∈ b.build.stmtNext → ∀ n, n ∈ l ↔ ∃ a, (a, n) ∈ b.build.edges ∧ s ∈ ownersOf b.build.owners a ∧ s ∉ ownersOf b.build.owners n) ∧
    ((s, l) ∈ b.build.stmtPrev → ∀ n, n ∈ l ↔ ∃ c, (n, c) ∈ b.build.edges ∧ s ∈ ownersOf b.build.owners c ∧ s ∉ ownersOf b.build.owners n) := by
  constructor
  · intro h n
    simp only [B.build, List.mem_map] at h
    obtain ⟨k, _, hk⟩ := h
    cases hk
    exact mem_stmtNextOf _ _ _ _
  · intro h n
    simp only [B.build, List.mem_map] at h
    obtain ⟨k, _, hk⟩ := h
    cases hk
    exact mem_stmtPrevOf _ _ _ _

/-- The builder's `owners` (what `stmt_prev`/`stmt_next` are computed from) is lexical containment: for every function
of the modelled language (including `try`/`except`/`finally`) whose statement ids are distinct, the nodes of the root
graph, in creation order, each paired with its owners, are exactly `fnOwnSpec fn` — the direct recursive definition
"node `n` is contained in the if/while/for/try/except statement `s` iff it is created while visiting `s`", i.e. the
enclosing statements of the node in the AST (`Proofs/C05Owners.lean`).  Together with `C05_stmt_edges`:
`stmt_next[s]` = targets of edges leaving the lexical extent of `s`. -/
theorem C05_owners_lexical (i : Nat) (name : String) (args : Expr) (body : List Stmt) (decs rets : List Expr) (g : Graph)
    (hs : fnSupported (.functionDef i name args body decs rets false) = true)
    (hd : fnDistinctOwnerIds (.functionDef i name args body decs rets false) = true)
    (hg : rootGraph (.functionDef i name args body decs rets false) = some g) :
    g.owners = fnOwnSpec (.functionDef i name args body decs rets false) := by
  have hgb : g = (rootBuilder (.functionDef i name args body decs rets false)).1.build := by
    simp only [rootGraph] at hg
    split at hg
    · cases hg
    · exact (Option.some.inj hg).symm
  subst hgb
  exact owners_root i name args body decs rets hs hd

/-! ## Every walk is a path of the model's graph

Statement (`C05_paths` below; FALSE of the pinned code without the last hypothesis, see the counterexample at the end):

  fnSupported fn → fnParsedShape fn → fnDistinctKeys3 fn → fnNoJumpInHandlerOfTryWithFinally fn →
      rootGraph fn = some g → ∀ fuel ω, IsPath g (walkFn fuel fn ω)

Proved by structural induction over statements, for the whole modelled language including `finally`:

* `Proofs/C05Frame.lean`, `Proofs/C05FrameX.lean`: Lemma A = frame conditions of the builder for all statements (which
  dictionary keys, jump lists, guard lists, `finally` sub-graph records and set objects a visit may touch);
* `Proofs/C05Paths3.lean` … `C05Paths3C.lean`: Lemma B = the invariant relating the builder to the flow summary of the code
  visited so far: every node control can be at is a leaf (or, at the start of a `finally` block reached by a pending jump,
  a node that flows into the block's first node); every required pair is an edge or a *pending pair* of a registered jump
  (it is added by `_connect_jump_to_finally_sections` when the section the jump targets is left: the jump into the first
  guard, and the ends of one guard into the beginning of the next); every pending `break`/`continue`/`return` outcome is a
  registered jump at some stage of its guard chain with exactly the enclosing `finally` scopes left to pass; every pending
  raise is an error node registered with every enclosing handler.  The single visit of a `finally` block is matched
  against the four runs of the block in the flow summary (entered normally, by `break`, by `continue`, by `return`);
  `Proofs/C05Paths3Exit.lean` shows that `exit_section` / `exit_loop_section` turn every pending pair of their jumps into
  an edge and leave the others alone (the jump lists are pairwise disjoint);
* Lemma C (`pathCheck_build3`) = the finished root graph passes `pathCheck`; composed with `walk_sound` (all fuels, all
  oracles).

The hypotheses, precisely (all decidable, evaluated by the driver for every program of every run):

* `fnFrag3 fn` (`C05_paths_partial`): no `async def/for/with`, no `except … as name`, no statement outside the modelled
  syntax, `for` loops without the extra loop test annotation, `break`/`continue` only inside a loop of the same function;
  every `with` has an item, every `try` body and every `finally` block start with a node-creating statement; and for
  every `try` that has a `finally` block: no handler of that try contains a `return`, or a `break`/`continue` whose loop
  is outside the handler (`escapesL false handlers = false`) — the class of the known finding.
  `fnFrag3_of`: `fnSupported fn ∧ fnParsedShape fn ∧ fnNoJumpInHandlerOfTryWithFinally fn → fnFrag3 fn`, where
  `fnParsedShape` collects the conditions that hold of every parsed Python program (no extra loop test, a `with` has an
  item, try bodies / `finally` blocks start with a node-creating statement) — so `C05_paths` covers every function of
  the walk's language outside the class of the known finding.
* `fnDistinctKeys3 fn`: the dictionaries of `GraphBuilder` are keyed by AST node objects and the node index by CFG nodes;
  in the model the keys are the serialiser's preorder ids.  Ids of one family (section keys, conditional-section keys,
  CFG nodes) must be pairwise distinct; they are for every serialised program: the keys of one family are ids of distinct
  AST nodes (conditional sections: `If` nodes, `Try` nodes for their else block, first handlers; sections: loops, functions,
  `Try` nodes for their `finally` block, handlers).  The driver evaluates the predicate for every program of every run.
  (Before the fix of finding C05-try-else-if the else block was keyed by its first statement, which clashed with an `if`
  there.)
* `rootGraph fn = some g`: the model's `cfg.build` does not raise.

The verified-checker route (`C05_paths_checker` on the implementation's real graph, equal to the model's) stays in place
for every program, inside or outside these hypotheses. -/

theorem C05_paths_partial (i : Nat) (name : String) (args : Expr) (body : List Stmt) (decs rets : List Expr) (g : Graph)
    (hfrag : fnFrag3 (.functionDef i name args body decs rets false) = true)
    (hkeys : fnDistinctKeys3 (.functionDef i name args body decs rets false) = true)
    (hg : rootGraph (.functionDef i name args body decs rets false) = some g) (fuel : Nat) (ω : Oracle) :
    IsPath g (walkFn fuel (.functionDef i name args body decs rets false) ω) := by
  have hgb : g = (rootBuilder (.functionDef i name args body decs rets false)).1.build := by
    simp only [rootGraph] at hg
    split at hg
    · cases hg
    · exact (Option.some.inj hg).symm
  subst hgb
  exact pathCheck_sound i name args body decs rets false _ (pathCheck_build3 i name args body decs rets hfrag hkeys) fuel ω

/-- Every walk of a function of the modelled language, outside the class of the known finding, is a path of the model's
graph. -/
theorem C05_paths (i : Nat) (name : String) (args : Expr) (body : List Stmt) (decs rets : List Expr) (g : Graph)
    (hsup : fnSupported (.functionDef i name args body decs rets false) = true)
    (hshape : fnParsedShape (.functionDef i name args body decs rets false) = true)
    (hkeys : fnDistinctKeys3 (.functionDef i name args body decs rets false) = true)
    (hclass : fnNoJumpInHandlerOfTryWithFinally (.functionDef i name args body decs rets false) = true)
    (hg : rootGraph (.functionDef i name args body decs rets false) = some g) (fuel : Nat) (ω : Oracle) :
    IsPath g (walkFn fuel (.functionDef i name args body decs rets false) ω) :=
  C05_paths_partial i name args body decs rets g (fnFrag3_of i name args body decs rets false hsup hshape hclass) hkeys hg fuel ω

/-- `def f(a): while a: (if a: break; else: continue); x = a   else: return a` then `y = lambda: a` — nested jumps,
loop-else, dead code, a lambda: the hypotheses of `C05_paths_partial` hold and the graph exists. -/
def exFn : Stmt :=
  .functionDef 1 "f" (.arguments 2 [] [.arg 3 "a" []] [] [] [] [] [])
    [.while_ 4 (.name 5 "a" .load)
      [.if_ 6 (.name 7 "a" .load) [.break_ 8] [.continue_ 9],
       .assign 10 [.name 11 "x" .store] (.name 12 "a" .load)]
      [.ret 13 [.name 14 "a" .load]],
     .assign 15 [.name 16 "y" .store] (.lambda 17 (.arguments 18 [] [] [] [] [] [] []) (.name 19 "a" .load))]
    [] [] false

example : fnFrag3 exFn = true ∧ fnDistinctKeys3 exFn = true ∧ (rootGraph exFn).isSome = true := by decide
/-- … and `C05_wellformed` applies to both of its graphs (the function's and the lambda's). -/
example : (build exFn).err = none ∧ (build exFn).cfgs.length = 2 := by decide
example : walkFn 20 exFn [1, 0, 1, 1] = ([2, 5, 7, 9, 5, 7, 8, 17, 15], .normal, []) := by decide

/-- `def f(a): for x in a: try: (if a: raise E); continue  except E0: break  except E1: y = a  else: return a` -/
def exFn2 : Stmt :=
  .functionDef 1 "f" (.arguments 2 [] [.arg 3 "a" []] [] [] [] [] [])
    [.for_ 4 (.name 5 "x" .store) (.name 6 "a" .load)
      [.try_ 7
        [.if_ 8 (.name 9 "a" .load) [.raise 10 [.name 11 "E" .load] []] [], .continue_ 12]
        [.handler 13 [.name 14 "E0" .load] [] [.break_ 15],
         .handler 16 [.name 17 "E1" .load] [] [.assign 18 [.name 19 "y" .store] (.name 20 "a" .load)]]
        [.ret 21 [.name 22 "a" .load]]
        []]
      [] [] false]
    [] [] false

example : fnFrag3 exFn2 = true ∧ fnDistinctKeys3 exFn2 = true ∧ (rootGraph exFn2).isSome = true := by decide
/-- `C05_owners_lexical` applies to it: the `break` (#15) lies in the for (#4), the try (#7) and the first handler (#13). -/
example : fnSupported exFn2 = true ∧ fnDistinctOwnerIds exFn2 = true ∧ (fnOwnSpec exFn2).lookup 15 = some [4, 7, 13] := by decide
/-- first iteration: the raise is caught by the second handler, falls through; second iteration: caught by the first, `break` -/
example : walkFn 30 exFn2 [1, 1, 1, 1, 1, 0] = ([2, 6, 9, 10, 18, 6, 9, 10, 15], .normal, []) := by decide

/-- A loop with `continue` inside try/finally inside try/finally, a `break` that passes one `finally` block and a `return`
that passes two, with a handler and an `else` block:

    def f(a):
        while a:
            try:
                try:
                    if a: continue
                    if a: break
                    if a: return a
                    x = a
                except E: w = a
                else: v = a
                finally: y = a
            finally: z = a
        return a
-/
def exFn3 : Stmt :=
  .functionDef 1 "f" (.arguments 2 [] [.arg 3 "a" []] [] [] [] [] [])
    [.while_ 4 (.name 5 "a" .load)
      [.try_ 6
        [.try_ 7
          [.if_ 8 (.name 9 "a" .load) [.continue_ 10] [],
           .if_ 11 (.name 12 "a" .load) [.break_ 13] [],
           .if_ 14 (.name 15 "a" .load) [.ret 16 [.name 17 "a" .load]] [],
           .assign 18 [.name 19 "x" .store] (.name 20 "a" .load)]
          [.handler 21 [.name 22 "E" .load] [] [.assign 23 [.name 24 "w" .store] (.name 25 "a" .load)]]
          [.assign 26 [.name 27 "v" .store] (.name 28 "a" .load)]
          [.assign 29 [.name 30 "y" .store] (.name 31 "a" .load)]]
        [] []
        [.assign 32 [.name 33 "z" .store] (.name 34 "a" .load)]]
      [],
     .ret 35 [.name 36 "a" .load]]
    [] [] false

/-- The hypotheses of `C05_paths` hold of it (so the theorem is not vacuous on nested `finally`) … -/
example : fnSupported exFn3 = true ∧ fnParsedShape exFn3 = true ∧ fnNoJumpInHandlerOfTryWithFinally exFn3 = true ∧
    fnFrag3 exFn3 = true := by decide
set_option maxRecDepth 8000 in
example : fnDistinctKeys3 exFn3 = true := by decide
set_option maxRecDepth 8000 in
example : (rootGraph exFn3).isSome = true := by decide
/-- … `continue` through both `finally` blocks back to the loop test, then the loop ends -/
example : walkFn 40 exFn3 [1, 1, 0] = ([2, 5, 9, 10, 29, 32, 5, 35], .ret, []) := by decide
/-- … `break` through both `finally` blocks to the statement after the loop -/
example : walkFn 40 exFn3 [1, 0, 1] = ([2, 5, 9, 12, 13, 29, 32, 35], .ret, []) := by decide
/-- … `return` through both `finally` blocks -/
example : walkFn 40 exFn3 [1, 0, 0, 1] = ([2, 5, 9, 12, 15, 16, 29, 32], .ret, []) := by decide

/-- A `try` whose `else` block starts with an `if` (finding C05-try-else-if, fixed: the block's conditional section is
keyed by the `Try` node): `def f(a): try: x = a  except E: y = a  else: (if a: return a); z = a  finally: w = a`. -/
def exFn4 : Stmt :=
  .functionDef 1 "f" (.arguments 2 [] [.arg 3 "a" []] [] [] [] [] [])
    [.try_ 4
      [.assign 5 [.name 6 "x" .store] (.name 7 "a" .load)]
      [.handler 8 [.name 9 "E" .load] [] [.assign 10 [.name 11 "y" .store] (.name 12 "a" .load)]]
      [.if_ 13 (.name 14 "a" .load) [.ret 15 [.name 16 "a" .load]] [],
       .assign 17 [.name 18 "z" .store] (.name 19 "a" .load)]
      [.assign 20 [.name 21 "w" .store] (.name 22 "a" .load)]]
    [] [] false

example : fnSupported exFn4 = true ∧ fnParsedShape exFn4 = true ∧ fnNoJumpInHandlerOfTryWithFinally exFn4 = true ∧
    fnFrag3 exFn4 = true := by decide
set_option maxRecDepth 8000 in
example : fnDistinctKeys3 exFn4 = true ∧ (rootGraph exFn4).isSome = true := by decide
/-- the else block runs after the body, its `return` passes the `finally` block -/
example : walkFn 20 exFn4 [1] = ([2, 5, 14, 15, 20], .ret, []) := by decide

/-! ## The known violation of the full statement on the pinned code

Full statement (FALSE of the pinned code):
  `∀ fn g, fnSupported fn → rootGraph fn = some g → ∀ fuel ω, IsPath g (walkFn fuel fn ω)`.
`visit_Try` leaves the try's lexical scope before it visits the handlers, so a `return`/`break`/`continue` in a handler of
a try that has a `finally` block is not routed through the `finally` body.  The theorem therefore carries the
hypothesis `fnNoJumpInHandlerOfTryWithFinally`; the counterexample below is the program of
`known_findings.d/C05.json` (ids as assigned by the serialiser). -/

/-- `def f(a): try: raise E  except E0: return a  finally: x = a` -/
def cexFn : Stmt :=
  .functionDef 1 "f" (.arguments 2 [] [.arg 3 "a" []] [] [] [] [] [])
    [.try_ 4
      [.raise 5 [.name 6 "E" .load] []]
      [.handler 7 [.name 8 "E0" .load] [] [.ret 9 [.name 10 "a" .load]]]
      []
      [.assign 11 [.name 12 "x" .store] (.name 13 "a" .load)]]
    [] [] false

/-- The program is in the modelled language and in the class of the finding. -/
example : fnSupported cexFn = true ∧ fnNoJumpInHandlerOfTryWithFinally cexFn = false := by decide
/-- … so it is outside the hypotheses of `C05_paths` (it has the parsed shape and distinct keys; only the class predicate fails). -/
example : fnFrag3 cexFn = false ∧ fnParsedShape cexFn = true ∧ fnDistinctKeys3 cexFn = true := by decide

/-- With the oracle `[0]` (the first handler catches) the walk is `args, raise, return, x = a`. -/
example : walkFn 10 cexFn [0] = ([2, 5, 9, 11], .ret, []) := by decide

/-- The model's graph of the pinned code for that program. -/
def cexGraph : Graph := (rootGraph cexFn).getD default

example : rootGraph cexFn = some cexGraph := by decide

/-- … and that walk is not a path of the model's graph of the pinned code: `return a → x = a` is not an edge
(the same is observed on the real `cfg.build` by the harness on every run). -/
theorem C05_counterexample (g : Graph) (hg : rootGraph cexFn = some g) : ¬ IsPath g (walkFn 10 cexFn [0]) := by
  have hg' : rootGraph cexFn = some cexGraph := by decide
  have : g = cexGraph := Option.some.inj (hg.symm.trans hg')
  subst this
  have hw : walkFn 10 cexFn [0] = ([2, 5, 9, 11], .ret, []) := by decide
  rw [hw]
  intro h
  have h911 : (9, 11) ∈ cexGraph.edges := h.2.1.2.2.1
  revert h911
  decide

end Malt.Cfg
