import MaltModel.Analysis.ReachDef
import MaltModel.Proofs.C06Worklist
/-!
# C06 — reaching definitions and defined-on-entry sets are sound

Property theorems only.  Models: `Analysis/Dataflow.lean` (generic gen/kill framework, verified
checkers, `flow_sound`), `Analysis/Worklist.lean` (model of `GraphVisitor._visit_internal`),
`Analysis/ReachDef.lean` (transfer functions of `reaching_definitions.Analyzer.visit_node` from the
node's Scope; statement- and name-level annotation relations; concrete traces).

How the theorems are tied to /repo: on every run the driver evaluates `isFix`, `isPostFix`,
`genMapOK`, `stmtPrevComplete`, `definedInCovers`, `nameDefsOK` … on the implementation's own graph,
Scope sets, `Analyzer.in_/out` and annotations; the theorems below say what a `true` answer implies.

Full statement (FALSE of the pinned tree, see `C06_reads_full_false`):

    theorem C06_reads : isPostFix E V (rdFlow D) IN OUT → isPathB E V T → rdGenOK D T →
        isLastWriterB T j k v → (v, node j) ∈ IN (node k)

The hypothesis that fails is `hkill` of `rd_sound` ("a node that kills v really overwrites v") at a `for`
header visited when its iterator is exhausted: the header carries the loop target in
`scope.modified`, so it kills the target on the exit edge as well.  `C06_reads_partial` assumes the
decidable negation `forTargetKilledUnwritten = false`; the same predicate, evaluated by the driver
on a failing real trace, is the finding class `for_target_defined_before_zero_trip`.
Values written by other activations (closure writes / reads of enclosing-function variables) are outside
`rd_sound`'s `Run` (writes happen at steps of the walk): class `value_written_by_another_activation`.
-/
namespace Malt.Analysis.C06
open Malt.Analysis

/-- Verified checker (equality): `isFix … = true` on the real output means the reported solution is a fixed point of
the analysis' own transfer equations on the visited nodes (the property's last sentence). -/
theorem C06_checker_fix (D : CfgData) (V : List Nat) (IN OUT : St Def)
    (h : isFix D.graph.edges V (rdFlow D) IN OUT = true) : IsFix D.graph.edges V (rdFlow D) IN OUT :=
  isFix_sound h

/-- … and conversely the checker accepts every fixed point (a `false` answer is a real counterexample to the clause). -/
theorem C06_checker_fix_complete (D : CfgData) (V : List Nat) (IN OUT : St Def)
    (h : IsFix D.graph.edges V (rdFlow D) IN OUT) : isFix D.graph.edges V (rdFlow D) IN OUT = true :=
  isFix_complete h

/-- Verified checker (inclusions): what soundness needs. -/
theorem C06_checker_postfix (D : CfgData) (V : List Nat) (IN OUT : St Def)
    (h : isPostFix D.graph.edges V (rdFlow D) IN OUT = true) : IsPostFix D.graph.edges V (rdFlow D) IN OUT :=
  isPostFix_sound h

/-- **rd_sound**, for ANY graph, visited set, gen/kill and post-fixed point: the definition that produced the value
visible at step `k` is in `IN` at step `k`. -/
theorem C06_rd_sound (E : List (Nat × Nat)) (V : List Nat) (F : Flow Def) (IN OUT : St Def)
    (hfix : IsPostFix E V F IN OUT) (R : Run) (len : Nat)
    (hV : ∀ i, i ≤ len → R.node i ∈ V) (hpath : R.IsPath E len)
    (hgen : ∀ i v, i ≤ len → R.writes i v → (v, R.node i) ∈ F.gen (R.node i))
    (hkill : ∀ i v d, i ≤ len → F.kill (R.node i) (v, d) = true → R.touches i v)
    (k v j : Nat) (hk : k ≤ len) (hl : R.LastWriter k v j) : (v, R.node j) ∈ IN (R.node k) :=
  (rd_sound E V F IN OUT hfix R len hV hpath hgen hkill k v j hk hl).1

/-- A walk that starts at the entry stays inside a visited set that contains the entry and is closed under the edges
(so `hV` above follows from two more checker answers). -/
theorem C06_walk_visited (E : List (Nat × Nat)) (V : List Nat) (hc : closedUnder E V = true) (R : Run) (len : Nat)
    (h0 : R.node 0 ∈ V) (hpath : R.IsPath E len) : ∀ i, i ≤ len → R.node i ∈ V :=
  fun i hi => chain_in_closed hc R.node 0 len h0 (fun i _ h => hpath i h) i (Nat.zero_le _) hi

/-- **C06_defined_in** (generic): at every executed entry of a compound statement every variable bound at that
moment is in a `DEFINED_VARS_IN` that covers the predecessors' out-states (`definedInCovers`, checked on the real
annotation) — given the real `stmt_prev` is complete (`stmtPrevComplete`, checked). -/
theorem C06_defined_in (E : List (Nat × Nat)) (V : List Nat) (F : Flow Def) (IN OUT : St Def)
    (hfix : IsPostFix E V F IN OUT) (R : Run) (len : Nat)
    (hV : ∀ i, i ≤ len → R.node i ∈ V) (hpath : R.IsPath E len)
    (hgen : ∀ i v, i ≤ len → R.writes i v → (v, R.node i) ∈ F.gen (R.node i))
    (hkill : ∀ i v d, i ≤ len → F.kill (R.node i) (v, d) = true → R.touches i v)
    (s : StmtData) (dv : List Nat)
    (hprev : stmtPrevComplete E s = true) (hcov : definedInCovers OUT s dv = true)
    (k v j : Nat) (hk : k ≤ len) (hk0 : 0 < k)
    (hin : R.node k ∈ s.inside) (hout : R.node (k - 1) ∉ s.inside)
    (hbound : R.LastWriter k v j) : v ∈ dv :=
  defined_in_sound E V F IN OUT hfix R len hV hpath hgen hkill s dv hprev hcov k v j hk hk0 hin hout hbound

/-- **C06_reads_partial** on the serialised real data: every hypothesis is a Bool the driver evaluates.  If the
checkers accept the real solution and annotation, the trace is a path of the real graph, actual writes are generated
(C08), and no `for` header with target `v` is visited exhausted between writer and read (finding class) nor any other
node kills `v` without writing it, then the actual last writer of a Name load is among its `DEFINITIONS`. -/
theorem C06_reads_partial (D : CfgData) (V : List Nat) (IN OUT : St Def) (T : Trace) (a : NameAnno)
    (hfix : isPostFix D.graph.edges V (rdFlow D) IN OUT = true)
    (hanno : nameDefsOK IN OUT a = true) (hload : a.isLoad = true)
    (hpath : isPathB D.graph.edges V T = true)
    (hgen : rdGenOK D T = true)
    (j k : Nat) (hk : k < T.length) (hcfg : T.nodeAt k = a.cfg)
    (hfor : forTargetKilledUnwritten D T j k a.var = false)
    (hother : otherKillUnwritten D T j k a.var = false)
    (hlast : isLastWriterB T j k a.var = true) :
    (a.var, T.nodeAt j) ∈ a.defs := by
  have h := (rd_trace_sound D V IN OUT T hfix hpath hgen j k a.var hk
    (rdKillOK_of_classes D T j k a.var hfor hother) hlast).1
  rw [hcfg] at h
  exact nameDefs_mem hanno hload _ h

/-- the same with the annotation relation stated at the node that EVALUATES the name (`nameDefsAtEval`, a Bool the driver
evaluates for a failing read): its negation is the finding class `read_in_default_of_nested_def`. -/
theorem C06_reads_eval_partial (D : CfgData) (V : List Nat) (IN OUT : St Def) (T : Trace) (a : NameAnno)
    (hfix : isPostFix D.graph.edges V (rdFlow D) IN OUT = true)
    (hpath : isPathB D.graph.edges V T = true)
    (hgen : rdGenOK D T = true)
    (j k : Nat) (hk : k < T.length)
    (hanno : nameDefsAtEval IN a (T.nodeAt k) = true)
    (hfor : forTargetKilledUnwritten D T j k a.var = false)
    (hother : otherKillUnwritten D T j k a.var = false)
    (hlast : isLastWriterB T j k a.var = true) :
    (a.var, T.nodeAt j) ∈ a.defs :=
  nameDefsAtEval_mem hanno _ (rd_trace_sound D V IN OUT T hfix hpath hgen j k a.var hk
    (rdKillOK_of_classes D T j k a.var hfor hother) hlast).1

/-- **C06_defined_in_partial** on the serialised real data. -/
theorem C06_defined_in_partial (D : CfgData) (V : List Nat) (IN OUT : St Def) (T : Trace) (s : StmtData) (dv : List Nat)
    (hfix : isPostFix D.graph.edges V (rdFlow D) IN OUT = true)
    (hprev : stmtPrevComplete D.graph.edges s = true) (hcov : definedInCovers OUT s dv = true)
    (hpath : isPathB D.graph.edges V T = true)
    (hgen : rdGenOK D T = true)
    (j k v : Nat) (hk : k < T.length) (hk0 : 0 < k)
    (hin : T.nodeAt k ∈ s.inside) (hout : T.nodeAt (k - 1) ∉ s.inside)
    (hfor : forTargetKilledUnwritten D T j k v = false)
    (hother : otherKillUnwritten D T j k v = false)
    (hlast : isLastWriterB T j k v = true) : v ∈ dv := by
  have h := (rd_trace_sound D V IN OUT T hfix hpath hgen j k v hk
    (rdKillOK_of_classes D T j k v hfor hother) hlast).2
  obtain ⟨_, hE⟩ := isPathB_spec _ _ _ hpath
  have hedge : (T.nodeAt (k - 1), T.nodeAt k) ∈ D.graph.edges := by
    have := hE (k - 1) (by omega)
    have e : k - 1 + 1 = k := by omega
    rwa [e] at this
  have hp : T.nodeAt (k - 1) ∈ s.prev := by
    simp only [stmtPrevComplete, List.all_eq_true] at hprev
    have := hprev _ hedge
    simp only [Bool.or_eq_true, Bool.not_eq_true', Bool.and_eq_false_iff, List.contains_eq_mem,
      decide_eq_false_iff_not, decide_eq_true_eq, Bool.not_eq_false'] at this
    rcases this with (h1 | h1) | h1
    · exact absurd hin h1
    · exact absurd h1 hout
    · exact h1
  simp only [definedInCovers, List.all_eq_true, List.contains_eq_mem, decide_eq_true_eq] at hcov
  exact hcov _ hp _ h

/-- **worklist_fix** for reaching definitions: the model of `visit_forward` (breadth-first worklist + `visit_node`), once
quiescent, stores a fixed point on its visited set, which contains the entry and is closed under the edges — for every
graph and every Scope assignment. -/
theorem C06_worklist_fix (D : CfgData) (fuel : Nat) (hq : (rdRunModel D fuel).open_ = []) :
    IsFix D.graph.edges (rdRunModel D fuel).closed (rdFlow D) (rdRunModel D fuel).A (rdRunModel D fuel).B ∧
    closedUnder D.graph.edges (rdRunModel D fuel).closed = true ∧ D.entry ∈ (rdRunModel D fuel).closed := by
  have h := worklist_fix D.graph.edges (rdFlow D) [D.entry] fuel hq
  exact ⟨h.1, h.2.1, h.2.2 D.entry (by simp)⟩

/-- … hence the model's own output is sound for every walk from the entry (composition of the two results). -/
theorem C06_model_sound (D : CfgData) (fuel : Nat) (hq : (rdRunModel D fuel).open_ = []) (R : Run) (len : Nat)
    (h0 : R.node 0 = D.entry) (hpath : R.IsPath D.graph.edges len)
    (hgen : ∀ i v, i ≤ len → R.writes i v → (v, R.node i) ∈ (rdFlow D).gen (R.node i))
    (hkill : ∀ i v d, i ≤ len → (rdFlow D).kill (R.node i) (v, d) = true → R.touches i v)
    (k v j : Nat) (hk : k ≤ len) (hl : R.LastWriter k v j) :
    (v, R.node j) ∈ (rdRunModel D fuel).A (R.node k) := by
  obtain ⟨hfix, hc, he⟩ := C06_worklist_fix D fuel hq
  have hV := C06_walk_visited D.graph.edges _ hc R len (by rw [h0]; exact he) hpath
  exact C06_rd_sound _ _ _ _ _ hfix.toPostFix R len hV hpath hgen hkill k v j hk hl

/-- **Termination of the work-list model**, no hypothesis: with the fuel `rdFuel D` (computed from the graph and the gen sets:
`fuelBound`), or any larger fuel, the model of `visit_forward` reaches an empty work-list — on every graph, well-formed or not.
The bound is exponential in the number of nodes because the algorithm is (see `Proofs/C06Worklist.lean`). -/
theorem C06_worklist_terminates (D : CfgData) (fuel : Nat) (hfuel : rdFuel D ≤ fuel) : (rdRunModel D fuel).open_ = [] :=
  run_terminates D.graph.edges (rdFlow D) [D.entry] fuel hfuel

/-- **The model computes the least fixed point**: a fixed point (equality) on its visited set, which contains the entry and is
closed under the edges, and below EVERY post-fixed point over any closed node set containing the entry — so every other
correct iteration order (any algorithm returning a least solution) yields the same sets (`lfp_unique`). -/
theorem C06_worklist_lfp (D : CfgData) :
    IsFix D.graph.edges (rdRunModel D (rdFuel D)).closed (rdFlow D) (rdRunModel D (rdFuel D)).A (rdRunModel D (rdFuel D)).B ∧
    closedUnder D.graph.edges (rdRunModel D (rdFuel D)).closed = true ∧ D.entry ∈ (rdRunModel D (rdFuel D)).closed ∧
    ∀ (V' : List Nat) (A' B' : St Def), IsPostFix D.graph.edges V' (rdFlow D) A' B' → D.entry ∈ V' →
      closedUnder D.graph.edges V' = true →
      ∀ n a, (a ∈ (rdRunModel D (rdFuel D)).B n → a ∈ B' n) ∧ (a ∈ (rdRunModel D (rdFuel D)).A n → a ∈ A' n) := by
  obtain ⟨h1, h2, h3⟩ := C06_worklist_fix D (rdFuel D) (C06_worklist_terminates D _ (Nat.le_refl _))
  refine ⟨h1, h2, h3, ?_⟩
  intro V' A' B' hpost hentry hclosed
  exact run_below_postfix D.graph.edges (rdFlow D) [D.entry] V' A' B' hpost
    (fun n hn => by simp only [List.mem_singleton] at hn; subst hn; exact hentry) hclosed (rdFuel D)

/-- Corollary for the REAL output: whatever `Analyzer.in_/out` the post-fixed-point checker accepts (on the model's visited set)
lies above the least fixed point … -/
theorem C06_real_above_lfp (D : CfgData) (IN OUT : St Def)
    (h : isPostFix D.graph.edges (rdRunModel D (rdFuel D)).closed (rdFlow D) IN OUT = true) :
    ∀ n a, (a ∈ (rdRunModel D (rdFuel D)).B n → a ∈ OUT n) ∧ (a ∈ (rdRunModel D (rdFuel D)).A n → a ∈ IN n) := by
  obtain ⟨_, h2, h3, h4⟩ := C06_worklist_lfp D
  exact h4 _ IN OUT (isPostFix_sound h) h3 h2

/-- … and the additional `isLeast` check the driver runs (`model_eq`: `solEqOn … = true`) says the real output IS the least
fixed point, node by node: a change that makes the real analysis return a larger but still sound solution shows up as a
difference in this check. -/
theorem C06_real_is_lfp (D : CfgData) (IN OUT : St Def)
    (hA : solEqOn D.graph.nodes (rdRunModel D (rdFuel D)).A IN = true)
    (hB : solEqOn D.graph.nodes (rdRunModel D (rdFuel D)).B OUT = true) :
    ∀ n, n ∈ D.graph.nodes → SetEq ((rdRunModel D (rdFuel D)).A n) (IN n) ∧ SetEq ((rdRunModel D (rdFuel D)).B n) (OUT n) :=
  fun n hn => ⟨solEqOn_spec hA n hn, solEqOn_spec hB n hn⟩

/-! ## The pinned tree: `def f(xs): x = 1; for x in xs: pass; return x` with `xs = []`
(literals below are the REAL graph / Scope sets / `Analyzer.in_/out` / trace, printed by the harness;
variables 0 = xs, 1 = x; nodes 2 = args, 4 = `x = 1`, 9 = for header `xs`, 10 = `pass`, 11 = `return x`) -/

def ztD : CfgData where
  fnId := 1
  graph := { nodes := [2, 4, 9, 10, 11], edges := [(2, 4), (4, 9), (9, 10), (9, 11), (10, 9)] }
  entry := 2
  exits := [11]
  info := [
    { id := 2, scope := some { read := [], modified := [], deleted := [], bound := [0], globals := [], nonlocals := [], params := [0], annotations := [] }, isForIter := false, forTargets := [], isFnDef := false, fnsIn := some [] },
    { id := 4, scope := some { read := [], modified := [1], deleted := [], bound := [1], globals := [], nonlocals := [], params := [], annotations := [] }, isForIter := false, forTargets := [], isFnDef := false, fnsIn := some [] },
    { id := 9, scope := some { read := [0], modified := [1], deleted := [], bound := [1], globals := [], nonlocals := [], params := [], annotations := [] }, isForIter := true, forTargets := [1], isFnDef := false, fnsIn := some [] },
    { id := 10, scope := none, isForIter := false, forTargets := [], isFnDef := false, fnsIn := some [] },
    { id := 11, scope := some { read := [1], modified := [], deleted := [], bound := [], globals := [], nonlocals := [], params := [], annotations := [] }, isForIter := false, forTargets := [], isFnDef := false, fnsIn := some [] }]
  fns := []

def ztV : List Nat := [2, 4, 9, 10, 11]
def ztIN : St Def := solAt [(2, []), (4, [(0, 2)]), (9, [(0, 2), (1, 4), (1, 9)]), (10, [(0, 2), (1, 9)]), (11, [(0, 2), (1, 9)])]
def ztOUT : St Def := solAt [(2, [(0, 2)]), (4, [(0, 2), (1, 4)]), (9, [(0, 2), (1, 9)]), (10, [(0, 2), (1, 9)]), (11, [(0, 2), (1, 9)])]
/-- zero iterations: args, `x = 1`, header (exhausted), `return x` -/
def ztT0 : Trace :=
  [{ node := 2, reads := [], writes := [0], dels := [], fwrites := [], creads := [] },
   { node := 4, reads := [], writes := [1], dels := [], fwrites := [], creads := [] },
   { node := 9, reads := [0], writes := [], dels := [], fwrites := [], creads := [] },
   { node := 11, reads := [1], writes := [], dels := [], fwrites := [], creads := [] }]
/-- one iteration -/
def ztT1 : Trace :=
  [{ node := 2, reads := [], writes := [0], dels := [], fwrites := [], creads := [] },
   { node := 4, reads := [], writes := [1], dels := [], fwrites := [], creads := [] },
   { node := 9, reads := [0], writes := [1], dels := [], fwrites := [], creads := [] },
   { node := 10, reads := [], writes := [], dels := [], fwrites := [], creads := [] },
   { node := 9, reads := [], writes := [], dels := [], fwrites := [], creads := [] },
   { node := 11, reads := [1], writes := [], dels := [], fwrites := [], creads := [] }]
def ztName : NameAnno := { id := 13, var := 1, isLoad := true, cfg := 11, defs := [(1, 9)] }
def ztFor : StmtData := { id := 7, next := [11], prev := [4], inside := [9, 10], entry := some 9, liveOut := some [1], liveIn := some [0], definedIn := some [0, 1] }

/-- The real solution IS a fixed point, the zero-trip execution IS a path, every actual write is generated and `x = 1`
(step 1) IS the last writer of the `x` read by `return x` (step 3) — yet its definition is not in `in_` of that node:
the full statement (without the `for`-header hypothesis) is false of the pinned tree. -/
theorem C06_reads_full_false :
    ¬ (∀ (D : CfgData) (V : List Nat) (IN OUT : St Def) (T : Trace) (j k v : Nat),
        isFix D.graph.edges V (rdFlow D) IN OUT = true → isPathB D.graph.edges V T = true → rdGenOK D T = true →
        k < T.length → isLastWriterB T j k v = true → (v, T.nodeAt j) ∈ IN (T.nodeAt k)) := by
  intro h
  have := h ztD ztV ztIN ztOUT ztT0 1 3 1 (by decide) (by decide) (by decide) (by decide) (by decide)
  revert this
  decide

/-- the counterexample is exactly in the class the partial theorem assumes away -/
example : forTargetKilledUnwritten ztD ztT0 1 3 1 = true ∧ otherKillUnwritten ztD ztT0 1 3 1 = false := by decide

/-- Non-vacuity of `C06_reads_partial`: with one iteration every hypothesis holds for the same read (writer = the header, step 4→ no: step 2) -/
example : (1, ztT1.nodeAt 2) ∈ ztName.defs :=
  C06_reads_partial ztD ztV ztIN ztOUT ztT1 ztName (by decide) (by decide) (by decide) (by decide) (by decide)
    2 5 (by decide) (by decide) (by decide) (by decide) (by decide)

/-- Non-vacuity of `C06_defined_in_partial`: entering the `for` at step 2 with `x` bound by step 1 -/
example : 1 ∈ [0, 1] :=
  C06_defined_in_partial ztD ztV ztIN ztOUT ztT0 ztFor [0, 1] (by decide) (by decide) (by decide) (by decide) (by decide)
    1 2 1 (by decide) (by decide) (by decide) (by decide) (by decide) (by decide) (by decide)

/-- Non-vacuity of `C06_worklist_fix` / correspondence in the small: the model run reproduces the real solution of the example -/
example : (rdRunModel ztD 100).open_ = [] ∧ solEqOn ztD.graph.nodes (rdRunModel ztD 100).A ztIN = true
    ∧ solEqOn ztD.graph.nodes (rdRunModel ztD 100).B ztOUT = true := by decide

/-! ## The pinned tree, second deviation: a value written by another activation

    def f(a, b, c):
        def g():
            nonlocal x
            x = tr(1, 5)
        g()
        if d():
            x = x + 1
        return tr(0, x)

(REAL data; variables 0 c, 1 a, 2 b, 3 g, 4 x, 5 tr, 6 d; nodes 2 args, 6 `def g`, 15 `g()`, 19 `d()` (entry of the `if`, statement 18),
21 `x = x + 1`, 26 return).  `rd_sound` models writes as steps of the walk; the closure's write is not one, and the analysis has no
definition for it: on entering the `if`, the local `x` is bound and `DEFINED_VARS_IN` does not contain it (control_flow then emits
`x = Undefined('x')` over the live value: 6 natively, UnboundLocalError converted). -/

def fwD : CfgData where
  fnId := 1
  graph := { nodes := [2, 6, 15, 19, 21, 26], edges := [(2, 6), (6, 15), (15, 19), (19, 21), (19, 26), (21, 26)] }
  entry := 2
  exits := [26]
  info := [
    { id := 2, scope := some { read := [], modified := [], deleted := [], bound := [0, 1, 2], globals := [], nonlocals := [], params := [0, 1, 2], annotations := [] }, isForIter := false, forTargets := [], isFnDef := false, fnsIn := some [] },
    { id := 6, scope := some { read := [], modified := [3], deleted := [], bound := [3], globals := [], nonlocals := [], params := [], annotations := [] }, isForIter := false, forTargets := [], isFnDef := true, fnsIn := some [] },
    { id := 15, scope := some { read := [3], modified := [], deleted := [], bound := [], globals := [], nonlocals := [], params := [], annotations := [] }, isForIter := false, forTargets := [], isFnDef := false, fnsIn := some [6] },
    { id := 19, scope := some { read := [6], modified := [], deleted := [], bound := [], globals := [], nonlocals := [], params := [], annotations := [] }, isForIter := false, forTargets := [], isFnDef := false, fnsIn := some [6] },
    { id := 21, scope := some { read := [4], modified := [4], deleted := [], bound := [4], globals := [], nonlocals := [], params := [], annotations := [] }, isForIter := false, forTargets := [], isFnDef := false, fnsIn := some [6] },
    { id := 26, scope := some { read := [4, 5], modified := [], deleted := [], bound := [], globals := [], nonlocals := [], params := [], annotations := [] }, isForIter := false, forTargets := [], isFnDef := false, fnsIn := some [6] }]
  fns := [
    { id := 1, parent := 0, isLambda := false, read := [3, 4, 5, 6], bound := [0, 1, 2, 3, 4], nonlocals := [], globals := [] },
    { id := 6, parent := 1, isLambda := false, read := [4, 5], bound := [4], nonlocals := [4], globals := [] }]
def fwV : List Nat := [2, 6, 15, 19, 21, 26]
def fwIN : St Def := solAt [(2, []), (6, [(0, 2), (1, 2), (2, 2)]), (15, [(0, 2), (1, 2), (2, 2), (3, 6)]), (19, [(0, 2), (1, 2), (2, 2), (3, 6)]), (21, [(0, 2), (1, 2), (2, 2), (3, 6)]), (26, [(0, 2), (1, 2), (2, 2), (3, 6), (4, 21)])]
def fwOUT : St Def := solAt [(2, [(0, 2), (1, 2), (2, 2)]), (6, [(0, 2), (1, 2), (2, 2), (3, 6)]), (15, [(0, 2), (1, 2), (2, 2), (3, 6)]), (19, [(0, 2), (1, 2), (2, 2), (3, 6)]), (21, [(0, 2), (1, 2), (2, 2), (3, 6), (4, 21)]), (26, [(0, 2), (1, 2), (2, 2), (3, 6), (4, 21)])]
/-- f(1, 2, 3) with d() true: during step 2 (`g()`) the closure binds x (variable 4) -/
def fwT : Trace :=
  [{ node := 2, reads := [], writes := [0, 1, 2], dels := [], fwrites := [], creads := [] },
   { node := 6, reads := [], writes := [3], dels := [], fwrites := [], creads := [] },
   { node := 15, reads := [3], writes := [], dels := [], fwrites := [4], creads := [(6, 5)] },
   { node := 19, reads := [6], writes := [], dels := [], fwrites := [], creads := [] },
   { node := 21, reads := [4], writes := [4], dels := [], fwrites := [], creads := [] },
   { node := 26, reads := [4, 5], writes := [], dels := [], fwrites := [], creads := [] }]
def fwIf : StmtData := { id := 18, next := [26], prev := [15], inside := [19, 21], entry := some 19, liveOut := some [4, 5], liveIn := some [4, 5, 6], definedIn := some [0, 1, 2, 3] }

/-- The defined-on-entry clause with "bound" read as Python does (the last touch is a binding, by this activation *or another one*)
is false of the pinned tree: all checkers accept the real data, the run is a path, `x` is bound when the `if` is entered (step 3) —
and `x ∉ DEFINED_VARS_IN`; nor is there any definition of `x` in `in_` of the node that then reads it (step 4). -/
theorem C06_defined_in_full_false :
    ¬ (∀ (D : CfgData) (V : List Nat) (IN OUT : St Def) (T : Trace) (s : StmtData) (dv : List Nat) (k v : Nat),
        isFix D.graph.edges V (rdFlow D) IN OUT = true → stmtPrevComplete D.graph.edges s = true →
        definedInCovers OUT s dv = true → definedInTight OUT s dv = true → isPathB D.graph.edges V T = true → rdGenOK D T = true →
        0 < k → k < T.length → T.nodeAt k ∈ s.inside → T.nodeAt (k - 1) ∉ s.inside →
        (lastTouchIsForeign T k v = true ∨ ∃ j, isLastWriterB T j k v = true) → v ∈ dv) := by
  intro h
  have := h fwD fwV fwIN fwOUT fwT fwIf [0, 1, 2, 3] 3 4 (by decide) (by decide) (by decide) (by decide) (by decide) (by decide)
    (by decide) (by decide) (by decide) (by decide) (Or.inl (by decide))
  revert this
  decide

example : lastTouchIsForeign fwT 4 4 = true ∧ (fwIN 21).filter (fun d => d.1 == 4) = [] := by decide

/-! ## The pinned tree, third deviation: names in the default values of a nested `def`

    def f(a, b, c):
        v = [a, b]
        def g(p=v):          # `v` is evaluated by f when the def statement runs
            return p
        r = g()
        return tr(0, r)

`TreeAnnotator.visit_FunctionDef` switches to the nested function's analyzer before visiting `node.args`, so the Name `v` in the
default value is annotated from `in_` of the NESTED graph's `arguments` node (node 12, empty) instead of `in_` of the enclosing
`def` node (node 11), which does contain the definition.  (REAL data; variables 3 v, 4 g, 5 p; nodes 2 args, 6 `v = …`, 11 `def g`,
17 `r = g()`, 21 return.) -/

def ndD : CfgData where
  fnId := 1
  graph := { nodes := [2, 6, 11, 17, 21], edges := [(2, 6), (6, 11), (11, 17), (17, 21)] }
  entry := 2
  exits := [21]
  info := [
    { id := 2, scope := some { read := [], modified := [], deleted := [], bound := [0, 1, 2], globals := [], nonlocals := [], params := [0, 1, 2], annotations := [] }, isForIter := false, forTargets := [], isFnDef := false, fnsIn := some [] },
    { id := 6, scope := some { read := [0, 1], modified := [3], deleted := [], bound := [3], globals := [], nonlocals := [], params := [], annotations := [] }, isForIter := false, forTargets := [], isFnDef := false, fnsIn := some [] },
    { id := 11, scope := some { read := [3], modified := [4], deleted := [], bound := [4, 5], globals := [], nonlocals := [], params := [5], annotations := [] }, isForIter := false, forTargets := [], isFnDef := true, fnsIn := some [] },
    { id := 17, scope := some { read := [4], modified := [6], deleted := [], bound := [6], globals := [], nonlocals := [], params := [], annotations := [] }, isForIter := false, forTargets := [], isFnDef := false, fnsIn := some [11] },
    { id := 21, scope := some { read := [6, 7], modified := [], deleted := [], bound := [], globals := [], nonlocals := [], params := [], annotations := [] }, isForIter := false, forTargets := [], isFnDef := false, fnsIn := some [11] }]
  fns := [
    { id := 1, parent := 0, isLambda := false, read := [0, 1, 3, 4, 6, 7], bound := [0, 1, 2, 3, 4, 5, 6], nonlocals := [], globals := [] },
    { id := 11, parent := 1, isLambda := false, read := [5], bound := [5], nonlocals := [], globals := [] }]
def ndV : List Nat := [2, 6, 11, 17, 21]
def ndIN : St Def := solAt [(2, []), (6, [(0, 2), (1, 2), (2, 2)]), (11, [(0, 2), (1, 2), (2, 2), (3, 6)]), (17, [(0, 2), (1, 2), (2, 2), (3, 6), (4, 11), (5, 11)]), (21, [(0, 2), (1, 2), (2, 2), (3, 6), (4, 11), (5, 11), (6, 17)])]
def ndOUT : St Def := solAt [(2, [(0, 2), (1, 2), (2, 2)]), (6, [(0, 2), (1, 2), (2, 2), (3, 6)]), (11, [(0, 2), (1, 2), (2, 2), (3, 6), (4, 11), (5, 11)]), (17, [(0, 2), (1, 2), (2, 2), (3, 6), (4, 11), (5, 11), (6, 17)]), (21, [(0, 2), (1, 2), (2, 2), (3, 6), (4, 11), (5, 11), (6, 17)])]
def ndT : Trace :=
  [{ node := 2, reads := [], writes := [0, 1, 2], dels := [], fwrites := [], creads := [] },
   { node := 6, reads := [0, 1], writes := [3], dels := [], fwrites := [], creads := [] },
   { node := 11, reads := [3], writes := [4], dels := [], fwrites := [], creads := [] },
   { node := 17, reads := [4], writes := [6], dels := [], fwrites := [], creads := [] },
   { node := 21, reads := [6, 7], writes := [], dels := [], fwrites := [], creads := [] }]
/-- the REAL annotation of the Name `v` (id 14) in the default value: taken from node 12, DEFINITIONS = () -/
def ndName : NameAnno := { id := 14, var := 3, isLoad := true, cfg := 12, defs := [] }

/-- Every hypothesis of `C06_reads_eval_partial` other than the annotation relation holds for the read of `v` at step 2 (the
`def` statement) with writer step 1 — the definition IS in `in_` of the evaluating node — and the annotation misses it. -/
theorem C06_default_read_counterexample :
    isFix ndD.graph.edges ndV (rdFlow ndD) ndIN ndOUT = true ∧ isPathB ndD.graph.edges ndV ndT = true ∧ rdGenOK ndD ndT = true ∧
    isLastWriterB ndT 1 2 ndName.var = true ∧ forTargetKilledUnwritten ndD ndT 1 2 ndName.var = false ∧
    otherKillUnwritten ndD ndT 1 2 ndName.var = false ∧ (ndName.var, ndT.nodeAt 1) ∈ ndIN (ndT.nodeAt 2) ∧
    nameDefsAtEval ndIN ndName (ndT.nodeAt 2) = false ∧ (ndName.var, ndT.nodeAt 1) ∉ ndName.defs := by decide

/-- Non-vacuity of the termination / least-fixed-point theorems: on the real graph of the first example the run with the proved
fuel is quiescent and its result is the real `in_/out` (so the real output is the least fixed point there). -/
example : (rdRunModel ztD (rdFuel ztD)).open_ = [] := C06_worklist_terminates ztD _ (Nat.le_refl _)
example : solEqOn ztD.graph.nodes (rdRunModel ztD (rdFuel ztD)).A ztIN = true ∧
    solEqOn ztD.graph.nodes (rdRunModel ztD (rdFuel ztD)).B ztOUT = true := by decide
example : ∀ n a, (a ∈ (rdRunModel ztD (rdFuel ztD)).B n → a ∈ ztOUT n) ∧ (a ∈ (rdRunModel ztD (rdFuel ztD)).A n → a ∈ ztIN n) :=
  C06_real_above_lfp ztD ztIN ztOUT (by decide)

end Malt.Analysis.C06
