import MaltModel.Proofs.C17Inst
import MaltModel.Conv.TemplateHyp
import MaltModel.Conv.SrcClass
import MaltModel.Proofs.C17Roundtrip
import MaltModel.Proofs.C17Arity
import MaltModel.Proofs.C17Mix
import MaltModel.Proofs.C17PImage
import MaltModel.Generated.Templates
/-
C17 — generated code is a well-formed tree that loads as what `to_code` shows.

What is proved here (for ALL templates, bindings, trees — by structural induction over `Py.Ast`):
* `C17_ctx_checker_sound` / `_complete`   the executable context checker `ctxOk` (run by the harness on the REAL tree returned
                               by `transform_ast`) decides the structural property `CtxWellFormed`.
* `C17_tree_checker_sound` / `_complete`  the same checker extended by the arity invariants of `arguments` / `Compare`
                               (`Conv/Arity.lean`): `ctxOk t && arityOk t` decides `CtxWellFormed t ∧ ArityWellFormed t`.
* `C17_template_ctx_partial`   `templates.replace` (model: `instantiate`) yields a context-well-formed tree from a
                               context-well-formed template and well-formed bindings, PROVIDED `usesOkSs`: the
                               `ContextAdjuster` never reaches a `NamedExpr`, a `Starred` of another ctx or a non-assignable
                               node in a `Store`/`Del` position with its override on.  `_expr_partial` / `_bare_partial`: the same
                               for `replace_as_expression` and for a bare placeholder.  The unrestricted statement is FALSE of
                               the pinned code (`C17_template_ctx_counterexample`; findings C17-walrus-ctx,
                               C17-setitem-nonassignable).
* `C17_template_fresh_partial` copy discipline: all labels of the instantiated tree are pairwise distinct and none is a
                               label of the inputs, even when one binding is used at several placeholder occurrences,
                               PROVIDED `argsOkSs`: parameter-name placeholders are bound to `Name` nodes only
                               (`visit_arg` inserts any other bound node without copying it:
                               `C17_template_fresh_counterexample`; at the converters' call sites this happens once, in the
                               factory wrapper, with nodes created for that call — checked on every run).
* `C17_template_identity`      node identity in full: under `sharedOk` (every node inserted without a copy is inserted at most
                               once) no label occurs twice and the labels shared with the inputs are exactly the listed ones.
                               `C17_gen_arg_placeholders_at_most_once`: no extracted template names a keyword at two
                               parameter positions (occurrence counts extracted by the translator, re-checked in Lean).
* `C17_bindings_checker_sound` the executable form of the bindings hypothesis evaluated by the driver is sound.
* `C17_gen_*`                  the statements above instantiated at every template extracted from the converters
                               (`Gen.allTemplates`, regenerated from /repo on every run); all extracted templates are
                               context-well-formed; the unresolved (dynamic) sites are exactly the two known ones.
* `C17_lists_*`                two `Feature.LISTS` converter steps that use a template where it does not fit (findings
                               C17-lists-store-list-display, C17-lists-append-in-expression).
* `C17_parser_image_local_preserved`  the node-local part of `parserImage` (no negative/composite numeric Constant, no
                               keyword as a Name, …) is preserved by `templates.replace`; `C17_template_wellformed_partial`
                               combines it with the context theorem; `C17_gen_templates_parser_image`.
* `C17_roundtrip_model`        `read (print t) = some t` for the total reader/printer pair the driver runs.
Node identity of real Python objects, `ast.unparse`/`ast.parse`, `compile` and the import system are runtime facts:
they are CHECKED on the real objects by harness/run_c17.py, not proved.
-/
set_option linter.unusedVariables false
namespace Malt.Props.C17
open Malt.Py Malt.Conv Malt.Conv.Template

/-! ## 1. the verified context checker -/

/-- Soundness of the checker that is run on the real transformed tree. -/
theorem C17_ctx_checker_sound (t : List Stmt) : ctxOk t = true → CtxWellFormed t :=
  (okSs_iff t).1

/-- ... and it rejects nothing that is well-formed (so a rejection is a real defect of the tree). -/
theorem C17_ctx_checker_complete (t : List Stmt) : CtxWellFormed t → ctxOk t = true :=
  (okSs_iff t).2

/-- The checker run on the real tree also decides the arity invariants of nodes with parallel lists
(`len(kw_defaults) = len(kwonlyargs)`, `len(defaults) ≤ len(posonlyargs) + len(args)`, `len(ops) = len(comparators)`). -/
theorem C17_tree_checker_sound (t : List Stmt) :
    (ctxOk t && arityOk t) = true → CtxWellFormed t ∧ ArityWellFormed t := by
  intro h
  simp only [Bool.and_eq_true] at h
  exact ⟨(okSs_iff t).1 h.1, (arSs_iff t).1 h.2⟩

theorem C17_tree_checker_complete (t : List Stmt) :
    CtxWellFormed t → ArityWellFormed t → (ctxOk t && arityOk t) = true := by
  intro h1 h2
  simp only [Bool.and_eq_true]
  exact ⟨(okSs_iff t).2 h1, (arSs_iff t).2 h2⟩

/-- `def f(x, *, scale, offset=0)`: two keyword-only parameters, `kw_defaults = [None, 0]` is accepted; the list with the
`None` entry dropped is rejected (contexts are fine in both). -/
example :
    arityOk [.functionDef 1 "f" (.arguments 2 [] [.arg 3 "x" []] [] [.arg 4 "scale" [], .arg 5 "offset" []]
        [.noneMarker, .const 6 "int" "0"] [] []) [.pass 7] [] [] false] = true ∧
    arityOk [.functionDef 1 "f" (.arguments 2 [] [.arg 3 "x" []] [] [.arg 4 "scale" [], .arg 5 "offset" []]
        [.const 6 "int" "0"] [] []) [.pass 7] [] [] false] = false ∧
    ctxOk [.functionDef 1 "f" (.arguments 2 [] [.arg 3 "x" []] [] [.arg 4 "scale" [], .arg 5 "offset" []]
        [.const 6 "int" "0"] [] []) [.pass 7] [] [] false] = true := by decide

/-- `x, *y = z` / `del a.b, c[0]` / `for (i, j) in w: pass` / `[(q := 1) for k in r]` are accepted … -/
example : ctxOk [
    .assign 1 [.seq 2 .tuple [.name 3 "x" .store, .starred 4 (.name 5 "y" .store) .store] .store] (.name 6 "z" .load),
    .delete 7 [.attr 8 (.name 9 "a" .load) "b" .del, .subscript 10 (.name 11 "c" .load) (.const 12 "int" "0") .del],
    .for_ 13 (.seq 14 .tuple [.name 15 "i" .store, .name 16 "j" .store] .store) (.name 17 "w" .load) [.pass 18] [] [] false,
    .expr 19 (.comp 20 .listComp [.namedexpr 21 (.name 22 "q" .store) (.const 23 "int" "1")]
      [.comprehension 24 (.name 25 "k" .store) (.name 26 "r" .load) [] false])] = true := by decide

/-- … a `Load` name as assignment target, a `Store` starred inside a `Load` tuple, a `Load` walrus target are rejected. -/
example : ctxOk [.assign 1 [.name 2 "x" .load] (.name 3 "z" .load)] = false := by decide
example : ctxOk [.expr 1 (.seq 2 .tuple [.starred 3 (.name 4 "y" .load) .store] .load)] = false := by decide
example : ctxOk [.expr 1 (.namedexpr 2 (.name 3 "y" .load) (.const 4 "int" "1"))] = false := by decide

/-! ## 2. templates: contexts -/

/-- FULL statement (false of the pinned code, see the counterexample below):
    `CtxWellFormed t → BindingsWf b → instantiate t b = .ok r → CtxWellFormed r`. -/
theorem C17_template_ctx_partial (t : List Stmt) (b : Bindings) (r : List Stmt)
    (ht : CtxWellFormed t) (hb : BindingsWf b) (hu : usesOkSs b t = true)
    (h : instantiate t b = .ok r) : CtxWellFormed r := by
  unfold instantiate at h
  split at h
  · rename_i r' n' hi
    simp only [Except.ok.injEq] at h
    subst h
    exact instSs_wf b hb t _ _ _ ht hu hi
  · simp at h

/-- The same for `templates.replace_as_expression`: the expression handed back is well-formed in a `Load` position. -/
theorem C17_template_ctx_expr_partial (t : List Stmt) (b : Bindings) (e : Expr)
    (ht : CtxWellFormed t) (hb : BindingsWf b) (hu : usesOkSs b t = true)
    (h : instantiateExpr t b = .ok e) : WfE .load e := by
  unfold instantiateExpr at h
  split at h
  · -- a bare placeholder
    rename_i i j s c
    simp only [CtxWellFormed, WfSs, WfS, WfE, and_true] at ht
    subst ht
    simp only [usesOkSs, usesOkS, Bool.and_true] at hu
    split at h
    · rename_i x hl
      rw [hl] at hu
      dsimp only at h
      split at h
      · simp only [Except.ok.injEq] at h
        subst h
        obtain ⟨c0, h0⟩ := hb.of_lookup hl
        exact adjTop_wf _ c0 .load (copyE_wf x c0 _ h0) (by rw [copy_useOk]; simpa [Binding.exprs] using hu)
      · simp at h
    · rename_i x hl
      rw [hl] at hu
      dsimp only at h
      split at h
      · simp only [Except.ok.injEq] at h
        subst h
        obtain ⟨c0, h0⟩ := hb.of_lookup hl x (by simp)
        exact adjTop_wf _ c0 .load (copyE_wf x c0 _ h0) (by rw [copy_useOk]; simpa [Binding.exprs] using hu)
      · simp at h
    · simp only [Except.ok.injEq] at h
      subst h
      simp [WfE]
    · simp at h
  · -- the general case: the whole result must be a single expression statement
    split at h
    · rename_i i v n' hi
      simp only [Except.ok.injEq] at h
      subst h
      have := instSs_wf b hb t _ _ _ ht hu hi
      simpa [WfSs, WfS] using this
    · simp at h
    · simp at h

/-- The same for a bare placeholder handed to plain `templates.replace` (`anf.py`: `replace('temp_name', …)[0]`). -/
theorem C17_template_ctx_bare_partial (t : List Stmt) (b : Bindings) (e : Expr)
    (ht : CtxWellFormed t) (hb : BindingsWf b) (hu : usesOkSs b t = true)
    (h : instantiateBare t b = .ok e) : WfE .load e := by
  unfold instantiateBare at h
  split at h
  · rename_i i j s c
    simp only [CtxWellFormed, WfSs, WfS, WfE, and_true] at ht
    subst ht
    simp only [usesOkSs, usesOkS, Bool.and_true] at hu
    split at h
    · rename_i x hl
      rw [hl] at hu
      simp only [Except.ok.injEq] at h
      subst h
      obtain ⟨c0, h0⟩ := hb.of_lookup hl
      exact adjTop_wf _ c0 .load (copyE_wf x c0 _ h0) (by rw [copy_useOk]; simpa [Binding.exprs] using hu)
    · rename_i x hl
      rw [hl] at hu
      simp only [Except.ok.injEq] at h
      subst h
      obtain ⟨c0, h0⟩ := hb.of_lookup hl x (by simp)
      exact adjTop_wf _ c0 .load (copyE_wf x c0 _ h0) (by rw [copy_useOk]; simpa [Binding.exprs] using hu)
    · simp at h
  · simp at h

/-- hypotheses satisfiable, non-trivially: `iterates = itr` with `iterates ↦ (i, *rest)` (Store form, as a `for`
target is) and `itr ↦ "itr_1"`: the name gets `Load`, the tuple keeps `Store`. -/
example :
    let t : List Stmt := [.assign 0 [.name 0 "iterates" .store] (.name 0 "iterate_arg_name" .load)]
    let b : Bindings := [("iterates", .node (.seq 1 .tuple [.name 2 "i" .store, .starred 3 (.name 4 "rest" .store) .store] .store)),
                         ("iterate_arg_name", .node (.name 5 "itr_1" .load))]
    ctxOk t = true ∧ usesOkSs b t = true ∧
      instantiate t b = .ok [.assign 6 [.seq 7 .tuple [.name 8 "i" .store, .starred 9 (.name 10 "rest" .store) .store] .store]
                                       (.name 11 "itr_1" .load)] := ⟨by decide, by decide, by rfl⟩

/-- Counterexample to the unrestricted statement, on the template of `return_statements.visit_Return`
(`retval_var_name = retval` — here with the `try` wrapper dropped): `return (y := a), y` binds `retval` to a `Load`
tuple that contains a walrus; the adjuster (override `Load`, started because a `Tuple` has a ctx field) overwrites the
walrus target's `Store`.  Reproduced on the real code: the next pass wraps the now-`Load` name into `ag__.ld(y)` and
the generated module does not compile ("cannot use assignment expressions with function call"). -/
theorem C17_template_ctx_counterexample :
    ∃ (t : List Stmt) (b : Bindings) (r : List Stmt),
      CtxWellFormed t ∧ BindingsWf b ∧ instantiate t b = .ok r ∧ ¬ CtxWellFormed r := by
  refine ⟨[.assign 0 [.name 0 "retval_var_name" .store] (.name 0 "retval" .load)],
          [("retval_var_name", .node (.name 1 "retval_" .load)),
           ("retval", .node (.seq 2 .tuple [.namedexpr 3 (.name 4 "y" .store) (.name 5 "a" .load), .name 6 "y" .load] .load))],
          [.assign 7 [.name 8 "retval_" .store]
             (.seq 9 .tuple [.namedexpr 10 (.name 11 "y" .load) (.name 12 "a" .load), .name 13 "y" .load] .load)],
          by decide, ?_, by rfl, by decide⟩
  intro p hp
  simp only [List.mem_cons, List.not_mem_nil, or_false] at hp
  rcases hp with rfl | rfl
  · exact ⟨.load, by decide⟩
  · exact ⟨.load, by decide⟩

/-- the executable form of `BindingsWf` evaluated by the driver on real bindings is sound -/
theorem C17_bindings_checker_sound (b : Bindings) (h : bindingsWfB b = true) : BindingsWf b := by
  intro p hp
  simp only [bindingsWfB, List.all_eq_true] at h
  have hp' := h p hp
  obtain ⟨k, bd⟩ := p
  cases bd with
  | node e =>
      simp only [bindingWfB, okAny, Bool.or_eq_true] at hp'
      rcases hp' with (h1 | h1) | h1
      · exact ⟨.load, (okE_iff e _).1 h1⟩
      · exact ⟨.store, (okE_iff e _).1 h1⟩
      · exact ⟨.del, (okE_iff e _).1 h1⟩
  | nodes es =>
      simp only [bindingWfB, List.all_eq_true] at hp'
      intro e he
      have h1 := hp' e he
      simp only [okAny, Bool.or_eq_true] at h1
      rcases h1 with (h1 | h1) | h1
      · exact ⟨.load, (okE_iff e _).1 h1⟩
      · exact ⟨.store, (okE_iff e _).1 h1⟩
      · exact ⟨.del, (okE_iff e _).1 h1⟩
  | stmt s => exact (okS_iff s).1 hp'
  | stmts ss => exact (okSs_iff ss).1 hp'

/-! ## 3. templates: copy discipline -/

private theorem le_foldl_max (l : List Nat) : ∀ (init : Nat), init ≤ l.foldl max init := by
  induction l with
  | nil => intro init; exact Nat.le_refl _
  | cons a l ih => intro init; exact Nat.le_trans (Nat.le_max_left _ _) (ih (max init a))

private theorem mem_le_foldl_max (l : List Nat) : ∀ (init x : Nat), x ∈ l → x ≤ l.foldl max init := by
  induction l with
  | nil => intro init x hx; simp at hx
  | cons a l ih =>
      intro init x hx
      simp only [List.mem_cons] at hx
      rcases hx with rfl | hx
      · exact Nat.le_trans (Nat.le_max_right _ _) (le_foldl_max l _)
      · exact ih _ _ hx

/-- FULL statement (false of the pinned code, see below): no hypothesis `argsOkSs`. -/
theorem C17_template_fresh_partial (t : List Stmt) (b : Bindings) (r : List Stmt)
    (ha : argsOkSs b t = true) (h : instantiate t b = .ok r) :
    (labelsSs r).Nodup ∧ (∀ l ∈ labelsSs r, l ∉ bindingLabels b) := by
  unfold instantiate at h
  split at h
  · rename_i r' n' hi
    simp only [Except.ok.injEq] at h
    subst h
    have hf := instSs_fresh b t _ _ _ ha hi
    refine ⟨hf.nodup, ?_⟩
    intro l hl hmem
    have h1 := (hf.bounds l hl).1
    have h2 : l ≤ maxLabel b := mem_le_foldl_max _ 0 l hmem
    unfold startLabel at h1
    omega
  · simp at h

/-- NODE IDENTITY, full statement for the code that exists: no label occurs twice in the instantiated tree and the only
labels shared with the inputs are those of the nodes `visit_arg` inserts uncopied — PROVIDED every such node is inserted
at most once (`sharedOk`: "each placeholder is copied, or used at most once").  `C17_template_fresh_partial` is the
special case with nothing inserted uncopied; `C17_template_fresh_counterexample` shows the hypothesis is needed. -/
theorem C17_template_identity (t : List Stmt) (b : Bindings) (r : List Stmt)
    (hs : sharedOk b t = true) (h : instantiate t b = .ok r) :
    (labelsSs r).Nodup ∧ (∀ l ∈ labelsSs r, l ∈ bindingLabels b → l ∈ sharedSs b t) := by
  unfold instantiate at h
  split at h
  · rename_i r' n' hi
    simp only [Except.ok.injEq] at h
    subst h
    have hb : ∀ l ∈ bindingLabels b, l < startLabel b := by
      intro l hl
      have : l ≤ maxLabel b := mem_le_foldl_max _ 0 l hl
      unfold startLabel; omega
    have hm := instSs_mix b (startLabel b) hb t _ _ _ (Nat.le_refl _) hi
    refine ⟨hm.nodup (of_decide_eq_true hs), ?_⟩
    intro l hl hmem
    exact hm.low_mem l hl (hb l hmem)
  · simp at h

/-- the factory wrapper's shape: `factory_args` bound to freshly built `arg` nodes, the placeholder occurs once: the
two parameter nodes are shared with the input (labels 1, 2), everything else is fresh, nothing occurs twice -/
example :
    let t : List Stmt := [.functionDef 0 "inner" (.arguments 0 [] [.arg 0 "factory_args" []] [] [] [] [] []) [.ret 0 [.name 0 "e" .load]] [] [] false]
    let b : Bindings := [("factory_args", .nodes [.arg 1 "ag__" [], .arg 2 "x" []])]
    sharedOk b t = true ∧ argsOkSs b t = false ∧ sharedSs b t = [1, 2] := by decide

/-- the same binding used at three placeholder occurrences (`not var_name` twice and a store): three distinct copies -/
example :
    let t : List Stmt := [.assign 0 [.name 0 "v" .store] (.boolop 0 true [.name 0 "v" .load, .unary 0 "Not" (.name 0 "v" .load)])]
    let b : Bindings := [("v", .node (.attr 1 (.name 2 "self" .load) "flag" .load))]
    argsOkSs b t = true ∧
    instantiate t b = .ok [.assign 3 [.attr 4 (.name 5 "self" .load) "flag" .store]
        (.boolop 6 true [.attr 7 (.name 8 "self" .load) "flag" .load, .unary 9 "Not" (.attr 10 (.name 11 "self" .load) "flag" .load)])] :=
  ⟨by decide, by rfl⟩

/-- Counterexample to the unrestricted statement: `visit_arg` inserts a bound `arg` node itself; used at two parameter
placeholders the same node (label 1) occurs twice in the result, and it is shared with the input. -/
theorem C17_template_fresh_counterexample :
    ∃ (t : List Stmt) (b : Bindings) (r : List Stmt),
      instantiate t b = .ok r ∧ ¬ (labelsSs r).Nodup ∧ (∃ l ∈ labelsSs r, l ∈ bindingLabels b) := by
  refine ⟨[.functionDef 0 "f" (.arguments 0 [] [.arg 0 "a" []] [] [] [] [] []) [.pass 0] [] [] false,
           .functionDef 0 "g" (.arguments 0 [] [.arg 0 "a" []] [] [] [] [] []) [.pass 0] [] [] false],
          [("a", .nodes [.arg 1 "x" []])],
          [.functionDef 2 "f" (.arguments 3 [] [.arg 1 "x" []] [] [] [] [] []) [.pass 4] [] [] false,
           .functionDef 5 "g" (.arguments 6 [] [.arg 1 "x" []] [] [] [] [] []) [.pass 7] [] [] false],
          by rfl, by decide, ⟨1, by decide, by decide⟩⟩

/-! ## 4. the templates the converters actually use (regenerated from /repo on every run) -/

/-- every extracted template is context-well-formed as parsed -/
theorem C17_gen_templates_ctx_ok : ∀ p ∈ Malt.Gen.allTemplates, ctxOk p.2.1 = true := by decide

/-- the call sites whose template string is built dynamically are exactly the two of `slices.py` (outside the proved
core; their actual template texts are captured at run time by the harness and go through the same correspondence). -/
theorem C17_gen_unresolved_sites :
    Malt.Gen.unresolvedSites = ["slices_process_single_assignment_0", "slices_process_single_update_0"] := by rfl

/-- Placeholder occurrence counts extracted by the translator agree with the templates, and NO converter template uses a
keyword at more than one parameter position (the one position where bound nodes are inserted without a copy): a template
that did would make this fail to compile. -/
theorem C17_gen_occurrences_agree :
    Malt.Gen.allOcc.map (fun p => p.2) =
      Malt.Gen.allTemplates.map (fun p => p.2.2.map fun k => (k, nameOcc k p.2.1, argOcc k p.2.1)) := by decide

theorem C17_gen_arg_placeholders_at_most_once :
    ∀ p ∈ Malt.Gen.allTemplates, ∀ k ∈ p.2.2, argOcc k p.2.1 ≤ 1 := by decide

theorem C17_gen_template_ctx_partial (p : String × List Stmt × List String) (hp : p ∈ Malt.Gen.allTemplates)
    (b : Bindings) (r : List Stmt) (hb : BindingsWf b) (hu : usesOkSs b p.2.1 = true)
    (h : instantiate p.2.1 b = .ok r) : CtxWellFormed r :=
  C17_template_ctx_partial p.2.1 b r (C17_ctx_checker_sound _ (C17_gen_templates_ctx_ok p hp)) hb hu h

theorem C17_gen_template_fresh_partial (p : String × List Stmt × List String) (hp : p ∈ Malt.Gen.allTemplates)
    (b : Bindings) (r : List Stmt) (ha : argsOkSs b p.2.1 = true) (h : instantiate p.2.1 b = .ok r) :
    (labelsSs r).Nodup ∧ (∀ l ∈ labelsSs r, l ∉ bindingLabels b) :=
  C17_template_fresh_partial p.2.1 b r ha h

/-! ## 5. two `Feature.LISTS` converter steps whose use of a template is only right in some positions

Both were found by the verified checker on real output; the class predicates (`Conv/SrcClass.lean`) are evaluated by the
driver on the source function of a failing case. -/

/-- lists.py `visit_List` replaces a list display `e` by `replace_as_expression('ag__.new_list(elements)', elements=e)`.
The replacement is well-formed where `e` stood PROVIDED that position is a `Load` position.  FULL statement (false of the
pinned code, counterexample below): for every position `c`.  Finding class `lists_list_display_in_store_position`
= ¬ hypothesis `hc` (`SrcClass.hasStoreListDisplay`). -/
theorem C17_lists_new_list_partial (e r : Expr) (c : Ctx) (hc : c = .load) (hw : WfE c e) (hx : useOk .load e = true)
    (h : instantiateExpr Malt.Gen.tmpl_lists_visit_List_0 [("elements", .node e)] = .ok r) : WfE c r := by
  subst hc
  refine C17_template_ctx_expr_partial _ [("elements", .node e)] r (by decide) ?_ ?_ h
  · intro p hp
    simp only [List.mem_cons, List.not_mem_nil, or_false] at hp
    subst hp
    exact ⟨.load, hw⟩
  · simp [Malt.Gen.tmpl_lists_visit_List_0, usesOkSs, usesOkS, usesOkE, usesOkEs, List.lookup, Binding.exprs, hx]

/-- `[x, y] = v`: the display stands in a `Store` position, the replacement is a call. -/
theorem C17_lists_new_list_counterexample :
    ∃ (e r : Expr), WfE .store e ∧ useOk .load e = true ∧
      instantiateExpr Malt.Gen.tmpl_lists_visit_List_0 [("elements", .node e)] = .ok r ∧ ¬ WfE .store r :=
  ⟨.seq 1 .list [.name 2 "x" .store, .name 3 "y" .store] .store,
   .call 5 (.attr 6 (.name 7 "ag__" .load) "new_list" .load) [.seq 8 .list [.name 9 "x" .load, .name 10 "y" .load] .load] [],
   by decide, by decide, by rfl, by decide⟩

/-- lists.py `_replace_append_call` replaces the call `X.append(e)` by `templates.replace('target = ag__.list_append(target,
element)', …)`: whatever is bound, the result is ONE ASSIGNMENT STATEMENT — it can only stand where a statement can, i.e.
when the call was the value of an expression statement.  Finding class `lists_append_call_in_expression_position`
(`SrcClass.appendInExprPosition`): the call is an operand of a larger expression. -/
theorem C17_lists_append_replacement_is_statement (b : Bindings) (r : List Stmt)
    (h : instantiate Malt.Gen.tmpl_lists_replace_append_call_0 b = .ok r) : ∃ i ts v, r = [.assign i ts v] := by
  unfold instantiate at h
  split at h
  · rename_i r' n' hi
    simp only [Except.ok.injEq] at h
    subst h
    simp only [Malt.Gen.tmpl_lists_replace_append_call_0, instSs, instS, R.bind_ok, single_ok] at hi
    obtain ⟨l, n1, ⟨ts, m0, _, v, m1, _, hres⟩, rest, n2, hnil, hfin⟩ := hi
    simp only [Except.ok.injEq, Prod.mk.injEq] at hres hnil hfin
    obtain ⟨rfl, rfl⟩ := hres
    obtain ⟨rfl, rfl⟩ := hnil
    obtain ⟨rfl, rfl⟩ := hfin
    exact ⟨_, ts, v, rfl⟩
  · simp at h

example : Malt.Conv.SrcClass.appendInExprPosition
    (.expr 1 (.call 2 (.name 3 "tr" .load) [.call 4 (.attr 5 (.name 6 "l" .load) "append" .load) [.name 7 "a" .load] []] [])) = true ∧
  Malt.Conv.SrcClass.appendInExprPosition
    (.expr 1 (.call 4 (.attr 5 (.name 6 "l" .load) "append" .load) [.name 7 "a" .load] [])) = false ∧
  Malt.Conv.SrcClass.hasStoreListDisplay
    (.assign 1 [.seq 2 .list [.name 3 "x" .store] .store] (.seq 4 .list [.name 5 "a" .load] .load)) = true := by decide

/-! ## 6. trees in the image of the parser

`parserImage` (Conv/ParserImage.lean) is run on every real tree next to `ctxOk` and `arityOk`.  Its node-local part is
compositional and therefore a theorem of template substitution; the rest is not (see the examples) and stays a per-tree
check.  FULL statement asked for (false as it stands): `ctxOk ∧ arityOk ∧ parserImage` of template and arguments implies
the same of the result — arity (a list spliced into `kwonlyargs`), empty blocks (`def f(): body` with `body ↦ []`) and
empty set displays (`{elts}` with `elts ↦ []`) are NOT preserved by `templates.replace`. -/

/-- no negative / composite numeric `Constant`, no tuple/frozenset `Constant`, no keyword used as a `Name`:
preserved by `templates.replace` for ALL templates and bindings that satisfy it -/
theorem C17_parser_image_local_preserved (t : List Stmt) (b : Bindings) (r : List Stmt)
    (ht : piSs t = true) (hb : bindingsPi b = true) (h : instantiate t b = .ok r) : piSs r = true := by
  unfold instantiate at h
  split at h
  · rename_i r' n' hi
    simp only [Except.ok.injEq] at h
    subst h
    exact instSs_pi b hb t _ _ _ ht hi
  · simp at h

/-- contexts and parser image together (the two compositional parts of well-formedness) -/
theorem C17_template_wellformed_partial (t : List Stmt) (b : Bindings) (r : List Stmt)
    (ht : CtxWellFormed t) (hp : piSs t = true) (hb : BindingsWf b) (hbp : bindingsPi b = true)
    (hu : usesOkSs b t = true) (h : instantiate t b = .ok r) : CtxWellFormed r ∧ piSs r = true :=
  ⟨C17_template_ctx_partial t b r ht hb hu h, C17_parser_image_local_preserved t b r hp hbp h⟩

/-- all extracted converter templates are in the parser's image (they are parsed text) -/
theorem C17_gen_templates_parser_image : ∀ p ∈ Malt.Gen.allTemplates, parserImage p.2.1 = true := by decide

/-- the two seeded trees: `a[Constant(-1)] = 5` and `return Name('None')` are rejected; their parsed forms are accepted -/
example :
    parserImage [.assign 1 [.subscript 2 (.name 3 "a" .load) (.const 4 "int" "-1") .store] (.const 5 "int" "5")] = false ∧
    parserImage [.assign 1 [.subscript 2 (.name 3 "a" .load) (.unary 4 "USub" (.const 5 "int" "1")) .store] (.const 6 "int" "5")] = true ∧
    parserImage [.ret 1 [.name 2 "None" .load]] = false ∧
    parserImage [.ret 1 [.const 2 "NoneType" "None"]] = true := by decide

/-- what is NOT compositional: a statement placeholder bound to the empty list empties a block -/
example :
    let t : List Stmt := [.functionDef 0 "f" (.arguments 0 [] [] [] [] [] [] []) [.expr 0 (.name 0 "body" .load)] [] [] false]
    parserImage t = true ∧ bindingsPi [("body", .stmts [])] = true ∧
    (instantiate t [("body", .stmts [])]).toOption.map parserImage = some false := ⟨by decide, by decide, by rfl⟩

/-! ## 7. serialisation -/

/-- The reader/printer pair the C17 driver runs (`Conv/SexpTotal.lean`, same wire format as the shared, `partial`
`Py/SexpAst.lean`) round-trips every tree it can represent faithfully (`printableS`: a `Set` display carries `.load`, an
unnamed keyword the empty string).  Tree level only: the S-expression TEXT layer (tokeniser, escaping) and the Python
side (harness/pyast.py) are covered by the round-trip self-test harness/selftest_ast.py and by the `c17.echo`
comparison the check makes on every real tree, not by this theorem. -/
theorem C17_roundtrip_model (t : Stmt) (h : Malt.Conv.SexpTotal.printableS t = true) :
    Malt.Conv.SexpTotal.readS (Malt.Conv.SexpTotal.printS t) = some t :=
  Malt.Conv.SexpTotal.readS_printS t h

theorem C17_roundtrip_model_list (t : List Stmt) (h : Malt.Conv.SexpTotal.printableSs t = true) :
    Malt.Conv.SexpTotal.readSs (Malt.Conv.SexpTotal.printSs t) = some t :=
  Malt.Conv.SexpTotal.readSs_printSs t h

example : Malt.Conv.SexpTotal.printableS
    (.assign 1 [.seq 2 .tuple [.name 3 "x" .store, .starred 4 (.name 5 "y" .store) .store] .store]
      (.call 6 (.name 7 "f" .load) [.seq 8 .set [.const 9 "int" "1"] .load] [.keyword 10 "" false (.name 11 "kw" .load)])) = true := by decide

end Malt.Props.C17
