import MaltModel.Proofs.C19
import MaltModel.Proofs.C19Cex
import MaltModel.Proofs.C19Least
/-!
# C19 — static type inference over-approximates the types that occur at run time

Model: `MaltModel/Analysis/TypeInf.lean` (the inference as it exists on the pinned tree; the resolver is a
parameter).  Semantics and the spec predicates: `MaltModel/Analysis/TypeInfSem.lean`.  Helper lemmas
(soundness of `tyE`, of target binding, of the node transfer function): `MaltModel/Proofs/C19.lean`.

FULL STATEMENT (false of the pinned code, see the counterexamples at the end of this file):

    theorem ti_sound (hfix : IsTIFix R env G reach [] ins outs) (hT : Truthful R sem env) (h0 : InitOk R env [] σ₀)
        (hex : Exec sem env W G σ₀ i σ) :
        (∀ e T v, tyE R env (ins.get i) e = some T → Eval sem env.bound W σ e v → InSet v T)

What is proved (`ti_sound_partial`): the same conclusion for every expression that reads no name of a taint
set `S`, for ANY post-fixed point `ins/outs` (`IsTIFix`, decided by `isTIFix` on the real `Analyzer.in_/out`),
provided `S` is closed (`TaintClosed`, decided by `taintClosed`): it contains every name that is bound somewhere
without receiving a sound type — targets of binders the inference does not track (`for x in`, `x op= e`,
`with … as x`, `x: T = e`), targets of assignments whose value has no known type or reads a tainted name,
parameters the resolver knows nothing about, nonlocal names the function itself stores, and the names `W` that
calls to local functions may rebind.  With `S = []` (`OnlyTrackedBinders`) this is the full statement.
-/
namespace Malt.TypeInf
open Malt.Py

variable {R : Resolver} {sem : Sem} {env : FnEnv} {G : Graph} {reach : List Nat} {S W : List String}
  {ins outs clos : NMap} {σ₀ σ : State} {i : Nat}

/-! ## Verified checkers (run on the implementation's real output) -/

/-- The decision procedure run on the real `Analyzer.in_/out` is sound. -/
theorem isTIFix_sound (h : isTIFix R env G reach S ins outs = true) : IsTIFix R env G reach S ins outs := by
  simp only [isTIFix, reachClosed, Bool.and_eq_true, List.all_eq_true, List.contains_iff_mem] at h
  obtain ⟨⟨⟨⟨hentry, hclosed⟩, hctx⟩, hefree⟩, hnodes⟩ := h
  have hfind : ∀ i, i ∈ reach → ∃ n, G.find i = some n := by
    intro i hi
    have := hclosed i hi
    cases hf : G.find i with
    | none => simp [hf] at this
    | some n => exact ⟨n, rfl⟩
  have hnode : ∀ i n, i ∈ reach → G.find i = some n →
      (((transfer R env n.node (ins.get i)).leB (outs.get i) = true ∧ freeOk env S (ins.get i) = true) ∧
        freeOk env S (outs.get i) = true) ∧ ∀ k, k ∈ n.succs → (outs.get i).leB (ins.get k) = true := by
    intro i n hi hf
    have := hnodes i hi
    simpa [hf, Bool.and_eq_true, List.all_eq_true] using this
  refine ⟨hentry, ?_, hfind, TMap.leB_sound hctx, fun x T hx => hefree x (TMap.get_some_mem_keys hx), ?_, ?_, ?_, ?_⟩
  · intro i n k hi hf hk
    have := hclosed i hi
    simp only [hf, List.all_eq_true, List.contains_iff_mem] at this
    exact this k hk
  · intro i n hi hf
    exact TMap.leB_sound (hnode i n hi hf).1.1.1
  · intro i n k hi hf hk
    exact TMap.leB_sound ((hnode i n hi hf).2 k hk)
  · intro i hi
    obtain ⟨n, hf⟩ := hfind i hi
    exact freeOk_sound (hnode i n hi hf).1.1.2
  · intro i hi
    obtain ⟨n, hf⟩ := hfind i hi
    exact freeOk_sound (hnode i n hi hf).1.2

/-- The decision procedure for the theorem's hypothesis (and the class predicate of the known findings) is sound. -/
theorem taintClosed_sound (h : taintClosed R env G reach ins W S = true) : TaintClosed R env G reach ins W S := by
  simp only [taintClosed, Bool.and_eq_true, List.all_eq_true, List.contains_iff_mem] at h
  obtain ⟨hw, hnodes⟩ := h
  refine ⟨hw, ?_, ?_⟩
  · intro i n x hi hf hx
    have := hnodes i hi
    simp only [hf, Bool.and_eq_true, List.all_eq_true, List.contains_iff_mem] at this
    exact this.1 x hx
  · intro i n hi hf x hx
    have := hnodes i hi
    simp only [hf, Bool.and_eq_true, List.all_eq_true, List.contains_iff_mem] at this
    have h2 := this.2 x hx
    simp only [Bool.or_eq_true, Bool.not_eq_true', List.contains_iff_mem] at h2
    refine ⟨by simpa using h2.1, fun hn => ?_⟩
    rcases h2.2 with h3 | h3
    · have : x ∈ env.nonlocals := by simpa using hn
      simp [this] at h3
    · exact h3

/-- The decision procedure for closure-types coverage is sound. -/
theorem closCovers_sound (h : closCovers G reach outs clos = true) : ClosCovers G reach outs clos := by
  intro i n d hi hf hs hd hr
  simp only [closCovers, List.all_eq_true] at h
  have := h i hi
  simp only [hf, hs, Bool.not_true, Bool.false_or, List.all_eq_true] at this
  have h2 := this d hd
  have hr' : n.reads.contains d.2 = true := by simpa using hr
  simp only [hr', Bool.not_true, Bool.false_or] at h2
  exact TMap.leB_sound h2

/-! ## Soundness of any post-fixed point along any execution -/

/-- Invariant: at every configuration an execution reaches, the frame is described by `ins`. -/
theorem exec_invariant (hfix : IsTIFix R env G reach S ins outs) (hT : Truthful R sem env)
    (hcl : TaintClosed R env G reach ins W S) (h0 : InitOk R env S σ₀) (hex : Exec sem env W G σ₀ i σ) :
    i ∈ reach ∧ Sound R env S σ (ins.get i) := by
  induction hex with
  | start => exact ⟨hfix.entry, Sound.init h0 (hfix.freeIn _ hfix.entry)⟩
  | step _ hf hstep hk ih =>
    rename_i j σ₁ n σ₂ k hprev
    obtain ⟨hj, hS⟩ := ih
    have hk' : k ∈ reach := hfix.closed j n k hj hf hk
    have h1 := step_sound hT hcl.w hstep hS (fun x hx => hcl.untracked j n x hj hf hx) (hcl.scopes j n hj hf)
    have h2 := h1.mono (hfix.trans j n hj hf) (hfix.freeOut j hj)
    exact ⟨hk', h2.mono (hfix.edge j n k hj hf hk) (hfix.freeIn k hk')⟩

/-- **C19, expressions** (partial: hypothesis `TaintClosed`).  For ANY post-fixed point of the analysis, any
execution reaching node `i` with frame `σ`, and any expression `e` that reads no tainted name: if the inference
attaches the set `T` to `e` under `types_in = ins i`, every value `e` evaluates to in `σ` has its type in `T`. -/
theorem ti_sound_partial (hfix : IsTIFix R env G reach S ins outs) (hT : Truthful R sem env)
    (hcl : TaintClosed R env G reach ins W S) (h0 : InitOk R env S σ₀) (hex : Exec sem env W G σ₀ i σ)
    (e : Expr) (T : TySet) (v : Val) (hnt : NoTaint S e) (hty : tyE R env (ins.get i) e = some T)
    (hev : Eval sem env.bound W σ e v) : InSet v T :=
  tyE_sound hT hcl.w (exec_invariant hfix hT hcl h0 hex).2 e T v hnt hty hev

/-- **C19, names** (partial).  A type set recorded for an untainted name in `types_in` of node `i` contains the
type of the value the name has whenever an execution reaches `i`. -/
theorem ti_sound_names_partial (hfix : IsTIFix R env G reach S ins outs) (hT : Truthful R sem env)
    (hcl : TaintClosed R env G reach ins W S) (h0 : InitOk R env S σ₀) (hex : Exec sem env W G σ₀ i σ)
    (x : String) (T : TySet) (v : Val) (hx : x ∉ S) (hm : (ins.get i).get x = some T) (hσ : σ x = some v) : InSet v T := by
  obtain ⟨h1, h2⟩ := (exec_invariant hfix hT hcl h0 hex).2 x v hx hσ
  cases hfree : env.isFree x with
  | false =>
    obtain ⟨T', hm', hv⟩ := h1 hfree
    rw [hm] at hm'
    exact (Option.some.inj hm') ▸ hv
  | true => exact (h2 hfree).1 T hm

/-- **C19 at full strength when every binder is tracked**: with `OnlyTrackedBinders` (the empty taint set is
closed; then no call rebinds a variable of the frame) the conclusion holds for every expression. -/
theorem ti_sound_tracked (hfix : IsTIFix R env G reach [] ins outs) (hT : Truthful R sem env)
    (hotb : OnlyTrackedBinders R env G reach ins) (h0 : InitOk R env [] σ₀) (hex : Exec sem env [] G σ₀ i σ)
    (e : Expr) (T : TySet) (v : Val) (hty : tyE R env (ins.get i) e = some T)
    (hev : Eval sem env.bound [] σ e v) : InSet v T :=
  ti_sound_partial hfix hT hotb h0 hex e T v (fun _ _ h => by simp at h) hty hev

/-- A path `π` (list of (node, frame-before-node) pairs) that is an execution of the graph. -/
inductive IsExecPath (sem : Sem) (env : FnEnv) (W : List String) (G : Graph) : List (Nat × State) → Prop
  | single (s0 : State) : IsExecPath sem env W G [(G.entry, s0)]
  | snoc (π : List (Nat × State)) (a b : Nat) (s s' : State) (n : GNode) :
      IsExecPath sem env W G (π ++ [(a, s)]) → G.find a = some n → Step sem env W n.node s s' → b ∈ n.succs →
      IsExecPath sem env W G (π ++ [(a, s), (b, s')])

/-- The same statement over explicit paths: every configuration on an execution path is covered. -/
theorem ti_sound_path_partial (hfix : IsTIFix R env G reach S ins outs) (hT : Truthful R sem env)
    (hcl : TaintClosed R env G reach ins W S) {π : List (Nat × State)} (hπ : IsExecPath sem env W G π)
    (h0 : ∀ p, π.head? = some p → InitOk R env S p.2) :
    ∀ p, p ∈ π → ∀ e T v, NoTaint S e → tyE R env (ins.get p.1) e = some T → Eval sem env.bound W p.2 e v → InSet v T := by
  have key : ∀ p, p ∈ π → ∃ σ₀, InitOk R env S σ₀ ∧ Exec sem env W G σ₀ p.1 p.2 := by
    induction hπ with
    | single σ₀ =>
      intro p hp
      simp only [List.mem_singleton] at hp
      subst hp
      exact ⟨σ₀, h0 (G.entry, σ₀) (by simp), .start⟩
    | snoc π' j k σ₁ σ₂ n hprev hf hstep hk ih =>
      have h0' : ∀ p, (π' ++ [(j, σ₁)]).head? = some p → InitOk R env S p.2 := by
        intro p hp
        apply h0 p
        cases π' with
        | nil => simpa using hp
        | cons q r => simpa using hp
      have ih' := ih h0'
      intro p hp
      simp only [List.mem_append, List.mem_cons, List.not_mem_nil, or_false] at hp
      rcases hp with hp | hp | hp
      · exact ih' p (by simp [hp])
      · exact ih' p (by simp [hp])
      · obtain ⟨σ₀, hi0, hex⟩ := ih' (j, σ₁) (by simp)
        subst hp
        exact ⟨σ₀, hi0, .step hex hf hstep hk⟩
  intro p hp e T v hnt hty hev
  obtain ⟨σ₀, hi0, hex⟩ := key p hp
  exact ti_sound_partial hfix hT hcl hi0 hex e T v hnt hty hev

/-- **C19, `TYPES` annotations** (partial).  Every annotation `(id, T)` the model writes while visiting an
expression at node `i` (these are what the correspondence compares with the real `anno.Static.TYPES`) belongs to
an expression `e'` with that id whose values, in any frame reaching `i`, have their type in `T` — provided `e'`
reads no tainted name. -/
theorem ti_annotations_sound_partial (hfix : IsTIFix R env G reach S ins outs) (hT : Truthful R sem env)
    (hcl : TaintClosed R env G reach ins W S) (h0 : InitOk R env S σ₀) (hex : Exec sem env W G σ₀ i σ)
    (e : Expr) (p : Nat × TySet) (hp : p ∈ annE R env (ins.get i) e) :
    ∃ e' : Expr, e'.id = p.1 ∧ ∀ v, NoTaint S e' → Eval sem env.bound W σ e' v → InSet v p.2 := by
  obtain ⟨e', hid, hty⟩ := annE_justified e p hp
  exact ⟨e', hid, fun v hnt hev => ti_sound_partial hfix hT hcl h0 hex e' p.2 v hnt hty hev⟩

/-! ## "Where it cannot know it reports nothing" -/

/-- A local variable without an entry in `types_in` gets no set: the resolver is not even asked. -/
theorem ti_unknown_local (tin : TMap) (j : Nat) (x : String) (hloc : env.isFree x = false) (hm : tin.get x = none) :
    tyE R env tin (.name j x .load) = none := by
  simp [tyE, hm, hloc]

/-- Unknown operands make the operator expression unknown; the resolver is not consulted. -/
theorem ti_unknown_binop (tin : TMap) (j : Nat) (op : String) (l r : Expr)
    (h : tyE R env tin l = none ∨ tyE R env tin r = none) : tyE R env tin (.binop j op l r) = none := by
  rcases h with h | h
  · simp [tyE, h]
  · cases hl : tyE R env tin l <;> simp [tyE, h, hl]

theorem ti_unknown_unary (tin : TMap) (j : Nat) (op : String) (e : Expr) (h : tyE R env tin e = none) :
    tyE R env tin (.unary j op e) = none := by
  simp [tyE, h]

theorem ti_unknown_compare (tin : TMap) (j : Nat) (l : Expr) (ops : List String) (rs : List Expr)
    (h : tyE R env tin l = none ∨ tyAll R env tin rs = none) : tyE R env tin (.compare j l ops rs) = none := by
  rcases h with h | h
  · simp [tyE, h]
  · cases hl : tyE R env tin l <;> simp [tyE, h, hl]

theorem ti_unknown_subscript (tin : TMap) (j : Nat) (e s : Expr) (c : Ctx)
    (h : tyE R env tin e = none ∨ tyE R env tin s = none) : tyE R env tin (.subscript j e s c) = none := by
  rcases h with h | h
  · simp [tyE, h]
  · cases hl : tyE R env tin e <;> simp [tyE, h, hl]

/-- A tuple display with an element of unknown type is unknown. -/
theorem ti_unknown_tuple (tin : TMap) (j : Nat) (es : List Expr) (h : tyAll R env tin es = none) :
    tyE R env tin (.seq j .tuple es .load) = none := by
  simp [tyE, h]

/-- Expression kinds the inference has no rule for never get a set. -/
theorem ti_unknown_opaque (tin : TMap) (e : Expr) (h : isOpaque e = true) : tyE R env tin e = none := by
  cases e <;> simp [isOpaque] at h <;> try simp [tyE]
  all_goals (rename_i f _ _; cases f <;> simp [isOpaque] at h <;> simp [tyE])

/-- An assignment whose value is unknown records nothing for its targets (it does not invent a set). -/
theorem ti_unknown_assign (ts : List Expr) : bindAllT R none ts = [] := by
  induction ts with
  | nil => rfl
  | cons t ts ih => simp [bindAllT, bindT_none t, ih]

/-- An annotation is only ever written from a known set: every `TYPES` annotation of an expression visit is
the set `tyE` computes for the annotated node. -/
theorem ti_anno_is_known (tin : TMap) (e : Expr) (p : Nat × TySet) (h : p ∈ selfAnn R env tin e) :
    p.1 = e.id ∧ tyE R env tin e = some p.2 := by
  simp only [selfAnn] at h
  cases ht : tyE R env tin e with
  | none => simp [ht] at h
  | some T => simp [ht] at h; subst h; simp

/-! ## Closure types -/

private theorem argsBound_agree {as : List Expr} {σ σ' : State} (hb : ArgsBound sem as σ σ') :
    Agree (as.filterMap argName) σ σ' := by
  induction hb with
  | nil => exact Agree.refl _ _
  | cons hn _ _ ih =>
    intro y hy
    simp only [List.filterMap_cons, hn, List.mem_cons, not_or] at hy
    rw [ih y hy.2]
    simp [State.set, hy.1]
  | skip hn _ ih =>
    intro y hy
    simp only [List.filterMap_cons, hn] at hy
    exact ih y hy

/-- A step changes the frame at most on the names the node stores and on `W`. -/
theorem step_frame {n : CNode} {σ σ' : State} (h : Step sem env W n σ σ') : Agree (storedN n ++ W) σ σ' := by
  cases h with
  | assign _ hb ha => exact (bindAll_agree _ _ _ _ hb).trans ha
  | fndef _ ha =>
    refine Agree.trans (X := [_]) ?_ ha
    intro y hy
    simp only [List.mem_singleton] at hy
    simp [State.set, hy]
  | args hb ha =>
    refine Agree.trans ?_ ha
    simp only [storedN]
    exact argsBound_agree hb
  | plain _ ha => exact ha

/-- **Closure-types coverage** (partial: the calling statement must not itself bind the captured variable).
When an execution is about to run a node that reads the name of a reaching local function `d` (and so may call
it), every untainted local variable that has a value and is not bound by that very node is recorded in
`CLOSURE_TYPES(d)` with a set containing its type. -/
theorem closure_cover_partial (hfix : IsTIFix R env G reach S ins outs) (hT : Truthful R sem env)
    (hcl : TaintClosed R env G reach ins W S) (hcov : ClosCovers G reach outs clos) (h0 : InitOk R env S σ₀)
    (hex : Exec sem env W G σ₀ i σ) {n : GNode} (hf : G.find i = some n) {σ' : State} (hstep : Step sem env W n.node σ σ')
    (hs : n.hasScope = true) (d : Nat × String) (hd : d ∈ n.defsIn) (hr : d.2 ∈ n.reads)
    (x : String) (v : Val) (hx : x ∉ S) (hloc : env.isFree x = false) (hnb : x ∉ storedN n.node) (hσ : σ x = some v) :
    ∃ T, (clos.get d.1).get x = some T ∧ InSet v T := by
  obtain ⟨hi, hS⟩ := exec_invariant hfix hT hcl h0 hex
  have h1 := (step_sound hT hcl.w hstep hS (fun y hy => hcl.untracked i n y hi hf hy) (hcl.scopes i n hi hf)).mono
    (hfix.trans i n hi hf) (hfix.freeOut i hi)
  have hsame : σ' x = σ x := step_frame hstep x (by
    simp only [List.mem_append, not_or]
    exact ⟨hnb, fun hw => hx (hcl.w x hw)⟩)
  obtain ⟨T, hm, hv⟩ := (h1 x v hx (hsame ▸ hσ)).1 hloc
  obtain ⟨T', hc, hsub⟩ := hcov i n d hi hf hs hd hr x T hm
  exact ⟨T', hc, hv.mono hsub⟩


/-! ## The work-list algorithm: leastness (proved), termination (false of the pinned code)

FULL STATEMENT (false, two listed findings):

    theorem ti_worklist_terminates : ∃ fuel, (analyze R env G fuel).2 = true
    -- with fuel ≤ |nodes| · (1 + |names| · |types occurring in the program and the resolver's answers|) · max out-degree

It fails (a) because the transfer function is not monotone — an assignment whose value is unknown keeps the target's
stale set, a later visit strongly updates it, and the retracted set circulates round a loop for ever (finding
`no_fixed_point_nonmonotone_transfer`; the real code and this model both run into the visit cap on the witness, under
the same successor order) — and (b) because `visit_Tuple` builds ever deeper product types in a loop, so the lattice
has no finite height (finding `no_fixed_point_unbounded_product_types`).  What is proved is the order-theoretic half,
for every fuel: under a monotone transfer function the states the work list goes through never exceed ANY post-fixed
point, so whenever the list empties on a post-fixed point (decided by `isTIFix` at run time) that point is the least
one.  Termination under `MonoTransfer` + a finite type universe is NOT proved. -/

/-- **Leastness.**  Under a monotone transfer function, `analyze` with any fuel (finished or not) computes `in`/`out`
maps below every post-fixed point of the analysis equations. -/
theorem ti_worklist_least {pins pouts : NMap} (hP : PostFix R env G pins pouts) (hM : MonoTransfer R env G) (fuel : Nat) :
    Below (analyze R env G fuel).1 pins pouts := by
  refine run_below hP hM fuel _ _ _ (fun j => ?_)
  exact ⟨by simpa [NMap.get] using TMap.le_nil _, by simpa [NMap.get] using TMap.le_nil _⟩

/-- In particular a post-fixed point that `analyze` itself returns is the least one: it is below every other. -/
theorem ti_worklist_least_fixpoint {pins pouts : NMap} (fuel : Nat)
    (_hself : PostFix R env G (analyze R env G fuel).1.ins (analyze R env G fuel).1.outs)
    (hP : PostFix R env G pins pouts) (hM : MonoTransfer R env G) (j : Nat) :
    TMap.le ((analyze R env G fuel).1.ins.get j) (pins.get j) ∧ TMap.le ((analyze R env G fuel).1.outs.get j) (pouts.get j) :=
  ti_worklist_least hP hM fuel j

open CEx in
/-- The hypotheses are satisfiable: the one-node graph `def f(): …` (only the `arguments` node, whose transfer
function is the identity) is monotone and has the empty maps as a post-fixed point. -/
example : Below (analyze R0 env0 { entry := 1, nodes := [{ nArgs with succs := [] }] } 10).1 [] [] := by
  refine ti_worklist_least ⟨?_, ?_, ?_⟩ ?_ 10
  · intro x T h; simp [contextTypes, env0, TMap.get] at h
  · intro m hm k hk; simp at hm; subst hm; simp at hk
  · intro i n hf x T h
    obtain ⟨_, hn⟩ := Graph.find_id hf
    simp at hn
    subst hn
    simp [transfer, newSyms, nArgs, argNodes, argSyms, TMap.update, NMap.get, TMap.get] at h
  · intro i n a b hf hab
    obtain ⟨_, hn⟩ := Graph.find_id hf
    simp at hn
    subst hn
    simpa [transfer, newSyms, nArgs, argNodes, argSyms, TMap.update] using hab

/-! ## Non-vacuity: the hypotheses are satisfiable by concrete, non-trivial instances -/

open CEx in
/-- `def f(): x = 1; y = x; return x` — every binder tracked: `OnlyTrackedBinders` holds, the real-shaped solution
is a post-fixed point, and the theorem yields `type(x) ∈ {int}` at the `return`. -/
example : InSet (.int 1) [.int] :=
  have hfix : IsTIFix R0 env0 (graphOf copyN) reachC [] insCopy outsCopy := isTIFix_sound (by decide)
  have hotb : OnlyTrackedBinders R0 env0 (graphOf copyN) reachC insCopy := taintClosed_sound (by decide)
  ti_sound_tracked hfix truthful0 hotb (init0 []) (exec_to_mid copyN) (.name 7 "x" .load) [.int] (.int 1) (by decide)
    (.name (by simp) (by simp [s1, State.set]))

open CEx in
/-- The partial theorem with a non-empty taint set: for `x = 1; for x in ['a']: …; return x` the set `S = ["x"]` is
closed, so nothing is claimed about `x` — and the hypotheses hold. -/
example : TaintClosed R0 env0 (graphOf forN) reachC insC [] ["x"] ∧ IsTIFix R0 env0 (graphOf forN) reachC ["x"] insC outsC :=
  ⟨taintClosed_sound (by decide), isTIFix_sound (by decide)⟩

open CEx in
/-- Closure-types coverage instantiated: `x = 1; def g(): …; g()` — at the call, `x : int` is in `CLOSURE_TYPES(g)`. -/
example : ∃ T, (closG.get 3).get "x" = some T ∧ InSet (.int 1) T :=
  have hfix : IsTIFix R0 env0 graphG reachC [] insG outsG := isTIFix_sound (by decide)
  have hotb : TaintClosed R0 env0 graphG reachC insG [] [] := taintClosed_sound (by decide)
  have hcov : ClosCovers graphG reachC outsG closG := closCovers_sound (by decide)
  have hstep : Step sem0 env0 [] nCall.node s2 s2 := .plain (by rfl) (Agree.refl _ _)
  closure_cover_partial hfix truthful0 hotb hcov (init0 []) exec_to_call (n := nCall) (by rfl) hstep (by rfl)
    (3, "g") (by simp [nCall]) (by simp [nCall]) "x" (.int 1) (by simp) (by decide) (by decide) (by simp [s2, s1, State.set])

/-! ## The full statement is false of the pinned code (known findings) -/

/-- C19 without the `TaintClosed` hypothesis: every recorded set of every post-fixed point is sound. -/
def TISoundFull : Prop :=
  ∀ (R : Resolver) (sem : Sem) (env : FnEnv) (G : Graph) (reach : List Nat) (ins outs : NMap) (σ₀ σ : State) (i : Nat)
    (x : String) (T : TySet) (v : Val),
    IsTIFix R env G reach [] ins outs → Truthful R sem env → InitOk R env [] σ₀ → Exec sem env [] G σ₀ i σ →
    (ins.get i).get x = some T → σ x = some v → InSet v T

open CEx in
private theorem stale_counterexample (N : CNode) (hfix : isTIFix R0 env0 (graphOf N) reachC [] insC outsC = true)
    (hN : Step sem0 env0 [] N s1 (s1.set "x" (.str "a"))) : ¬ TISoundFull := by
  intro h
  have := h R0 sem0 env0 (graphOf N) reachC insC outsC emp (s1.set "x" (.str "a")) 4 "x" [.int] (.str "a")
    (isTIFix_sound hfix) truthful0 (init0 []) (exec_to_ret N hN) (by decide) (by simp [State.set])
  exact str_not_int this

open CEx in
/-- Known finding `retyped_by_untracked_binder`, `for` target: `x = 1; for x in ['a']: pass; return x` — the solution
computed by the inference (`x ↦ {int}` at the `return`) is a fixed point, yet `x` holds a `str` there. -/
theorem ti_full_false_for_target : ¬ TISoundFull :=
  stale_counterexample forN (by decide) (plain_step forN (by rfl) (by decide))

open CEx in
/-- Known finding `retyped_by_untracked_binder`, augmented assignment (`x = 1; x += …; return x`). -/
theorem ti_full_false_augassign : ¬ TISoundFull :=
  stale_counterexample augN (by decide) (plain_step augN (by rfl) (by decide))

open CEx in
/-- Known finding `retyped_by_untracked_binder`, `with … as x`. -/
theorem ti_full_false_with_as : ¬ TISoundFull :=
  stale_counterexample withN (by decide) (plain_step withN (by rfl) (by decide))

open CEx in
/-- Known finding `retyped_by_untyped_assignment`: `x = 1; x = ('a' if c else 2.5); return x` — the inference has no
rule for `IfExp`, records nothing for the second assignment and keeps `x ↦ {int}`. -/
theorem ti_full_false_untyped_assignment : ¬ TISoundFull := by
  refine stale_counterexample ifexpN (by decide) ?_
  exact .assign (v := .str "a") (.opaq (by rfl)) (.cons .name .nil) (Agree.refl _ _)

/-- The statement with calls that may rebind the names in `W`, still without the taint hypothesis. -/
def TISoundFullW : Prop :=
  ∀ (R : Resolver) (sem : Sem) (env : FnEnv) (W : List String) (G : Graph) (reach : List Nat) (ins outs : NMap)
    (σ₀ σ : State) (i : Nat) (x : String) (T : TySet) (v : Val),
    IsTIFix R env G reach [] ins outs → Truthful R sem env → InitOk R env [] σ₀ → Exec sem env W G σ₀ i σ →
    (ins.get i).get x = some T → σ x = some v → InSet v T

open CEx in
/-- Known finding `retyped_by_local_call_side_effect`: `x = 1; g(); return x` where `g` rebinds the nonlocal `x`
to a `str` — the call node's transfer function is the identity, so `x ↦ {int}` survives. -/
theorem ti_full_false_local_call_side_effect : ¬ TISoundFullW := by
  intro h
  have hstep : Step sem0 env0 ["x"] callN s1 (s1.set "x" (.str "a")) := by
    refine .plain (by rfl) ?_
    intro y hy
    have : y ≠ "x" := fun h => hy (by simp [h])
    simp [State.set, this]
  have hex : Exec sem0 env0 ["x"] (graphOf callN) emp 4 (s1.set "x" (.str "a")) :=
    .step (exec_to_mid_W ["x"] callN) (n := nMid callN) (by rfl) hstep (by simp [nMid])
  have := h R0 sem0 env0 ["x"] (graphOf callN) reachC insC outsC emp (s1.set "x" (.str "a")) 4 "x" [.int] (.str "a")
    (isTIFix_sound (by decide)) truthful0 (init0 []) hex (by decide) (by simp [State.set])
  exact str_not_int this

open CEx in
/-- In each of these programs the theorem's hypothesis fails exactly as the finding class says: the empty taint
set is not closed, `["x"]` is. -/
example : taintClosed R0 env0 (graphOf forN) reachC insC [] [] = false ∧
    taintClosed R0 env0 (graphOf augN) reachC insC [] [] = false ∧
    taintClosed R0 env0 (graphOf withN) reachC insC [] [] = false ∧
    taintClosed R0 env0 (graphOf ifexpN) reachC insC [] [] = false ∧
    taintClosed R0 env0 (graphOf ifexpN) reachC insC [] ["x"] = true := by decide

end Malt.TypeInf
