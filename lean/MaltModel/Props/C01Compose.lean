import MaltModel.Proofs.ComposeJumps
import MaltModel.Proofs.ComposePipeline
import MaltModel.Props.C01Jumps
/-
C01 — composition of the jump-lowering passes and the chain into functionalisation.

1. `jump_passes_correct_partial`: break, continue and return lowering applied in pipeline order preserve the
   function result (`fnResult`), the effect log and every non-generated variable, for every source body
   satisfying the ONE decidable hypothesis `JumpHyp` (no `$`-names, fragment S1, no EXTRA_LOOP_TEST in the source,
   no `break`/`continue` outside a loop) and every family of generators satisfying `JumpGens` (injective,
   pairwise disjoint, never a user name; `stdJumpGens` is an instance).
   `_partial` for the same reason as the per-pass theorems: outside S1 (a raise in `finally` over a pending
   jump) the pinned passes are wrong (finding `raise_in_finally_over_jump`).
   What makes the composition go through (Proofs/ComposePreserve.lean): break and continue lowering preserve
   `finOKB` (= S1) and `inS0B`; the output of a pass is fresh for the next family (`brkB_clean`, `cntB_clean`);
   `topContB (lowerBreak b) = topContB b || mayBrkB b`; the EXTRA_LOOP_TESTs that break lowering introduces
   are handled by the continue / return theorems themselves (they allow any clean extra test; only the break
   theorem needs `noExtraB`, of the source).
2. `jump_passes_output_jumpfree`: for EVERY source the composed output contains no `break`, no `continue`,
   `return` only as its last top-level statement, satisfies `Func.noJumpB`, and lies in the domain of the
   functionalisation (`Func.annotB ann 0` succeeds for EVERY annotation `ann`; try/with pass through).
3. `C01_jumps_then_functionalise_partial`: for every source satisfying `JumpHyp` (S1: try/finally/with
   allowed), the functionalised lowered program under the native target semantics `Func.execNB` has the same
   function result and the same log as the source.  `…_S0`: the earlier S0 statements, as corollaries.

Modelling assumption carried over from the per-pass part: the `try: … except: <flag reset>; raise` wrapper that
the real return lowering puts around `do_return = True; retval_ = e` is outside `Malt.Sem` (no catch-all
handler; an exception raised by expression evaluation is never caught there) — the semantic lowering
`lowerReturn` emits the two assignments only, `toSem` maps the real wrapper to its body, and the syntactic
correspondence (`./check C01J`, obligation `correspondence:pass-return`) checks the real shape.
-/
namespace Malt.Props.C01Compose
open Malt.Sem Malt.Sem.Jumps

/-- The standard generators (`$b…`, `$c…`, `$dr`, `$rv`) satisfy `JumpGens`. -/
theorem stdJumpGens : JumpGens (stdGen 'b') (stdGen 'c') stdDr stdRv where
  injB := stdGen_inj 'b'
  injC := stdGen_inj 'c'
  ne := by decide
  disjBC := by
    intro p q he
    have := congrArg String.toList he
    simp [stdGen] at this
  drB := by
    intro p he
    have := congrArg String.toList he
    have hd : stdDr.toList = ['$', 'd', 'r'] := by decide
    rw [hd] at this
    simp [stdGen] at this
  rvB := by
    intro p he
    have := congrArg String.toList he
    have hd : stdRv.toList = ['$', 'r', 'v'] := by decide
    rw [hd] at this
    simp [stdGen] at this
  drC := by
    intro p he
    have := congrArg String.toList he
    have hd : stdDr.toList = ['$', 'd', 'r'] := by decide
    rw [hd] at this
    simp [stdGen] at this
  rvC := by
    intro p he
    have := congrArg String.toList he
    have hd : stdRv.toList = ['$', 'r', 'v'] := by decide
    rw [hd] at this
    simp [stdGen] at this
  nonuser := by
    rintro x (⟨q, rfl⟩ | ⟨q, rfl⟩ | rfl | rfl)
    · exact stdGen_not_user 'b' q
    · exact stdGen_not_user 'c' q
    · decide
    · decide

/-- **The three jump passes, composed in pipeline order, preserve behaviour.** -/
theorem jump_passes_correct_partial (X : Ext) {genB genC : Gen} {dr rv : Name}
    (gens : JumpGens genB genC dr rv) (body : Block) (hyp : JumpHyp body = true)
    (n : Nat) (σ : St) (o : Out) (σ₁ : St) (h : execB X n body σ = some (o, σ₁)) :
    ∃ m σ₁' o', execB X m (lowerReturn dr rv (lowerContinue genC (lowerBreak genB body))) σ = some (o', σ₁') ∧
      fnResult o' = fnResult o ∧ Agree (GenAll genB genC dr rv) σ₁ σ₁' :=
  jump_passes_correct X gens body hyp n σ o σ₁ h

/-- Bridge between the occurrence predicates of the jump part and the functionalisation's domain predicate. -/
theorem noJump_of_no_break_continue (b : Block) (hb : hasBrkB b = false) (hc : hasContB b = false) :
    Func.noJumpB b = true :=
  noJumpB_of_has b hb hc

/-- **Shape of the composed output**, for EVERY source: no `break`, no `continue`, `return` only as the last
top-level statement; every annotation turns it into a program of the functionalisation fragment (which now
passes `with` and `try` through). -/
theorem jump_passes_output_jumpfree (genB genC : Gen) (dr rv : Name) (body : Block) :
    hasBrkB (jumpPasses genB genC dr rv body) = false ∧
    hasContB (jumpPasses genB genC dr rv body) = false ∧
    ((∃ init, jumpPasses genB genC dr rv body = init ++ [.ret (some (.var rv))] ∧ hasRetB init = false) ∨
      hasRetB (jumpPasses genB genC dr rv body) = false) ∧
    Func.noJumpB (jumpPasses genB genC dr rv body) = true ∧
    (∀ ann : Func.Ann, ∃ q, Func.annotB ann 0 (jumpPasses genB genC dr rv body) = some q) :=
  ⟨jumpPasses_noBrk body, jumpPasses_noCont body, lowerReturn_onlyLastRet dr rv _,
    noJumpB_of_has _ (jumpPasses_noBrk body) (jumpPasses_noCont body),
    fun ann => jumpPasses_annotatable genB genC dr rv body ann⟩

/-- The annotated lowered program of the next theorem always exists. -/
theorem C01_lowered_program_annotatable (genB genC : Gen) (dr rv : Name) (body : Block) (ann : Func.Ann) :
    ∃ q, Func.annotB ann 0 (jumpPasses genB genC dr rv body) = some q :=
  jumpPasses_annotatable genB genC dr rv body ann

/-- **Jump lowering followed by functionalisation** (S1 sources: try/finally/with allowed under `JumpHyp`):
the source body and the functionalised lowered program (native target semantics) give the same function
result and the same effect log.
`q` is the lowered program annotated by `ann` (it exists for every `ann`: `C01_lowered_program_annotatable`);
`FuncHyp D q O` are the hypotheses of `Func.control_flow_correct` on that annotation (liveness consistency in
the exception-context form `LiveB ExcCtx.top`, `declared`/`undefined` inclusions, definedness, `return` only at
top level) — checked on the real annotations by the C01 harness.
The return lowering's `try/except: raise` wrapper is not part of `Malt.Sem` (see the header). -/
theorem C01_jumps_then_functionalise_partial (X : Ext) {genB genC : Gen} {dr rv : Name}
    (gens : JumpGens genB genC dr rv) (body : Block) (hyp : JumpHyp body = true)
    (ann : Func.Ann) (q : Func.ABlock) (hq : Func.annotB ann 0 (jumpPasses genB genC dr rv body) = some q)
    (D O : List Name) (fh : Func.FuncHyp D q O)
    (σ : St) (σ' : Func.TSt) (hag : Func.Agree (Func.blockIn q O) σ σ') (hb : Func.BoundSub σ D)
    (n : Nat) (o : Out) (σ₁ : St) (h : execB X n body σ = some (o, σ₁)) :
    ∃ t, Func.func ann (jumpPasses genB genC dr rv body) = some t ∧
      ∃ m σ₁' o', Func.execNB X m t σ' = some (o', σ₁') ∧ fnResult o' = fnResult o ∧ σ₁'.log = σ₁.log := by
  obtain ⟨m3, σc, o', hx3, hres, hagc⟩ := jump_passes_correct X gens body hyp n σ o σ₁ h
  obtain ⟨t, ht, m, σ₁', hxn, hlog, _⟩ :=
    Func.control_flow_correct_sem X ann _ q hq D O fh σ σ' hag hb m3 o' σc hx3
  exact ⟨t, ht, m, σ₁', o', hxn, hres, by rw [hlog]; exact hagc.1.symm⟩

/-- The S0 instances (statements of the first version of this file). -/
theorem C01_jumps_then_functionalise_partial_S0 (X : Ext) {genB genC : Gen} {dr rv : Name}
    (gens : JumpGens genB genC dr rv) (body : Block) (hyp : JumpHyp body = true) (_hS0 : inS0B body = true)
    (ann : Func.Ann) (q : Func.ABlock) (hq : Func.annotB ann 0 (jumpPasses genB genC dr rv body) = some q)
    (D O : List Name) (fh : Func.FuncHyp D q O)
    (σ : St) (σ' : Func.TSt) (hag : Func.Agree (Func.blockIn q O) σ σ') (hb : Func.BoundSub σ D)
    (n : Nat) (o : Out) (σ₁ : St) (h : execB X n body σ = some (o, σ₁)) :
    ∃ t, Func.func ann (jumpPasses genB genC dr rv body) = some t ∧
      ∃ m σ₁' o', Func.execNB X m t σ' = some (o', σ₁') ∧ fnResult o' = fnResult o ∧ σ₁'.log = σ₁.log :=
  C01_jumps_then_functionalise_partial X gens body hyp ann q hq D O fh σ σ' hag hb n o σ₁ h

theorem C01_lowered_program_annotatable_S0 (genB genC : Gen) (dr rv : Name) (body : Block)
    (_hS0 : inS0B body = true) (ann : Func.Ann) :
    ∃ q, Func.annotB ann 0 (jumpPasses genB genC dr rv body) = some q :=
  C01_lowered_program_annotatable genB genC dr rv body ann

/-- An S0 source stays in S0 (no try/with is introduced). -/
theorem jump_passes_preserve_S0 (genB genC : Gen) (dr rv : Name) (body : Block) (h : inS0B body = true) :
    inS0B (jumpPasses genB genC dr rv body) = true :=
  jumpPasses_inS0 body h

/-! ### the hypotheses are satisfiable: concrete non-trivial sources -/

open Malt.Props.C01Jumps in
/-- break + continue + return in nested loops (S0):
```
for i in n():
    while d():
        if d(): break
        if d(): continue
        if d(): return tr(1, i)
        x = tr(2, x)
    tr(3)
return tr(0, x)
``` -/
def exAll : Block :=
  [.forS "i" (.call "n" []) none
    [.whileS dcall
      [.ifS dcall [.brk] [], .ifS dcall [.cont] [], .ifS dcall [.ret (some (trv 1 "i"))] [],
       .assign "x" (trv 2 "x")],
     .expr (tr 3)],
   .ret (some (trv 0 "x"))]

example : JumpHyp exAll = true ∧ inS0B exAll = true := ⟨by decide, by decide⟩

open Malt.Props.C01Jumps in
/-- the same jumps under try/finally and with (S1, not S0). -/
def exAllTry : Block :=
  [.whileS dcall
    [.tryS [.ifS dcall [.brk] [], .withS 4 [.ifS dcall [.cont] []], .ifS dcall [.ret (some (tr 1))] []]
      [(1, [.expr (tr 2)])] [.expr (tr 3)],
     .expr (tr 5)],
   .expr (tr 6)]

example : JumpHyp exAllTry = true ∧ inS0B exAllTry = false := ⟨by decide, by decide⟩

/-- The composed theorem instantiated with the standard generators on `exAll`. -/
example (X : Ext) (n : Nat) (σ : St) (o : Out) (σ₁ : St) (h : execB X n exAll σ = some (o, σ₁)) :
    ∃ m σ₁' o', execB X m (jumpPasses (stdGen 'b') (stdGen 'c') stdDr stdRv exAll) σ = some (o', σ₁') ∧
      fnResult o' = fnResult o ∧ Agree (GenAll (stdGen 'b') (stdGen 'c') stdDr stdRv) σ₁ σ₁' :=
  jump_passes_correct_partial X stdJumpGens exAll (by decide) n σ o σ₁ h

/-- The chain instantiated on the S1 source `exAllTry` (try/except/finally + with) with the standard generators:
every annotation of its lowered form that satisfies `FuncHyp` gives a functionalised program with the same
function result and log. -/
example (X : Ext) (ann : Func.Ann) (q : Func.ABlock)
    (hq : Func.annotB ann 0 (jumpPasses (stdGen 'b') (stdGen 'c') stdDr stdRv exAllTry) = some q)
    (D O : List Name) (fh : Func.FuncHyp D q O)
    (σ : St) (σ' : Func.TSt) (hag : Func.Agree (Func.blockIn q O) σ σ') (hb : Func.BoundSub σ D)
    (n : Nat) (o : Out) (σ₁ : St) (h : execB X n exAllTry σ = some (o, σ₁)) :
    ∃ t, Func.func ann (jumpPasses (stdGen 'b') (stdGen 'c') stdDr stdRv exAllTry) = some t ∧
      ∃ m σ₁' o', Func.execNB X m t σ' = some (o', σ₁') ∧ fnResult o' = fnResult o ∧ σ₁'.log = σ₁.log :=
  C01_jumps_then_functionalise_partial X stdJumpGens exAllTry (by decide) ann q hq D O fh σ σ' hag hb n o σ₁ h

/-- … and such an annotated program exists for every annotation. -/
example (ann : Func.Ann) :
    ∃ q, Func.annotB ann 0 (jumpPasses (stdGen 'b') (stdGen 'c') stdDr stdRv exAllTry) = some q :=
  C01_lowered_program_annotatable _ _ _ _ exAllTry ann

/-- A source outside `JumpHyp` (the counterexample of the per-pass part): the composition is wrong on it. -/
example : JumpHyp Malt.Props.C01Jumps.cexRet = false := by decide

/-! ## End to end along the extracted pipeline

FULL statement (kept visible; not provable as it stands, see what is missing below):

  theorem C01_pipeline (X) (c : PipeCfg) (body : Block) :
    ∀ n σ o σ₁, execB X n body σ = some (o, σ₁) →
      ∃ final, runSteps c Malt.Gen.Pipeline.steps (.src body) = some (.fin final) ∧
        ∃ m σ₁' o', execNBW X m final (TSt.ofSt σ) = some (o', σ₁') ∧ fnResult o' = fnResult o ∧ σ₁'.log = σ₁.log

What `C01_pipeline_partial` assumes instead, stage by stage:
* jump passes: `JumpGens` on the generators and the ONE decidable source predicate `JumpHyp` (freshness, S1, no
  EXTRA_LOOP_TEST, well-formed jumps); what the second and third pass need of their inputs is PROVED preserved
  (Proofs/ComposePreserve.lean); outside S1 the statement is false (finding `raise_in_finally_over_jump`);
* control_flow: `FuncHyp D q O` on the annotated INTERMEDIATE program `q` (annotation soundness: liveness
  consistency, `declared`/`undefined` inclusions, definedness, `return` at top level).  It is a hypothesis, as in
  `Func.control_flow_correct`; that the annotation exists as a program of the fragment is proved
  (`C01_lowered_program_annotatable`), that the REAL analyses satisfy `FuncHyp` is what the C05–C08 chain and the
  harness (`funcHyp` checker on the real `LIVE_VARS_*`/`DEFINED_VARS_IN`) establish, with the known exceptions;
* expression wrappers: no hypothesis (`Malt.Sem` expressions have no comparison chains: `chainsOk_ofSem`).
Outside the chain altogether: the `functions`/`directives` passes (no counterpart in `Malt.Sem`), the placement of
`call_trees` before `control_flow` (its wrapper is part of the one expression model applied at the end), the
`try/except: raise` wrapper of the return lowering, nested functions / closures (S2), and the feature-guarded
passes (`asserts`, `lists`, `slices`).
-/

/-- **C01, end to end along the extracted pipeline** (S1 sources): if the source body terminates, the program
obtained by running the stages in the order of `Malt.Gen.Pipeline.steps` — break, continue, return lowering,
control-flow functionalisation, expression wrappers — is defined and, run under the native target semantics with
converted expressions (`execNBW`) from any target store agreeing with the source store on the variables live at
entry, terminates with the same function result and the same effect log. -/
theorem C01_pipeline_partial (X : Ext) (c : PipeCfg) (gens : JumpGens c.genB c.genC c.dr c.rv)
    (body : Block) (hyp : JumpHyp body = true)
    (q : Func.ABlock) (hq : Func.annotB c.ann 0 (jumpPasses c.genB c.genC c.dr c.rv body) = some q)
    (D O : List Name) (fh : Func.FuncHyp D q O)
    (σ : St) (σ' : Func.TSt) (hag : Func.Agree (Func.blockIn q O) σ σ') (hb : Func.BoundSub σ D)
    (n : Nat) (o : Out) (σ₁ : St) (h : execB X n body σ = some (o, σ₁)) :
    ∃ final, runSteps c Malt.Gen.Pipeline.steps (.src body) = some (.fin final) ∧
      ∃ m σ₁' o', Malt.SemW.execNBW X m final σ' = some (o', σ₁') ∧ fnResult o' = fnResult o ∧
        σ₁'.log = σ₁.log := by
  obtain ⟨t, ht, m, σ₁', o', hx, hres, hlog⟩ :=
    C01_jumps_then_functionalise_partial X gens body hyp c.ann q hq D O fh σ σ' hag hb n o σ₁ h
  refine ⟨Malt.SemW.wrapTB c.eqOn t, ?_, m, σ₁', o', ?_, hres, hlog⟩
  · rw [runSteps_extracted, ht]; rfl
  · rw [Malt.C01Exprs.wrap_target_correct]; exact hx

/-- Whole-function form: the converted function called on the same store (the variables in `D` are the ones
that may be bound at entry: the parameters) — same observable behaviour: function result and effect log. -/
theorem C01_pipeline_observe_partial (X : Ext) (c : PipeCfg) (gens : JumpGens c.genB c.genC c.dr c.rv)
    (body : Block) (hyp : JumpHyp body = true)
    (q : Func.ABlock) (hq : Func.annotB c.ann 0 (jumpPasses c.genB c.genC c.dr c.rv body) = some q)
    (D : List Name) (fh : Func.FuncHyp D q [])
    (σ : St) (hb : Func.BoundSub σ D)
    (n : Nat) (o : Out) (σ₁ : St) (h : execB X n body σ = some (o, σ₁)) :
    ∃ final, runSteps c Malt.Gen.Pipeline.steps (.src body) = some (.fin final) ∧
      ∃ m r', Malt.SemW.execNBW X m final (Func.TSt.ofSt σ) = some r' ∧
        (fnResult r'.1, r'.2.log) = (fnResult o, σ₁.log) := by
  obtain ⟨final, hf, m, σ₁', o', hx, hres, hlog⟩ :=
    C01_pipeline_partial X c gens body hyp q hq D [] fh σ (Func.TSt.ofSt σ) (Func.agree_ofSt _ σ) hb n o σ₁ h
  exact ⟨final, hf, m, (o', σ₁'), hx, by simp [hres, hlog]⟩

/-- The order facts the chain relies on are among those `C01_pipeline_order` checks (`requiredBefore`); the chain
itself depends on the extracted list more strongly, through `decode_extracted`. -/
theorem C01_pipeline_uses_extracted_order :
    decodeSteps Malt.Gen.Pipeline.steps =
      some [.verify, .initialAnalysis, .functions, .directives, .breakStatements, .continueStatements,
        .returnStatements, .callTrees, .controlFlow, .conditionalExpressions, .logicalExpressions, .variables] :=
  decode_extracted

/-! ### non-vacuity: a loop, a `break` under try/finally, an early `return` — every hypothesis discharged -/

open Malt.Props.C01Jumps in
/-- ```
x = 0
while d():
    try:
        if d(): break
        x = tr(1, x)
    finally:
        tr(2)
    if d(): return tr(3, x)
return tr(0, x)
``` -/
def exPipe : Block :=
  [.assign "x" (.const (.int 0)),
   .whileS dcall
     [.tryS [.ifS dcall [.brk] [], .assign "x" (trv 1 "x")] [] [.expr (tr 2)],
      .ifS dcall [.ret (some (trv 3 "x"))] []],
   .ret (some (trv 0 "x"))]

/-- The lowered program and the names it mentions. -/
def exPipeLowered : Block := jumpPasses (stdGen 'b') (stdGen 'c') stdDr stdRv exPipe
def exPipeNames : List Name := (Malt.Conv.JumpToSem.namesB exPipeLowered).eraseDups

/-- standard generators, the constant "everything live / declared" annotation over the names of the lowered
program, EQUALITY_OPERATORS off -/
def exCfg : PipeCfg :=
  { genB := stdGen 'b', genC := stdGen 'c', dr := stdDr, rv := stdRv, ann := annAll exPipeNames, eqOn := false }

def exPipeQ : Func.ABlock := (Func.annotB exCfg.ann 0 exPipeLowered).getD []

theorem exPipe_jumpHyp : JumpHyp exPipe = true ∧ inS0B exPipe = false := ⟨by decide, by decide⟩

theorem exPipe_annot : Func.annotB exCfg.ann 0 (jumpPasses exCfg.genB exCfg.genC exCfg.dr exCfg.rv exPipe) = some exPipeQ := by
  obtain ⟨q, hq⟩ := C01_lowered_program_annotatable (stdGen 'b') (stdGen 'c') stdDr stdRv exPipe exCfg.ann
  show Func.annotB exCfg.ann 0 exPipeLowered = some exPipeQ
  unfold exPipeQ
  have hq' : Func.annotB exCfg.ann 0 exPipeLowered = some q := hq
  rw [hq']; rfl

/-- the executable checker of `FuncHyp` accepts the annotation (nothing bound at entry, nothing live at exit) -/
theorem exPipe_funcHyp : Func.FuncHyp [] exPipeQ [] :=
  Func.funcHyp_checker_sound [] exPipeQ [] (by decide)

/-- **The chain applies to `exPipe`**: for every oracle and fuel, from the empty store. -/
theorem exPipe_pipeline (X : Ext) (n : Nat) (o : Out) (σ₁ : St)
    (h : execB X n exPipe Malt.Props.C01Jumps.σ0 = some (o, σ₁)) :
    ∃ final, runSteps exCfg Malt.Gen.Pipeline.steps (.src exPipe) = some (.fin final) ∧
      ∃ m r', Malt.SemW.execNBW X m final (Func.TSt.ofSt Malt.Props.C01Jumps.σ0) = some r' ∧
        (fnResult r'.1, r'.2.log) = (fnResult o, σ₁.log) :=
  C01_pipeline_observe_partial X exCfg stdJumpGens exPipe exPipe_jumpHyp.1 exPipeQ exPipe_annot [] exPipe_funcHyp
    Malt.Props.C01Jumps.σ0 (by intro y hy; exact absurd rfl hy) n o σ₁ h

/-- `d()` answers from a decision list (by the number of `d` calls so far), `tr(k, v)` returns `v`. -/
def XD (dec : List Int) : Ext :=
  ⟨fun f args log =>
    if f = "d" then .int (dec.getD (log.filter fun e => match e with | .call "d" _ => true | _ => false).length 0)
    else args.getD 1 (args.headD .none)⟩

/-- what an observer of the final program sees -/
def finalObs (X : Ext) (m : Nat) : Option (Out × List Event) :=
  match runSteps exCfg Malt.Gen.Pipeline.steps (.src exPipe) with
  | some (.fin t) => (Malt.SemW.execNBW X m t (Func.TSt.ofSt Malt.Props.C01Jumps.σ0)).map fun r => (fnResult r.1, r.2.log)
  | _ => none

/-- … and it really runs: one iteration, then the `break` under try/finally (the `finally` still logs `tr 2`),
then the final return — source and final program, computed. -/
example : (execB (XD [1, 0, 0, 1, 1]) 40 exPipe Malt.Props.C01Jumps.σ0).map (fun r => (fnResult r.1, r.2.log)) =
    some (.ret (.int 0), [.call "d" [], .call "d" [], .call "tr" [.int 1, .int 0], .call "tr" [.int 2], .call "d" [],
      .call "d" [], .call "d" [], .call "tr" [.int 2], .call "tr" [.int 0, .int 0]]) := by decide
example : finalObs (XD [1, 0, 0, 1, 1]) 80 =
    some (.ret (.int 0), [.call "d" [], .call "d" [], .call "tr" [.int 1, .int 0], .call "tr" [.int 2], .call "d" [],
      .call "d" [], .call "d" [], .call "tr" [.int 2], .call "tr" [.int 0, .int 0]]) := by decide
/-- the early `return` inside the loop -/
example : finalObs (XD [1, 0, 1]) 80 = (execB (XD [1, 0, 1]) 40 exPipe Malt.Props.C01Jumps.σ0).map
    (fun r => (fnResult r.1, r.2.log)) := by decide

end Malt.Props.C01Compose
