import MaltModel.Rt.Ctx
import MaltModel.Proofs.C16
/-!
# C16 — conversion-status context is restored on every exit and isolated per thread

Property theorems only; helper lemmas are in `MaltModel/Proofs/C16.lean`, the model in
`MaltModel/Rt/Ctx.lean`.

Reading guide.  `runNode t p m s` is the call of the (wrapped) function at the root of call tree `t`,
written in a body that runs in mode `m` (native code, or code converted by malt), from a thread whose
context list and object counter are `s`; `p` is the position of that node in the whole tree.  The result has the thread state afterwards (`.st`), the exception that comes out, if any
(`.out`), and the observations `control_status_ctx()` the harness made on the way (`.log`).  A tree
fixes, for every node: the wrapper (`Kind`), the children, whether and where the body raises, and
whether it catches.  All theorems are for every tree, every caller mode, every starting state and every position, so
"whatever raises, wherever it is caught" is the quantification over trees.
-/
namespace Malt.Ctx

/-! ## The model's constants are the code's (regenerated from the source on every run) -/

/-- The statuses written literally in the model are the ones the code uses: the thread's default context,
`do_not_convert`, `call_with_unspecified_conversion_status`, `FunctionScope`, and the status under which
`converted_call` converts nothing. -/
theorem C16_code_constants :
    Stack.init = [⟨.dflt, Gen.defaultStatus⟩] ∧
    (∀ m b, wrap .doNotConvert m b = withFresh Gen.doNotConvertStatus (b .native)) ∧
    (∀ m b, wrap .unspecified m b = withFresh Gen.unspecifiedWrapperStatus (b .native)) ∧
    (∀ b, functionScope true b = withFresh Gen.functionScopeStatus b) ∧
    (∀ ur rec feat b s e, s.stack.head? = some e →
      convertedCall ur rec feat b s = if e.status = Gen.convertedCallSkipsWhen then b .native s
                                      else fsWith ur feat (b (.converted rec)) s) ∧
    (∀ rec e, calleeMode rec e = if e.status = Gen.convertedCallSkipsWhen then .native
                                 else if rec then .converted rec else .native) :=
  ⟨rfl, fun _ _ => rfl, fun _ _ => rfl, fun _ => rfl,
   fun ur rec feat b s e h => by simp only [convertedCall, h]; rfl,
   fun _ _ => rfl⟩

/-- `internal_convert` chooses its wrapper as the code's decision table says. -/
theorem C16_code_internal_convert_table (e : Entry) (cbd ur : Bool) :
    resolveInternal e cbd ur =
      match Gen.internalChoice e.status cbd with
      | .convertWithCtx => .convert ur true false (some (.obj e))
      | .doNotConvert => .doNotConvert
      | .unspecifiedWrapper => .unspecified
      | .convertNullCtx => .convert ur true false none     -- not what the model describes: the captured context would
      | .unresolved => .plain                              --   not be re-established (the theorem then fails to compile)
      := by
  cases hs : e.status <;> cases cbd <;> simp [resolveInternal, hs, Gen.internalChoice]

/-- Every piece of code the model describes still has the statement structure it describes: `stacks` is a
`threading.local`; the list is created per thread on first use; `__enter__` appends `self`; `__exit__` is
the identity-checked pop; `FunctionScope` creates, enters and exits its context under the same guard
`options.user_requested`; the wrappers call inside a `with` block. -/
theorem C16_code_shapes_recognised : Gen.shapes.all (·.2) = true := by decide

/-- Where `FunctionScope` can refuse its options relative to entering its context (regenerated step lists): the
refusing assertions are in `__init__`, `__enter__` is just the conditional push — so the arrangement is safe in
the sense of `C16_safe_scope_restores` below. -/
theorem C16_code_function_scope_steps :
    Gen.fsInitSteps.contains .check = true ∧ Gen.fsEnterSteps = [.pushIfUr] ∧
    scopeSafe Gen.fsInitSteps Gen.fsEnterSteps = true := by decide

/-- What the scope of the code under test does: accepted options → `functionScope`; refused options → the
assertion is raised before anything is entered. -/
theorem C16_code_function_scope (ur feat : Bool) (body : Comp) (s : TState) :
    fsWith ur feat body s = if feat then ⟨s, some .rejected, []⟩ else functionScope ur body s :=
  fsWith_eq ur feat body s

/-! ## Restoration -/

/-- **Balance.** After the call — returned or raised, at any depth, caught anywhere or nowhere — the
thread's context list is the list it was before, entry for entry, identities included.  No assumption
on the starting list. -/
theorem C16_balanced (t : Tree) (p : Path) (m : Mode) (s : TState) : (runNode t p m s).st.stack = s.stack :=
  runNode_bal t p m s

/-- The current context after the call is the very object it was before the call. -/
theorem C16_top_restored (t : Tree) (p : Path) (m : Mode) (s : TState) :
    (runNode t p m s).st.stack.head? = s.stack.head? := by
  rw [C16_balanced]

/-- The identity check in `ControlStatusCtx.__exit__` never fails and `control_status_ctx()` never finds
an empty list: starting from a non-empty list, the only exceptions that can come out of a call are the
one the user code raised and a function scope's refusal of unsupported conversion options. -/
theorem C16_only_user_exception_escapes (t : Tree) (p : Path) (m : Mode) (s : TState) (hs : s.stack ≠ [])
    (e : Exn) (he : (runNode t p m s).out = some e) : e = .rejected ∨ ∃ q, e = .boom q := by
  have := runNode_safe t p m s hs e he
  cases e with
  | boom q => exact Or.inr ⟨q, rfl⟩
  | rejected => exact Or.inl rfl
  | assertion => exact this.elim
  | index => exact this.elim

/-- A whole harness thread: list restored, and the observation after the root call (made even when an
exception escapes the root) reports the same object as the one before it. -/
theorem C16_thread_restored (t : Tree) (s : TState) :
    (runThread t s).st.stack = s.stack ∧
    ∃ l, (runThread t s).log = obsAt [] .start .native s :: (l ++ [obsAt [] .fin .native s]) := by
  refine ⟨runNode_bal t [0] .native s, (runNode t [0] .native s).log, ?_⟩
  simp [runThread, obsAt, runNode_bal t [0] .native s]

/-! ## What a body sees -/

/-- **One context per activation.**  All observations made by the body of a node itself — on entry,
before and after each child call, in its `except` clause after catching what a descendant raised, on
exit — report one and the same entry: the top of the list the wrapper left for the body
(`inside k m s`).  In particular every child call, however it ended, restored the current context.
They also agree on whether that body is converted code (`inside` says which). -/
theorem C16_body_sees_one_context (k : Kind) (cs : List Tree) (ra : Option Nat) (ca : Bool) (p : Path) (m : Mode)
    (s s' : TState) (m' : Mode) (hi : inside k m s = some (s', m')) :
    ∀ o ∈ (runNode (.node k cs ra ca) p m s).log, o.owner = p →
      o.top = s'.stack.head? ∧ o.conv = m'.isConverted := by
  intro o ho hp
  obtain ⟨s'', m'', hi', ho'⟩ := around_log (runNode_around k cs ra ca p m s) o ho
  rw [hi] at hi'
  cases hi'
  exact bodyOf_sees cs ra ca p m' s' o ho' hp

/-- Same, without mentioning `inside`: any two body-level observations of one activation agree. -/
theorem C16_body_observations_agree (t : Tree) (p : Path) (m : Mode) (s : TState) :
    ∀ o₁ ∈ (runNode t p m s).log, ∀ o₂ ∈ (runNode t p m s).log, o₁.owner = p → o₂.owner = p →
      o₁.top = o₂.top ∧ o₁.conv = o₂.conv := by
  cases t with
  | node k cs ra ca =>
    intro o₁ h₁ o₂ h₂ hp₁ hp₂
    obtain ⟨s', m', hi, _⟩ := around_log (runNode_around k cs ra ca p m s) o₁ h₁
    have a := C16_body_sees_one_context k cs ra ca p m s s' m' hi o₁ h₁ hp₁
    have b := C16_body_sees_one_context k cs ra ca p m s s' m' hi o₂ h₂ hp₂
    exact ⟨by rw [a.1, b.1], by rw [a.2, b.2]⟩

/-- Inside a `do_not_convert` region the status is DISABLED — at every observation point of the wrapped
function's body, i.e. also after calls into converted code, `convert` wrappers, nested regions, and
after exceptions caught there — and the wrapped function runs as written. -/
theorem C16_status_do_not_convert (cs : List Tree) (ra : Option Nat) (ca : Bool) (p : Path) (m : Mode) (s : TState) :
    ∀ o ∈ (runNode (.node .doNotConvert cs ra ca) p m s).log, o.owner = p →
      o.top = some ⟨.fresh s.next, .disabled⟩ ∧ o.conv = false :=
  C16_body_sees_one_context .doNotConvert cs ra ca p m s _ _ rfl

/-- Inside the body of a function converted by `to_graph` (always user-requested) the status is ENABLED,
carried by a context object of its own, whatever the caller's status — also inside a `do_not_convert`
region. -/
theorem C16_status_to_graph (rec : Bool) (cs : List Tree) (ra : Option Nat) (ca : Bool) (p : Path) (m : Mode) (s : TState) :
    ∀ o ∈ (runNode (.node (.toGraph rec false false) cs ra ca) p m s).log, o.owner = p →
      o.top = some ⟨.fresh s.next, .enabled⟩ ∧ o.conv = true :=
  C16_body_sees_one_context (.toGraph rec false false) cs ra ca p m s _ _ rfl

/-- The same for a hand-entered `FunctionScope` / `with_function_scope` whose options are user-requested. -/
theorem C16_status_user_requested_scope (cs : List Tree) (ra : Option Nat) (ca : Bool) (p : Path) (m : Mode) (s : TState) :
    ∀ o ∈ (runNode (.node (.functionScope true false) cs ra ca) p m s).log, o.owner = p →
      o.top = some ⟨.fresh s.next, .enabled⟩ :=
  fun o ho hp => (C16_body_sees_one_context (.functionScope true false) cs ra ca p m s _ _ rfl o ho hp).1

/-- A function scope that was *not* user-requested sees its caller's context. -/
theorem C16_status_recursive_scope (cs : List Tree) (ra : Option Nat) (ca : Bool) (p : Path) (m : Mode) (s : TState) :
    ∀ o ∈ (runNode (.node (.functionScope false false) cs ra ca) p m s).log, o.owner = p →
      o.top = s.stack.head? :=
  fun o ho hp => (C16_body_sees_one_context (.functionScope false false) cs ra ca p m s _ _ rfl o ho hp).1

/-- A plain user function called from converted code (the recursive conversion): it is converted exactly
when the status is not DISABLED and the caller's conversion is recursive, and either way it sees its
caller's context object. -/
theorem C16_status_callee_of_converted_code (rec : Bool) (cs : List Tree) (ra : Option Nat) (ca : Bool) (p : Path)
    (s : TState) (e : Entry) (he : s.stack.head? = some e) :
    ∀ o ∈ (runNode (.node .plain cs ra ca) p (.converted rec) s).log, o.owner = p →
      o.top = some e ∧ (o.conv = true ↔ (e.status ≠ .disabled ∧ rec = true)) := by
  intro o ho hp
  have hi : inside .plain (.converted rec) s = some (s, calleeMode rec e) := by simp [inside, insidePlainCall, he]
  have := C16_body_sees_one_context .plain cs ra ca p (.converted rec) s s _ hi o ho hp
  refine ⟨by rw [this.1, he], ?_⟩
  rw [this.2]
  by_cases hd : e.status = .disabled
  · simp [calleeMode, hd, Mode.isConverted]
  · cases rec <;> simp [calleeMode, hd, Mode.isConverted]

/-- `convert(user_requested=True)(f)` called where conversion is not disabled (`e` is the context in
effect for `converted_call`: the given `conversion_ctx`, else the caller's current context): `f` is
converted and its body sees ENABLED, on a fresh object. -/
theorem C16_status_user_requested_convert (rec : Bool) (c : Option CtxRef) (cs : List Tree) (ra : Option Nat) (ca : Bool)
    (p : Path) (m : Mode) (s : TState) (e : Entry)
    (he : effective c s = some e) (hd : e.status ≠ .disabled) :
    ∀ o ∈ (runNode (.node (.convert true rec false c) cs ra ca) p m s).log, o.owner = p →
      o.top = some ⟨.fresh s.next, .enabled⟩ ∧ o.conv = true := by
  obtain ⟨s0, h0, hn, heq, _, _⟩ := insideConvert_eq true rec false c s e he
  have hi : inside (.convert true rec false c) m s = some (pushFresh .enabled s0, .converted rec) := by
    simp [inside, heq, insideConvertedCall, h0, hd, insideScope]
  intro o ho hp
  have := C16_body_sees_one_context _ cs ra ca p m s _ _ hi o ho hp
  refine ⟨?_, by rw [this.2]; rfl⟩
  rw [this.1]
  simp [pushFresh, push, hn]

/-- `convert(...)(f)` called where conversion is disabled: `f` runs unconverted and keeps seeing DISABLED
(the same object `e`) — also when its options name an unsupported feature: no function scope is built. -/
theorem C16_status_convert_when_disabled (ur rec feat : Bool) (c : Option CtxRef) (cs : List Tree) (ra : Option Nat)
    (ca : Bool) (p : Path) (m : Mode) (s : TState) (e : Entry)
    (he : effective c s = some e) (hd : e.status = .disabled) :
    ∀ o ∈ (runNode (.node (.convert ur rec feat c) cs ra ca) p m s).log, o.owner = p →
      o.top = some e ∧ o.conv = false := by
  obtain ⟨s0, h0, _, heq, _, _⟩ := insideConvert_eq ur rec feat c s e he
  have hi : inside (.convert ur rec feat c) m s = some (s0, .native) := by
    simp [inside, heq, insideConvertedCall, h0, hd]
  intro o ho hp
  have := C16_body_sees_one_context _ cs ra ca p m s _ _ hi o ho hp
  exact ⟨by rw [this.1, h0], by rw [this.2]; rfl⟩

/-- `internal_convert(f, ctx, …)` with a DISABLED `ctx` behaves as `do_not_convert`; with an ENABLED `ctx`
and `user_requested` it runs `f` converted under ENABLED. -/
theorem C16_status_internal_convert (r : CtxRef) (cbd ur : Bool) (cs : List Tree) (ra : Option Nat) (ca : Bool)
    (p : Path) (m : Mode) (s : TState) (e : Entry) (he : r.get s.stack = some e) :
    ∀ o ∈ (runNode (.node (.internalConvert r cbd ur) cs ra ca) p m s).log, o.owner = p →
      (e.status = .disabled → o.top = some ⟨.fresh s.next, .disabled⟩ ∧ o.conv = false) ∧
      (e.status = .enabled → ur = true → o.top = some ⟨.fresh s.next, .enabled⟩ ∧ o.conv = true) := by
  intro o ho hp
  constructor
  · intro hd
    have hi : inside (.internalConvert r cbd ur) m s = some (pushFresh .disabled s, .native) := by simp [inside, he, hd]
    exact C16_body_sees_one_context _ cs ra ca p m s _ _ hi o ho hp
  · intro hen hur
    subst hur
    have hi : inside (.internalConvert r cbd true) m s = some (pushFresh .enabled (push e s), .converted true) := by
      have h1 : inside (.internalConvert r cbd true) m s = insideConvert true true false (some (.obj e)) s := by
        simp [inside, he, hen]
      rw [h1]
      simp [insideConvert, insideConvertedCall, CtxRef.get, push, hen, insideScope]
    have := C16_body_sees_one_context _ cs ra ca p m s _ _ hi o ho hp
    exact ⟨by rw [this.1]; rfl, by rw [this.2]; rfl⟩

/-! ## Failing entry -/

/-- **A call that fails on entry restores the context too.**  Conversion options naming an optional feature the
function scope does not support (NAME_SCOPES, AUTO_CONTROL_DEPS, ALL) make the call raise the scope's
AssertionError: for `to_graph(f)(…)`, a hand-entered `FunctionScope`, and `convert(…)(f)(…)` where conversion is
not disabled.  Nothing was observed, and the thread state afterwards is exactly the state before — the list
(also the `conversion_ctx` the `convert` wrapper had entered is gone again) and even the object counter. -/
theorem C16_refused_entry_restores (k : Kind) (cs : List Tree) (ra : Option Nat) (ca : Bool) (p : Path) (m : Mode)
    (s : TState)
    (hk : (∃ ur, k = .functionScope ur true) ∨ (∃ rec lam, k = .toGraph rec lam true) ∨
          (∃ ur rec c e, k = .convert ur rec true c ∧ effective c s = some e ∧ e.status ≠ .disabled)) :
    runNode (.node k cs ra ca) p m s = ⟨s, some .rejected, []⟩ := by
  have hA := runNode_around k cs ra ca p m s
  have key : ∀ s0, s0.stack = s.stack ∨ (∃ e, s0 = push e s) → s0.next = s.next →
      inside k m s = some (s0, .refused) → runNode (.node k cs ra ca) p m s = ⟨s, some .rejected, []⟩ := by
    intro s0 _ hn hi
    rw [hi] at hA
    unfold Around at hA
    rw [hA, bodyOf_refuses cs ra ca p s0]
    cases s; simp_all
  rcases hk with ⟨ur, rfl⟩ | ⟨rec, lam, rfl⟩ | ⟨ur, rec, c, e, rfl, he, hd⟩
  · exact key s (Or.inl rfl) rfl (by simp [inside, insideScope])
  · exact key s (Or.inl rfl) rfl (by simp [inside, insideScope])
  · obtain ⟨s0, h0, hn, heq, h1, h2⟩ := insideConvert_eq ur rec true c s e he
    have hs0 : s0.stack = s.stack ∨ (∃ e, s0 = push e s) := by
      cases c with
      | none => exact Or.inl (by rw [h1 rfl])
      | some r => exact Or.inr ⟨e, h2 r rfl⟩
    exact key s0 hs0 hn (by simp [inside, heq, insideConvertedCall, h0, hd, insideScope])

/-- The caller of such a call, if it catches the error, observes afterwards the very context it observed before
(this is `C16_body_sees_one_context`: `caught` and `out` are body-level observations) — stated here for the
simplest caller: a plain body whose only child is refused. -/
theorem C16_refused_entry_seen_by_catching_caller (k : Kind) (cs : List Tree) (ra : Option Nat) (ca : Bool) (p : Path)
    (s : TState)
    (hk : (∃ ur, k = .functionScope ur true) ∨ (∃ rec lam, k = .toGraph rec lam true)) :
    (runNode (.node .plain [.node k cs ra ca] none true) p .native s).log.map (fun o => (o.pt, o.top))
      = [(.inn, s.stack.head?), (.pre 0, s.stack.head?), (.caught, s.stack.head?), (.out, s.stack.head?)] ∧
    (runNode (.node .plain [.node k cs ra ca] none true) p .native s).out = none := by
  have h := C16_refused_entry_restores k cs ra ca (0 :: p) .native s
    (hk.elim Or.inl (fun h => Or.inr (Or.inl h)))
  simp [runNode, wrap, plainCall, bodyC, bodyCore, runKids, obsAt] at h ⊢
  simp [h, obsAt]

/-- **In general**: a function scope whose `__init__` / `__enter__` perform *any* step lists restores the list on
every path — normal exit, exception from the body, refusal of the options — provided no refusing check can fire
after the context was pushed (`scopeSafe`: all checks in `__init__`, or none after the push in `__enter__`). -/
theorem C16_safe_scope_restores (init enter : List Gen.FsStep) (ur feat : Bool) (body : Comp)
    (hb : ∀ s, (body s).st.stack = s.stack) (hsafe : scopeSafe init enter = true) (s : TState) :
    (scopeWith init enter ur feat body s).st.stack = s.stack :=
  scopeWith_bal init enter ur feat body hb hsafe s

/-- **Generator-function callees.**  Calling a wrapped generator function runs none of its body: the wrapper's
contexts are entered around the mere creation of the generator and are gone again when the call returns — for every
wrapper kind, from every caller mode and list.  (The generator's body then runs, resumption by resumption, at the
consumer's level; the harness presents it to the model as a natively called body and checks on the real code that
the creating call and every resumption leave the consumer's context alone.) -/
theorem C16_generator_creation_restores (k : Kind) (m : Mode) (s : TState) :
    (wrap k m (fun m' s' => if m' = .refused then ⟨s', some .rejected, []⟩ else ⟨s', none, []⟩) s).st.stack = s.stack ∧
    (wrap k m (fun m' s' => if m' = .refused then ⟨s', some .rejected, []⟩ else ⟨s', none, []⟩) s).log = [] := by
  have hb : MBal (fun m' s' => if m' = .refused then (⟨s', some .rejected, []⟩ : Res) else ⟨s', none, []⟩) := by
    intro m' s'; by_cases h : m' = .refused <;> simp [h]
  have hr : Refuses (fun m' s' => if m' = .refused then (⟨s', some .rejected, []⟩ : Res) else ⟨s', none, []⟩) := by
    intro s'; simp
  have hA := wrap_around k m _ hb hr s
  refine ⟨around_bal hA, ?_⟩
  cases hi : inside k m s with
  | none => rw [hi] at hA; unfold Around at hA; rw [hA]
  | some x =>
    obtain ⟨s', m'⟩ := x
    rw [hi] at hA; unfold Around at hA; rw [hA]
    by_cases h : m' = Mode.refused <;> simp [h]

/-- **Converted code never runs under DISABLED.**  At every observation of a whole thread's run, at any
depth: if the observing body is converted code, the status it sees is not DISABLED.  (The status is
consulted where it matters: `converted_call` leaves callees unconverted under DISABLED, and an explicitly
converted function enters its own ENABLED context.) -/
theorem C16_converted_code_never_under_disabled (t : Tree) (s : TState) (hs : s.stack ≠ []) :
    ∀ o ∈ (runThread t s).log, o.conv = true → ∃ e, o.top = some e ∧ e.status ≠ .disabled := by
  intro o ho
  simp only [runThread, List.mem_cons, List.mem_append, List.not_mem_nil, or_false] at ho
  rcases ho with rfl | ho | rfl
  · intro h; simp [obsAt, Mode.isConverted] at h
  · exact runNode_convOK t [0] .native s hs o ho
  · intro h; simp [obsAt, Mode.isConverted] at h

/-! ## The machine and interleavings -/

/-- The small-step machine computes exactly the big-step semantics: started on tree `t` it finishes, with
the outcome, thread state and log of `runThread`. -/
theorem C16_machine_agrees (t : Tree) (s : TState) :
    ∃ n, iter n (Cfg.init t s) = ⟨[], (runThread t s).out, (runThread t s).st, (runThread t s).log⟩ :=
  runThread_reach t s

/-- **Isolation.**  Under any schedule, what thread `t` has done is what it would have done alone in the
same number of its own steps: other threads' steps do not show. -/
theorem C16_isolated (g : Global) (σ : List Tid) (t : Tid) :
    runSched g σ t = iter (σ.count t) (g t) := by
  induction σ generalizing g with
  | nil => rfl
  | cons u σ ih =>
    simp only [runSched]
    rw [ih (stepG g u)]
    by_cases h : u = t
    · subst h; simp [stepG, iter]
    · have h' : ¬ t = u := fun e => h e.symm
      simp [stepG, h, h']

/-- For every interleaving: a thread that has finished has logged exactly its sequential log, has its
context list restored and ended as it ends when run alone. -/
theorem C16_isolated_log (g : Global) (σ : List Tid) (t : Tid) (tree : Tree) (s : TState)
    (h0 : g t = Cfg.init tree s) (hdone : (runSched g σ t).ctrl = []) :
    (runSched g σ t).log = (runThread tree s).log ∧
    (runSched g σ t).st.stack = s.stack ∧
    (runSched g σ t).mode = (runThread tree s).out := by
  rw [C16_isolated, h0] at hdone ⊢
  have := reach_done_unique (runThread_reach tree s) rfl _ hdone
  rw [this]
  exact ⟨rfl, (C16_thread_restored tree s).1, rfl⟩

/-- For every interleaving, finished or not: what a thread has logged so far is an initial part of its
sequential log. -/
theorem C16_isolated_prefix (g : Global) (σ : List Tid) (t : Tid) (tree : Tree) (s : TState)
    (h0 : g t = Cfg.init tree s) :
    (runSched g σ t).log <+: (runThread tree s).log := by
  rw [C16_isolated, h0]
  obtain ⟨n, hn⟩ := runThread_reach tree s
  rcases Nat.le_total (σ.count t) n with h | h
  · obtain ⟨d, hd⟩ := Nat.exists_eq_add_of_le h
    have := iter_log_prefix d (iter (σ.count t) (Cfg.init tree s))
    rw [← iter_add, ← hd, hn] at this
    exact this
  · rw [reach_done_stable hn rfl _ h]
    exact List.prefix_refl _

/-- Every thread finishes under every schedule that gives it enough steps (the number does not depend on
the other threads). -/
theorem C16_isolated_finishes (g : Global) (t : Tid) (tree : Tree) (s : TState) (h0 : g t = Cfg.init tree s) :
    ∃ N, ∀ σ : List Tid, N ≤ σ.count t → (runSched g σ t).ctrl = [] := by
  obtain ⟨n, hn⟩ := runThread_reach tree s
  refine ⟨n, fun σ h => ?_⟩
  rw [C16_isolated, h0, reach_done_stable hn rfl _ h]

/-- Non-interference, the usual way: two runs of the whole system in which thread `t` starts the same and
gets the same number of steps leave thread `t` in the same state — whatever the other threads are, do, and
however everything is interleaved. -/
theorem C16_noninterference (g g' : Global) (σ σ' : List Tid) (t : Tid)
    (h : g t = g' t) (hc : σ.count t = σ'.count t) : runSched g σ t = runSched g' σ' t := by
  rw [C16_isolated, C16_isolated, h, hc]

/-! ## The log checker run on the real logs -/

/-- Every log the model can produce (any tree, any non-empty starting list) passes `checkThread`, the
executable form of the property the harness evaluates on the logs of the real code. -/
theorem C16_model_logs_pass_checker (t : Tree) (s : TState) (hs : s.stack ≠ []) :
    checkThread t (runThread t s).log = true :=
  runThread_check t s hs

/-- What acceptance means at a node, for an arbitrary log `l` (e.g. a real one): all observations made by
that body report one entry (and agree on being converted code or not); it has the status the property
requires; converted code is not running under DISABLED; and the children are accepted with that entry as
their caller's context — so the statement applies again at every node below. -/
theorem C16_checker_meaning (k : Kind) (cs : List Tree) (ra : Option Nat) (ca : Bool) (p : Path)
    (x : Option Entry) (l : List Obs) (h : checkNode (.node k cs ra ca) p x l = true) :
    (∀ o₁ ∈ bodyLevel p l, ∀ o₂ ∈ bodyLevel p l, o₁.top = o₂.top ∧ o₁.conv = o₂.conv) ∧
    (∀ st, requiredStatus k x = some st → ∀ o ∈ bodyLevel p l, o.top.map (·.status) = some st) ∧
    (∀ o ∈ bodyLevel p l, o.conv = true → o.top.map (·.status) ≠ some .disabled) ∧
    (∀ o ∈ bodyLevel p l, ∀ (j : Nat) (c : Tree), cs[j]? = some c → checkNode c (j :: p) o.top l = true) :=
  checkNode_means k cs ra ca p x l h

/-- …and at the thread level: the observation after the root call agrees with the one before it. -/
theorem C16_checker_meaning_thread (t : Tree) (l : List Obs) (h : checkThread t l = true) :
    ∃ o ∈ bodyLevel [] l, (∀ o' ∈ bodyLevel [] l, o'.top = o.top) ∧ checkNode t [0] o.top l = true := by
  simp only [checkThread] at h
  cases hb : bodyLevel [] l with
  | nil => rw [hb] at h; simp at h
  | cons o rest =>
    rw [hb] at h
    simp only [Bool.and_eq_true, List.all_eq_true, decide_eq_true_eq] at h
    refine ⟨o, List.mem_cons_self .., ?_, h.2⟩
    intro o' ho'
    rcases List.mem_cons.mp ho' with rfl | ho'
    · rfl
    · exact h.1 o' ho'

/-! ## Non-vacuity: concrete instances -/

section Examples

/-- `convert(user_requested=True, conversion_ctx=<shared UNSPECIFIED object>)` around a body that calls a
`do_not_convert` function whose callee raises (caught in the `do_not_convert` body), then a plain
function, then raises itself — nobody catches. -/
private def ex1 : Tree :=
  .node (.convert true true false (some (.obj ⟨.shared 1, .unspecified⟩)))
    [.node .doNotConvert [.node .plain [] (some 0) false] none true,
     .node .plain [] none false]
    (some 2) false

example : (runThread ex1 TState.init).out = some (.boom [0]) := by decide
example : (runThread ex1 TState.init).st.stack = Stack.init := by decide
example : (runThread ex1 TState.init).log.length = 14 := by decide
-- the root body is converted code and sees the fresh ENABLED object at all its observation points
example : ((runThread ex1 TState.init).log.filter (fun o => o.owner = [0])).map (fun o => (o.conv, o.top))
    = [(true, some ⟨.fresh 0, .enabled⟩), (true, some ⟨.fresh 0, .enabled⟩), (true, some ⟨.fresh 0, .enabled⟩),
       (true, some ⟨.fresh 0, .enabled⟩), (true, some ⟨.fresh 0, .enabled⟩)] := by decide
-- the plain callee of the converted root is converted too (recursive), its sibling inside do_not_convert is not
example : ((runThread ex1 TState.init).log.filter (fun o => o.pt = .inn)).map (fun o => (o.owner, o.conv))
    = [([0], true), ([0, 0], false), ([0, 0, 0], false), ([1, 0], true)] := by decide
-- hypotheses of the status theorems are satisfiable
example : effective (some (.obj ⟨.shared 1, .unspecified⟩)) TState.init = some ⟨.shared 1, .unspecified⟩ := rfl
example : inside (.convert true true false (some (.obj ⟨.shared 1, .unspecified⟩))) .native TState.init
    = some (⟨[⟨.fresh 0, .enabled⟩, ⟨.shared 1, .unspecified⟩, ⟨.dflt, .unspecified⟩], 1⟩, .converted true) := by decide
example : inside (.internalConvert .current true true) .native ⟨[⟨.fresh 0, .enabled⟩, ⟨.dflt, .unspecified⟩], 1⟩
    = some (⟨[⟨.fresh 1, .enabled⟩, ⟨.fresh 0, .enabled⟩, ⟨.fresh 0, .enabled⟩, ⟨.dflt, .unspecified⟩], 2⟩, .converted true) := by decide
-- a `with ControlStatusCtx(DISABLED)` block in user code that got converted: its callee runs unconverted
example : inside (.withCtx .disabled true) (.converted true) ⟨[⟨.fresh 0, .enabled⟩, ⟨.dflt, .unspecified⟩], 1⟩
    = some (⟨[⟨.fresh 1, .disabled⟩, ⟨.fresh 0, .enabled⟩, ⟨.dflt, .unspecified⟩], 2⟩, .native) := by decide
-- the same object entered twice: the identity-checked pop still succeeds, twice
example : (runNode (.node (.convert false true false (some .current)) [.node (.convert false true false (some .current)) [] (some 0) false] none true)
    [0] .native TState.init).st.stack = Stack.init := by decide
-- two threads, an interleaving: thread 1's log is its sequential log
private def exG : Global := fun t => if t = 0 then Cfg.init ex1 TState.init else Cfg.init (.node .doNotConvert [] (some 0) false) TState.init
example : (runSched exG [0, 1, 0, 0, 1, 1, 0, 1, 1, 1, 0, 1, 1, 0, 1] 1).ctrl = [] := by decide
example : (runSched exG [0, 1, 0, 0, 1, 1, 0, 1, 1, 1, 0, 1, 1, 0, 1] 1).log
    = (runThread (.node .doNotConvert [] (some 0) false) TState.init).log := by decide
-- the checker accepts a model log, and rejects a log in which a body sees a different object after a call
example : checkThread ex1 (runThread ex1 TState.init).log = true := by decide
example : checkThread (.node .doNotConvert [.node .plain [] none false] none false)
    [⟨[], .start, false, some ⟨.dflt, .unspecified⟩⟩, ⟨[0], .inn, false, some ⟨.fresh 0, .disabled⟩⟩,
     ⟨[0], .pre 0, false, some ⟨.fresh 0, .disabled⟩⟩, ⟨[0, 0], .inn, false, some ⟨.fresh 0, .disabled⟩⟩,
     ⟨[0], .post 0, false, some ⟨.dflt, .unspecified⟩⟩, ⟨[], .fin, false, some ⟨.dflt, .unspecified⟩⟩] = false := by decide
-- …and a log in which converted code runs under DISABLED
example : checkThread (.node .doNotConvert [] none false)
    [⟨[], .start, false, some ⟨.dflt, .unspecified⟩⟩, ⟨[0], .inn, true, some ⟨.fresh 0, .disabled⟩⟩,
     ⟨[0], .out, true, some ⟨.fresh 0, .disabled⟩⟩, ⟨[], .fin, false, some ⟨.dflt, .unspecified⟩⟩] = false := by decide

-- `s.stack ≠ []` (hypothesis of the safety / checker / converted-code theorems) holds of every thread's initial state
example : TState.init.stack ≠ [] := by decide
-- hypothesis of `C16_status_callee_of_converted_code`: converted code running under the ENABLED object it entered
example : (⟨[⟨.fresh 0, .enabled⟩, ⟨.dflt, .unspecified⟩], 1⟩ : TState).stack.head? = some ⟨.fresh 0, .enabled⟩ := rfl
-- hypotheses of `C16_noninterference`: different worlds around the same thread 1, same number of its steps
private def exG' : Global := fun t => if t = 1 then Cfg.init (.node .doNotConvert [] (some 0) false) TState.init else Cfg.init ex1 ⟨[], 7⟩
example : exG 1 = exG' 1 := rfl
example : ([0, 1, 0, 1, 1] : List Tid).count 1 = ([1, 5, 1, 9, 9, 1, 3] : List Tid).count 1 := by decide
example : runSched exG [0, 1, 0, 1, 1] 1 = runSched exG' [1, 5, 1, 9, 9, 1, 3] 1 :=
  C16_noninterference exG exG' _ _ 1 rfl (by decide)

-- failing entry: `convert(user_requested=True, optional_features=NAME_SCOPES, conversion_ctx=<shared>)`, called from a
-- body that catches the refusal: nothing leaks, the caller sees its own context again
private def ex2 : Tree :=
  .node .plain [.node (.convert true true true (some (.obj ⟨.shared 1, .unspecified⟩))) [.node .plain [] none false] none false]
    none true
example : (runThread ex2 TState.init).out = none := by decide
example : (runThread ex2 TState.init).st = TState.init := by decide
example : (runThread ex2 TState.init).log.map (fun o => (o.pt, o.top.map (·.id)))
    = [(.start, some .dflt), (.inn, some .dflt), (.pre 0, some .dflt), (.caught, some .dflt), (.out, some .dflt),
       (.fin, some .dflt)] := by decide
example : effective (some (.obj ⟨.shared 1, .unspecified⟩)) TState.init = some ⟨.shared 1, .unspecified⟩ ∧
    (⟨.shared 1, .unspecified⟩ : Entry).status ≠ .disabled := by decide
-- the arrangement of the code under test is safe; the one with the checks moved behind the push is not, and the
-- model then shows the leak: the refused call leaves the ENABLED context on the list
example : scopeSafe [.check, .check] [.pushIfUr] = true := by decide
example : scopeSafe [] [.pushIfUr, .check, .check] = false := by decide
example : (scopeWith [] [.pushIfUr, .check, .check] true true (fun s => ⟨s, none, []⟩) TState.init).st.stack
    = [⟨.fresh 0, .enabled⟩, ⟨.dflt, .unspecified⟩] := by decide
example : (scopeWith [.check, .check] [.pushIfUr] true true (fun s => ⟨s, none, []⟩) TState.init).st.stack = Stack.init := by decide

end Examples

end Malt.Ctx
