import MaltModel.Proofs.C18Stmt
import MaltModel.Proofs.C18Rejects
import MaltModel.Proofs.C18Sem6
import MaltModel.Proofs.C18Examples
/-
C18 — A-normal-form transformation preserves evaluation order and yields ANF.

Model: `Conv.Anf` (`visitE`/`visitS`/`anf`, a functional mirror of `AnfTransformer`), specification-side
predicates in `Conv.AnfSpec`, semantics `Py.SemAnf`.  Theorems are for all programs of `Py.Ast` and all
configurations (lists of edge patterns) unless a hypothesis says otherwise.
-/
namespace Malt.Props.C18
open Malt.Py Malt.Anf Malt.SemAnf Malt.Anf.Ex

private theorem anf_ok {cfg : Config} {p : Stmt} {q : List Stmt} (h : anf cfg p = .ok q) :
    ∃ n' pend', visitS cfg p 0 [] = .ok (q, n', pend') := by
  unfold anf at h
  cases hv : visitS cfg p 0 [] with
  | error e => rw [hv] at h; simp [Except.map] at h
  | ok r =>
    rw [hv] at h
    simp only [Except.map, Except.ok.injEq] at h
    obtain ⟨q', n', pend'⟩ := r
    exact ⟨n', pend', by simp at h; rw [h]⟩

/-! ## 1. The output is in A-normal form -/

/-- **C18_is_anf** — for every program and every configuration: if the transformer accepts `p`, every
statement of the result is in A-normal form for the configuration (`AnfS`): each expression position the
transformer inspects (`okChild`: call arguments/keywords/`*`/`**` operands, operator operands, attribute
bases, subscripts, display elements, `return`/`raise` operands, `if`/`for`/`with`/`while` headers, …) holds a
variable (or `...`) or is not selected by the configuration, recursively; and each generated assignment
`tmp_N = …` holds the copy of such an expression. -/
theorem C18_is_anf (cfg : Config) (p : Stmt) (q : List Stmt) (h : anf cfg p = .ok q) : AnfSs cfg q := by
  obtain ⟨n', pend', hv⟩ := anf_ok h
  exact ((visitS_inv cfg p 0 [] q n' pend' hv).anf (fun t ht => by simp at ht)).1

/-- Expression level (used by `C18_is_anf`): what a successful visit leaves in place is `quiet` — the
transformer would not touch it again — and the pending statements are `tmp_(1001+n) = …`, …,
`tmp_(1000+n') = …` in this order, each assigning an expression that is itself `quiet`. -/
theorem C18_is_anf_expr (cfg : Config) (e : Expr) (n : Nat) (e' : Expr) (D : List Stmt) (n' : Nat)
    (h : visitE cfg e n = .ok (e', D, n')) : quiet cfg e' = true ∧ HoistsOk cfg n D n' :=
  ⟨(visitE_inv cfg e n e' D n' h).quiet, (visitE_inv cfg e n e' D n' h).hoists⟩

/-- `quiet` is exactly "already in A-normal form": the transformer is the identity on it and adds nothing
(idempotence of the transformation on its own output follows with `C18_is_anf_expr`). -/
theorem C18_quiet_fixed (cfg : Config) (e : Expr) (n : Nat) :
    quiet cfg e = true ↔ visitE cfg e n = .ok (e, [], n) :=
  ⟨visitE_quiet cfg e n, fun h => (quiet_iff_visit_nil cfg e n).mpr ⟨e, n, h⟩⟩

/-! ## 2. Temporaries -/

/-- **C18_temps** (what `DummyGensym` provides) — for every program and configuration, the pending
statements created while visiting an expression assign *exactly* `tmp_(1001+n), …, tmp_(1000+n')`, once
each, in order: pairwise distinct. -/
theorem C18_temps_generated (cfg : Config) (e : Expr) (n : Nat) (e' : Expr) (D : List Stmt) (n' : Nat)
    (h : visitE cfg e n = .ok (e', D, n')) : tmpTargetsSs D = temps n n' ∧ (tmpTargetsSs D).Nodup := by
  have f := hoists_facts (visitE_inv cfg e n e' D n' h).hoists
  exact ⟨f.2.1, f.2.1 ▸ temps_nodup n n'⟩

/-- **C18_temps** — whole programs: if no identifier of `p` has the form `tmp_N` (`N ≥ 1001`), the assignments
`tmp_N = …` of the output are `tmp_1001, tmp_1002, …` in program order without gaps or repetitions (a prefix
of that sequence: pending statements left over at the very end are dropped), hence pairwise distinct, and
distinct from every identifier of `p`. -/
theorem C18_temps (cfg : Config) (p : Stmt) (q : List Stmt) (hn : NoTempNames p) (h : anf cfg p = .ok q) :
    (∃ m, tmpTargetsSs q <+: temps 0 m) ∧ (tmpTargetsSs q).Nodup ∧ ∀ t ∈ tmpTargetsSs q, t ∉ namesS p := by
  obtain ⟨n', pend', hv⟩ := anf_ok h
  have ht := (visitS_inv cfg p 0 [] q n' pend' hv).temps hn
  simp only [tmpTargetsSs, List.nil_append] at ht
  have hpre : tmpTargetsSs q <+: temps 0 n' := ⟨_, ht⟩
  refine ⟨⟨n', hpre⟩, hpre.sublist.nodup (temps_nodup 0 n'), fun t ht' hmem => ?_⟩
  have : t ∈ temps 0 n' := hpre.subset ht'
  simp only [temps, List.mem_map] at this
  obtain ⟨k, -, rfl⟩ := this
  have := hn _ hmem
  rw [isTempName_tmpName] at this
  exact Bool.noConfusion this

/-! ## 3. Rejection of constructs whose laziness cannot be preserved -/

/-- **C18_rejects** — for every expression, configuration and counter: the visit succeeds iff `acceptsE`:
no comprehension / generator expression, no chained comparison, no node kind outside the model, and every
lazy construct (`and`/`or`, conditional expression, `lambda`, `await`, `yield from`, f-string parts) is
`quiet`, i.e. nothing inside it would have to be hoisted out of it.  (Error ⇔ ¬ `acceptsE`.) -/
theorem C18_rejects (cfg : Config) (e : Expr) (n : Nat) :
    (∃ r, visitE cfg e n = .ok r) ↔ acceptsE cfg e = true :=
  acceptsE_iff cfg e n

/-- A lazy construct is never transformed: if it is accepted, it is returned unchanged and nothing is hoisted
out of it (so its operands are still evaluated lazily). -/
theorem C18_lazy_untouched (cfg : Config) (i : Nat) (isAnd : Bool) (vs : List Expr) (n : Nat) (r : Expr × List Stmt × Nat)
    (h : visitE cfg (.boolop i isAnd vs) n = .ok r) : r = (.boolop i isAnd vs, [], n) := by
  have hq : quiet cfg (.boolop i isAnd vs) = true := by
    have := (acceptsE_iff cfg (.boolop i isAnd vs) n).mp ⟨r, h⟩
    simpa [acceptsE] using this
  rw [visitE_quiet cfg _ n hq] at h
  exact (Except.ok.inj h).symm

/-- Statement level: a `while` loop is accepted only if its test needs no statement at all (it must not be
precomputed), an `assert` only if neither its test nor its message does. -/
theorem C18_rejects_while (cfg : Config) (i : Nat) (t : Expr) (b e : List Stmt) (n : Nat) (pend : List Stmt)
    (r : List Stmt × Nat × List Stmt) (h : visitS cfg (.while_ i t b e) n pend = .ok r) :
    quiet cfg t = true ∧ okChild cfg "While" "test" t = true := by
  simp only [visitS, bind_ok, Prod.exists, assert_ok] at h
  obtain ⟨_, -, t1, d1, n1, h1, h⟩ := h
  rcases hE : ensure cfg "While" "test" t1 n1 with ⟨t2, g1, n2⟩
  simp only [hE] at h
  split at h
  · simp at h
  next hnil =>
  have hnil' : d1 ++ g1 = [] := by simpa using hnil
  obtain ⟨hd, hg⟩ := List.append_eq_nil_iff.mp hnil'
  subst hd; subst hg
  have i1 := visitE_inv cfg _ _ _ _ _ h1
  have hq : quiet cfg t = true := (quiet_iff_visit_nil cfg t n).mpr ⟨t1, n1, h1⟩
  have ht1 : t1 = t := i1.same rfl
  subst ht1
  have hen := ensure_spec' i1.quiet hE
  have : t2 = t1 := hen.2.2.2 rfl
  subst this
  exact ⟨hq, hen.2.2.1⟩

theorem C18_rejects_assert (cfg : Config) (i : Nat) (t : Expr) (m : List Expr) (n : Nat) (pend : List Stmt)
    (r : List Stmt × Nat × List Stmt) (h : visitS cfg (.assert_ i t m) n pend = .ok r) :
    quiet cfg t = true ∧ quiets cfg m = true := by
  simp only [visitS, bind_ok, Prod.exists, assert_ok] at h
  obtain ⟨_, -, t1, d1, n1, h1, m1, d2, n2, h2, h⟩ := h
  rcases hE1 : ensure cfg "Assert" "test" t1 n2 with ⟨t2, g1, n3⟩
  rcases hE2 : ensureList cfg "Assert" "msg" m1 n3 with ⟨m2, g2, n4⟩
  simp only [hE1, hE2] at h
  split at h
  · simp at h
  next hnil =>
  have hnil' : d1 ++ d2 ++ g1 ++ g2 = [] := by simpa using hnil
  obtain ⟨h3, -⟩ := List.append_eq_nil_iff.mp hnil'
  obtain ⟨h4, -⟩ := List.append_eq_nil_iff.mp h3
  obtain ⟨hd1, hd2⟩ := List.append_eq_nil_iff.mp h4
  subst hd1; subst hd2
  exact ⟨(quiet_iff_visit_nil cfg t n).mpr ⟨t1, n1, h1⟩, (quiets_iff_visit_nil cfg m n1).mpr ⟨m1, n2, h2⟩⟩

/-! ## 4. Preservation of results, effects and their order

Full statement (FALSE of the pinned code, see the counterexamples below):

    theorem C18_sem : anf cfg p = .ok [q] → observe (runFn O genv q args) = observe (runFn O genv p args)

`observe` = (returned value or raised exception, ordered log of calls / stores / enter-exit events).
The transformer hoists, for a node with operands `c₁ … cₙ`, first everything nested in *all* operands, then
the operands themselves — so an operand is overtaken by what is nested in later operands.  `hazards`
(`Conv.AnfSpec`) classifies the overtakings the semantics can observe; each class is reproduced on the real
code and listed in `known_findings.d/C18.json`. -/

/-- **C18_sem_partial** — for every oracle (every behaviour of the called functions, every pure
interpretation of the operators), every configuration, every global environment and all arguments:
if `p` is a function of the fragment `fragFn cfg p` and no identifier of `p` looks like a temporary, then the
transformed function returns / raises the same value and produces the same effect log in the same order.

The fragment (`Conv.AnfSpec`: `fragFn`, `fragS`, `fragE`, `okT`) is, construct by construct, the *negation of the
finding classes*:
* statements: `v = e`, `o.a = e`, `o[i] = e`, `(a, b) = e`, chained targets — the targets need no statement
  (¬ `store_target_evaluated_before_value` / `later_target_operand_hoisted_before_earlier_store`);
  `x op= e` with `e` not rebinding `x`; expression statements; `return`; `raise e`; `assert`; `del`;
  `if`; `for` over a variable; `try`/`except`/`else`/`finally`; nested `def`; `global`/`nonlocal`;
  `pass`/`break`/`continue`;
* expressions: variables, constants, calls with positional arguments, attribute / item loads, unary / binary
  operators, single comparisons, tuple / list / set displays, `:=` (not below a node carrying an expression
  context: ¬ `walrus_target_context_clobbered_by_hoisted_copy`);
* for every node and every operand `c` (`okT`): the later operands create no statement and are hoisted only if
  `c` is — or what is left of `c` in place is pure (variables, constants, loads, operators, displays: no call, no
  `:=`) and the later operands do not rebind a variable it mentions
  (¬ `operand_effect_reordered_after_later_operand`, ¬ `name_read_reordered_after_rebinding_operand`).

Not covered (modelled and tested against CPython and the real transformer, not proved): keyword / `*` / `**`
arguments, dict displays, slices, `with`, `while`, classes, augmented assignment to attributes / items, `raise … from`,
an effectful operand overtaken by a *pure* later operand (the classifier tolerates it, `okT` does not), lazy
constructs (only accepted when untouched, `C18_lazy_untouched`). -/
theorem C18_sem_partial (O : Oracle) (cfg : Config) (p q : Stmt) (genv : Env) (args : List Val)
    (hfrag : fragFn cfg p = true) (hnt : NoTempNames p) (h : anf cfg p = .ok [q]) :
    observe (runFn O genv q args) = observe (runFn O genv p args) :=
  sem_fragFn O cfg p q genv args hfrag hnt h

/-- Expression level of `C18_sem_partial`: executing the pending statements and then evaluating what is left
in place simulates evaluating the original expression (`SimE`: same value or same exception, same effect
log, same values of all non-temporaries). -/
theorem C18_sem_expr (O : Oracle) (cfg : Config) (e : Expr) (hf : fragE e = true) (hok : okT cfg e = true)
    (hnt : ∀ y ∈ namesE e, isTempName y = false) (n : Nat) (e' : Expr) (D : List Stmt) (n' : Nat)
    (h : visitE cfg e n = .ok (e', D, n')) : SimE O e e' D :=
  simE O cfg e hf hok hnt n e' D n' h

/-! ### The hypotheses are satisfiable by a non-trivial program
`pGood`: `x = tr(1, a + b*2); for v in (tr(2), x): if v < tr(3, v): x = tr(4, x, v)`; `return tr(5, x)`. -/
example : fragFn defaultConfig pGood = true := by decide +kernel
example : (namesS pGood).all (fun x => !isTempName x) = true := by decide +kernel
example : hazS defaultConfig pGood = [] := by decide +kernel
/-- … the transformer accepts it; 5 pending assignments are flushed at the top level alone … -/
example : (match anf defaultConfig pGood with
    | .ok [.functionDef _ _ _ b _ _ _] => b.length | _ => 0) = 3 + 5 := by
  decide +kernel
/-- … and (instance of the theorem with the concrete oracle) the observation is unchanged. -/
example : sigAnf defaultConfig pGood 2 5 = sig (run pGood 2 5) := by decide +kernel

/-! `pGood2` (see `Proofs/C18Examples.lean`): `global`, nested `def`, a pure operand `O.yy` overtaken by the nested
call of a later operand, attribute / item / unpacking stores, `+=`, `assert`, `del`, `raise` — inside the fragment,
18 top-level statements after the transformation, same observation on a returning and on a raising input. -/
example : fragFn defaultConfig pGood2 = true := by decide +kernel
example : (namesS pGood2).all (fun x => !isTempName x) = true := by decide +kernel
example : hazS defaultConfig pGood2 = [] := by decide +kernel
example : (match anf defaultConfig pGood2 with
    | .ok [.functionDef _ _ _ b _ _ _] => b.length | _ => 0) = 18 := by decide +kernel
example : sigAnf defaultConfig pGood2 0 1 = sig (run pGood2 0 1)
    ∧ sig (run pGood2 0 1) = [3, 2, 1, 4, -2, -3, 5, 6, -2, 7, 12] := by decide +kernel
example : sigAnf defaultConfig pGood2 2 5 = sig (run pGood2 2 5)
    ∧ sig (run pGood2 2 5) = [3, 2, 1, 4, -2, -3, 5, 6, -2, 7, 8, -99] := by decide +kernel

/-! ### Lean-checked counterexamples to the full statement (one per reproduced defect class)
`sig` = tags of the `tr(k, …)` calls in order (stores / deletes as `-arity`), then the returned integer
(`-99` = raised); inputs `a = 0, b = 1`. -/

/-- `x = a; return x + (x := 5)` — class `name_read_reordered_after_rebinding_operand`: 5 before, 10 after. -/
example : sig (run pWalrus 0 1) = [5] ∧ sigAnf defaultConfig pWalrus 0 1 = [10]
    ∧ hazS defaultConfig pWalrus = [H_READ] := by decide +kernel

/-- `O[tr(1)] = tr(2)` — class `store_target_evaluated_before_value`: calls 2,1 before and 1,2 after. -/
example : sig (run pStore 0 1) = [2, 1, -3, 0] ∧ sigAnf defaultConfig pStore 0 1 = [1, 2, -3, 0]
    ∧ hazS defaultConfig pStore = [H_STORE] := by decide +kernel

/-- `tr(1, tr(2), tr(3, tr(4)))` — class `operand_effect_reordered_after_later_operand`. -/
example : sig (run pSibling 0 1) = [2, 4, 3, 1, 10] ∧ sigAnf defaultConfig pSibling 0 1 = [4, 2, 3, 1, 10]
    ∧ hazS defaultConfig pSibling = [H_OPERAND] := by decide +kernel

/-- `{tr(2): tr(3), tr(4): tr(5)}` — class `dict_value_reordered_after_later_key`. -/
example : sig (run pDict 0 1) = [2, 3, 4, 5, 1, 6] ∧ sigAnf defaultConfig pDict 0 1 = [2, 4, 3, 5, 1, 6]
    ∧ hazS defaultConfig pDict = [H_DICT] := by decide +kernel

/-- `tmp_1001 = a + 7; return tr(1, tr(2, b), tmp_1001)` — class `user_name_has_temporary_form`: the user's
variable is overwritten by the first temporary (so `C18_temps` needs `NoTempNames`). -/
example : sig (run pTempName 0 1) = [2, 1, 6] ∧ sigAnf defaultConfig pTempName 0 1 = [2, 1, 1]
    ∧ hazS defaultConfig pTempName = [] ∧ "tmp_1001" ∈ namesS pTempName ∧ isTempName "tmp_1001" = true := by
  refine ⟨by decide +kernel, by decide +kernel, by decide +kernel, by decide +kernel, ?_⟩
  have h : tmpName 0 = "tmp_1001" := by decide +kernel
  rw [← h]; exact isTempName_tmpName 0

/-- Hence the full statement is false of the model (and, by the correspondence, of the code). -/
theorem C18_sem_full_is_false :
    ¬ ∀ (p q : Stmt) (args : List Val), anf defaultConfig p = .ok [q] →
        observe (runFn stdOracle stdGlobals q args) = observe (runFn stdOracle stdGlobals p args) := by
  intro hall
  have h2 : sigAnf defaultConfig pWalrus 0 1 = [10] := by decide +kernel
  have h3 : sig (run pWalrus 0 1) = [5] := by decide +kernel
  unfold sigAnf runAnf at h2
  split at h2
  · next o ho =>
    split at ho
    · next q hq =>
      simp only [Option.some.injEq] at ho
      subst ho
      simp only [run] at h2 h3
      rw [hall pWalrus q _ hq, h3] at h2
      exact absurd h2 (by decide)
    · exact absurd ho (by simp)
  · exact absurd h2 (by decide)

end Malt.Props.C18
