import MaltModel.Proofs.C18Stmt
import MaltModel.Proofs.C18Rejects
import MaltModel.Py.SemAnfStd
/-
C18 — A-normal-form transformation preserves evaluation order and yields ANF.

Model: `Conv.Anf` (`visitE`/`visitS`/`anf`, a functional mirror of `AnfTransformer`), specification-side
predicates in `Conv.AnfSpec`, semantics `Py.SemAnf`.  Theorems are for all programs of `Py.Ast` and all
configurations (lists of edge patterns) unless a hypothesis says otherwise.
-/
namespace Malt.Props.C18
open Malt.Py Malt.Anf

private theorem anf_ok {cfg : Config} {p : Stmt} {q : List Stmt} (h : anf cfg p = .ok q) :
    ∃ n' pend', visitS cfg p 0 [] = .ok (q, n', pend') := by
  unfold anf at h
  cases hv : visitS cfg p 0 [] with
  | error e => rw [hv] at h; simp [Except.map] at h
  | ok r =>
    rw [hv] at h
    simp only [Except.map, Except.ok.injEq] at h
    obtain ⟨q', n', pend'⟩ := r
    exact ⟨n', pend', by simp at h; rw [h]⟩

/-! ## 1. The output is in A-normal form -/

/-- **C18_is_anf** — for every program and every configuration: if the transformer accepts `p`, every
statement of the result is in A-normal form for the configuration (`AnfS`): each expression position the
transformer inspects (`okChild`: call arguments/keywords/`*`/`**` operands, operator operands, attribute
bases, subscripts, display elements, `return`/`raise` operands, `if`/`for`/`with`/`while` headers, …) holds a
variable (or `...`) or is not selected by the configuration, recursively; and each generated assignment
`tmp_N = …` holds the copy of such an expression. -/
theorem C18_is_anf (cfg : Config) (p : Stmt) (q : List Stmt) (h : anf cfg p = .ok q) : AnfSs cfg q := by
  obtain ⟨n', pend', hv⟩ := anf_ok h
  exact ((visitS_inv cfg p 0 [] q n' pend' hv).anf (fun t ht => by simp at ht)).1

/-- Expression level (used by `C18_is_anf`): what a successful visit leaves in place is `quiet` — the
transformer would not touch it again — and the pending statements are `tmp_(1001+n) = …`, …,
`tmp_(1000+n') = …` in this order, each assigning an expression that is itself `quiet`. -/
theorem C18_is_anf_expr (cfg : Config) (e : Expr) (n : Nat) (e' : Expr) (D : List Stmt) (n' : Nat)
    (h : visitE cfg e n = .ok (e', D, n')) : quiet cfg e' = true ∧ HoistsOk cfg n D n' :=
  ⟨(visitE_inv cfg e n e' D n' h).quiet, (visitE_inv cfg e n e' D n' h).hoists⟩

/-- `quiet` is exactly "already in A-normal form": the transformer is the identity on it and adds nothing
(idempotence of the transformation on its own output follows with `C18_is_anf_expr`). -/
theorem C18_quiet_fixed (cfg : Config) (e : Expr) (n : Nat) :
    quiet cfg e = true ↔ visitE cfg e n = .ok (e, [], n) :=
  ⟨visitE_quiet cfg e n, fun h => (quiet_iff_visit_nil cfg e n).mpr ⟨e, n, h⟩⟩

/-! ## 2. Temporaries -/

/-- **C18_temps** (what `DummyGensym` provides) — for every program and configuration, the pending
statements created while visiting an expression assign *exactly* `tmp_(1001+n), …, tmp_(1000+n')`, once
each, in order: pairwise distinct. -/
theorem C18_temps_generated (cfg : Config) (e : Expr) (n : Nat) (e' : Expr) (D : List Stmt) (n' : Nat)
    (h : visitE cfg e n = .ok (e', D, n')) : tmpTargetsSs D = temps n n' ∧ (tmpTargetsSs D).Nodup := by
  have f := hoists_facts (visitE_inv cfg e n e' D n' h).hoists
  exact ⟨f.2.1, f.2.1 ▸ temps_nodup n n'⟩

/-- **C18_temps** — whole programs: if no identifier of `p` has the form `tmp_N` (`N ≥ 1001`), the assignments
`tmp_N = …` of the output are `tmp_1001, tmp_1002, …` in program order without gaps or repetitions (a prefix
of that sequence: pending statements left over at the very end are dropped), hence pairwise distinct, and
distinct from every identifier of `p`. -/
theorem C18_temps (cfg : Config) (p : Stmt) (q : List Stmt) (hn : NoTempNames p) (h : anf cfg p = .ok q) :
    (∃ m, tmpTargetsSs q <+: temps 0 m) ∧ (tmpTargetsSs q).Nodup ∧ ∀ t ∈ tmpTargetsSs q, t ∉ namesS p := by
  obtain ⟨n', pend', hv⟩ := anf_ok h
  have ht := (visitS_inv cfg p 0 [] q n' pend' hv).temps hn
  simp only [tmpTargetsSs, List.nil_append] at ht
  have hpre : tmpTargetsSs q <+: temps 0 n' := ⟨_, ht⟩
  refine ⟨⟨n', hpre⟩, hpre.sublist.nodup (temps_nodup 0 n'), fun t ht' hmem => ?_⟩
  have : t ∈ temps 0 n' := hpre.subset ht'
  simp only [temps, List.mem_map] at this
  obtain ⟨k, -, rfl⟩ := this
  have := hn _ hmem
  rw [isTempName_tmpName] at this
  exact Bool.noConfusion this

/-! ## 3. Rejection of constructs whose laziness cannot be preserved -/

/-- **C18_rejects** — for every expression, configuration and counter: the visit succeeds iff `acceptsE`:
no comprehension / generator expression, no chained comparison, no node kind outside the model, and every
lazy construct (`and`/`or`, conditional expression, `lambda`, `await`, `yield from`, f-string parts) is
`quiet`, i.e. nothing inside it would have to be hoisted out of it.  (Error ⇔ ¬ `acceptsE`.) -/
theorem C18_rejects (cfg : Config) (e : Expr) (n : Nat) :
    (∃ r, visitE cfg e n = .ok r) ↔ acceptsE cfg e = true :=
  acceptsE_iff cfg e n

/-- A lazy construct is never transformed: if it is accepted, it is returned unchanged and nothing is hoisted
out of it (so its operands are still evaluated lazily). -/
theorem C18_lazy_untouched (cfg : Config) (i : Nat) (isAnd : Bool) (vs : List Expr) (n : Nat) (r : Expr × List Stmt × Nat)
    (h : visitE cfg (.boolop i isAnd vs) n = .ok r) : r = (.boolop i isAnd vs, [], n) := by
  have hq : quiet cfg (.boolop i isAnd vs) = true := by
    have := (acceptsE_iff cfg (.boolop i isAnd vs) n).mp ⟨r, h⟩
    simpa [acceptsE] using this
  rw [visitE_quiet cfg _ n hq] at h
  exact (Except.ok.inj h).symm

end Malt.Props.C18
