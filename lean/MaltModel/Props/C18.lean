import MaltModel.Proofs.C18Visit
/-
C18 — A-normal-form transformation preserves evaluation order and yields ANF.  (work in progress)
-/
namespace Malt.Props.C18
open Malt.Py Malt.Anf

/-- Expression level: what a successful visit leaves in place is in A-normal form for the configuration
(`quiet`: the transformer itself would not touch it again), and the pending statements are assignments
`tmp_(1001+n) = …`, …, `tmp_(1000+n') = …` of expressions in A-normal form. -/
theorem C18_expr_is_anf (cfg : Config) (e : Expr) (n : Nat) (e' : Expr) (D : List Stmt) (n' : Nat)
    (h : visitE cfg e n = .ok (e', D, n')) : quiet cfg e' = true ∧ HoistsOk cfg n D n' :=
  ⟨(visitE_inv cfg e n e' D n' h).quiet, (visitE_inv cfg e n e' D n' h).hoists⟩

end Malt.Props.C18
