import MaltModel.Analysis.Liveness
import MaltModel.Proofs.C06Worklist
/-!
# C07 — liveness is sound: anything read later is reported live

Property theorems only.  Models: `Analysis/Dataflow.lean` (generic framework, verified checkers,
`flow_sound`), `Analysis/Worklist.lean` (model of `GraphVisitor._visit_internal`), `Analysis/Liveness.lean`
(transfer function of `liveness.Analyzer.visit_node` incl. the closure term from `DEFINED_FNS_IN`),
`Analysis/FnDefs.lean` (reaching function definitions).

Tie to /repo: the driver evaluates `isFix` / `isPostFix` (liveness, reversed edges), `isFnDefsPostFix`,
`stmtNextComplete`, `liveOutCovers`, … on the implementation's own graph, Scope sets, `Analyzer.in_/out`
and annotations on every run; the theorems say what a `true` answer implies.

Full statement (FALSE of the pinned tree, see `C07_full_false_zero_trip`, `C07_closures_full_false`):

    theorem C07 : isPostFix (rev E) V (liveFlow D) OUT IN → isPathB E V T → isReadBeforeOverwriteB T i j v →
        (direct reads ⊆ scope.read) → (closure reads are reads of reaching non-lambda local functions) →
        v ∈ OUT (node i) ∧ v ∈ IN (node (i+1))

Two hypotheses of `live_sound` fail on the pinned tree and are the finding classes:
  * `hkill` at a `for` header visited when its iterator is exhausted (the header kills the target on the exit edge):
    `forTargetKilledUnwrittenL`, class `for_target_live_across_zero_trip`;
  * `hgen` for a read made by a function nested below the reaching local function that declares the variable `nonlocal`
    (`nonlocalInReader` with `closureReadCovered = false`, class `nonlocal_declared_below_reaching_closure`; the case of
    the reaching function itself declaring it was repaired by /repo ccf3d44 and is now an instance of `C07_closures`);
    and for lambdas, which `lamba_check` skips (`readerIsLambda`, class
    `read_by_lambda_called_after_its_statement`).
-/
namespace Malt.Analysis.C07
open Malt.Analysis

/-- Verified checker (equality): the reported sets solve the liveness equations on the visited nodes (the property's
last sentence).  Orientation: edges reversed, `A = live_out`, `B = live_in`. -/
theorem C07_checker_fix (D : CfgData) (V : List Nat) (IN OUT : St Nat)
    (h : isFix (Graph.revEdges D.graph.edges) V (liveFlow D) OUT IN = true) :
    IsFix (Graph.revEdges D.graph.edges) V (liveFlow D) OUT IN := isFix_sound h

theorem C07_checker_fix_complete (D : CfgData) (V : List Nat) (IN OUT : St Nat)
    (h : IsFix (Graph.revEdges D.graph.edges) V (liveFlow D) OUT IN) :
    isFix (Graph.revEdges D.graph.edges) V (liveFlow D) OUT IN = true := isFix_complete h

theorem C07_checker_postfix (D : CfgData) (V : List Nat) (IN OUT : St Nat)
    (h : isPostFix (Graph.revEdges D.graph.edges) V (liveFlow D) OUT IN = true) :
    IsPostFix (Graph.revEdges D.graph.edges) V (liveFlow D) OUT IN := isPostFix_sound h

/-- the fixed-point equations in the property's own words: `live_out n = ⋃ live_in s`, `live_in n = gen n ∪ (live_out n − kill n)` -/
theorem C07_equations (D : CfgData) (V : List Nat) (IN OUT : St Nat)
    (h : isFix (Graph.revEdges D.graph.edges) V (liveFlow D) OUT IN = true) (n : Nat) (hn : n ∈ V) (v : Nat) :
    (v ∈ OUT n ↔ ∃ s, (n, s) ∈ D.graph.edges ∧ v ∈ IN s) ∧
    (v ∈ IN n ↔ (v ∈ (liveFlow D).gen n ∨ (v ∈ OUT n ∧ (liveFlow D).kill n v = false))) := by
  have hf := isFix_sound h
  refine ⟨?_, hf.2 n hn v⟩
  rw [hf.1 n hn v]
  constructor
  · rintro ⟨s, hs, hv⟩; exact ⟨s, (Graph.mem_revEdges _ _ _).mp hs, hv⟩
  · rintro ⟨s, hs, hv⟩; exact ⟨s, (Graph.mem_revEdges _ _ _).mpr hs, hv⟩

/-- **live_sound**, for ANY graph, visited set, gen/kill and post-fixed point. -/
theorem C07_live_sound (E : List (Nat × Nat)) (V : List Nat) (F : Flow Nat) (IN OUT : St Nat)
    (hfix : IsPostFix (Graph.revEdges E) V F OUT IN) (R : Run) (len : Nat)
    (hV : ∀ i, i ≤ len → R.node i ∈ V) (hpath : R.IsPath E len)
    (hgen : ∀ i v, i ≤ len → R.reads i v → v ∈ F.gen (R.node i))
    (hkill : ∀ i v, i ≤ len → F.kill (R.node i) v = true → R.touches i v)
    (i v j : Nat) (hj : j ≤ len) (h : R.ReadBeforeOverwrite i v j) :
    v ∈ OUT (R.node i) ∧ v ∈ IN (R.node (i + 1)) :=
  live_sound E V F IN OUT hfix R len hV hpath hgen hkill i v j hj h

/-- A walk that ends at an exit node stays inside a visited set that contains the exits and is closed under predecessors. -/
theorem C07_walk_visited (E : List (Nat × Nat)) (V : List Nat) (hc : closedUnder (Graph.revEdges E) V = true)
    (R : Run) (len : Nat) (hend : R.node len ∈ V) (hpath : R.IsPath E len) : ∀ i, i ≤ len → R.node i ∈ V := by
  intro i hi
  have := chain_in_closed hc (fun d => R.node (len - d)) 0 len (by simpa using hend)
    (fun d _ hd => by
      rw [Graph.mem_revEdges]
      have := hpath (len - (d + 1)) (by omega)
      have e : len - (d + 1) + 1 = len - d := by omega
      rwa [e] at this) (len - i) (Nat.zero_le _) (by omega)
  have e : len - (len - i) = i := by omega
  simpa [e] using this

/-- **C07_stmt_level**: `LIVE_VARS_OUT s ⊇ ⋃ live_in over stmt_next s` (checked on the real annotation, with equality) and
`stmt_next` complete (checked) give soundness at statement level. -/
theorem C07_stmt_level (E : List (Nat × Nat)) (V : List Nat) (F : Flow Nat) (IN OUT : St Nat)
    (hfix : IsPostFix (Graph.revEdges E) V F OUT IN) (R : Run) (len : Nat)
    (hV : ∀ i, i ≤ len → R.node i ∈ V) (hpath : R.IsPath E len)
    (hgen : ∀ i v, i ≤ len → R.reads i v → v ∈ F.gen (R.node i))
    (hkill : ∀ i v, i ≤ len → F.kill (R.node i) v = true → R.touches i v)
    (s : StmtData) (lo : List Nat)
    (hnext : stmtNextComplete E s = true) (hcov : liveOutCovers IN s lo = true)
    (i v j : Nat) (hj : j ≤ len)
    (hin : R.node i ∈ s.inside) (hout : R.node (i + 1) ∉ s.inside)
    (h : R.ReadBeforeOverwrite i v j) : v ∈ lo :=
  live_out_stmt_sound E V F IN OUT hfix R len hV hpath hgen hkill s lo hnext hcov i v j hj hin hout h

/-- **C07_closures_partial**: a variable read by a local function `g` while node `n` runs is generated at `n`, provided
`g`'s definition reaches `n` (next theorem), `g` is not a lambda and `v ∈ g.read − g.bound` — the last conjunct is what
fails when `g` declares `v` nonlocal. -/
theorem C07_closures_partial (D : CfgData) (n g v : Nat) (s : Scope) (hs : D.scopeOf n = some s)
    (hcov : closureReadCovered D n g v = true) : v ∈ (liveFlow D).gen n := by
  have := closureReadCovered_spec D n g v hcov
  simp [liveFlow, hs, this]

/-- the definition of a local function that ran at step `d` reaches every later step (soundness of the real
`reaching_fndefs` solution, from its checked post-fixed-point property) -/
theorem C07_fndef_reaches (D : CfgData) (V : List Nat) (FIN FOUT : St Nat)
    (hfix : IsPostFix D.graph.edges V (fnFlow D) FIN FOUT) (R : Run) (len : Nat)
    (hV : ∀ i, i ≤ len → R.node i ∈ V) (hpath : R.IsPath D.graph.edges len)
    (d j : Nat) (hdj : d < j) (hj : j ≤ len) (hdef : R.node d ∈ (fnFlow D).gen (R.node d)) :
    R.node d ∈ FIN (R.node j) :=
  fndefs_sound D V FIN FOUT hfix R.node d j hdj (fun i _ h => hV i (by omega)) (fun i _ h => hpath i (by omega)) hdef

/-- **C07_trace_partial** on the serialised real data: every hypothesis is a Bool the driver evaluates. -/
theorem C07_trace_partial (D : CfgData) (V : List Nat) (IN OUT : St Nat) (T : Trace)
    (hfix : isPostFix (Graph.revEdges D.graph.edges) V (liveFlow D) OUT IN = true)
    (hpath : isPathB D.graph.edges V T = true)
    (i j v : Nat) (hj : j < T.length)
    (hgen : liveGenOK D T j v = true)
    (hfor : forTargetKilledUnwrittenL D T i j v = false)
    (hother : otherKillUnwrittenL D T i j v = false)
    (hrbo : isReadBeforeOverwriteB T i j v = true) :
    v ∈ OUT (T.nodeAt i) ∧ v ∈ IN (T.nodeAt (i + 1)) :=
  live_trace_sound D V IN OUT T hfix hpath i j v hj hgen (liveKillOK_of_classes D T i j v hfor hother) hrbo

/-- `hgen` holds for a direct read that the activity analysis recorded (C08) … -/
theorem C07_gen_of_direct (D : CfgData) (T : Trace) (j v : Nat) (s : Scope) (hs : D.scopeOf (T.nodeAt j) = some s)
    (hr : v ∈ s.read) : liveGenOK D T j v = true := by
  simp [liveGenOK, liveFlow, hs, hr]

/-- … and for a covered closure read. -/
theorem C07_gen_of_closure (D : CfgData) (T : Trace) (j g v : Nat) (s : Scope) (hs : D.scopeOf (T.nodeAt j) = some s)
    (hcov : closureReadCovered D (T.nodeAt j) g v = true) : liveGenOK D T j v = true := by
  have := C07_closures_partial D (T.nodeAt j) g v s hs hcov
  simpa [liveGenOK] using this

/-- **C07_closures** on the serialised real data: a value that a local function reads during a later step `j` (the function,
or one enclosing it, reaches `j` according to the real `DEFINED_FNS_IN`, is not a lambda and has the variable in
`read − bound`) is live at the exit of step `i` and at the entry of step `i+1`. -/
theorem C07_closures (D : CfgData) (V : List Nat) (IN OUT : St Nat) (T : Trace)
    (hfix : isPostFix (Graph.revEdges D.graph.edges) V (liveFlow D) OUT IN = true)
    (hpath : isPathB D.graph.edges V T = true)
    (i j v g : Nat) (hj : j < T.length) (s : Scope) (hs : D.scopeOf (T.nodeAt j) = some s)
    (hcov : closureReadCovered D (T.nodeAt j) g v = true)
    (hfor : forTargetKilledUnwrittenL D T i j v = false)
    (hother : otherKillUnwrittenL D T i j v = false)
    (hrbo : isReadBeforeOverwriteB T i j v = true) :
    v ∈ OUT (T.nodeAt i) ∧ v ∈ IN (T.nodeAt (i + 1)) :=
  C07_trace_partial D V IN OUT T hfix hpath i j v hj (C07_gen_of_closure D T j g v s hs hcov) hfor hother hrbo

/-- "… and at the entry of the statement that follows": `LIVE_VARS_IN` of a statement whose entry node is the next node
contains the variable (given the checked relation `LIVE_VARS_IN(s) = live_in[entry s]`). -/
theorem C07_live_in_stmt (IN : St Nat) (s : StmtData) (e : Nat) (li : List Nat) (h : liveInOK IN s = true)
    (he : s.entry = some e) (hl : s.liveIn = some li) (v : Nat) (hv : v ∈ IN e) : v ∈ li :=
  liveInOK_mem h e li he hl v hv

/-- **worklist_fix** for liveness (`visit_reverse`): quiescent ⇒ fixed point on the visited set, which contains the exits
and is closed under predecessors. -/
theorem C07_worklist_fix (D : CfgData) (fuel : Nat) (hq : (liveRunModel D fuel).open_ = []) :
    IsFix (Graph.revEdges D.graph.edges) (liveRunModel D fuel).closed (liveFlow D) (liveRunModel D fuel).A (liveRunModel D fuel).B ∧
    closedUnder (Graph.revEdges D.graph.edges) (liveRunModel D fuel).closed = true ∧
    ∀ n, n ∈ D.exits → n ∈ (liveRunModel D fuel).closed :=
  worklist_fix (Graph.revEdges D.graph.edges) (liveFlow D) D.exits fuel hq

/-- … hence the model's own output is sound for every walk that ends at an exit. -/
theorem C07_model_sound (D : CfgData) (fuel : Nat) (hq : (liveRunModel D fuel).open_ = []) (R : Run) (len : Nat)
    (hend : R.node len ∈ D.exits) (hpath : R.IsPath D.graph.edges len)
    (hgen : ∀ i v, i ≤ len → R.reads i v → v ∈ (liveFlow D).gen (R.node i))
    (hkill : ∀ i v, i ≤ len → (liveFlow D).kill (R.node i) v = true → R.touches i v)
    (i v j : Nat) (hj : j ≤ len) (h : R.ReadBeforeOverwrite i v j) :
    v ∈ (liveRunModel D fuel).A (R.node i) ∧ v ∈ (liveRunModel D fuel).B (R.node (i + 1)) := by
  obtain ⟨hfix, hc, he⟩ := C07_worklist_fix D fuel hq
  have hV := C07_walk_visited D.graph.edges _ hc R len (he _ hend) hpath
  exact C07_live_sound _ _ _ _ _ hfix.toPostFix R len hV hpath hgen hkill i v j hj h

/-- **Termination of the work-list model** of `visit_reverse`, no hypothesis: with the fuel `liveFuel D` (`fuelBound`, computed
from the graph and the gen sets), or any larger fuel, the run reaches an empty work-list on every graph.  The bound is
exponential in the number of nodes because the algorithm is (`Proofs/C06Worklist.lean`). -/
theorem C07_worklist_terminates (D : CfgData) (fuel : Nat) (hfuel : liveFuel D ≤ fuel) : (liveRunModel D fuel).open_ = [] :=
  run_terminates (Graph.revEdges D.graph.edges) (liveFlow D) D.exits fuel hfuel

/-- **The model computes the least solution of the liveness equations**: a fixed point on its visited set (which contains the
exits and is closed under predecessors) that is below every post-fixed point over any predecessor-closed node set containing
the exits; hence independent of the iteration order (`lfp_unique`). -/
theorem C07_worklist_lfp (D : CfgData) :
    IsFix (Graph.revEdges D.graph.edges) (liveRunModel D (liveFuel D)).closed (liveFlow D)
      (liveRunModel D (liveFuel D)).A (liveRunModel D (liveFuel D)).B ∧
    closedUnder (Graph.revEdges D.graph.edges) (liveRunModel D (liveFuel D)).closed = true ∧
    (∀ n, n ∈ D.exits → n ∈ (liveRunModel D (liveFuel D)).closed) ∧
    ∀ (V' : List Nat) (OUT' IN' : St Nat), IsPostFix (Graph.revEdges D.graph.edges) V' (liveFlow D) OUT' IN' →
      (∀ n, n ∈ D.exits → n ∈ V') → closedUnder (Graph.revEdges D.graph.edges) V' = true →
      ∀ n v, (v ∈ (liveRunModel D (liveFuel D)).B n → v ∈ IN' n) ∧ (v ∈ (liveRunModel D (liveFuel D)).A n → v ∈ OUT' n) := by
  obtain ⟨h1, h2, h3⟩ := C07_worklist_fix D (liveFuel D) (C07_worklist_terminates D _ (Nat.le_refl _))
  refine ⟨h1, h2, h3, ?_⟩
  intro V' OUT' IN' hpost hexits hclosed
  exact run_below_postfix (Graph.revEdges D.graph.edges) (liveFlow D) D.exits V' OUT' IN' hpost hexits hclosed (liveFuel D)

/-- Corollary for the REAL output: `Analyzer.in_/out` accepted by the post-fixed-point checker lie above the least solution … -/
theorem C07_real_above_lfp (D : CfgData) (IN OUT : St Nat)
    (h : isPostFix (Graph.revEdges D.graph.edges) (liveRunModel D (liveFuel D)).closed (liveFlow D) OUT IN = true) :
    ∀ n v, (v ∈ (liveRunModel D (liveFuel D)).B n → v ∈ IN n) ∧ (v ∈ (liveRunModel D (liveFuel D)).A n → v ∈ OUT n) := by
  obtain ⟨_, h2, h3, h4⟩ := C07_worklist_lfp D
  exact h4 _ OUT IN (isPostFix_sound h) h3 h2

/-- … and the `isLeast` check of the driver (`model_eq`) says the real live sets ARE the least solution, node by node. -/
theorem C07_real_is_lfp (D : CfgData) (IN OUT : St Nat)
    (hA : solEqOn D.graph.nodes (liveRunModel D (liveFuel D)).A OUT = true)
    (hB : solEqOn D.graph.nodes (liveRunModel D (liveFuel D)).B IN = true) :
    ∀ n, n ∈ D.graph.nodes → SetEq ((liveRunModel D (liveFuel D)).A n) (OUT n) ∧ SetEq ((liveRunModel D (liveFuel D)).B n) (IN n) :=
  fun n hn => ⟨solEqOn_spec hA n hn, solEqOn_spec hB n hn⟩

/-! ## The pinned tree, deviation (a): `def f(xs): x = 1; for x in xs: pass; return x` with `xs = []`
(REAL graph / Scope sets / liveness `in_/out` / trace; variables 0 = xs, 1 = x; nodes 2 args, 4 `x = 1`, 9 header, 10 pass, 11 return) -/

def ztD : CfgData where
  fnId := 1
  graph := { nodes := [2, 4, 9, 10, 11], edges := [(2, 4), (4, 9), (9, 10), (9, 11), (10, 9)] }
  entry := 2
  exits := [11]
  info := [
    { id := 2, scope := some { read := [], modified := [], deleted := [], bound := [0], globals := [], nonlocals := [], params := [0], annotations := [] }, isForIter := false, forTargets := [], isFnDef := false, fnsIn := some [] },
    { id := 4, scope := some { read := [], modified := [1], deleted := [], bound := [1], globals := [], nonlocals := [], params := [], annotations := [] }, isForIter := false, forTargets := [], isFnDef := false, fnsIn := some [] },
    { id := 9, scope := some { read := [0], modified := [1], deleted := [], bound := [1], globals := [], nonlocals := [], params := [], annotations := [] }, isForIter := true, forTargets := [1], isFnDef := false, fnsIn := some [] },
    { id := 10, scope := none, isForIter := false, forTargets := [], isFnDef := false, fnsIn := some [] },
    { id := 11, scope := some { read := [1], modified := [], deleted := [], bound := [], globals := [], nonlocals := [], params := [], annotations := [] }, isForIter := false, forTargets := [], isFnDef := false, fnsIn := some [] }]
  fns := []
def ztV : List Nat := [2, 4, 9, 10, 11]
def ztIN : St Nat := solAt [(2, [0]), (4, [0]), (9, [0]), (10, [0]), (11, [1])]
def ztOUT : St Nat := solAt [(2, [0]), (4, [0]), (9, [0, 1]), (10, [0]), (11, [])]
def ztT0 : Trace :=
  [{ node := 2, reads := [], writes := [0], dels := [], fwrites := [], creads := [] },
   { node := 4, reads := [], writes := [1], dels := [], fwrites := [], creads := [] },
   { node := 9, reads := [0], writes := [], dels := [], fwrites := [], creads := [] },
   { node := 11, reads := [1], writes := [], dels := [], fwrites := [], creads := [] }]
def ztFor : StmtData := { id := 7, next := [11], prev := [4], inside := [9, 10], entry := some 9, liveOut := some [1], liveIn := some [0], definedIn := some [0, 1] }

/-- The real sets solve the equations, the zero-trip run is a path, `return x` reads `x` directly (`x ∈ scope.read`), the
value `x` holds when `x = 1` finishes (step 1) is read at step 3 with no write in between — yet `x` is not live at the exit
of `x = 1`: the full statement (without the `for`-header hypothesis) is false of the pinned tree. -/
theorem C07_full_false_zero_trip :
    ¬ (∀ (D : CfgData) (V : List Nat) (IN OUT : St Nat) (T : Trace) (i j v : Nat),
        isFix (Graph.revEdges D.graph.edges) V (liveFlow D) OUT IN = true → isPathB D.graph.edges V T = true →
        j < T.length → liveGenOK D T j v = true → isReadBeforeOverwriteB T i j v = true →
        v ∈ OUT (T.nodeAt i) ∧ v ∈ IN (T.nodeAt (i + 1))) := by
  intro h
  have := h ztD ztV ztIN ztOUT ztT0 1 3 1 (by decide) (by decide) (by decide) (by decide) (by decide)
  revert this
  decide

example : forTargetKilledUnwrittenL ztD ztT0 1 3 1 = true ∧ otherKillUnwrittenL ztD ztT0 1 3 1 = false := by decide

/-- Non-vacuity of `C07_trace_partial`: the same run, for `xs` (variable 0) live from the entry to the header. -/
example : 0 ∈ ztOUT (ztT0.nodeAt 0) ∧ 0 ∈ ztIN (ztT0.nodeAt 1) :=
  C07_trace_partial ztD ztV ztIN ztOUT ztT0 (by decide) (by decide) 0 2 0 (by decide) (by decide) (by decide) (by decide) (by decide)

/-- Non-vacuity of `C07_stmt_level`'s checked premises on the real `for` statement -/
example : stmtNextComplete ztD.graph.edges ztFor = true ∧ liveOutCovers ztIN ztFor [1] = true := by decide

example : (liveRunModel ztD 100).open_ = [] ∧ solEqOn ztD.graph.nodes (liveRunModel ztD 100).A ztOUT = true
    ∧ solEqOn ztD.graph.nodes (liveRunModel ztD 100).B ztIN = true := by decide

/-- Non-vacuity of the termination / least-solution theorems on the real graph of the first example -/
example : (liveRunModel ztD (liveFuel ztD)).open_ = [] := C07_worklist_terminates ztD _ (Nat.le_refl _)
example : solEqOn ztD.graph.nodes (liveRunModel ztD (liveFuel ztD)).A ztOUT = true ∧
    solEqOn ztD.graph.nodes (liveRunModel ztD (liveFuel ztD)).B ztIN = true := by decide
example : ∀ n v, (v ∈ (liveRunModel ztD (liveFuel ztD)).B n → v ∈ ztIN n) ∧ (v ∈ (liveRunModel ztD (liveFuel ztD)).A n → v ∈ ztOUT n) :=
  C07_real_above_lfp ztD ztIN ztOUT (by decide)

/-! ## Deviation (b), repaired by /repo ccf3d44: a reaching closure that declares the variable `nonlocal`

    def f(a, b, c):
        x = 0
        def g():
            nonlocal x
            x = x + 1
            return x
        if d():
            x = 10
            y = g()
        else:
            y = 0
        return tr(0, y)               11 natively; converted: 1 before the fix, 11 now

The closure term is now `read − (bound − nonlocals − globals)`; the former counterexample is an INSTANCE of `C07_closures`.
(REAL data of the fixed tree; variables 3 x, 4 g, 6 y; nodes 6 `x = 0`, 9 `def g`, 20 `d()`, 22 `x = 10`, 25 `y = g()`; function 9 = g.) -/

def nlD : CfgData where
  fnId := 1
  graph := { nodes := [2, 6, 9, 20, 22, 25, 29, 32], edges := [(2, 6), (6, 9), (9, 20), (20, 22), (20, 29), (22, 25), (25, 32), (29, 32)] }
  entry := 2
  exits := [32]
  info := [
    { id := 2, scope := some { read := [], modified := [], deleted := [], bound := [0, 1, 2], globals := [], nonlocals := [], params := [0, 1, 2], annotations := [] }, isForIter := false, forTargets := [], isFnDef := false, fnsIn := some [] },
    { id := 6, scope := some { read := [], modified := [3], deleted := [], bound := [3], globals := [], nonlocals := [], params := [], annotations := [] }, isForIter := false, forTargets := [], isFnDef := false, fnsIn := some [] },
    { id := 9, scope := some { read := [], modified := [4], deleted := [], bound := [4], globals := [], nonlocals := [], params := [], annotations := [] }, isForIter := false, forTargets := [], isFnDef := true, fnsIn := some [] },
    { id := 20, scope := some { read := [5], modified := [], deleted := [], bound := [], globals := [], nonlocals := [], params := [], annotations := [] }, isForIter := false, forTargets := [], isFnDef := false, fnsIn := some [9] },
    { id := 22, scope := some { read := [], modified := [3], deleted := [], bound := [3], globals := [], nonlocals := [], params := [], annotations := [] }, isForIter := false, forTargets := [], isFnDef := false, fnsIn := some [9] },
    { id := 25, scope := some { read := [4], modified := [6], deleted := [], bound := [6], globals := [], nonlocals := [], params := [], annotations := [] }, isForIter := false, forTargets := [], isFnDef := false, fnsIn := some [9] },
    { id := 29, scope := some { read := [], modified := [6], deleted := [], bound := [6], globals := [], nonlocals := [], params := [], annotations := [] }, isForIter := false, forTargets := [], isFnDef := false, fnsIn := some [9] },
    { id := 32, scope := some { read := [6, 7], modified := [], deleted := [], bound := [], globals := [], nonlocals := [], params := [], annotations := [] }, isForIter := false, forTargets := [], isFnDef := false, fnsIn := some [9] }]
  fns := [
    { id := 1, parent := 0, isLambda := false, read := [4, 5, 6, 7], bound := [0, 1, 2, 3, 4, 6], nonlocals := [], globals := [] },
    { id := 9, parent := 1, isLambda := false, read := [3], bound := [3], nonlocals := [3], globals := [] }]
def nlV : List Nat := [2, 6, 9, 20, 22, 25, 29, 32]
def nlIN : St Nat := solAt [(2, [5, 7]), (6, [5, 7]), (9, [3, 5, 7]), (20, [3, 4, 5, 7]), (22, [3, 4, 7]), (25, [3, 4, 7]), (29, [3, 7]), (32, [3, 6, 7])]
def nlOUT : St Nat := solAt [(2, [5, 7]), (6, [3, 5, 7]), (9, [3, 4, 5, 7]), (20, [3, 4, 7]), (22, [3, 4, 7]), (25, [3, 6, 7]), (29, [3, 6, 7]), (32, [])]
def nlT : Trace :=
  [{ node := 2, reads := [], writes := [0, 1, 2], dels := [], fwrites := [], creads := [] },
   { node := 6, reads := [], writes := [3], dels := [], fwrites := [], creads := [] },
   { node := 9, reads := [], writes := [4], dels := [], fwrites := [], creads := [] },
   { node := 20, reads := [5], writes := [], dels := [], fwrites := [], creads := [] },
   { node := 22, reads := [], writes := [3], dels := [], fwrites := [], creads := [] },
   { node := 25, reads := [4], writes := [6], dels := [], fwrites := [3], creads := [(9, 3)] },
   { node := 32, reads := [6, 7], writes := [], dels := [], fwrites := [], creads := [] }]

/-- the repaired witness: g's read of `x` at step 5 is covered, so `x` is live at the exit of `x = 10` (step 4) and at the entry
of `y = g()` — obtained from `C07_closures`, every hypothesis evaluated on the real data -/
example : 3 ∈ nlOUT (nlT.nodeAt 4) ∧ 3 ∈ nlIN (nlT.nodeAt 5) :=
  C07_closures nlD nlV nlIN nlOUT nlT (by decide) (by decide) 4 5 3 9 (by decide)
    { read := [4], modified := [6], deleted := [], bound := [6], globals := [], nonlocals := [], params := [], annotations := [] }
    rfl (by decide) (by decide) (by decide) (by decide)

/-! ## What is left of deviation (b): `nonlocal` declared BELOW the reaching closure

    def f(a, b, c):
        x = 0
        def g():
            def h():
                nonlocal x
                x = x + 1
                return x
            return h()
        if d():
            x = 10
            y = g()
        else:
            y = 0
        return tr(0, y)               11 natively, 1 converted (also after ccf3d44)

`g` reaches the call, but `x` is not in `g`'s read set: `Scope.finalize` hands an isolated scope's `read − bound` to its parent, and
`nonlocal x` put `x` into `h`'s bound set.  `h` itself is defined in `g`'s graph and reaches no node of `f`.
(REAL data of the fixed tree; variables 3 x, 4 g, 6 h, 7 y; nodes 6 `x = 0`, 9 `def g`, 25 `d()`, 27 `x = 10`, 30 `y = g()`;
functions 9 = g, 11 = h.) -/

def nbD : CfgData where
  fnId := 1
  graph := { nodes := [2, 6, 9, 25, 27, 30, 34, 37], edges := [(2, 6), (6, 9), (9, 25), (25, 27), (25, 34), (27, 30), (30, 37), (34, 37)] }
  entry := 2
  exits := [37]
  info := [
    { id := 2, scope := some { read := [], modified := [], deleted := [], bound := [0, 1, 2], globals := [], nonlocals := [], params := [0, 1, 2], annotations := [] }, isForIter := false, forTargets := [], isFnDef := false, fnsIn := some [] },
    { id := 6, scope := some { read := [], modified := [3], deleted := [], bound := [3], globals := [], nonlocals := [], params := [], annotations := [] }, isForIter := false, forTargets := [], isFnDef := false, fnsIn := some [] },
    { id := 9, scope := some { read := [], modified := [4], deleted := [], bound := [4], globals := [], nonlocals := [], params := [], annotations := [] }, isForIter := false, forTargets := [], isFnDef := true, fnsIn := some [] },
    { id := 25, scope := some { read := [5], modified := [], deleted := [], bound := [], globals := [], nonlocals := [], params := [], annotations := [] }, isForIter := false, forTargets := [], isFnDef := false, fnsIn := some [9] },
    { id := 27, scope := some { read := [], modified := [3], deleted := [], bound := [3], globals := [], nonlocals := [], params := [], annotations := [] }, isForIter := false, forTargets := [], isFnDef := false, fnsIn := some [9] },
    { id := 30, scope := some { read := [4], modified := [7], deleted := [], bound := [7], globals := [], nonlocals := [], params := [], annotations := [] }, isForIter := false, forTargets := [], isFnDef := false, fnsIn := some [9] },
    { id := 34, scope := some { read := [], modified := [7], deleted := [], bound := [7], globals := [], nonlocals := [], params := [], annotations := [] }, isForIter := false, forTargets := [], isFnDef := false, fnsIn := some [9] },
    { id := 37, scope := some { read := [7, 8], modified := [], deleted := [], bound := [], globals := [], nonlocals := [], params := [], annotations := [] }, isForIter := false, forTargets := [], isFnDef := false, fnsIn := some [9] }]
  fns := [
    { id := 1, parent := 0, isLambda := false, read := [4, 5, 7, 8], bound := [0, 1, 2, 3, 4, 7], nonlocals := [], globals := [] },
    { id := 9, parent := 1, isLambda := false, read := [6], bound := [6], nonlocals := [], globals := [] },
    { id := 11, parent := 9, isLambda := false, read := [3], bound := [3], nonlocals := [3], globals := [] }]
def nbV : List Nat := [2, 6, 9, 25, 27, 30, 34, 37]
def nbIN : St Nat := solAt [(2, [5, 8]), (6, [5, 8]), (9, [5, 8]), (25, [4, 5, 8]), (27, [4, 8]), (30, [4, 8]), (34, [8]), (37, [7, 8])]
def nbOUT : St Nat := solAt [(2, [5, 8]), (6, [5, 8]), (9, [4, 5, 8]), (25, [4, 8]), (27, [4, 8]), (30, [7, 8]), (34, [7, 8]), (37, [])]
def nbT : Trace :=
  [{ node := 2, reads := [], writes := [0, 1, 2], dels := [], fwrites := [], creads := [] },
   { node := 6, reads := [], writes := [3], dels := [], fwrites := [], creads := [] },
   { node := 9, reads := [], writes := [4], dels := [], fwrites := [], creads := [] },
   { node := 25, reads := [5], writes := [], dels := [], fwrites := [], creads := [] },
   { node := 27, reads := [], writes := [3], dels := [], fwrites := [], creads := [] },
   { node := 30, reads := [4], writes := [7], dels := [], fwrites := [3], creads := [(11, 3)] },
   { node := 37, reads := [7, 8], writes := [], dels := [], fwrites := [], creads := [] }]

/-- a read by a function nested (at any depth) in a reaching, non-lambda local function -/
def closureReadsNested (D : CfgData) (T : Trace) (j v : Nat) : Bool :=
  match T[j]? with
  | some s => s.creads.any (fun c => c.2 == v &&
      onChain D (fun h => (D.fnsIn s.node).contains h && !readerIsLambda D h) (D.fns.length + 1) c.1)
  | none => false

/-- The closure clause for readers nested below the reaching function is false of the tree as it is now: `x = 10` (step 4)
finishes, the next statement calls `g`, whose inner function `h` reads that value of `x`; the real sets are a fixed point, the
run is a path — and `x` is neither live at the exit of `x = 10` nor at the entry of `y = g()`. -/
theorem C07_closures_full_false :
    ¬ (∀ (D : CfgData) (V : List Nat) (IN OUT : St Nat) (T : Trace) (i j v : Nat),
        isFix (Graph.revEdges D.graph.edges) V (liveFlow D) OUT IN = true → isPathB D.graph.edges V T = true →
        j < T.length → closureReadsNested D T j v = true → isReadBeforeOverwriteB T i j v = true →
        v ∈ OUT (T.nodeAt i) ∧ v ∈ IN (T.nodeAt (i + 1))) := by
  intro h
  have := h nbD nbV nbIN nbOUT nbT 4 5 3 (by decide) (by decide) (by decide) (by decide) (by decide)
  revert this
  decide

/-- the counterexample is exactly in the class the partial theorem assumes away: not covered, and a function on the reader's
lexical chain declares the variable nonlocal -/
example : closureReadCovered nbD 30 11 3 = false ∧ nonlocalInReader nbD 11 3 = true ∧ readerIsLambda nbD 11 = false
    ∧ forTargetKilledUnwrittenL nbD nbT 4 5 3 = false ∧ otherKillUnwrittenL nbD nbT 4 5 3 = false := by decide

/-! ## The pinned tree, deviation (c): a lambda called after its statement

    def f(a, b, c):
        x = 1
        k = lambda: x
        if d():
            x = 2
        return tr(0, k())            2 natively, 1 converted

(REAL data; variables 3 x, 4 k, 5 d, 6 tr; nodes 2 args, 6 `x = 1`, 11 the lambda expression, 9 `k = …`, 15 `d()`, 17 `x = 2`, 20 return;
function 11 = the lambda, reaching every later node, read = {x}, bound = ∅ — but `lamba_check` skips lambdas) -/

def llD : CfgData where
  fnId := 1
  graph := { nodes := [2, 6, 9, 11, 15, 17, 20], edges := [(2, 6), (6, 11), (9, 15), (11, 9), (15, 17), (15, 20), (17, 20)] }
  entry := 2
  exits := [20]
  info := [
    { id := 2, scope := some { read := [], modified := [], deleted := [], bound := [0, 1, 2], globals := [], nonlocals := [], params := [0, 1, 2], annotations := [] }, isForIter := false, forTargets := [], isFnDef := false, fnsIn := some [] },
    { id := 6, scope := some { read := [], modified := [3], deleted := [], bound := [3], globals := [], nonlocals := [], params := [], annotations := [] }, isForIter := false, forTargets := [], isFnDef := false, fnsIn := some [] },
    { id := 9, scope := some { read := [3], modified := [4], deleted := [], bound := [4], globals := [], nonlocals := [], params := [], annotations := [] }, isForIter := false, forTargets := [], isFnDef := false, fnsIn := some [11] },
    { id := 11, scope := some { read := [], modified := [], deleted := [], bound := [], globals := [], nonlocals := [], params := [], annotations := [] }, isForIter := false, forTargets := [], isFnDef := true, fnsIn := some [] },
    { id := 15, scope := some { read := [5], modified := [], deleted := [], bound := [], globals := [], nonlocals := [], params := [], annotations := [] }, isForIter := false, forTargets := [], isFnDef := false, fnsIn := some [11] },
    { id := 17, scope := some { read := [], modified := [3], deleted := [], bound := [3], globals := [], nonlocals := [], params := [], annotations := [] }, isForIter := false, forTargets := [], isFnDef := false, fnsIn := some [11] },
    { id := 20, scope := some { read := [4, 6], modified := [], deleted := [], bound := [], globals := [], nonlocals := [], params := [], annotations := [] }, isForIter := false, forTargets := [], isFnDef := false, fnsIn := some [11] }]
  fns := [
    { id := 1, parent := 0, isLambda := false, read := [3, 4, 5, 6], bound := [0, 1, 2, 3, 4], nonlocals := [], globals := [] },
    { id := 11, parent := 1, isLambda := true, read := [3], bound := [], nonlocals := [], globals := [] }]
def llV : List Nat := [2, 6, 9, 11, 15, 17, 20]
def llIN : St Nat := solAt [(2, [5, 6]), (6, [5, 6]), (9, [3, 5, 6]), (11, [3, 5, 6]), (15, [4, 5, 6]), (17, [4, 6]), (20, [4, 6])]
def llOUT : St Nat := solAt [(2, [5, 6]), (6, [3, 5, 6]), (9, [4, 5, 6]), (11, [3, 5, 6]), (15, [4, 6]), (17, [4, 6]), (20, [])]
def llT : Trace :=
  [{ node := 2, reads := [], writes := [0, 1, 2], dels := [], fwrites := [], creads := [] },
   { node := 6, reads := [], writes := [3], dels := [], fwrites := [], creads := [] },
   { node := 11, reads := [], writes := [], dels := [], fwrites := [], creads := [] },
   { node := 9, reads := [], writes := [4], dels := [], fwrites := [], creads := [] },
   { node := 15, reads := [5], writes := [], dels := [], fwrites := [], creads := [] },
   { node := 17, reads := [], writes := [3], dels := [], fwrites := [], creads := [] },
   { node := 20, reads := [4, 6], writes := [], dels := [], fwrites := [], creads := [(11, 3)] }]

/-- a closure read by a reaching local function, lambdas included, that really reads the variable and does not bind it -/
def closureReadsAny (D : CfgData) (T : Trace) (j v : Nat) : Bool :=
  match T[j]? with
  | some s => s.creads.any (fun c => c.2 == v && (D.fnsIn s.node).contains c.1 &&
      (match D.fnOf c.1 with | some fi => fi.read.contains v && !fi.bound.contains v | none => false))
  | none => false

/-- The closure clause with lambdas counted as local functions is false of the pinned tree: `x = 2` (step 5) finishes, the `return`
statement calls the lambda, which reads that value — `x` is not live at the exit of `x = 2`. -/
theorem C07_lambda_full_false :
    ¬ (∀ (D : CfgData) (V : List Nat) (IN OUT : St Nat) (T : Trace) (i j v : Nat),
        isFix (Graph.revEdges D.graph.edges) V (liveFlow D) OUT IN = true → isPathB D.graph.edges V T = true →
        j < T.length → closureReadsAny D T j v = true → isReadBeforeOverwriteB T i j v = true →
        v ∈ OUT (T.nodeAt i) ∧ v ∈ IN (T.nodeAt (i + 1))) := by
  intro h
  have := h llD llV llIN llOUT llT 5 6 3 (by decide) (by decide) (by decide) (by decide) (by decide)
  revert this
  decide

example : closureReadCovered llD 20 11 3 = false ∧ readerIsLambda llD 11 = true ∧ nonlocalInReader llD 11 3 = false := by decide

/-! ## The pinned tree, deviation (d): the expression of `except <type>:` is read by no CFG node

    def f(a, b, c):
        exc = E1
        if d():
            exc = E2
        try:
            raise E2(tr(1))
        except exc:
            return tr(0, 1)
        return tr(0, 0)               1 natively; converted: E2 propagates

(REAL data; variables 3 E1, 4 exc, 5 d, 6 E2, 7 tr; nodes 2 args, 6 `exc = E1`, 10 `d()`, 12 `exc = E2`, 16 raise, 24 / 29 returns).
While the raised exception is matched (still step 4, the `raise` node) `exc` is read; no node's Scope records that read. -/

def etD : CfgData where
  fnId := 1
  graph := { nodes := [2, 6, 10, 12, 16, 24, 29], edges := [(2, 6), (6, 10), (10, 12), (10, 16), (12, 16), (16, 24), (16, 29)] }
  entry := 2
  exits := [16, 24, 29]
  info := [
    { id := 2, scope := some { read := [], modified := [], deleted := [], bound := [0, 1, 2], globals := [], nonlocals := [], params := [0, 1, 2], annotations := [] }, isForIter := false, forTargets := [], isFnDef := false, fnsIn := some [] },
    { id := 6, scope := some { read := [3], modified := [4], deleted := [], bound := [4], globals := [], nonlocals := [], params := [], annotations := [] }, isForIter := false, forTargets := [], isFnDef := false, fnsIn := some [] },
    { id := 10, scope := some { read := [5], modified := [], deleted := [], bound := [], globals := [], nonlocals := [], params := [], annotations := [] }, isForIter := false, forTargets := [], isFnDef := false, fnsIn := some [] },
    { id := 12, scope := some { read := [6], modified := [4], deleted := [], bound := [4], globals := [], nonlocals := [], params := [], annotations := [] }, isForIter := false, forTargets := [], isFnDef := false, fnsIn := some [] },
    { id := 16, scope := some { read := [6, 7], modified := [], deleted := [], bound := [], globals := [], nonlocals := [], params := [], annotations := [] }, isForIter := false, forTargets := [], isFnDef := false, fnsIn := some [] },
    { id := 24, scope := some { read := [7], modified := [], deleted := [], bound := [], globals := [], nonlocals := [], params := [], annotations := [] }, isForIter := false, forTargets := [], isFnDef := false, fnsIn := some [] },
    { id := 29, scope := some { read := [7], modified := [], deleted := [], bound := [], globals := [], nonlocals := [], params := [], annotations := [] }, isForIter := false, forTargets := [], isFnDef := false, fnsIn := some [] }]
  fns := [
    { id := 1, parent := 0, isLambda := false, read := [3, 4, 5, 6, 7], bound := [0, 1, 2, 4], nonlocals := [], globals := [] }]
def etV : List Nat := [2, 6, 10, 12, 16, 24, 29]
def etIN : St Nat := solAt [(2, [3, 5, 6, 7]), (6, [3, 5, 6, 7]), (10, [5, 6, 7]), (12, [6, 7]), (16, [6, 7]), (24, [7]), (29, [7])]
def etOUT : St Nat := solAt [(2, [3, 5, 6, 7]), (6, [5, 6, 7]), (10, [6, 7]), (12, [6, 7]), (16, [7]), (24, []), (29, [])]
def etT : Trace :=
  [{ node := 2, reads := [], writes := [0, 1, 2], dels := [], fwrites := [], creads := [] },
   { node := 6, reads := [3], writes := [4], dels := [], fwrites := [], creads := [] },
   { node := 10, reads := [5], writes := [], dels := [], fwrites := [], creads := [] },
   { node := 12, reads := [6], writes := [4], dels := [], fwrites := [], creads := [] },
   { node := 16, reads := [4, 6, 7], writes := [], dels := [], fwrites := [], creads := [] },
   { node := 24, reads := [7], writes := [], dels := [], fwrites := [], creads := [] }]

def directRead (T : Trace) (j v : Nat) : Bool := match T[j]? with | some s => s.reads.contains v | none => false

/-- With "the step reads `v` directly" in place of `liveGenOK` (i.e. without property C08's `actual reads ⊆ scope.read`) the
statement is false of the pinned tree. -/
theorem C07_direct_read_full_false :
    ¬ (∀ (D : CfgData) (V : List Nat) (IN OUT : St Nat) (T : Trace) (i j v : Nat),
        isFix (Graph.revEdges D.graph.edges) V (liveFlow D) OUT IN = true → isPathB D.graph.edges V T = true →
        j < T.length → directRead T j v = true → isReadBeforeOverwriteB T i j v = true →
        v ∈ OUT (T.nodeAt i) ∧ v ∈ IN (T.nodeAt (i + 1))) := by
  intro h
  have := h etD etV etIN etOUT etT 3 4 4 (by decide) (by decide) (by decide) (by decide) (by decide)
  revert this
  decide

example : liveGenOK etD etT 4 4 = false ∧ forTargetKilledUnwrittenL etD etT 3 4 4 = false := by decide

/-! ## The pinned tree, deviation (e): the body of a class statement is read by no CFG node's Scope

    def f(a, b, c):
        v = [a, b]
        if d():
            v = [tr(1, c), 4]
        class K(object):
            z = v
        r = K.z
        return tr(0, r)               [3, 4] natively, [1, 2] converted

The `ClassDef` CFG node carries only the decorators / bases in its Scope; the reads of the class body go to the enclosing block's
Scope and to no node.  (REAL data; variables 3 v, 7 K; nodes 6 `v = …`, 12 `d()`, 14 `v = [tr(1, c), 4]`, 22 the class statement.) -/

def cbD : CfgData where
  fnId := 1
  graph := { nodes := [2, 6, 12, 14, 22, 27, 31], edges := [(2, 6), (6, 12), (12, 14), (12, 22), (14, 22), (22, 27), (27, 31)] }
  entry := 2
  exits := [31]
  info := [
    { id := 2, scope := some { read := [], modified := [], deleted := [], bound := [0, 1, 2], globals := [], nonlocals := [], params := [0, 1, 2], annotations := [] }, isForIter := false, forTargets := [], isFnDef := false, fnsIn := some [] },
    { id := 6, scope := some { read := [0, 1], modified := [3], deleted := [], bound := [3], globals := [], nonlocals := [], params := [], annotations := [] }, isForIter := false, forTargets := [], isFnDef := false, fnsIn := some [] },
    { id := 12, scope := some { read := [4], modified := [], deleted := [], bound := [], globals := [], nonlocals := [], params := [], annotations := [] }, isForIter := false, forTargets := [], isFnDef := false, fnsIn := some [] },
    { id := 14, scope := some { read := [2, 5], modified := [3], deleted := [], bound := [3], globals := [], nonlocals := [], params := [], annotations := [] }, isForIter := false, forTargets := [], isFnDef := false, fnsIn := some [] },
    { id := 22, scope := some { read := [6], modified := [7], deleted := [], bound := [7], globals := [], nonlocals := [], params := [], annotations := [] }, isForIter := false, forTargets := [], isFnDef := false, fnsIn := some [] },
    { id := 27, scope := some { read := [7, 8], modified := [9], deleted := [], bound := [9], globals := [], nonlocals := [], params := [], annotations := [] }, isForIter := false, forTargets := [], isFnDef := false, fnsIn := some [] },
    { id := 31, scope := some { read := [5, 9], modified := [], deleted := [], bound := [], globals := [], nonlocals := [], params := [], annotations := [] }, isForIter := false, forTargets := [], isFnDef := false, fnsIn := some [] }]
  fns := [
    { id := 1, parent := 0, isLambda := false, read := [0, 1, 2, 3, 4, 5, 6, 7, 8, 9], bound := [0, 1, 2, 3, 7, 9], nonlocals := [], globals := [] }]
def cbV : List Nat := [2, 6, 12, 14, 22, 27, 31]
def cbIN : St Nat := solAt [(2, [0, 1, 2, 4, 5, 6, 8]), (6, [0, 1, 2, 4, 5, 6, 8]), (12, [2, 4, 5, 6, 8]), (14, [2, 5, 6, 8]), (22, [5, 6, 8]), (27, [5, 7, 8]), (31, [5, 9])]
def cbOUT : St Nat := solAt [(2, [0, 1, 2, 4, 5, 6, 8]), (6, [2, 4, 5, 6, 8]), (12, [2, 5, 6, 8]), (14, [5, 6, 8]), (22, [5, 7, 8]), (27, [5, 9]), (31, [])]
def cbT : Trace :=
  [{ node := 2, reads := [], writes := [0, 1, 2], dels := [], fwrites := [], creads := [] },
   { node := 6, reads := [0, 1], writes := [3], dels := [], fwrites := [], creads := [] },
   { node := 12, reads := [4], writes := [], dels := [], fwrites := [], creads := [] },
   { node := 14, reads := [2, 5], writes := [3], dels := [], fwrites := [], creads := [] },
   { node := 22, reads := [3, 6], writes := [7], dels := [], fwrites := [], creads := [] },
   { node := 27, reads := [7], writes := [9], dels := [], fwrites := [], creads := [] },
   { node := 31, reads := [5, 9], writes := [], dels := [], fwrites := [], creads := [] }]

/-- same shape as `C07_direct_read_full_false`: the class statement (step 4) reads `v` directly, nothing overwrites it after
`v = [tr(1, c), 4]` (step 3), the real sets are a fixed point and the run is a path — `v` is not live at the exit of step 3. -/
theorem C07_class_body_counterexample :
    isFix (Graph.revEdges cbD.graph.edges) cbV (liveFlow cbD) cbOUT cbIN = true ∧ isPathB cbD.graph.edges cbV cbT = true ∧
    directRead cbT 4 3 = true ∧ isReadBeforeOverwriteB cbT 3 4 3 = true ∧ liveGenOK cbD cbT 4 3 = false ∧
    3 ∉ cbOUT (cbT.nodeAt 3) ∧ 3 ∉ cbIN (cbT.nodeAt 4) := by decide

/-! ## The pinned tree, deviation (f): a sibling local function defined AFTER the running one

    def f(a, b, c):
        y = b
        def g(p):
            nonlocal y
            y = tr(1, p)
            r = h()            # h reads y
            return r
        def h():
            return tr(2, y)
        w = g(a)
        return tr(0, w)

This is the graph of the NESTED function `g` (function 9).  `reaching_fndefs` seeds a nested graph with the function definitions
that reach its `def` statement; `h` (function 25) is defined later — though before `g` is called — so it is in no
`DEFINED_FNS_IN` of `g`, and `y` is dead after `y = tr(1, p)` although the next statement's call reads it.  (control_flow keeps
every `nonlocal` name in the loop / branch state regardless of liveness, so no conversion result is known to change.)
(REAL data; variables 3 y, 5 p, 6 h, 7 r, 8 tr; nodes 10 args, 12 `nonlocal y`, 13 `y = tr(1, p)`, 19 `r = h()`, 23 return.) -/

def odD : CfgData where
  fnId := 9
  graph := { nodes := [10, 12, 13, 19, 23], edges := [(10, 12), (12, 13), (13, 19), (19, 23)] }
  entry := 10
  exits := [23]
  info := [
    { id := 10, scope := some { read := [], modified := [], deleted := [], bound := [5], globals := [], nonlocals := [], params := [5], annotations := [] }, isForIter := false, forTargets := [], isFnDef := false, fnsIn := some [] },
    { id := 12, scope := some { read := [3], modified := [], deleted := [], bound := [3], globals := [], nonlocals := [3], params := [], annotations := [] }, isForIter := false, forTargets := [], isFnDef := false, fnsIn := some [] },
    { id := 13, scope := some { read := [5, 7], modified := [3], deleted := [], bound := [3], globals := [], nonlocals := [], params := [], annotations := [] }, isForIter := false, forTargets := [], isFnDef := false, fnsIn := some [] },
    { id := 19, scope := some { read := [6], modified := [8], deleted := [], bound := [8], globals := [], nonlocals := [], params := [], annotations := [] }, isForIter := false, forTargets := [], isFnDef := false, fnsIn := some [] },
    { id := 23, scope := some { read := [8], modified := [], deleted := [], bound := [], globals := [], nonlocals := [], params := [], annotations := [] }, isForIter := false, forTargets := [], isFnDef := false, fnsIn := some [] }]
  fns := [
    { id := 1, parent := 0, isLambda := false, read := [1, 2, 3, 4, 6, 7, 9], bound := [0, 1, 2, 3, 4, 5, 6, 9], nonlocals := [], globals := [] },
    { id := 9, parent := 1, isLambda := false, read := [3, 5, 6, 7, 8], bound := [3, 5, 8], nonlocals := [3], globals := [] },
    { id := 25, parent := 1, isLambda := false, read := [3, 7], bound := [], nonlocals := [], globals := [] }]
def odV : List Nat := [10, 12, 13, 19, 23]
def odIN : St Nat := solAt [(10, [3, 5, 6, 7]), (12, [3, 5, 6, 7]), (13, [5, 6, 7]), (19, [6]), (23, [8])]
def odOUT : St Nat := solAt [(10, [3, 5, 6, 7]), (12, [5, 6, 7]), (13, [6]), (19, [8]), (23, [])]
def odT : Trace :=
  [{ node := 10, reads := [], writes := [5], dels := [], fwrites := [], creads := [] },
   { node := 12, reads := [], writes := [], dels := [], fwrites := [], creads := [] },
   { node := 13, reads := [5, 7], writes := [3], dels := [], fwrites := [], creads := [] },
   { node := 19, reads := [6], writes := [8], dels := [], fwrites := [], creads := [(25, 3), (25, 7)] },
   { node := 23, reads := [8], writes := [], dels := [], fwrites := [], creads := [] }]

/-- a read, during the step, by a local function that is not nested in the analysed one (a sibling / outer function it calls) -/
def outsideReads (D : CfgData) (T : Trace) (j v : Nat) : Bool :=
  match T[j]? with
  | some s => s.creads.any (fun c => c.2 == v && !nestedInAnalysed D (D.fns.length + 1) c.1 && !readerIsLambda D c.1 &&
      (match D.fnOf c.1 with | some fi => fi.read.contains v && !fi.ownBound v | none => false))
  | none => false

/-- The closure clause for sibling / outer local functions is false of the tree as it is: all checkers accept the real data of
`g`'s graph, the run is a path, `h` reads `y` at step 3 with no write since `y = tr(1, p)` (step 2) — `y` is not live there. -/
theorem C07_outer_function_full_false :
    ¬ (∀ (D : CfgData) (V : List Nat) (IN OUT : St Nat) (T : Trace) (i j v : Nat),
        isFix (Graph.revEdges D.graph.edges) V (liveFlow D) OUT IN = true → isPathB D.graph.edges V T = true →
        j < T.length → outsideReads D T j v = true → isReadBeforeOverwriteB T i j v = true →
        v ∈ OUT (T.nodeAt i) ∧ v ∈ IN (T.nodeAt (i + 1))) := by
  intro h
  have := h odD odV odIN odOUT odT 2 3 3 (by decide) (by decide) (by decide) (by decide) (by decide)
  revert this
  decide

example : closureReadCovered odD 19 25 3 = false ∧ readerOutsideNotSeeded odD 25 = true ∧ readerIsLambda odD 25 = false
    ∧ nonlocalInReader odD 25 3 = false := by decide

end Malt.Analysis.C07
