import MaltModel.Proofs.C01Exprs
import MaltModel.Proofs.C01ExprsStmt
import MaltModel.Proofs.C01ExprsTarget
import MaltModel.Sem.Operators
/-
C01, expression part — the expression wrappers are transparent under the default operators.

`expr_wrappers_correct_partial`: for EVERY expression of `Malt.SemW` (lazy `and`/`or`/`not`, conditional
expressions, arithmetic and comparisons, comparison chains, external calls with positional and starred
arguments) and every state, the converted expression evaluates to the same value or exception, with the
same effect log and the same final environment:  `evalW X (wrap eqOn e) σ = evalW X e σ`.
Laziness is preserved (the right operand of `and_`/`or_`, the branches of `if_exp` are thunks evaluated
iff Python would evaluate them), the evaluation order of call arguments is preserved by the
`(a, b) + tuple(c) + (d,)` packing (`packOf_sem`), `ld` is transparent.

The hypothesis `chainsOk` (middle operands of comparison chains are call-free) is needed because
`logical_expressions.visit_Compare` re-uses the comparator node as the next left operand: the full
statement is false (`expr_wrappers_counterexample`), C01 finding
`chained_comparison_effectful_middle_operand`.
-/
namespace Malt.C01Exprs
open Malt.Sem (Name Val BinOp Exc Event St Ext truthy ofBool evalBin)
open Malt.SemW

/-- **The packing of call arguments preserves evaluation order, effects and values**: evaluating the tuple
expression `(a, b) + tuple(c) + (d,)` built by `_ArgTemplateBuilder` is evaluating `a, b, *c, d` left to right. -/
theorem call_args_packing_correct (X : Ext) (args : List Expr) (σ : St) :
    evalPack X (packOf args) σ = evalArgs X args σ := packOf_sem X args σ

/-- **Expression wrappers are transparent** (C01, expression part; `_partial`: hypothesis `chainsOk`).
Under the default operators and a non-converting call policy, the converted expression yields the same
value or exception, the same effect log (same calls, same argument values, same order) and the same
environment, from every state. -/
theorem expr_wrappers_correct_partial (X : Ext) (eqOn : Bool) (e : Expr) (h : chainsOk e = true) (σ : St) :
    evalW X (wrap eqOn e) σ = evalW X e σ := wrap_sem X eqOn e h σ

/-! ### counterexample to the full statement, and non-vacuity -/
def cexX : Ext := ⟨fun _ _ _ => .int 1⟩
/-- `0 < f() < 5` -/
def cexE : Expr := .chain (.const (.int 0)) [.lt, .lt] [.call "f" [], .const (.int 5)]
def σ0 : St := ⟨fun _ => none, []⟩

/-- `visit_Compare` duplicates the middle operand: `f` is called twice (C01 finding
`chained_comparison_effectful_middle_operand`; the hypothesis `chainsOk` excludes exactly this). -/
theorem expr_wrappers_counterexample :
    ¬ (∀ (X : Ext) (eqOn : Bool) (e : Expr) (σ : St), (evalW X (wrap eqOn e) σ).2.log = (evalW X e σ).2.log) := by
  intro h
  have := h cexX false cexE σ0
  revert this
  decide

example : chainsOk cexE = false := by decide
example : (evalW cexX cexE σ0).2.log = [.call "f" []] := by decide
example : (evalW cexX (wrap false cexE) σ0).2.log = [.call "f" [], .call "f" []] := by decide

/-- a non-trivial instance of the hypothesis: `x < y <= g(*l, 2)  and  (h(1) if not x else 0)` -/
def okE : Expr :=
  .and (.chain (.var "x") [.lt, .le] [.var "y", .call "g" [.star (.var "l"), .const (.int 2)]])
       (.ite (.not (.var "x")) (.call "h" [.const (.int 1)]) (.const (.int 0)))
example : chainsOk okE = true := by decide

/-- laziness: with a falsy left operand the right operand (a call) is not evaluated, before and after -/
example : (evalW cexX (wrap false (.and (.const (.int 0)) (.call "f" []))) σ0).2.log = [] := by decide
example : (evalW cexX (.and (.const (.int 0)) (.call "f" [])) σ0).2.log = [] := by decide

/-! ### `Malt.Sem` expressions: no hypothesis at all -/
/-- **For ALL expressions of the shared semantic language `Malt.Sem`** (lazy and/or/not, conditional
expressions, arithmetic and comparisons, external calls), every oracle `X` and every state: the converted
expression — `ld` around every read, `and_`/`or_`/`if_exp` with thunks, `not_`, `eq`/`not_eq` when the
feature is on, `converted_call` with the argument tuple — evaluates exactly like the source expression
under Python semantics: same value or exception, same effect log, same environment. -/
theorem expr_wrappers_correct (X : Ext) (eqOn : Bool) (e : Malt.Sem.Expr) (σ : St) :
    evalW X (wrap eqOn (ofSem e)) σ = Malt.Sem.evalE X e σ := by
  rw [wrap_sem X eqOn (ofSem e) (chainsOk_ofSem e) σ, ofSem_eval]

/-! ## From expressions to PROGRAMS

`wrapS`/`wrapB` (Sem/WrappersStmt.lean) replace every expression of every statement of a `Malt.Sem` program by its
converted form; `execW`/`execWB` run such generated code (wrapper forms under the default operators and a
non-converting call policy, statements exactly as in `Malt.Sem`). -/

/-- **Programs**: for EVERY statement of `Malt.Sem` (assignments, `if`, `while`, `for` with the extra loop test,
`break`/`continue`/`return`/`raise`, `try`/`except`/`finally`, `with`), every fuel, oracle and state: the program
with all its expressions converted runs exactly like the source — same outcome (normal / break / continue / return
value / exception; `none` = out of fuel for the same fuel), same effect log, same environment. -/
theorem wrap_stmt_correct (X : Ext) (eqOn : Bool) (n : Nat) (s : Malt.Sem.Stmt) (σ : St) :
    execW X n (wrapS eqOn s) σ = Malt.Sem.exec X n s σ := by
  unfold execW wrapS
  rw [(gexec_map_congr_all (fun e => wrap eqOn (ofSem e)) (evalW X) (Malt.Sem.evalE X) (fun _ => true)
        (fun e _ σ => expr_wrappers_correct X eqOn e σ) n).1 (toG s) σ (gallS_true _)]
  exact ((exec_eq_gexec_all X n).1 s σ).symm

theorem wrap_block_correct (X : Ext) (eqOn : Bool) (n : Nat) (p : Malt.Sem.Block) (σ : St) :
    execWB X n (wrapB eqOn p) σ = Malt.Sem.execB X n p σ := by
  unfold execWB wrapB
  rw [(gexec_map_congr_all (fun e => wrap eqOn (ofSem e)) (evalW X) (Malt.Sem.evalE X) (fun _ => true)
        (fun e _ σ => expr_wrappers_correct X eqOn e σ) n).2.1 (toGB p) σ (gallB_true _)]
  exact ((exec_eq_gexec_all X n).2.1 p σ).symm

/-- what an observer sees (outcome + log) is preserved -/
theorem wrap_block_observe (X : Ext) (eqOn : Bool) (n : Nat) (p : Malt.Sem.Block) (σ : St) :
    (execWB X n (wrapB eqOn p) σ).map Malt.Sem.observe = (Malt.Sem.execB X n p σ).map Malt.Sem.observe := by
  rw [wrap_block_correct]

/-- Programs over `SemW.Expr` (which may contain comparison chains and starred arguments): the same, under the
hypothesis that every expression of the program is `chainsOk` (call-free middle operands; cf.
`expr_wrappers_counterexample`). -/
theorem wrap_wblock_correct_partial (X : Ext) (eqOn : Bool) (n : Nat) (p : WBlock) (h : gallB chainsOk p = true) (σ : St) :
    execWB X n (wrapWB eqOn p) σ = execWB X n p σ := by
  unfold execWB wrapWB
  exact (gexec_map_congr_all (wrap eqOn) (evalW X) (evalW X) chainsOk
        (fun e he σ => expr_wrappers_correct_partial X eqOn e he σ) n).2.1 p σ h

/-! ### … and over the functionalised target language (`Malt.Func`, native semantics `execN`) -/

/-- `ld` semantics in the target state: the converted expression, evaluated on the source-level view (placeholders
read as unbound), behaves like the source expression under `Malt.Func.evalT`. -/
theorem evalTW_wrap (X : Ext) (eqOn : Bool) (e : Malt.Sem.Expr) (σ : Malt.Func.TSt) :
    evalTW X (wrap eqOn (ofSem e)) σ = Malt.Func.evalT X e σ := by
  unfold evalTW Malt.Func.evalT
  rw [expr_wrappers_correct]

/-- **Functionalised programs**: for every `Malt.Func.TBlock` (the output of the control-flow pass: `if_stmt` /
`while_stmt` / `for_stmt` forms with their `nonlocal` lists, `Undefined` pre-assignments, pass-through `with`/`try`),
converting all its expressions leaves the native run (`_py_if_stmt`/`_py_while_stmt`/`_py_for_stmt` fallbacks, body
functions with Python's local scoping) unchanged: same outcome, same log, same slots.  Chains with
`wrap_block_correct`'s siblings: source ⟶ jump passes ⟶ functionalisation ⟶ expression wrappers. -/
theorem wrap_target_correct (X : Ext) (eqOn : Bool) (n : Nat) (p : Malt.Func.TBlock) (σ : Malt.Func.TSt) :
    execNBW X n (wrapTB eqOn p) σ = Malt.Func.execNB X n p σ := by
  unfold execNBW wrapTB
  rw [(gexecN_map_congr_all (fun e => wrap eqOn (ofSem e)) (evalTW X) (Malt.Func.evalT X) Expr.const Malt.Sem.Expr.const
        (fun _ => true) (fun e _ σ => evalTW_wrap X eqOn e σ) (fun _ => rfl) (fun _ => rfl) n).2.1 (toGTB p) σ (gallTB_true _)]
  exact ((execN_eq_gexecN_all X n).2.1 p σ).symm

theorem wrap_target_stmt_correct (X : Ext) (eqOn : Bool) (n : Nat) (s : Malt.Func.TStmt) (σ : Malt.Func.TSt) :
    execNW X n (wrapT eqOn s) σ = Malt.Func.execN X n s σ := by
  unfold execNW wrapT
  rw [(gexecN_map_congr_all (fun e => wrap eqOn (ofSem e)) (evalTW X) (Malt.Func.evalT X) Expr.const Malt.Sem.Expr.const
        (fun _ => true) (fun e _ σ => evalTW_wrap X eqOn e σ) (fun _ => rfl) (fun _ => rfl) n).1 (toGT s) σ (gallT_true _)]
  exact ((execN_eq_gexecN_all X n).1 s σ).symm

/-- a non-trivial instance: `x = 0; while x < 2: x = x + f(x)` then `return g(x) if x else 0`; the converted
program is what the theorem talks about and it really runs -/
def demoProg : Malt.Sem.Block :=
  [.assign "x" (.const (.int 0)),
   .whileS (.bin .lt (.var "x") (.const (.int 2))) [.assign "x" (.bin .add (.var "x") (.call "f" [.var "x"]))],
   .ret (some (.ite (.var "x") (.call "g" [.var "x"]) (.const (.int 0))))]

example : (execWB cexX 40 (wrapB false demoProg) σ0).map Malt.Sem.observe
    = some ⟨.ret (.int 1), [.call "f" [.int 0], .call "f" [.int 1], .call "g" [.int 2]]⟩ := by decide

/-! ## Each default operator implementation = the native construct

Over `Malt.Sem`, for ALL operand expressions (including raising and effectful ones: the statements are equalities
of computations, so an exception propagates from the same operand at the same point with the same log), every
oracle and every state.  `Ops.*` (Sem/Operators.lean) transcribes `malt/operators/*.py`. -/
section operators
open Malt.SemW.Ops
variable (X : Ext)

/-- `ag__.and_(lambda: a, lambda: b)` is `a and b`: `b` is evaluated iff `a` is truthy, after `a`. -/
theorem op_and_native (a b : Malt.Sem.Expr) :
    Ops.and_ (Malt.Sem.evalE X a) (Malt.Sem.evalE X b) = Malt.Sem.evalE X (.and a b) := by
  funext σ
  simp only [Ops.and_, Malt.Sem.evalE]
  rcases Malt.Sem.evalE X a σ with ⟨ex | v, σ1⟩ <;> rfl

theorem op_or_native (a b : Malt.Sem.Expr) :
    Ops.or_ (Malt.Sem.evalE X a) (Malt.Sem.evalE X b) = Malt.Sem.evalE X (.or a b) := by
  funext σ
  simp only [Ops.or_, Malt.Sem.evalE]
  rcases Malt.Sem.evalE X a σ with ⟨ex | v, σ1⟩ <;> rfl

/-- `ag__.not_(e)` (operand evaluated by the caller) is `not e`. -/
theorem op_not_native (e : Malt.Sem.Expr) :
    bind1 (Malt.Sem.evalE X e) (fun v => Ops.pure (Ops.not_ v)) = Malt.Sem.evalE X (.not e) := by
  funext σ
  simp only [bind1, Ops.pure, Ops.not_, Malt.Sem.evalE]
  rcases Malt.Sem.evalE X e σ with ⟨ex | v, σ1⟩ <;> rfl

/-- `ag__.if_exp(c, lambda: t, lambda: e, repr)` is `t if c else e`: exactly one branch thunk is called. -/
theorem op_if_exp_native (c t e : Malt.Sem.Expr) :
    bind1 (Malt.Sem.evalE X c) (fun v => Ops.if_exp v (Malt.Sem.evalE X t) (Malt.Sem.evalE X e))
      = Malt.Sem.evalE X (.ite c t e) := by
  funext σ
  simp only [bind1, Ops.if_exp, Malt.Sem.evalE]
  rcases Malt.Sem.evalE X c σ with ⟨ex | v, σ1⟩ <;> rfl

/-- `ag__.eq(a, b)` / `ag__.not_eq(a, b)` (EQUALITY_OPERATORS) are `a == b` / `a != b`. -/
theorem op_eq_native (a b : Malt.Sem.Expr) :
    bind2 (Malt.Sem.evalE X a) (Malt.Sem.evalE X b) (fun v w => .ok (Ops.eq v w)) = Malt.Sem.evalE X (.bin .eq a b) := by
  funext σ
  simp only [bind2, Ops.eq, Malt.Sem.evalE, evalBin_eq]
  rcases Malt.Sem.evalE X a σ with ⟨ex | v, σ1⟩
  · rfl
  · simp only []
    rcases Malt.Sem.evalE X b σ1 with ⟨ex | w, σ2⟩ <;> rfl

theorem op_not_eq_native (a b : Malt.Sem.Expr) :
    bind2 (Malt.Sem.evalE X a) (Malt.Sem.evalE X b) (fun v w => .ok (Ops.not_eq v w)) = Malt.Sem.evalE X (.bin .ne a b) := by
  funext σ
  simp only [bind2, Ops.not_eq, Ops.not_, Ops.eq, Malt.Sem.evalE, evalBin_ne]
  rcases Malt.Sem.evalE X a σ with ⟨ex | v, σ1⟩
  · rfl
  · simp only []
    rcases Malt.Sem.evalE X b σ1 with ⟨ex | w, σ2⟩ <;> rfl

/-- `ag__.ld(x)` is the read of `x` (same value; NameError for an unbound name / `Undefined` placeholder). -/
theorem op_ld_native (x : Name) : Ops.ld x = Malt.Sem.evalE X (.var x) := by
  funext σ
  simp only [Ops.ld, Malt.Sem.evalE]
  cases σ.env x <;> rfl

/-- `ag__.converted_call(f, (args…), None, scope)` for an unconverted callee is `f(args…)`: arguments evaluated left
to right first (an exception in an argument propagates before the call), same result, same logged call. -/
theorem op_converted_call_native (f : Name) (args : List Malt.Sem.Expr) :
    bindL (Malt.Sem.evalArgs X args) (Ops.converted_call X f) = Malt.Sem.evalE X (.call f args) := by
  funext σ
  simp only [bindL, Ops.converted_call, Malt.Sem.evalE]
  rcases Malt.Sem.evalArgs X args σ with ⟨ex | vs, σ1⟩ <;> rfl

/-- Exceptions propagate from the same operand at the same point: if the left operand raises, `and_`/`or_` raise
the same exception in the same state and never call the right thunk (whatever it is). -/
theorem op_and_or_propagate (a : Malt.Sem.Expr) (k : Comp) (σ σ' : St) (ex : Exc)
    (h : Malt.Sem.evalE X a σ = (.error ex, σ')) :
    Ops.and_ (Malt.Sem.evalE X a) k σ = (.error ex, σ') ∧ Ops.or_ (Malt.Sem.evalE X a) k σ = (.error ex, σ') := by
  simp [Ops.and_, Ops.or_, h]

/-- laziness, explicitly: a falsy left operand of `and_` (truthy of `or_`) is returned and the right thunk is not called -/
theorem op_and_or_lazy (a : Malt.Sem.Expr) (k : Comp) (σ σ' : St) (v : Val) (h : Malt.Sem.evalE X a σ = (.ok v, σ')) :
    (truthy v = false → Ops.and_ (Malt.Sem.evalE X a) k σ = (.ok v, σ')) ∧
    (truthy v = true → Ops.or_ (Malt.Sem.evalE X a) k σ = (.ok v, σ')) := by
  constructor <;> intro hv <;> simp [Ops.and_, Ops.or_, h, hv]

/-- The wrapper forms of `Malt.SemW` mean exactly these operator applications. -/
theorem evalW_is_operator_application (a b c : Expr) (x : Name) :
    evalW X (.and_ a b) = Ops.and_ (evalW X a) (evalW X b) ∧
    evalW X (.or_ a b) = Ops.or_ (evalW X a) (evalW X b) ∧
    evalW X (.not_ a) = bind1 (evalW X a) (fun v => Ops.pure (Ops.not_ v)) ∧
    evalW X (.ifExp c a b) = bind1 (evalW X c) (fun v => Ops.if_exp v (evalW X a) (evalW X b)) ∧
    evalW X (.eq_ a b) = bind2 (evalW X a) (evalW X b) (fun v w => .ok (Ops.eq v w)) ∧
    evalW X (.notEq_ a b) = bind2 (evalW X a) (evalW X b) (fun v w => .ok (Ops.not_eq v w)) ∧
    evalW X (.ld x) = Ops.ld x := by
  refine ⟨?_, ?_, ?_, ?_, ?_, ?_, ?_⟩ <;> funext σ
  · simp only [evalW, Ops.and_]; rcases evalW X a σ with ⟨ex | v, σ1⟩ <;> rfl
  · simp only [evalW, Ops.or_]; rcases evalW X a σ with ⟨ex | v, σ1⟩ <;> rfl
  · simp only [evalW, bind1, Ops.pure, Ops.not_]; rcases evalW X a σ with ⟨ex | v, σ1⟩ <;> rfl
  · simp only [evalW, bind1, Ops.if_exp]; rcases evalW X c σ with ⟨ex | v, σ1⟩ <;> rfl
  · simp only [evalW, bind2, Ops.eq]
    rcases evalW X a σ with ⟨ex | v, σ1⟩
    · rfl
    · simp only []
      rcases evalW X b σ1 with ⟨ex | w, σ2⟩ <;> rfl
  · simp only [evalW, bind2, Ops.not_eq, Ops.not_, Ops.eq]
    rcases evalW X a σ with ⟨ex | v, σ1⟩
    · rfl
    · simp only []
      rcases evalW X b σ1 with ⟨ex | w, σ2⟩ <;> rfl
  · simp only [evalW, Ops.ld]; cases σ.env x <;> rfl

/-- LISTS, for a list held in a local or parameter (no alias): `l = ag__.list_append(l, x)` computes what
`l.append(x)` leaves in `l`, i.e. `l + [x]`; `list_pop` returns the list without its last element and that element. -/
theorem op_list_append_native (xs : List Int) (x : Int) :
    Ops.list_append (.list xs) (.int x) = evalBin .add (.list xs) (.list [x]) := rfl

theorem op_list_pop_native (xs : List Int) (x : Int) :
    Ops.list_pop (.list (xs ++ [x])) = some (.list xs, .int x) := by
  simp [Ops.list_pop]

theorem op_list_pop_after_append (xs : List Int) (x : Int) :
    (Ops.list_append (.list xs) (.int x)).toOption.bind Ops.list_pop = some (.list xs, .int x) := by
  simp [Ops.list_append, Except.toOption, Ops.list_pop]

end operators

end Malt.C01Exprs
