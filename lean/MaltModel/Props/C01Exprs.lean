import MaltModel.Proofs.C01Exprs
/-
C01, expression part — the expression wrappers are transparent under the default operators.

`expr_wrappers_correct_partial`: for EVERY expression of `Malt.SemW` (lazy `and`/`or`/`not`, conditional
expressions, arithmetic and comparisons, comparison chains, external calls with positional and starred
arguments) and every state, the converted expression evaluates to the same value or exception, with the
same effect log and the same final environment:  `evalW X (wrap eqOn e) σ = evalW X e σ`.
Laziness is preserved (the right operand of `and_`/`or_`, the branches of `if_exp` are thunks evaluated
iff Python would evaluate them), the evaluation order of call arguments is preserved by the
`(a, b) + tuple(c) + (d,)` packing (`packOf_sem`), `ld` is transparent.

The hypothesis `chainsOk` (middle operands of comparison chains are call-free) is needed because
`logical_expressions.visit_Compare` re-uses the comparator node as the next left operand: the full
statement is false (`expr_wrappers_counterexample`), C01 finding
`chained_comparison_effectful_middle_operand`.
-/
namespace Malt.C01Exprs
open Malt.Sem (Name Val BinOp Exc Event St Ext truthy ofBool evalBin)
open Malt.SemW

/-- **The packing of call arguments preserves evaluation order, effects and values**: evaluating the tuple
expression `(a, b) + tuple(c) + (d,)` built by `_ArgTemplateBuilder` is evaluating `a, b, *c, d` left to right. -/
theorem call_args_packing_correct (X : Ext) (args : List Expr) (σ : St) :
    evalPack X (packOf args) σ = evalArgs X args σ := packOf_sem X args σ

/-- **Expression wrappers are transparent** (C01, expression part; `_partial`: hypothesis `chainsOk`).
Under the default operators and a non-converting call policy, the converted expression yields the same
value or exception, the same effect log (same calls, same argument values, same order) and the same
environment, from every state. -/
theorem expr_wrappers_correct_partial (X : Ext) (eqOn : Bool) (e : Expr) (h : chainsOk e = true) (σ : St) :
    evalW X (wrap eqOn e) σ = evalW X e σ := wrap_sem X eqOn e h σ

/-! ### counterexample to the full statement, and non-vacuity -/
def cexX : Ext := ⟨fun _ _ _ => .int 1⟩
/-- `0 < f() < 5` -/
def cexE : Expr := .chain (.const (.int 0)) [.lt, .lt] [.call "f" [], .const (.int 5)]
def σ0 : St := ⟨fun _ => none, []⟩

/-- `visit_Compare` duplicates the middle operand: `f` is called twice (C01 finding
`chained_comparison_effectful_middle_operand`; the hypothesis `chainsOk` excludes exactly this). -/
theorem expr_wrappers_counterexample :
    ¬ (∀ (X : Ext) (eqOn : Bool) (e : Expr) (σ : St), (evalW X (wrap eqOn e) σ).2.log = (evalW X e σ).2.log) := by
  intro h
  have := h cexX false cexE σ0
  revert this
  decide

example : chainsOk cexE = false := by decide
example : (evalW cexX cexE σ0).2.log = [.call "f" []] := by decide
example : (evalW cexX (wrap false cexE) σ0).2.log = [.call "f" [], .call "f" []] := by decide

/-- a non-trivial instance of the hypothesis: `x < y <= g(*l, 2)  and  (h(1) if not x else 0)` -/
def okE : Expr :=
  .and (.chain (.var "x") [.lt, .le] [.var "y", .call "g" [.star (.var "l"), .const (.int 2)]])
       (.ite (.not (.var "x")) (.call "h" [.const (.int 1)]) (.const (.int 0)))
example : chainsOk okE = true := by decide

/-- laziness: with a falsy left operand the right operand (a call) is not evaluated, before and after -/
example : (evalW cexX (wrap false (.and (.const (.int 0)) (.call "f" []))) σ0).2.log = [] := by decide
example : (evalW cexX (.and (.const (.int 0)) (.call "f" [])) σ0).2.log = [] := by decide

/-! ### `Malt.Sem` expressions: no hypothesis at all -/
/-- **For ALL expressions of the shared semantic language `Malt.Sem`** (lazy and/or/not, conditional
expressions, arithmetic and comparisons, external calls), every oracle `X` and every state: the converted
expression — `ld` around every read, `and_`/`or_`/`if_exp` with thunks, `not_`, `eq`/`not_eq` when the
feature is on, `converted_call` with the argument tuple — evaluates exactly like the source expression
under Python semantics: same value or exception, same effect log, same environment. -/
theorem expr_wrappers_correct (X : Ext) (eqOn : Bool) (e : Malt.Sem.Expr) (σ : St) :
    evalW X (wrap eqOn (ofSem e)) σ = Malt.Sem.evalE X e σ := by
  rw [wrap_sem X eqOn (ofSem e) (chainsOk_ofSem e) σ, ofSem_eval]

end Malt.C01Exprs
