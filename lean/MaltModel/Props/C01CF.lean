import MaltModel.Proofs.C01CF
/-!
# C01 (control-flow functionalisation) — theorems about the model of `ControlFlowTransformer` that are not part of
the calling contract (those are in Props/C03.lean)

`cfOutput env nm root` = output of the model (`Conv/ControlFlow.lean`) on the source tree `root`, for the annotation /
directive table `env` and the namer state `nm`.  Predicates: `Conv/CFSpec.lean`.

1. `C01CF_routing` — no native `if` / `while` / `for` is left at any depth (feeds C04).
2. The generated module loads (DESIGN §4 C01, "two side obligations"):
   (b) `C01CF_params_not_declared_partial` — no function both takes a name as a parameter and declares it
       `global` / `nonlocal`; FALSE without the hypothesis (`C01CF_params_declared_counterexample`: a state variable
       called `vars_`, the hard-coded setter parameter — C11 finding `user_name_equals_hard_coded_template_identifier`);
   (a) `C01CF_nonlocals_bound_partial` — every `nonlocal x` has a binding of `x` in an enclosing function scope
       (CPython's `analyze_block` rule); FALSE for arbitrary annotation tables (`C01CF_nonlocal_unbound_counterexample`).
The hypotheses are decidable predicates on source tree + table and are evaluated on the real tables by `./check C03`.
-/
namespace Malt.Conv.CFSpec
open Malt Malt.Py Malt.Naming Malt.Conv.ControlFlow Malt.Conv.Contract

/-- **Routing.**  For every tree, table and namer state: if no statement carries `SKIP_PROCESSING`, the output contains
no native `if`, `while` or synchronous `for` statement at any depth — in the rewritten function bodies, in the generated
body / test functions, in nested `def`s and classes (expressions, lambdas included, contain no statements).  Every one
became the final statement `ag__.if_stmt/while_stmt/for_stmt(...)` of its chunk (`Props/C03.lean` describes those calls). -/
theorem C01CF_routing (env : Env) (nm : Namer) (root : Stmt) (hskip : ∀ id, env.skip id = false) :
    noNativeCFL (cfOutput env nm root) = true :=
  tStmt_routed env hskip root {} nm

/-
(b), full statement:   pdOkS root = true → pdOkL (cfOutput env nm root) = true
FALSE of the pinned code: the setter template hard-codes its parameter `vars_`; a state variable of that name is
declared `nonlocal` in the same function (CPython: "name 'vars_' is parameter and nonlocal").
-/

/-- **(b)**  No function of the output both takes a name as a parameter and declares it `global` / `nonlocal`, PROVIDED
(`pdHypS`): the source obeys the rule itself; no state tuple contains `vars_`; and every name the body function of a
`for` statement declares (its simple state variables, `glNames`/`nlNames`, and the `global`/`nonlocal` statements of the loop body) is in the reserved
set the namer receives for `itr` (by `newSymbol_fresh` the parameter `itr` then differs from all of them; the negation is
the C11 finding "bound-only user name equals a generated name"). -/
theorem C01CF_params_not_declared_partial (env : Env) (nm : Namer) (root : Stmt)
    (h : pdHypS env {} root = true) : pdOkL (cfOutput env nm root) = true :=
  tStmt_pd env root {} nm h

/-- The counterexample to the full statement of (b): the state functions generated for the state tuple `('vars_',)`. -/
theorem C01CF_params_declared_counterexample :
    pdOkL (stateFunctions ["vars_"] (nonlocalDecls {} ["vars_"]) "get_state" "set_state") = false := by
  simp [stateFunctions, nonlocalDecls, fnDef, argsOf, pdOkL, pdOkS, paramNames, argNames, declG, declN, collectL, collectS,
    gOwn, nOwn, BlockVars.isComposite]

/-
(a), full statement:   nlOkS B root = true → nlOkL B (cfOutput env nm root) = true
FALSE for arbitrary annotation tables: a table that reports a state variable as defined on entry although nothing binds
it produces `nonlocal x` without any binding of `x` (`C01CF_nonlocal_unbound_counterexample`).
-/

/-- **(a)**  With `B` = the names bound in the function scopes enclosing `root` (`[]` for a module-level function): every
`nonlocal x` of the output has a binding of `x` in an enclosing function scope, PROVIDED (`nlHypS`, recursively with
`A` = names certainly bound around the current position of the OUTPUT: what the enclosing scopes hand down minus the
names declared `global` on the way, plus parameters, plus what the statements that stay in the block bind, plus the
`x = ag__.Undefined('x')` pre-assignments emitted for the control-flow statements of the block): at every control-flow
statement the simple non-global state variables (`nlNames`) and the `nonlocal` statements inside its blocks are in `A`;
at every `def` its `nonlocal` statements are in `A`; skipped statements obey the rule as they are. -/
theorem C01CF_nonlocals_bound_partial (env : Env) (nm : Namer) (root : Stmt) (B : List String)
    (h : nlHypS env {} B root = true) : nlOkL B (cfOutput env nm root) = true :=
  tStmt_nl env root {} nm B h

/-- The counterexample to the full statement of (a): `def f(): <if-chunk with state ('x',), nothing pre-assigned>`. -/
theorem C01CF_nonlocal_unbound_counterexample (test : Expr) (body : List Stmt) :
    nlOkS [] (fnDef "f" [] (ifChunk { scopeVars := ["x"], undefined := [], nouts := 1, inputOnly := [] }
      (nonlocalDecls {} ["x"]) test body [] "get_state" "set_state" "if_body" "else_body")) = false := by
  simp [ifChunk, stateFunctions, nonlocalDecls, fnDef, argsOf, nlOkL, nlOkS, declG, declN, collectL, collectS,
    gOwn, nOwn, BlockVars.isComposite, undefinedAssigns, localsOf, paramNames, argNames, opCallStmt, bindsOf, bOwn]

/-- ... and the same chunk is accepted when an enclosing function scope binds `x` (the hypothesis of (a) is satisfiable). -/
example (test : Expr) :
    nlOkS ["x"] (fnDef "f" [] (ifChunk { scopeVars := ["x"], undefined := [], nouts := 1, inputOnly := [] }
      (nonlocalDecls {} ["x"]) test [.pass 0] [] "get_state" "set_state" "if_body" "else_body")) = true := by
  simp [ifChunk, stateFunctions, nonlocalDecls, fnDef, argsOf, nlOkL, nlOkS, declG, declN, collectL, collectS,
    gOwn, nOwn, BlockVars.isComposite, undefinedAssigns, localsOf, paramNames, argNames, opCallStmt, bindsOf, bOwn]

/-! ### Non-vacuity of the hypotheses -/

/-- A table without `skip` entries satisfies the hypothesis of `C01CF_routing`. -/
example : ∀ id, ({ ann := [(3, "LIVE_VARS_IN", .list [])], dirs := [] } : Env).skip id = false := by
  intro id
  simp [Env.skip, AnnoTable.has, AnnoTable.get]

/-- `pdHypS` / `nlHypS` hold of an ordinary function (`def f(a): x = a; global g`), with the empty table. -/
example :
    pdHypS { ann := [], dirs := [] } {} (.functionDef 1 "f" (argsOf ["a"])
      [.assign 2 [.name 3 "x" .store] (.name 4 "a" .load), .global 5 ["g"]] [] [] false) = true ∧
    nlHypS { ann := [], dirs := [] } {} [] (.functionDef 1 "f" (argsOf ["a"])
      [.assign 2 [.name 3 "x" .store] (.name 4 "a" .load), .global 5 ["g"]] [] [] false) = true := by
  constructor <;>
  simp [pdHypS, pdHypL, nlHypS, nlHypL, Env.skip, AnnoTable.has, AnnoTable.get, paramNames, argsOf, argNames, declG, declN,
    collectL, collectS, gOwn, nOwn]

end Malt.Conv.CFSpec
