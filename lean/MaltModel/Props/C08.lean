import MaltModel.Analysis.ActivityFn
import MaltModel.Analysis.ActivityHyp
import MaltModel.Spec.Symtable
import MaltModel.Spec.Dynamic
import MaltModel.Proofs.C08Activity
import MaltModel.Proofs.C08Dynamic
import MaltModel.Proofs.C08Classes
import MaltModel.Proofs.C08Nested
import MaltModel.Proofs.C08Comp
import MaltModel.Proofs.C08CompDynamic
import MaltModel.Proofs.C08FreesTop
/-
C08 — scope (activity) analysis matches Python's own binding rules.

Objects: `Analysis.Activity` (functional mirror of activity.py, tied to the code by correspondence on every
run), `Spec.Symtable` (Python's binding rules, tied to CPython's `symtable`), `Spec.Dynamic` (what executing
one statement-level node reads / rebinds / deletes, tied to opcode traces of real executions).

Theorems (all for every program of the stated fragment, every analyzer state; no sampling):
  C08_compositional   the scope-stack machinery (finalize, copy_from/merge_from checkpointing of parallel
                      blocks, isolated scopes) computes exactly the syntactic effect `effS`
  C08_dynamic_partial every statement-level node of a function tree gets a SCOPE / ITERATE_SCOPE annotation
                      whose read set contains what the node actually reads and whose modified ∪ deleted
                      set contains what it actually rebinds or deletes        (the `hgen` premise of C06/C07)
  C08_dynamic_lookup  the same through `anno?` (the lookup C06/C07 use), when annotations are unique per node
  C08_classes_partial parameters, bound locals, declared globals/nonlocals, free variables of the root function of a
                      tree = those of `Spec.table`, when nested functions' parameters do not leak harmfully
  C08_classes_nested  parameters, bound locals, declared globals/nonlocals of *every* function definition nested in
                      statement position anywhere in the tree = those of its block in `Spec.table`
  C08_frees_nested    for *every* function definition at *every* nesting depth (through functions, lambdas, class
                      bodies): the names it passes to its enclosing scope according to the analysis (`read − bound`
                      plus declared nonlocals, minus declared globals) = `Spec.outerB` of its block = the names CPython
                      resolves outside it; the free variables CPython gives it are the visible ones among them, the rest
                      are implicit globals.  Hypotheses: the decidable predicates of the deviation classes are empty.
  C08_spec_free       (specification only) free variables of any block of any tree = `outerB` ∩ visible names
  C08_reads_resolve   the statement-level lemma behind `C08_frees_nested` (class bodies and lambdas included)
  C08_classes_all     `C08_classes_nested` and `C08_frees_nested` together: all five categories, every def, every depth
  C08_compositional_comp, C08_dynamic_comp(_lookup)   the first three for the larger fragments `FragSC` / `FragSD`,
                      which include comprehensions of all kinds (without named expressions inside, for the
                      dynamic theorem)
The fragment `FragS` excludes comprehensions, parameter annotations, async constructs and `EXTRA_LOOP_TEST`;
`FragSC`/`FragSD` admit comprehensions.  What lies outside is covered by the correspondence and the oracles only.
-/
namespace Malt.Props.C08
open Malt.Py Malt.Analysis Malt.Spec

/-- The analyzer starts in a statement-level state. -/
theorem init_plainS : PlainS St.init [] :=
  ⟨⟨by simp [St.init], rfl, rfl⟩, ⟨rfl, rfl, rfl⟩⟩

/-- **Compositionality of the activity analysis.**  For every statement `t` of the fragment, analysing it
    adds exactly the syntactically defined effect `effS [] t` to the root scope and leaves the rest of the
    analyzer state as it was: the stateful implementation strategy (a stack of mutable scopes, `finalize`
    exporting to the parent, `_process_parallel_blocks` checkpointing with `copy_from`/`merge_from`) is
    equivalent to a bottom-up attribute computation. -/
theorem C08_compositional (t : Stmt) (hf : FragS t = true) : Adds St.init (analyze t) (effS [] t) :=
  visitS_adds t St.init [] init_plainS hf

/-- …in every statement-level analyzer state, not only the initial one (this is the form used for the
    statements nested in function bodies, branches and loops). -/
theorem C08_compositional_state (s : Stmt) (st : St) (fns : List FnCtx) (p : PlainS st fns) (hf : FragS s = true) :
    Adds st (visitS s st) (effS fns s) :=
  visitS_adds s st fns p hf

/- FULL STATEMENT (not proved in this generality):
   theorem C08_dynamic (t : Stmt) : ∀ u ∈ Spec.unitsS t,
       ∃ c, (analyze t).anno? u.id (keyOf u.key) = some c ∧ Good u c
   It is FALSE of the pinned code for
     * a named expression inside a comprehension (class `walrusInComp`): `[(y := t) for t in b]` rebinds `y`,
       the statement's `modified` does not contain it            — counterexample `walrus_counterexample` below;
     * parameter annotations of a nested def (class `argAnnotations`): `def g(a: T)` reads `T` when the def
       executes, the def statement's `read` does not contain it  — counterexample `annotation_counterexample`.
   `C08_dynamic_partial` proves it for all statement-level units of the fragment `FragS` (which excludes
   exactly comprehensions and parameter annotations, besides async/EXTRA_LOOP_TEST), in membership form;
   `C08_dynamic_lookup` gives the `anno?` form under uniqueness of annotations per (node, key).
   Missing: units inside comprehensions, lambda-body units. -/

/-- **Dynamic soundness of the statement scopes.**  For every function tree `t` of the fragment and every
    statement-level node `u` of it (simple statement, `if`/`while` test, `for` iterable, `for` target
    assignment, `with` item, `def`/`class` statement — at any nesting depth, also inside nested functions and
    classes), the analysis has annotated the node with a scope `c` such that every variable the node actually
    reads is in `c.read` and every variable it actually rebinds or deletes is in `c.modified ∪ c.deleted`. -/
theorem C08_dynamic_partial (t : Stmt) (hf : FragS t = true) :
    ∀ u ∈ stmtUnits t, ∃ c, (u.id, keyOf u.key, c) ∈ (analyze t).annos ∧
      (∀ x ∈ u.reads, QN.sym x ∈ c.read) ∧ (∀ x ∈ u.writes, QN.sym x ∈ c.modified ∨ QN.sym x ∈ c.deleted) :=
  visitS_units t St.init [] init_plainS hf

/-- No two annotations of the run sit on the same node with the same key. -/
def UniqueAnnos (l : List Anno) : Prop := l.Pairwise fun a b => ¬ (a.1 = b.1 ∧ a.2.1 = b.2.1)

private theorem find_of_unique (l : List Anno) (hu : UniqueAnnos l) (i : Nat) (k : AnnoKey) (c : Analysis.Scope)
    (hm : (i, k, c) ∈ l) : l.find? (fun a => a.1 == i && a.2.1 == k) = some (i, k, c) := by
  induction l with
  | nil => simp at hm
  | cons a r ih =>
    simp only [UniqueAnnos, List.pairwise_cons] at hu
    simp only [List.mem_cons] at hm
    rcases hm with hm | hm
    · subst hm; simp
    · have hne : ¬ (a.1 = i ∧ a.2.1 = k) := fun h => hu.1 _ hm ⟨h.1, h.2⟩
      have : (a.1 == i && a.2.1 == k) = false := by
        by_cases h1 : a.1 = i
        · by_cases h2 : a.2.1 = k
          · exact absurd ⟨h1, h2⟩ hne
          · simp [h2]
        · simp [h1]
      simp only [List.find?_cons, this]
      exact ih hu.2 hm

private theorem unique_of_bool (l : List Anno) (h : uniqueAnnos l = true) : UniqueAnnos l := by
  induction l with
  | nil => exact List.Pairwise.nil
  | cons a r ih =>
    simp only [uniqueAnnos, Bool.and_eq_true, List.all_eq_true] at h
    refine List.Pairwise.cons ?_ (ih h.2)
    intro b hb hab
    have := h.1 b hb
    simp [hab.1, hab.2] at this

/-- **The form consumed by the dataflow properties (C06/C07)**: looking the annotation up by node id.
    `uniqueAnnos`: no node was annotated twice with the same key (true whenever the serial ids are distinct and
    no lambda sits in a class header or a `for` target, which the analysis visits twice). -/
theorem C08_dynamic_lookup (t : Stmt) (hf : FragS t = true) (hu' : uniqueAnnos (analyze t).annos = true) :
    ∀ u ∈ stmtUnits t, ∃ c, (analyze t).anno? u.id (keyOf u.key) = some c ∧
      (∀ x ∈ u.reads, QN.sym x ∈ c.read) ∧ (∀ x ∈ u.writes, QN.sym x ∈ c.modified ∨ QN.sym x ∈ c.deleted) := by
  have hu := unique_of_bool _ hu'
  intro u huu
  obtain ⟨c, hc, hg⟩ := C08_dynamic_partial t hf u huu
  exact ⟨c, by rw [St.anno?, find_of_unique _ hu _ _ _ hc]; rfl, hg⟩

/-! ### the same with comprehensions -/

/-- **Compositionality, comprehensions included.**  On the larger fragment `FragSC` (list / set / dict
    comprehensions and generator expressions, nested, with lambdas inside; still no parameter annotations, no async)
    the analysis adds exactly the effect `effSC [] t`, where the comprehension-target bookkeeping of
    `_track_symbol` (`self.state[_Comprehension]`) is threaded through the expression by `effC`. -/
theorem C08_compositional_comp (t : Stmt) (hf : FragSC t = true) : Adds St.init (analyze t) (effSC [] t) :=
  visitS_addsC t St.init [] init_plainS hf

/-- Expression level, with any comprehensions already open (`cs`): the state after visiting `e` has the effect
    `(effC … cs e).1` added to the current scope and the comprehension stack `(effC … cs e).2`. -/
theorem C08_compositional_comp_expr (e : Expr) (st : St) (h : PlainC st) (hf : FragC e = true) (fns : List FnCtx)
    (aug anno : Bool) (hc : InCtx st fns aug anno) :
    AddsC st.comps (effC fns aug anno st.comps e).2 st (visitE e st) (effC fns aug anno st.comps e).1 :=
  visitE_addsC e st h hf fns aug anno hc st.comps rfl

/-- **Dynamic soundness, comprehensions included** (fragment `FragSD`: as `FragSC`, and inside a comprehension
    the only names in Store context are its iteration variables — no named expression, class `walrusInComp`):
    every statement-level node gets a scope covering what it actually reads (iteration variables of its
    comprehensions aside) and rebinds or deletes. -/
theorem C08_dynamic_comp (t : Stmt) (hf : FragSD t = true) :
    ∀ u ∈ stmtUnits t, ∃ c, (u.id, keyOf u.key, c) ∈ (analyze t).annos ∧
      (∀ x ∈ u.reads, QN.sym x ∈ c.read) ∧ (∀ x ∈ u.writes, QN.sym x ∈ c.modified ∨ QN.sym x ∈ c.deleted) :=
  visitS_unitsD t St.init [] init_plainS hf

/-- …and through the lookup by node id. -/
theorem C08_dynamic_comp_lookup (t : Stmt) (hf : FragSD t = true) (hu' : uniqueAnnos (analyze t).annos = true) :
    ∀ u ∈ stmtUnits t, ∃ c, (analyze t).anno? u.id (keyOf u.key) = some c ∧
      (∀ x ∈ u.reads, QN.sym x ∈ c.read) ∧ (∀ x ∈ u.writes, QN.sym x ∈ c.modified ∨ QN.sym x ∈ c.deleted) := by
  have hu := unique_of_bool _ hu'
  intro u huu
  obtain ⟨c, hc, hg⟩ := C08_dynamic_comp t hf u huu
  exact ⟨c, by rw [St.anno?, find_of_unique _ hu _ _ _ hc]; rfl, hg⟩

/- FULL STATEMENT (not proved in this generality):
   theorem C08_classes (t : Stmt) : ∀ fn ∈ fnsS [] t,
       classification of fn read off the analysis (`classify`: params, bound locals, declared globals, declared
       nonlocals, free variables) = the one `Spec.table t` assigns to the block `fn`.
   It is FALSE of the pinned code in the situations named in `Analysis.ActivityHyp` (each reproduced on the real
   code by the harness and listed in known_findings.d/C08.json): `harmfulLeaks`, `walrusInComp`, `classShadow`,
   `argAnnotations`, `globalBelow` (and, until `Scope.finalize` was repaired to pass on
   `read − (bound − nonlocals − globals)`, `nonlocalBelow`); the Lean counterexample for the parameter leak is
   `leak_counterexample` below.
   `C08_classes_partial` proves, for the function at the root of every tree of the fragment, the equality of
   parameters, bound locals, declared globals, declared nonlocals and free variables (the root has none on either
   side) under `harmfulLeaks t = []` (the other classes concern the free variables of nested functions or lie
   outside the fragment).
   `C08_classes_nested` extends the first four to every function definition nested in statement position.
   The free variables of nested functions (the propagation through nested scopes, where the classes `classShadow`
   and `globalBelow` live) are the subject of `C08_frees_nested` below.  Missing: lambdas; comprehensions and
   annotated parameters. -/

/-- **Classification of the root function.**  For every function definition `t` of the fragment on which the
    analysis and Python agree statement by statement (`SpecOkS`), whose nested functions' parameters are all
    names the function binds anyway (`harmfulLeaks t = []`): the parameters, bound locals, declared globals,
    declared nonlocals and free variables the analysis reports for `t` are exactly those of Python's symbol table
    for `t` (a root function has no free variables: the analysis reports none, and the specification's are its
    `nonlocal` declarations, of which a valid root function has none). -/
theorem C08_classes_partial (i : Nat) (name : String) (ai : Nat) (po ar va ko kd kw df : List Expr) (body : List Stmt)
    (decos returns : List Expr) (t : Stmt)
    (ht : t = .functionDef i name (.arguments ai po ar va ko kd kw df) body decos returns false)
    (hf : FragS t = true) (hs : SpecOkS t = true) (hu' : uniqueAnnos (analyze t).annos = true)
    (hleak : harmfulLeaks t = []) (hd : declsDisjoint t = true) :
    ∃ cls info rest, classify t (analyze t) i [] = some cls ∧ Spec.table t = info :: rest ∧ info.id = i ∧
      (∀ x, x ∈ cls.params ↔ x ∈ info.params) ∧
      (∀ x, x ∈ cls.locals ↔ x ∈ info.locals) ∧
      (∀ x, x ∈ cls.globals ↔ x ∈ info.declaredGlobals) ∧
      (∀ x, x ∈ cls.nonlocals ↔ x ∈ info.declaredNonlocals) ∧
      (cls.frees = [] ∧ ∀ x, x ∈ info.frees ↔ x ∈ info.declaredNonlocals) := by
  have hu := unique_of_bool _ hu'
  subst ht
  -- the model side
  obtain ⟨cI, ca, rest, hann, hca, hcI, hpar, -⟩ :=
    functionDef_recorded i name ai po ar va ko kd kw df body decos returns St.init [] init_plainS hf
  have hann' : (analyze (.functionDef i name (.arguments ai po ar va ko kd kw df) body decos returns false)).annos
      = (i, .argsAndBodyScope, cI) :: rest := hann
  have h1 : (analyze (.functionDef i name (.arguments ai po ar va ko kd kw df) body decos returns false)).anno? i .argsAndBodyScope
      = some cI := by simp [St.anno?, hann']
  have h2 : (analyze (.functionDef i name (.arguments ai po ar va ko kd kw df) body decos returns false)).anno? ai .scope
      = some ca := by
    rw [St.anno?, find_of_unique _ hu ai .scope ca (by rw [hann']; exact List.mem_cons_of_mem _ hca)]; rfl
  simp only [FragS, Bool.and_eq_true, Bool.not_eq_true'] at hf
  have hbody : FragSs body = true := hf.2
  simp only [SpecOkS] at hs
  have hM := effSs_sets body hbody [.fn i name]
  -- the specification side
  have hblk := blockOf_functionDef i name ai po ar va ko kd kw df body decos returns false
  have hC := collectSs_spec body hbody hs { params := (po ++ ar ++ ko ++ va ++ kw).filterMap paramName }
  obtain ⟨new, hnew, hcov⟩ := hC.children
  obtain ⟨info, irest, htab, hid, hip, hil, hig, hin, hifr⟩ :=
    analyzeBlock_head i .function name
      (collectSs body { params := (po ++ ar ++ ko ++ va ++ kw).filterMap paramName }).params
      (collectSs body { params := (po ++ ar ++ ko ++ va ++ kw).filterMap paramName }).binds
      (collectSs body { params := (po ++ ar ++ ko ++ va ++ kw).filterMap paramName }).globals
      (collectSs body { params := (po ++ ar ++ ko ++ va ++ kw).filterMap paramName }).nonlocals
      (collectSs body { params := (po ++ ar ++ ko ++ va ++ kw).filterMap paramName }).uses
      (collectSs body { params := (po ++ ar ++ ko ++ va ++ kw).filterMap paramName }).walrus
      (collectSs body { params := (po ++ ar ++ ko ++ va ++ kw).filterMap paramName }).children
  have hP : ∀ x, x ∈ (collectSs body { params := (po ++ ar ++ ko ++ va ++ kw).filterMap paramName }).params ↔
      x ∈ paramStrs po ar va ko kw := by
    intro x; rw [hC.params]; exact mem_specParams_iff po ar va ko kw x
  have hB : ∀ x, x ∈ (collectSs body { params := (po ++ ar ++ ko ++ va ++ kw).filterMap paramName }).binds ↔ x ∈ ownBindsSs body := by
    intro x; rw [hC.binds]; simp [show ({ params := (po ++ ar ++ ko ++ va ++ kw).filterMap paramName } : Acc).binds = [] from rfl]
  have hG : ∀ x, x ∈ (collectSs body { params := (po ++ ar ++ ko ++ va ++ kw).filterMap paramName }).globals ↔ x ∈ ownDeclsSs true body := by
    intro x; rw [hC.globals]; simp [show ({ params := (po ++ ar ++ ko ++ va ++ kw).filterMap paramName } : Acc).globals = [] from rfl]
  have hN : ∀ x, x ∈ (collectSs body { params := (po ++ ar ++ ko ++ va ++ kw).filterMap paramName }).nonlocals ↔ x ∈ ownDeclsSs false body := by
    intro x; rw [hC.nonlocals]; simp [show ({ params := (po ++ ar ++ ko ++ va ++ kw).filterMap paramName } : Acc).nonlocals = [] from rfl]
  have hW : (collectSs body { params := (po ++ ar ++ ko ++ va ++ kw).filterMap paramName }).walrus = [] := hC.walrus
  -- leaked parameters are names the function declares anyway
  have hL : ∀ x, x ∈ ownLeaksSs body → x ∈ paramStrs po ar va ko kw ∨ x ∈ ownBindsSs body ∨ x ∈ ownDeclsSs true body ∨ x ∈ ownDeclsSs false body := by
    intro x hx
    by_cases hdec : x ∈ (collectSs body { params := (po ++ ar ++ ko ++ va ++ kw).filterMap paramName }).params ++
        (collectSs body { params := (po ++ ar ++ ko ++ va ++ kw).filterMap paramName }).binds ++
        (collectSs body { params := (po ++ ar ++ ko ++ va ++ kw).filterMap paramName }).globals ++
        (collectSs body { params := (po ++ ar ++ ko ++ va ++ kw).filterMap paramName }).nonlocals
    · simp only [List.mem_append, hP, hB, hG, hN] at hdec
      grind
    · exfalso
      have hmem := hcov _ x hx hdec
      have hnil : leaksBs ((collectSs body { params := (po ++ ar ++ ko ++ va ++ kw).filterMap paramName }).params ++
          (collectSs body { params := (po ++ ar ++ ko ++ va ++ kw).filterMap paramName }).binds ++
          (collectSs body { params := (po ++ ar ++ ko ++ va ++ kw).filterMap paramName }).globals ++
          (collectSs body { params := (po ++ ar ++ ko ++ va ++ kw).filterMap paramName }).nonlocals)
          (collectSs body { params := (po ++ ar ++ ko ++ va ++ kw).filterMap paramName }).children = [] := by
        have := hleak
        simp only [harmfulLeaks, hblk, Acc.toBlock] at this
        apply List.eq_nil_iff_forall_not_mem.mpr
        intro y hy
        have h3 := List.mem_eraseDups.mpr hy
        rw [this] at h3
        exact List.not_mem_nil h3
      rw [hnew] at hnil
      simp only [List.nil_append] at hnil
      rw [hnil] at hmem
      simp at hmem
  have hdisj : ∀ x, ¬ (x ∈ ownDeclsSs true body ∧ x ∈ ownDeclsSs false body) := by
    intro x ⟨hg, hn⟩
    simp only [declsDisjoint, hblk, Acc.toBlock, Block.globals, Block.nonlocals, List.all_eq_true] at hd
    have := hd x ((hG x).mpr hg)
    have hx2 := (hN x).mpr hn
    simp only [List.contains_eq_mem, hx2, decide_true, Bool.not_true, Bool.false_eq_true] at this
  have hcls : ∃ cls, classify (.functionDef i name (.arguments ai po ar va ko kd kw df) body decos returns false)
      (analyze (.functionDef i name (.arguments ai po ar va ko kd kw df) body decos returns false)) i [] = some cls ∧
      cls.params = ca.paramNames.names ∧ cls.globals = cI.globals.names ∧ cls.nonlocals = cI.nonlocals.names ∧
      cls.locals = cI.bound.names.filter (fun x => !cI.globals.names.contains x && !cI.nonlocals.names.contains x) ∧
      cls.frees = [] := by
    refine ⟨{ id := i, params := ca.paramNames.names, bound := cI.bound.names, globals := cI.globals.names,
              nonlocals := cI.nonlocals.names,
              locals := cI.bound.names.filter (fun x => !cI.globals.names.contains x && !cI.nonlocals.names.contains x),
              freeVars := cI.freeVars.names,
              frees := (cI.freeVars.names ++ cI.nonlocals.names).filter (fun x => !cI.globals.names.contains x &&
                resolveAct (analyze (.functionDef i name (.arguments ai po ar va ko kd kw df) body decos returns false)) [] x == .enclosing) },
            ?_, rfl, rfl, rfl, rfl, by simp [resolveAct]⟩
    simp only [classify, h1, argsIdS, beq_self_eq_true, ↓reduceIte, Option.bind_some, Expr.id, h2]
  obtain ⟨cls, hc0, hcp, hcg, hcn, hcl, hcf⟩ := hcls
  refine ⟨cls, info, irest, hc0, ?_, hid, ?_, ?_, ?_, ?_, hcf, fun x => by rw [hifr, hin]⟩
  · simp only [Spec.table, hblk, Acc.toBlock]; exact htab
  · intro x
    rw [hcp]
    simp only [QSet.mem_names, hip, hP]
    rw [hpar, mem_paramNames_iff]
  · intro x
    rw [hcl]
    simp only [List.mem_filter, QSet.mem_names, hil, hP, hB, hG, hN, hW, Bool.and_eq_true, Bool.not_eq_true',
      List.contains_eq_mem, decide_eq_false_iff_not, hcI.bound, hcI.globals, hcI.nonlocals, Eff.append_bound,
      Eff.exported_false_bound, Eff.append_globals, Eff.exported_false_globals, Eff.append_nonlocals,
      Eff.exported_false_nonlocals, List.mem_append, hM.bound, hM.globals, hM.nonlocals, mem_paramNames_iff, List.not_mem_nil,
      not_false_eq_true, true_and, List.nil_append]
    have := hL x
    grind
  · intro x
    rw [hcg]
    simp only [QSet.mem_names, hig, hG, hcI.globals, Eff.append_globals, Eff.exported_false_globals, List.mem_append,
      hM.globals, List.not_mem_nil, false_or]
  · intro x
    rw [hcn]
    simp only [QSet.mem_names, hin, hG, hN, hW, hcI.nonlocals, Eff.append_nonlocals, Eff.exported_false_nonlocals,
      List.mem_append, hM.nonlocals, List.not_mem_nil, false_or, or_false]
    have := hdisj x
    grind

/-- The analysis and the specification agree on the function definition `d`: looked up by node id, the
    ARGS_AND_BODY scope and the scope of the `arguments` node yield the same parameters, bound locals, declared
    globals and declared nonlocals as the symbol table entry of `d`'s block. -/
def DefMatches (st : St) (tab : List BlockInfo) : Stmt → Prop
  | .functionDef i _ (.arguments ai _ _ _ _ _ _ _) _ _ _ _ =>
      ∃ cI ca info, st.anno? i .argsAndBodyScope = some cI ∧ st.anno? ai .scope = some ca ∧ info ∈ tab ∧ info.id = i ∧
        (∀ x, x ∈ ca.paramNames.names ↔ x ∈ info.params) ∧
        (∀ x, (x ∈ cI.bound.names ∧ x ∉ cI.globals.names ∧ x ∉ cI.nonlocals.names) ↔ x ∈ info.locals) ∧
        (∀ x, x ∈ cI.globals.names ↔ x ∈ info.declaredGlobals) ∧
        (∀ x, x ∈ cI.nonlocals.names ↔ x ∈ info.declaredNonlocals)
  | _ => True

/-- **Classification of every function definition of the tree.**  Under the hypotheses of `C08_classes_partial`
    (with the disjointness of `global`/`nonlocal` declarations required of every block), *every* (non-async)
    function definition nested in statement position anywhere in the tree — in branches, loops, `with`/`try`
    blocks, class bodies, other functions — has the same parameters, bound locals, declared globals and declared
    nonlocals according to the analysis as according to Python's symbol table.
    (Not covered: lambdas; the free variables of nested functions.) -/
theorem C08_classes_nested (i : Nat) (name : String) (ai : Nat) (po ar va ko kd kw df : List Expr) (body : List Stmt)
    (decos returns : List Expr) (t : Stmt)
    (ht : t = .functionDef i name (.arguments ai po ar va ko kd kw df) body decos returns false)
    (hf : FragS t = true) (hs : SpecOkS t = true) (hu' : uniqueAnnos (analyze t).annos = true)
    (hleak : harmfulLeaks t = []) (hd : allDeclsDisjoint t = true) :
    ∀ d ∈ defsS t, DefMatches (analyze t) (Spec.table t) d := by
  have hu := unique_of_bool _ hu'
  subst ht
  intro d hdd
  obtain ⟨hdf, hds⟩ := defsS_frag _ hf hs d hdd
  have hok := visitS_defs _ St.init [] init_plainS hf d hdd
  -- the block tree of the root
  have hblk := blockOf_functionDef i name ai po ar va ko kd kw df body decos returns false
  have hf' := hf
  simp only [FragS, Bool.and_eq_true, Bool.not_eq_true'] at hf'
  have hbody : FragSs body = true := hf'.2
  have hsb : SpecOkSs body = true := by simpa [SpecOkS] using hs
  have hC := collectSs_spec body hbody hsb { params := (po ++ ar ++ ko ++ va ++ kw).filterMap paramName }
  obtain ⟨new, hnew, hwnew, hdnew⟩ := (collectSs_blocks body hbody hsb { params := (po ++ ar ++ ko ++ va ++ kw).filterMap paramName }).ext
  simp only [List.nil_append] at hnew
  have hall : allBlocks (mkDefBlock (.functionDef i name (.arguments ai po ar va ko kd kw df) body decos returns false)) =
      mkDefBlock (.functionDef i name (.arguments ai po ar va ko kd kw df) body decos returns false) :: allBlocksL new := by
    simp only [mkDefBlock, Acc.toBlock, allBlocks, hnew]
  have hmem : mkDefBlock d ∈ allBlocks (mkDefBlock (.functionDef i name (.arguments ai po ar va ko kd kw df) body decos returns false)) := by
    simp only [defsS, List.mem_cons] at hdd
    rw [hall]
    rcases hdd with rfl | hdd
    · exact List.mem_cons_self
    · exact List.mem_cons_of_mem _ (hdnew _ (List.mem_map.mpr ⟨d, hdd, rfl⟩))
  have hw : ∀ b' ∈ allBlocks (mkDefBlock (.functionDef i name (.arguments ai po ar va ko kd kw df) body decos returns false)),
      b'.walrus = [] := by
    intro b' hb'
    rw [hall] at hb'
    simp only [List.mem_cons] at hb'
    rcases hb' with rfl | hb'
    · simpa [mkDefBlock, Acc.toBlock, Block.walrus] using hC.walrus
    · exact hwnew b' hb'
  obtain ⟨info, hinfo, hfacts⟩ := table_all _ 0 [] [] hw (mkDefBlock d) hmem
  have htab : info ∈ Spec.table (.functionDef i name (.arguments ai po ar va ko kd kw df) body decos returns false) := by
    simp only [Spec.table, hblk]; exact hinfo
  -- no harmful leak, no global/nonlocal clash, in any block
  have hroot : leaksBs ((mkDefBlock (.functionDef i name (.arguments ai po ar va ko kd kw df) body decos returns false)).params ++
      (mkDefBlock (.functionDef i name (.arguments ai po ar va ko kd kw df) body decos returns false)).binds ++
      (mkDefBlock (.functionDef i name (.arguments ai po ar va ko kd kw df) body decos returns false)).globals ++
      (mkDefBlock (.functionDef i name (.arguments ai po ar va ko kd kw df) body decos returns false)).nonlocals)
      (mkDefBlock (.functionDef i name (.arguments ai po ar va ko kd kw df) body decos returns false)).children = [] := by
    have := hleak
    simp only [harmfulLeaks, hblk, Acc.toBlock] at this
    simp only [mkDefBlock, Acc.toBlock, Block.params, Block.binds, Block.globals, Block.nonlocals, Block.children]
    apply List.eq_nil_iff_forall_not_mem.mpr
    intro y hy
    have h3 := List.mem_eraseDups.mpr hy
    rw [this] at h3
    exact List.not_mem_nil h3
  have hdisjAll := disj_all (mkDefBlock (.functionDef i name (.arguments ai po ar va ko kd kw df) body decos returns false))
    (by simpa [allDeclsDisjoint, hblk, mkDefBlock] using hd) (mkDefBlock d) hmem
  -- the definition `d` itself
  cases d with
  | functionDef i' name' args' body' decos' returns' isAsync' =>
    cases args' with
    | arguments ai' po' ar' va' ko' kd' kw' df' =>
      have hkind : (mkDefBlock (.functionDef i' name' (.arguments ai' po' ar' va' ko' kd' kw' df') body' decos' returns' isAsync')).kind.isComp = false := by
        simp [mkDefBlock, Acc.toBlock, Block.kind, BlockKind.isComp]
      have hlk : leaksBs
          ((mkDefBlock (.functionDef i' name' (.arguments ai' po' ar' va' ko' kd' kw' df') body' decos' returns' isAsync')).params ++
           (mkDefBlock (.functionDef i' name' (.arguments ai' po' ar' va' ko' kd' kw' df') body' decos' returns' isAsync')).binds ++
           (mkDefBlock (.functionDef i' name' (.arguments ai' po' ar' va' ko' kd' kw' df') body' decos' returns' isAsync')).globals ++
           (mkDefBlock (.functionDef i' name' (.arguments ai' po' ar' va' ko' kd' kw' df') body' decos' returns' isAsync')).nonlocals)
          (mkDefBlock (.functionDef i' name' (.arguments ai' po' ar' va' ko' kd' kw' df') body' decos' returns' isAsync')).children = [] := by
        rw [hall] at hmem
        simp only [List.mem_cons] at hmem
        rcases hmem with he | hmem
        · rw [he]; exact hroot
        · have hch : (mkDefBlock (.functionDef i name (.arguments ai po ar va ko kd kw df) body decos returns false)).children = new := by
            simp only [mkDefBlock, Acc.toBlock, Block.children, hnew]
          rw [hch] at hroot
          exact leakFree_allL new _ hroot _ hmem hkind
      simp only [FragS, Bool.and_eq_true] at hdf
      simp only [SpecOkS] at hds
      obtain ⟨cI, ca, h1, h2, hb, hg, hn, hp, -⟩ := hok
      obtain ⟨hid, hps, hls, hgs, hns⟩ :=
        def_matches i' name' ai' po' ar' va' ko' kd' kw' df' body' decos' returns' isAsync' hdf.2 hds cI ca hb hg hn hp info hfacts hlk hdisjAll
      refine ⟨cI, ca, info, ?_, ?_, htab, hid, hps, hls, hgs, hns⟩
      · rw [St.anno?, find_of_unique _ hu i' .argsAndBodyScope cI h1]; rfl
      · rw [St.anno?, find_of_unique _ hu ai' .scope ca h2]; rfl
    | _ => simp [FragS] at hdf
  | _ => trivial

/-! ### free variables of nested functions -/

/-- `FreesMatch st root tab d`: for the function definition `d` (at any nesting depth), with `cI` its recorded
    ARGS_AND_BODY scope, `info` the entry of its block in the symbol table and `B` the names CPython makes visible
    to it from the enclosing function-like blocks (class bodies skipped, names declared `global` on the way cut off):
    * the names the analysis has `d` pass to its enclosing scope when `d`'s scope is finalized — `Scope.passedOn`:
      `read − (bound − nonlocals − globals)`, the repaired propagation of `Scope.finalize` — minus its declared
      globals, are exactly `outerB`: the names CPython resolves outside `d` (free or implicit global in `d`, or in
      a block nested in `d` that `d` does not supply);
    * the free variables CPython gives `d` (`co_freevars`, including those only threaded through for nested
      blocks) are the members of that set that are in `B`; the others are its (or its nested blocks') implicit globals. -/
def FreesMatch (st : St) (root : Block) (tab : List BlockInfo) : Stmt → Prop
  | .functionDef i name (.arguments ai po ar va ko kd kw df) body decos returns isAsync =>
      ∃ cI info B, st.anno? i .argsAndBodyScope = some cI ∧ info ∈ tab ∧ info.id = i ∧
        (mkDefBlock (.functionDef i name (.arguments ai po ar va ko kd kw df) body decos returns isAsync), B) ∈ ctxBlocks [] root ∧
        (∀ x, (x ∈ cI.passedOn.names ∧ x ∉ cI.globals.names) ↔
              x ∈ outerB (mkDefBlock (.functionDef i name (.arguments ai po ar va ko kd kw df) body decos returns isAsync))) ∧
        (∀ x, x ∈ info.frees ↔
              x ∈ outerB (mkDefBlock (.functionDef i name (.arguments ai po ar va ko kd kw df) body decos returns isAsync)) ∧ x ∈ B)
  | _ => True

/-- **Free variables of every function definition, at every nesting depth.**  For every tree of the fragment
    `FragS` on which the decidable predicates of the known deviation classes are empty — no parameter of a
    nested function leaking where it matters (`harmfulLeaks`), no class body shadowing what its methods need
    (`classShadow`), no `global` declaration below a function that does not declare the name itself
    (`globalBelow`; since the repair of `Scope.finalize`, `nonlocal` declarations below need no hypothesis any
    more: the class `nonlocalBelow` is gone); named expressions in comprehensions and parameter annotations are
    outside `FragS` — and whose `nonlocal` declarations all resolve (`nonlocalsResolve`: otherwise CPython
    rejects the program), *every* function definition nested in statement position anywhere in the tree satisfies
    `FreesMatch`: by induction over the scope tree, through functions, lambdas and class bodies of any depth. -/
theorem C08_frees_nested (i : Nat) (name : String) (ai : Nat) (po ar va ko kd kw df : List Expr) (body : List Stmt)
    (decos returns : List Expr) (t : Stmt)
    (ht : t = .functionDef i name (.arguments ai po ar va ko kd kw df) body decos returns false)
    (hf : FragS t = true) (hs : SpecOkS t = true) (hu' : uniqueAnnos (analyze t).annos = true)
    (hleak : harmfulLeaks t = []) (hshadow : classShadow t = []) (hgb : globalBelow t = [])
    (hnl : nonlocalsResolve t = true) :
    ∀ d ∈ defsS t, FreesMatch (analyze t) (mkDefBlock t) (Spec.table t) d := by
  have hu := unique_of_bool _ hu'
  subst ht
  intro d hdd
  obtain ⟨hdf, hds⟩ := defsS_frag _ hf hs d hdd
  have hok := visitS_defs _ St.init [] init_plainS hf d hdd
  have hblk := blockOf_functionDef i name ai po ar va ko kd kw df body decos returns false
  have hf' := hf
  simp only [FragS, Bool.and_eq_true, Bool.not_eq_true'] at hf'
  have hbody : FragSs body = true := hf'.2
  have hsb : SpecOkSs body = true := by simpa [SpecOkS] using hs
  have hC := collectSs_spec body hbody hsb { params := (po ++ ar ++ ko ++ va ++ kw).filterMap paramName }
  obtain ⟨new, hnew, hwnew, hdnew⟩ := (collectSs_blocks body hbody hsb { params := (po ++ ar ++ ko ++ va ++ kw).filterMap paramName }).ext
  simp only [List.nil_append] at hnew
  have hall : allBlocks (mkDefBlock (.functionDef i name (.arguments ai po ar va ko kd kw df) body decos returns false)) =
      mkDefBlock (.functionDef i name (.arguments ai po ar va ko kd kw df) body decos returns false) :: allBlocksL new := by
    simp only [mkDefBlock, Acc.toBlock, allBlocks, hnew]
  have hmem : mkDefBlock d ∈ allBlocks (mkDefBlock (.functionDef i name (.arguments ai po ar va ko kd kw df) body decos returns false)) := by
    simp only [defsS, List.mem_cons] at hdd
    rw [hall]
    rcases hdd with rfl | hdd
    · exact List.mem_cons_self
    · exact List.mem_cons_of_mem _ (hdnew _ (List.mem_map.mpr ⟨d, hdd, rfl⟩))
  have hw : ∀ b' ∈ allBlocks (mkDefBlock (.functionDef i name (.arguments ai po ar va ko kd kw df) body decos returns false)),
      b'.walrus = [] := by
    intro b' hb'
    rw [hall] at hb'
    simp only [List.mem_cons] at hb'
    rcases hb' with rfl | hb'
    · simpa [mkDefBlock, Acc.toBlock, Block.walrus] using hC.walrus
    · exact hwnew b' hb'
  have nil_of_dedup : ∀ l : List String, l.eraseDups = [] → l = [] := by
    intro l h
    apply List.eq_nil_iff_forall_not_mem.mpr
    intro y hy
    have h3 := List.mem_eraseDups.mpr hy
    rw [h] at h3
    exact List.not_mem_nil h3
  -- the deviation classes are empty below the root …
  have hch : (mkDefBlock (.functionDef i name (.arguments ai po ar va ko kd kw df) body decos returns false)).children = new := by
    simp only [mkDefBlock, Acc.toBlock, Block.children, hnew]
  have hLroot : leaksBs ((mkDefBlock (.functionDef i name (.arguments ai po ar va ko kd kw df) body decos returns false)).params ++
      (mkDefBlock (.functionDef i name (.arguments ai po ar va ko kd kw df) body decos returns false)).binds ++
      (mkDefBlock (.functionDef i name (.arguments ai po ar va ko kd kw df) body decos returns false)).globals ++
      (mkDefBlock (.functionDef i name (.arguments ai po ar va ko kd kw df) body decos returns false)).nonlocals) new = [] := by
    have := hleak
    simp only [harmfulLeaks, hblk, Acc.toBlock] at this
    simp only [mkDefBlock, Acc.toBlock, Block.params, Block.binds, Block.globals, Block.nonlocals, ← hnew]
    exact nil_of_dedup _ this
  have hGroot : declBelowBs true ((mkDefBlock (.functionDef i name (.arguments ai po ar va ko kd kw df) body decos returns false)).params ++
      (mkDefBlock (.functionDef i name (.arguments ai po ar va ko kd kw df) body decos returns false)).binds ++
      (mkDefBlock (.functionDef i name (.arguments ai po ar va ko kd kw df) body decos returns false)).globals ++
      (mkDefBlock (.functionDef i name (.arguments ai po ar va ko kd kw df) body decos returns false)).nonlocals) new = [] := by
    have := hgb
    simp only [globalBelow, hblk, Acc.toBlock] at this
    simp only [mkDefBlock, Acc.toBlock, Block.params, Block.binds, Block.globals, Block.nonlocals, ← hnew]
    exact nil_of_dedup _ this
  have hSroot : shadowB (mkDefBlock (.functionDef i name (.arguments ai po ar va ko kd kw df) body decos returns false)) = [] := by
    have := hshadow
    simp only [classShadow, hblk] at this
    exact nil_of_dedup _ this
  have hv : nlOkB [] (mkDefBlock (.functionDef i name (.arguments ai po ar va ko kd kw df) body decos returns false)) = true := by
    simpa [nonlocalsResolve, hblk, mkDefBlock] using hnl
  -- … hence at the block of `d`
  have hSd := shadow_all _ hSroot (mkDefBlock d) hmem
  obtain ⟨B, hctx⟩ := ctx_of_mem _ [] (mkDefBlock d) hmem
  cases d with
  | functionDef i' name' args' body' decos' returns' isAsync' =>
    cases args' with
    | arguments ai' po' ar' va' ko' kd' kw' df' =>
      have hkind : (mkDefBlock (.functionDef i' name' (.arguments ai' po' ar' va' ko' kd' kw' df') body' decos' returns' isAsync')).kind = .function := by
        simp [mkDefBlock, Acc.toBlock, Block.kind]
      have hthree : leaksBs
          ((mkDefBlock (.functionDef i' name' (.arguments ai' po' ar' va' ko' kd' kw' df') body' decos' returns' isAsync')).params ++
           (mkDefBlock (.functionDef i' name' (.arguments ai' po' ar' va' ko' kd' kw' df') body' decos' returns' isAsync')).binds ++
           (mkDefBlock (.functionDef i' name' (.arguments ai' po' ar' va' ko' kd' kw' df') body' decos' returns' isAsync')).globals ++
           (mkDefBlock (.functionDef i' name' (.arguments ai' po' ar' va' ko' kd' kw' df') body' decos' returns' isAsync')).nonlocals)
          (mkDefBlock (.functionDef i' name' (.arguments ai' po' ar' va' ko' kd' kw' df') body' decos' returns' isAsync')).children = [] ∧
          declBelowBs true
          ((mkDefBlock (.functionDef i' name' (.arguments ai' po' ar' va' ko' kd' kw' df') body' decos' returns' isAsync')).params ++
           (mkDefBlock (.functionDef i' name' (.arguments ai' po' ar' va' ko' kd' kw' df') body' decos' returns' isAsync')).binds ++
           (mkDefBlock (.functionDef i' name' (.arguments ai' po' ar' va' ko' kd' kw' df') body' decos' returns' isAsync')).globals ++
           (mkDefBlock (.functionDef i' name' (.arguments ai' po' ar' va' ko' kd' kw' df') body' decos' returns' isAsync')).nonlocals)
          (mkDefBlock (.functionDef i' name' (.arguments ai' po' ar' va' ko' kd' kw' df') body' decos' returns' isAsync')).children = [] := by
        rw [hall] at hmem
        simp only [List.mem_cons] at hmem
        rcases hmem with he | hmem
        · rw [he, hch]; exact ⟨hLroot, hGroot⟩
        · exact ⟨leakFree_allL new _ hLroot _ hmem (by rw [hkind]; rfl),
            declBelow_allL true new _ hGroot _ hmem (by rw [hkind]; rfl)⟩
      obtain ⟨hLd, hGd⟩ := hthree
      simp only [FragS, Bool.and_eq_true] at hdf
      simp only [SpecOkS] at hds
      obtain ⟨cI, ca, h1, h2, hb, hg, hn, hp, hr⟩ := hok
      have hA := def_outer i' name' ai' po' ar' va' ko' kd' kw' df' body' decos' returns' isAsync' hdf.2 hds cI hb hg hn hr _ rfl
        hGd hLd hSd
      obtain ⟨info, hinfo, hfacts, hfrees⟩ := table_frees _ 0 [] [] [] hw (fun _ => Iff.rfl) hv _ hctx (by rw [hkind]; rfl)
      refine ⟨cI, info, B, ?_, ?_, ?_, hctx, ?_, hfrees⟩
      · rw [St.anno?, find_of_unique _ hu i' .argsAndBodyScope cI h1]; rfl
      · simp only [Spec.table, hblk]; exact hinfo
      · simpa [mkDefBlock, Acc.toBlock, Block.id] using hfacts.1
      · intro x
        rw [← hA x]
        simp
    | _ => simp [FragS] at hdf
  | _ => trivial

/-- The two halves of `FreesMatch` combined: CPython's free variables of `d` are the names the analysis has `d`
    pass outwards that are visible from the enclosing functions. -/
theorem FreesMatch.frees_iff {st : St} {root : Block} {tab : List BlockInfo}
    {i : Nat} {name : String} {ai : Nat} {po ar va ko kd kw df : List Expr} {body : List Stmt} {decos returns : List Expr} {isAsync : Bool}
    (h : FreesMatch st root tab (.functionDef i name (.arguments ai po ar va ko kd kw df) body decos returns isAsync)) :
    ∃ cI info B, st.anno? i .argsAndBodyScope = some cI ∧ info ∈ tab ∧ info.id = i ∧
      (mkDefBlock (.functionDef i name (.arguments ai po ar va ko kd kw df) body decos returns isAsync), B) ∈ ctxBlocks [] root ∧
      ∀ x, x ∈ info.frees ↔ (x ∈ cI.passedOn.names ∧ x ∉ cI.globals.names) ∧ x ∈ B := by
  obtain ⟨cI, info, B, h1, h2, h3, h4, h5, h6⟩ := h
  exact ⟨cI, info, B, h1, h2, h3, h4, fun x => by rw [h6 x, h5 x]⟩

/-- **Specification only: the free variables of any block, at any depth** (functions, lambdas, class bodies,
    comprehension blocks without named expressions): what `analyzeBlock` returns as needed from the enclosing
    blocks is `outerB` cut down to the visible names. -/
theorem C08_spec_free (b : Block) (parent : Nat) (B eg : List String)
    (hw : ∀ b' ∈ allBlocks b, b'.walrus = []) (hv : nlOkB B b = true) :
    ∀ x, x ∈ (analyzeBlock b parent B eg).2 ↔ x ∈ outerB b ∧ x ∈ B :=
  analyzeBlock_free b parent B B eg hw (fun _ => Iff.rfl) hv

/-- **The statement-level fact behind `C08_frees_nested`** (any statement of the fragment: compound statements,
    class definitions with their bodies, function definitions, lambdas in any expression position).  Outside `Dom`
    — the names the current block declares — the names the statement adds to the `read` set of the current scope
    are the names the specification collects as used in the current block or as needed (`outerB`) by the blocks
    nested in the statement.  `Hyp`: the deviation-class predicates are empty on the blocks collected so far. -/
theorem C08_reads_resolve (s : Stmt) (hf : FragS s = true) (hs : SpecOkS s = true) (fns : List FnCtx)
    (Dom Denc Lenc : List String) (a : Acc) (H : Hyp Dom Denc Lenc (collectS s a)) :
    ∀ x, x ∉ Dom → ((QN.sym x ∈ (effS fns s).read ∨ accNeeds a x) ↔ accNeeds (collectS s a) x) :=
  readRelS s hf hs fns Dom Denc Lenc a H

/-- **All five categories, every function definition, every depth.** -/
theorem C08_classes_all (i : Nat) (name : String) (ai : Nat) (po ar va ko kd kw df : List Expr) (body : List Stmt)
    (decos returns : List Expr) (t : Stmt)
    (ht : t = .functionDef i name (.arguments ai po ar va ko kd kw df) body decos returns false)
    (hf : FragS t = true) (hs : SpecOkS t = true) (hu' : uniqueAnnos (analyze t).annos = true)
    (hleak : harmfulLeaks t = []) (hd : allDeclsDisjoint t = true)
    (hshadow : classShadow t = []) (hgb : globalBelow t = [])
    (hnl : nonlocalsResolve t = true) :
    ∀ d ∈ defsS t, DefMatches (analyze t) (Spec.table t) d ∧ FreesMatch (analyze t) (mkDefBlock t) (Spec.table t) d :=
  fun d hd' => ⟨C08_classes_nested i name ai po ar va ko kd kw df body decos returns t ht hf hs hu' hleak hd d hd',
    C08_frees_nested i name ai po ar va ko kd kw df body decos returns t ht hf hs hu' hleak hshadow hgb hnl d hd'⟩

/- Full statement `C08_frees` (not a theorem of the pinned tree): the same for every tree, i.e. without the four
   class predicates.  Each of them is necessary: `leak_counterexample` (harmfulLeaks), `shadow_counterexample`
   (classShadow) below; for `globalBelow` see `known_findings.d/C08.json` (C08-global-propagates) and its corpus
   witness.  (`nonlocalBelow` was a fourth necessary hypothesis until `Scope.finalize` was repaired to pass on
   `read − (bound − nonlocals − globals)`; `twoLevelTree` below is the shape that used to fail.)
   Not proved: that `B` (CPython's visible names, `ctxBlocks`) is what `ActivityFn.resolveAct` computes from the
   recorded scopes of the enclosing functions — the last step to `classify`'s `frees` field.  The harness checks that
   step on the real code for every def on which the hypotheses hold (`consistency:C08_frees_nested-on-real-code`). -/

/-! ### instances: the hypotheses are satisfiable, the exclusions are necessary -/

/-- `def f(a): x = a; x += 1; (with a as y: del y); (def g(): return x); if x: return g`. -/
def sampleTree : Stmt :=
  .functionDef 1 "f" (.arguments 2 [] [.arg 3 "a" []] [] [] [] [] [])
    [ .assign 4 [.name 5 "x" .store] (.name 6 "a" .load),
      .augAssign 7 (.name 8 "x" .store) "Add" (.const 9 "int" "1"),
      .with_ 10 [.withitem 11 (.name 12 "a" .load) [.name 13 "y" .store]] [.delete 14 [.name 15 "y" .del]] false,
      .functionDef 16 "g" (.arguments 17 [] [] [] [] [] [] []) [.ret 18 [.name 19 "x" .load]] [] [] false,
      .if_ 20 (.name 21 "x" .load) [.ret 22 [.name 23 "g" .load]] [] ] [] [] false

example : FragS sampleTree = true := by decide
example : (stmtUnits sampleTree).length = 9 := by decide
/-- the `x += 1` node: reads and rebinds `x`, and the recorded scope says so -/
example : ((analyze sampleTree).anno? 7 .scope).map (fun c => (c.read.contains (.sym "x"), c.modified.contains (.sym "x")))
    = some (true, true) := by decide

/-- the hypotheses of `C08_classes_partial` hold for the sample tree … -/
example : SpecOkS sampleTree = true ∧ uniqueAnnos (analyze sampleTree).annos = true ∧ harmfulLeaks sampleTree = [] ∧
    declsDisjoint sampleTree = true := by decide
/-- … and so does its conclusion, on both sides non-trivially: locals `{a, x, y, g}` minus nothing, parameter `a`. -/
example : ((classify sampleTree (analyze sampleTree) 1 []).map fun c => (c.params, c.locals.length)) = some (["a"], 4) := by decide
example : kind (table sampleTree) 1 "x" = .local ∧ kind (table sampleTree) 1 "a" = .param ∧
    kind (table sampleTree) 16 "x" = .free := by decide

/-- the nested theorem applies to the sample tree: both `f` and the nested `g` are matched -/
example : (defsS sampleTree).length = 2 ∧ allDeclsDisjoint sampleTree = true := by decide
example : ∀ d ∈ defsS sampleTree, DefMatches (analyze sampleTree) (table sampleTree) d :=
  C08_classes_nested _ _ _ _ _ _ _ _ _ _ _ _ _ sampleTree rfl (by decide) (by decide) (by decide) (by decide) (by decide)

/-- Three levels, through a class body:
    `def f(a): x = a; (class K: w = x; def m(): (def h(): return x + G); return h); return K`. -/
def deepTree : Stmt :=
  .functionDef 1 "f" (.arguments 2 [] [.arg 3 "a" []] [] [] [] [] [])
    [ .assign 4 [.name 5 "x" .store] (.name 6 "a" .load),
      .classDef 7 "K" [] []
        [ .assign 8 [.name 9 "w" .store] (.name 10 "x" .load),
          .functionDef 11 "m" (.arguments 12 [] [] [] [] [] [] [])
            [ .functionDef 14 "h" (.arguments 15 [] [] [] [] [] [] [])
                [.ret 16 [.binop 17 "Add" (.name 18 "x" .load) (.name 19 "G" .load)]] [] [] false,
              .ret 20 [.name 21 "h" .load] ] [] [] false ] [],
      .ret 22 [.name 23 "K" .load] ] [] [] false

/-- the hypotheses of `C08_frees_nested` hold for it … -/
example : FragS deepTree = true ∧ SpecOkS deepTree = true ∧ uniqueAnnos (analyze deepTree).annos = true ∧
    harmfulLeaks deepTree = [] ∧ classShadow deepTree = [] ∧ globalBelow deepTree = [] ∧
    nonlocalsResolve deepTree = true ∧ (defsS deepTree).length = 3 := by decide
example : ∀ d ∈ defsS deepTree, FreesMatch (analyze deepTree) (mkDefBlock deepTree) (table deepTree) d :=
  C08_frees_nested _ _ _ _ _ _ _ _ _ _ _ _ _ deepTree rfl (by decide) (by decide) (by decide) (by decide) (by decide)
    (by decide) (by decide)
/-- … and the conclusion is not vacuous: `h` (two functions and a class deep) passes `x` and `G` outwards, CPython
    makes `x` its free variable and `G` a global; `m` only threads `x` through; `f` has no free variable. -/
example : ((classify deepTree (analyze deepTree) 14 [11, 1]).map fun c => (c.freeVars, c.frees)) = some (["G", "x"], ["x"]) := by decide
example : outerB (mkDefBlock deepTree) = ["G"] := by decide
example : ((table deepTree).filter (fun b => b.id == 14 || b.id == 11 || b.id == 1)).map (fun b => (b.id, b.frees))
    = [(1, []), (11, ["x"]), (14, ["x"])] := by decide
example : kind (table deepTree) 14 "G" = .globalImplicit ∧ kind (table deepTree) 11 "x" = .free := by decide

/-- The two-level `nonlocal` (the C01 defect behind the repair of `Scope.finalize`):
    `def f(c): (if c: x = 10); (def g(c): (def gi(): nonlocal x; x = x + c; return x); return gi()); return g(1)`
    (the inner parameter is called `c` like the outer one, so that the separate deviation `harmfulLeaks` stays out).
    `gi` binds `x` (it assigns it) and declares it nonlocal; with `read − bound` the read of `x` never reached `g`. -/
def twoLevelTree : Stmt :=
  .functionDef 1 "f" (.arguments 2 [] [.arg 3 "c" []] [] [] [] [] [])
    [ .if_ 4 (.name 5 "c" .load) [.assign 6 [.name 7 "x" .store] (.const 8 "int" "10")] [],
      .functionDef 9 "g" (.arguments 10 [] [.arg 11 "c" []] [] [] [] [] [])
        [ .functionDef 12 "gi" (.arguments 13 [] [] [] [] [] [] [])
            [ .nonlocal 14 ["x"],
              .assign 15 [.name 16 "x" .store] (.binop 17 "Add" (.name 18 "x" .load) (.name 19 "c" .load)),
              .ret 20 [.name 21 "x" .load] ] [] [] false,
          .ret 22 [.call 23 (.name 24 "gi" .load) [] []] ] [] [] false,
      .ret 25 [.call 26 (.name 27 "g" .load) [.const 28 "int" "1"] []] ] [] [] false

/-- the hypotheses of `C08_frees_nested` hold (the former class `nonlocalBelow` is *not* empty here) … -/
example : FragS twoLevelTree = true ∧ SpecOkS twoLevelTree = true ∧ uniqueAnnos (analyze twoLevelTree).annos = true ∧
    harmfulLeaks twoLevelTree = [] ∧ classShadow twoLevelTree = [] ∧ globalBelow twoLevelTree = [] ∧
    nonlocalsResolve twoLevelTree = true ∧ nonlocalBelow twoLevelTree = ["x"] := by decide
example : ∀ d ∈ defsS twoLevelTree, FreesMatch (analyze twoLevelTree) (mkDefBlock twoLevelTree) (table twoLevelTree) d :=
  C08_frees_nested _ _ _ _ _ _ _ _ _ _ _ _ _ twoLevelTree rfl (by decide) (by decide) (by decide) (by decide) (by decide)
    (by decide) (by decide)
/-- … and `g` now reads `x`: its recorded scope passes `x` on, it is `g`'s free variable for the analysis and for CPython. -/
example : ((analyze twoLevelTree).anno? 9 .argsAndBodyScope).map (fun c => (c.read.contains (.sym "x"), c.passedOn.names))
    = some (true, ["x"]) := by decide
example : ((classify twoLevelTree (analyze twoLevelTree) 9 [1]).map fun c => c.frees) = some ["x"] ∧
    ((classify twoLevelTree (analyze twoLevelTree) 12 [9, 1]).map fun c => c.frees) = some ["c", "x"] := by decide
example : ((table twoLevelTree).filter (fun b => b.id == 9 || b.id == 12)).map (fun b => (b.id, b.frees))
    = [(9, ["x"]), (12, ["x", "c"])] := by decide

/-- `def f(): x = 1; (def g(): (class K: x = 2; def m(): return x); return K); return g` — the class body binds
    `x`, so the analysis drops `m`'s read of `x` at the class; Python threads `x` from `f` through `g` to `m`. -/
def shadowTree : Stmt :=
  .functionDef 1 "f" (.arguments 2 [] [] [] [] [] [] [])
    [ .assign 3 [.name 4 "x" .store] (.const 5 "int" "1"),
      .functionDef 6 "g" (.arguments 7 [] [] [] [] [] [] [])
        [ .classDef 8 "K" [] []
            [ .assign 9 [.name 10 "x" .store] (.const 11 "int" "2"),
              .functionDef 12 "m" (.arguments 13 [] [] [] [] [] [] [])
                [.ret 14 [.name 15 "x" .load]] [] [] false ] [],
          .ret 16 [.name 17 "K" .load] ] [] [] false,
      .ret 18 [.name 19 "g" .load] ] [] [] false

theorem shadow_counterexample :
    ((classify shadowTree (analyze shadowTree) 6 [1]).map fun c => c.frees) = some [] ∧
    ((table shadowTree).filter (fun b => b.id == 6)).map (fun b => b.frees) = [["x"]] := by decide
example : classShadow shadowTree = ["x"] ∧ harmfulLeaks shadowTree = [] ∧ globalBelow shadowTree = [] ∧
    nonlocalBelow shadowTree = [] ∧ nonlocalsResolve shadowTree = true ∧ FragS shadowTree = true ∧ SpecOkS shadowTree = true := by decide

/-- `def f(c): k = (lambda N: N)(1); return k + N` — the parameter `N` of the lambda leaks into `f`'s bound
    locals, although `N` is a global name in `f`. -/
def leakTree : Stmt :=
  .functionDef 1 "f" (.arguments 2 [] [.arg 3 "c" []] [] [] [] [] [])
    [ .assign 4 [.name 5 "k" .store]
        (.call 6 (.lambda 7 (.arguments 8 [] [.arg 9 "N" []] [] [] [] [] []) (.name 10 "N" .load)) [.const 11 "int" "1"] []),
      .ret 12 [.binop 13 "Add" (.name 14 "k" .load) (.name 15 "N" .load)] ] [] [] false

theorem leak_counterexample :
    ((classify leakTree (analyze leakTree) 1 []).map fun c => c.locals.contains "N") = some true ∧
    kind (table leakTree) 1 "N" = .globalImplicit := by decide
example : harmfulLeaks leakTree = ["N"] := by decide
example : FragS leakTree = true ∧ SpecOkS leakTree = true := by decide

/-- `def f(b): r = [t + q for t in b if t]; s = {k: (lambda: k)() for k in r}; return list(u for u in s)` -/
def compTree : Stmt :=
  .functionDef 1 "f" (.arguments 2 [] [.arg 3 "b" []] [] [] [] [] [])
    [ .assign 4 [.name 5 "r" .store]
        (.comp 6 .listComp [.binop 7 "Add" (.name 8 "t" .load) (.name 9 "q" .load)]
          [.comprehension 10 (.name 11 "t" .store) (.name 12 "b" .load) [.name 13 "t" .load] false]),
      .assign 14 [.name 15 "s" .store]
        (.comp 16 .dictComp [.name 17 "k" .load, .call 18 (.lambda 19 (.arguments 20 [] [] [] [] [] [] []) (.name 21 "k" .load)) [] []]
          [.comprehension 22 (.name 23 "k" .store) (.name 24 "r" .load) [] false]),
      .ret 25 [.call 26 (.name 27 "list" .load)
        [.comp 28 .genExp [.name 29 "u" .load] [.comprehension 30 (.name 31 "u" .store) (.name 32 "s" .load) [] false]] []] ]
    [] [] false

example : FragSD compTree = true ∧ FragSC compTree = true ∧ FragS compTree = false ∧
    uniqueAnnos (analyze compTree).annos = true := by decide
/-- the first statement reads `b` and `q` (not its iteration variable `t`) and rebinds `r` -/
example : ((stmtUnits compTree)[1]?.map fun u => (u.id, u.reads, u.writes)) = some (4, ["b", "q"], ["r"]) := by decide
example : ((analyze compTree).anno? 4 .scope).map (fun c =>
    (c.read.contains (.sym "b"), c.read.contains (.sym "q"), c.read.contains (.sym "t"), c.modified.contains (.sym "r")))
    = some (true, true, false, true) := by decide

/-- `r = [(y := t) for t in b]` rebinds `y`; the statement's scope has neither `y ∈ modified` nor `y ∈ deleted`. -/
def walrusStmt : Stmt :=
  .assign 1 [.name 2 "r" .store]
    (.comp 3 .listComp [.namedexpr 4 (.name 5 "y" .store) (.name 6 "t" .load)]
      [.comprehension 7 (.name 8 "t" .store) (.name 9 "b" .load) [] false])

example : "y" ∈ ((stmtUnits walrusStmt).map (·.writes)).flatten := by decide
theorem walrus_counterexample :
    ((analyze walrusStmt).anno? 1 .scope).map (fun c => c.modified.contains (.sym "y") || c.deleted.contains (.sym "y"))
      = some false := by decide
example : walrusInComp walrusStmt = ["y"] := by decide

/-- `def g(a: T): pass` reads `T` when the def executes; the def statement's scope does not have `T ∈ read`. -/
def annotatedDef : Stmt :=
  .functionDef 1 "g" (.arguments 2 [] [.arg 3 "a" [.name 4 "T" .load]] [] [] [] [] []) [.pass 5] [] [] false

example : "T" ∈ ((stmtUnits annotatedDef).map (·.reads)).flatten := by decide
theorem annotation_counterexample :
    ((analyze annotatedDef).anno? 1 .scope).map (fun c => c.read.contains (.sym "T")) = some false := by decide

end Malt.Props.C08
