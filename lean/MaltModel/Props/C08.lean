import MaltModel.Analysis.ActivityFn
import MaltModel.Analysis.ActivityHyp
import MaltModel.Spec.Symtable
import MaltModel.Spec.Dynamic
/-
C08 — scope (activity) analysis matches Python's own binding rules.  (theorems: under construction)
-/
namespace Malt.Props.C08
open Malt.Py Malt.Analysis

/-- Finalizing a non-isolated scope exports exactly `read - isolated_names` to the parent. -/
theorem finalize_nonisolated_read (c p : Scope) (h : c.isolated = false) (q : QN) :
    q ∈ (c.finalizeInto p).read ↔ q ∈ p.read ∨ (q ∈ c.read ∧ q ∉ c.isolatedNames) := by
  simp [Scope.finalizeInto, h]

end Malt.Props.C08
