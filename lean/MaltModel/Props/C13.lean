import MaltModel.Rt.Policy
import MaltModel.Proofs.C13
/-!
# C13 — the call wrapper is transparent, obeys the conversion policy, falls back safely

Property theorems only (helper lemmas are `private`).  The model is `MaltModel/Rt/Policy.lean`; the rule
table, the order of the checks of `converted_call`, the `update_cache` flags, the tests of
`is_unsupported`/`is_allowlisted`, the partial merge and the fallback behaviour are the definitions of
`Generated/Policy.lean`, regenerated from `/repo` on every run — the proofs below are re-checked against them.
-/
namespace Malt.Policy
open Malt.Gen.Policy

/-! ## 1. The rule table is first-match-wins (for ANY rule list and ANY match predicate) -/

/-- The rule returned is the first one that matches: everything before it does not match. -/
theorem C13_first_match (m : Rule → Bool) (rules : List Rule) (r : Rule) :
    firstMatch m rules = some r ↔
      ∃ pre post, rules = pre ++ r :: post ∧ m r = true ∧ ∀ x ∈ pre, m x = false := by
  induction rules with
  | nil => simp [firstMatch]
  | cons a as ih =>
    by_cases h : m a = true
    · simp only [firstMatch, h, if_true, Option.some.injEq]
      constructor
      · rintro rfl
        exact ⟨[], as, rfl, h, by simp⟩
      · rintro ⟨pre, post, heq, _, hpre⟩
        cases pre with
        | nil => simp at heq; exact heq.1
        | cons x pre' =>
          simp at heq
          have := hpre x (by simp)
          rw [← heq.1, h] at this
          cases this
    · simp only [Bool.not_eq_true] at h
      simp only [firstMatch, h, Bool.false_eq_true, if_false]
      rw [ih]
      constructor
      · rintro ⟨pre, post, heq, hr, hpre⟩
        refine ⟨a :: pre, post, by simp [heq], hr, ?_⟩
        intro x hx
        cases hx with
        | head => exact h
        | tail _ hx' => exact hpre x hx'
      · rintro ⟨pre, post, heq, hr, hpre⟩
        cases pre with
        | nil =>
          simp at heq
          rw [heq.1, hr] at h
          cases h
        | cons x pre' =>
          simp at heq
          exact ⟨pre', post, heq.2, hr, fun y hy => hpre y (by simp [hy])⟩

/-- No rule is returned exactly when no rule matches. -/
theorem C13_first_match_none (m : Rule → Bool) (rules : List Rule) :
    firstMatch m rules = none ↔ ∀ r ∈ rules, m r = false := by
  induction rules with
  | nil => simp [firstMatch]
  | cons r rs ih =>
    by_cases h : m r = true
    · simp [firstMatch, h]
    · simp only [Bool.not_eq_true] at h
      simp [firstMatch, h, ih]

/-- The action taken on a module name is that of the first matching rule; rules after it are irrelevant. -/
theorem C13_rule_action (rules : List Rule) (name : List String) (k : RuleKind) :
    ruleActionIn rules name = some k ↔
      ∃ pre r post, rules = pre ++ r :: post ∧ ruleMatches r name = true ∧ r.kind = k ∧
        ∀ x ∈ pre, ruleMatches x name = false := by
  unfold ruleActionIn
  constructor
  · intro h
    cases hf : firstMatch (fun r => ruleMatches r name) rules with
    | none => simp [hf] at h
    | some r =>
      simp [hf] at h
      obtain ⟨pre, post, heq, hr, hpre⟩ := (C13_first_match _ rules r).mp hf
      exact ⟨pre, r, post, heq, hr, h, hpre⟩
  · rintro ⟨pre, r, post, heq, hr, hk, hpre⟩
    have := (C13_first_match (fun r => ruleMatches r name) rules r).mpr ⟨pre, post, heq, hr, hpre⟩
    simp [this, hk]

/-- Whatever follows the first matching rule can be replaced without changing the outcome. -/
theorem C13_later_rules_irrelevant (pre post post' : List Rule) (r : Rule) (name : List String)
    (hr : ruleMatches r name = true) :
    ruleActionIn (pre ++ r :: post) name = ruleActionIn (pre ++ r :: post') name := by
  unfold ruleActionIn
  induction pre with
  | nil => simp [firstMatch, hr]
  | cons a as ih =>
    by_cases h : ruleMatches a name = true
    · simp [firstMatch, h]
    · simp only [Bool.not_eq_true] at h
      simpa [firstMatch, h] using ih

/-- No rule of the extracted table is dead: on its own prefix every rule is the one that decides (a rule placed
behind a broader rule with the opposite action would be shadowed). -/
theorem C13_rules_effective : ∀ r ∈ conversionRules, ruleAction r.pfx = some r.kind := by decide

/-! The extracted table: the `Convert` rule for `tensorflow.python.training.experimental` shadows the later
`DoNotConvert('tensorflow')`; dotted children match, mere string extensions do not. -/
example : ruleAction ["tensorflow", "python", "training", "experimental", "loss_scale"] = some .convert := by decide
example : ruleAction ["tensorflow", "python", "ops"] = some .doNotConvert := by decide
example : ruleAction ["malt", "impl", "api"] = some .doNotConvert := by decide
example : ruleAction ["maltx"] = none := by decide
example : ruleAction ["absl"] = none := by decide
example : ruleAction ["absl", "logging", "x"] = some .doNotConvert := by decide


/-! ## Helper lemmas that depend on the extracted tables (private; a changed table breaks them by name) -/

private theorem decide_partial_ok (d : Desc) (env : Env) (o : Opts) : (decide true d env o).partOk = true := by
  simp only [decide, chain]
  repeat
    rw [decideIn_cons]
    split
    · simp_all [actionOf, fires, Action.partOk]
  all_goals simp_all [fires]

private theorem decide_base_ok (d : Desc) (env : Env) (o : Opts) : (decide false d env o).baseOk = true := by
  simp only [decide, chain]
  repeat
    rw [decideIn_cons]
    split
    · simp_all [actionOf, fires, Action.baseOk]
  all_goals simp_all [fires]

private theorem mergeArgs_eq {α} (a0 args : List α) : mergeArgs a0 args = a0 ++ args := by
  simp [mergeArgs, srcArgs, partialArgsFirst, partialArgsSecond]

private theorem mergeKw_eq {α} (k0 : Kw α) (kw : Option (Kw α)) : mergeKw k0 kw = dictUpdate k0 (kw.getD []) := by
  simp [mergeKw, srcKw, partialKwBase, partialKwUpdate]

private theorem unconvertedEff_not_raised {α} (c : Callable α) (args : List α) (kw : Option (Kw α)) (att w : Bool) :
    (unconvertedEff c args kw att w).raised = false := by
  simp [unconvertedEff, callUnconvertedHandlesNoneKwargs]

private theorem level_not_raised {α} (a : Action) (env : Env) (d : Desc) (self : Option α) (c : Callable α)
    (args : List α) (kw : Option (Kw α)) (hs : env.strict = false) (ha : a.baseOk = true) :
    (level a env d self c args kw).1.raised = false := by
  cases a with
  | skip chk upd => exact unconvertedEff_not_raised _ _ _ _ _
  | builtin => simp [level, builtinKwargsOnlyWhenTruthy]
  | unknownKind => simp [level, handleFailure, hs, kindFallsBack, unconvertedEff_not_raised]
  | convert =>
    simp only [level]
    split
    · simp [invokeHandlesNoneKwargs]
    · simp [handleFailure, hs, convertFallsBack, unconvertedEff_not_raised]
  | unwrap => simp [Action.baseOk] at ha
  | stuck => simp [Action.baseOk] at ha

private theorem isUnsupported_iff (d : Desc) :
    isUnsupported d = true ↔ (d.wrapt = true ∨ d.lruCache = true ∨ d.constructor = true ∨
                               d.knownModuleMember = true ∨ d.tfPlugin = true) := by
  unfold isUnsupported unsupportedHit unsupportedTests
  simp only [List.find?, unsupHolds]
  cases d.wrapt <;> cases d.lruCache <;> cases d.constructor <;> cases d.knownModuleMember <;> cases d.tfPlugin <;> simp

private theorem decide_partial_unwrap_iff (d : Desc) (env : Env) (o : Opts) :
    decide true d env o = .unwrap ↔ (d.inCache = false ∧ env.status ≠ .disabled ∧ d.artifact = false) := by
  simp only [decide, chain]
  repeat
    rw [decideIn_cons]
    split
    · simp_all [actionOf, fires]
  all_goals simp_all [fires]

private theorem unconvertedEff_fields {α} (c : Callable α) (args : List α) (kw : Option (Kw α)) (att w : Bool) :
    (unconvertedEff c args kw att w).converted = false ∧ (unconvertedEff c args kw att w).attempted = att ∧
    (unconvertedEff c args kw att w).warning = w ∧ (unconvertedEff c args kw att w).invocations = 1 ∧
    (unconvertedEff c args kw att w).raised = false ∧
    (unconvertedEff c args kw att w).binding = direct c args (kw.getD []) := by
  simp [unconvertedEff, callUnconvertedHandlesNoneKwargs]

private theorem level_converted {α} (a : Action) (env : Env) (d : Desc) (self : Option α) (c : Callable α)
    (args : List α) (kw : Option (Kw α)) :
    (level a env d self c args kw).1.converted = true ↔ (a = .convert ∧ d.fail = none) := by
  cases a with
  | skip chk upd => simp [level, (unconvertedEff_fields c args kw _ _).1]
  | builtin => simp [level, builtinKwargsOnlyWhenTruthy]
  | unknownKind =>
    simp only [level, handleFailure]
    split
    · simp [Effect.raise]
    · split
      · simp [(unconvertedEff_fields c args kw _ _).1]
      · simp [Effect.raise]
  | convert =>
    simp only [level]
    split
    · simp_all [invokeHandlesNoneKwargs]
    · rename_i st exc hf
      simp only [handleFailure]
      split
      · simp [Effect.raise, hf]
      · split
        · simp [(unconvertedEff_fields c args kw _ _).1, hf]
        · simp [Effect.raise, hf]
  | unwrap => simp [level, Effect.raise]
  | stuck => simp [level, Effect.raise]

private theorem level_none_empty {α} (a : Action) (env : Env) (d : Desc) (self : Option α) (c : Callable α) (args : List α) :
    level a env d self c args none = level a env d self c args (some []) := by
  cases a <;> simp [level, unconvertedEff, handleFailure, callUnconvertedHandlesNoneKwargs, builtinKwargsOnlyWhenTruthy,
    invokeHandlesNoneKwargs]

/-! ## 2. Transparency: the target is invoked exactly once, with the binding of the direct call

`direct c args kw` is the binding CPython itself produces for `c(*args, **kw)` (bound receivers prepended,
`functools.partial` levels merged as `func(*stored, *args, **{**stored_kw, **kw})`); `call` is the wrapper.

FULL STATEMENT (false of the pinned tree, see finding C13-foreign-self):
  theorem C13_once : ∀ env o c args kw, (call env o c args kw).1.raised = false →
      (call env o c args kw).1.invocations = 1 ∧ (call env o c args kw).1.binding = direct c args (kw.getD [])
`converted_call` prepends `getattr(f, '__self__', None)` for plain functions as well, so a function object that
carries a user-set `__self__` attribute receives an extra first argument once it is converted.  The proved
theorem assumes `c.foreignSelf = false` (the class predicate of the finding is its negation). -/

/-- Whenever the wrapper does not itself raise (strict-mode re-raise), the target runs exactly once and receives
exactly the positional and keyword arguments of the direct call — for every chain of partials (by induction on the
nesting), every decision taken at every level, kwargs `None`, `{}` or non-empty. -/
theorem C13_once_partial {α} (env : Env) (o : Opts) (c : Callable α) (args : List α) (kw : Option (Kw α))
    (hself : c.foreignSelf = false) :
    (call env o c args kw).1.raised = false →
      (call env o c args kw).1.invocations = 1 ∧
      (call env o c args kw).1.binding = direct c args (kw.getD []) := by
  induction c generalizing args kw with
  | base d self binds =>
    simp only [call]
    apply level_transparent
    intro _
    simp only [Callable.foreignSelf, Bool.and_eq_false_imp, Bool.not_eq_eq_eq_not, Bool.not_false] at hself
    cases self <;> cases binds <;> simp_all [effectiveArgs, direct, kindSelfPrepended, kindObjectPrepended] <;>
      cases d.kind <;> simp
  | part d a0 k0 inner ih =>
    simp only [call]
    have hok := decide_partial_ok d env o
    cases hdec : decide true d env o with
    | unwrap =>
      simp only []
      intro hr
      have := ih (mergeArgs a0 args) (some (mergeKw k0 kw)) (by simpa [Callable.foreignSelf] using hself) hr
      simpa [direct, mergeArgs_eq, mergeKw_eq] using this
    | skip chk upd => exact unconvertedEff_transparent _ _ _ _ _
    | _ => simp [hdec, Action.partOk] at hok

/-- The counterexample behind the `_partial`: a plain function with `__self__ = "FOREIGN"` called with `("v1",)`. -/
example : (call ⟨.unspecified, false, true⟩ ⟨false, true⟩
            (.base ⟨false, true, false, .notBuiltin, false, false, false, false, false, .opaque, .function, true, false, none⟩
              (some "FOREIGN") false) ["v1"] none).1.binding
          ≠ direct (.base ⟨false, true, false, .notBuiltin, false, false, false, false, false, .opaque, .function, true, false, none⟩
              (some "FOREIGN") false) ["v1"] [] := by decide

/-- Outside strict mode the wrapper never raises on its own: it always ends up invoking the target. -/
theorem C13_nonstrict_never_raises {α} (env : Env) (o : Opts) (c : Callable α) (args : List α) (kw : Option (Kw α))
    (hs : env.strict = false) : (call env o c args kw).1.raised = false := by
  induction c generalizing args kw with
  | base d self binds =>
    simp only [call]
    exact level_not_raised _ _ _ _ _ _ _ hs (decide_base_ok d env o)
  | part d a0 k0 inner ih =>
    simp only [call]
    have hok := decide_partial_ok d env o
    cases hdec : decide true d env o with
    | unwrap => exact ih _ _
    | skip chk upd => exact unconvertedEff_not_raised _ _ _ _ _
    | _ => simp [hdec, Action.partOk] at hok

/-- Transparency outside strict mode, unconditionally on the outcome of the conversion. -/
theorem C13_once_nonstrict_partial {α} (env : Env) (o : Opts) (c : Callable α) (args : List α) (kw : Option (Kw α))
    (hs : env.strict = false) (hself : c.foreignSelf = false) :
    (call env o c args kw).1.invocations = 1 ∧ (call env o c args kw).1.binding = direct c args (kw.getD []) :=
  C13_once_partial env o c args kw hself (C13_nonstrict_never_raises env o c args kw hs)

/-- Positional binding of the direct call in closed form: receiver, stored arguments from the innermost partial
outwards, then the call-site arguments. -/
theorem C13_positional_binding {α} (c : Callable α) (args : List α) (kw : Kw α) :
    (direct c args kw).pos = storedArgs c ++ args := by
  induction c generalizing args kw with
  | base d self binds => simp [direct, storedArgs]
  | part d a0 k0 inner ih => simp [direct, storedArgs, ih]

/-- Keyword merge of one partial level: the call site wins over the stored keywords. -/
theorem C13_callsite_wins {α} (k0 : Kw α) (kw : Option (Kw α)) (k : String) :
    dictGet k (mergeKw k0 kw) = match lastIn k (kw.getD []) with
                                | some v => some v
                                | none => dictGet k k0 := by
  rw [mergeKw_eq]
  exact dictGet_dictUpdate k0 (kw.getD []) k

/-- Keyword binding of the direct call in closed form (real dicts: distinct keys): the call site wins, then the
outermost partial, then the inner ones. -/
theorem C13_keyword_binding {α} (c : Callable α) (args : List α) (kw : Kw α) (k : String)
    (hc : c.kwDistinct) (hk : (keys kw).Nodup) :
    dictGet k (direct c args kw).kw = match dictGet k kw with
                                       | some v => some v
                                       | none => storedKw k c := by
  induction c generalizing args kw with
  | base d self binds =>
    simp only [direct, storedKw]
    cases dictGet k kw <;> rfl
  | part d a0 k0 inner ih =>
    simp only [direct, storedKw]
    rw [ih _ _ hc.2 (nodup_dictUpdate k0 kw hc.1), dictGet_dictUpdate, lastIn_eq_dictGet kw k hk]
    cases dictGet k kw <;> rfl
/-- `kwargs=None` and `kwargs={}` are indistinguishable (effect and remembered state). -/
theorem C13_kwargs_none_is_empty {α} (env : Env) (o : Opts) (c : Callable α) (args : List α) :
    call env o c args none = call env o c args (some []) := by
  cases c with
  | base d self binds => simp [call, level_none_empty]
  | part d a0 k0 inner =>
    simp only [call]
    cases decide true d env o <;> simp [level_none_empty, mergeKw_eq]

/-! Non-vacuity: a bound method behind two genuinely nested partials with overlapping keywords. -/
example :
    (call ⟨.enabled, false, true⟩ ⟨false, true⟩
      (.part ⟨false, true, false, .notBuiltin, false, false, false, false, false, .opaque, .callableObject, false, false, none⟩
         ["q1"] [("k", "qk"), ("x", "qx")]
        (.part ⟨false, true, false, .notBuiltin, false, false, false, false, false, .opaque, .callableObject, false, false, none⟩
           ["p1"] [("k", "pk"), ("y", "py")]
          (.base ⟨false, true, false, .notBuiltin, false, false, false, false, false, .opaque, .method, true, false, none⟩
             (some "SELF") true)))
      ["v1"] (some [("k", "vk"), ("z", "vz")])).1
    = ⟨1, ⟨["SELF", "p1", "q1", "v1"], [("k", "vk"), ("y", "py"), ("x", "qx"), ("z", "vz")]⟩,
       true, true, false, false, false, false⟩ := by decide

/-! ## 3. The conversion policy -/

/-- `is_unsupported` holds exactly for wrapt / lru_cache wrappers, constructors, members of the named stdlib
modules and plugin modules. -/
theorem C13_unsupported_iff (d : Desc) :
    isUnsupported d = true ↔ (d.wrapt = true ∨ d.lruCache = true ∨ d.constructor = true ∨
                               d.knownModuleMember = true ∨ d.tfPlugin = true) :=
  isUnsupported_iff d

/-- **The policy, stated outright**: a (non-partial) callable is converted exactly when none of the documented
exclusions holds — remembered failure, disabled context, artifact / do_not_convert wrapper, builtin,
wrapt/lru_cache/constructor/stdlib-member/plugin, allow-listed (unless the user asked for it), non-recursive mode,
no Python code object, source-less `<string>` code. -/
theorem C13_policy (d : Desc) (env : Env) (o : Opts) :
    decide false d env o = .convert ↔ ¬ Excluded d env o := by
  simp only [decide, chain]
  repeat
    rw [decideIn_cons]
    split
    · simp_all [actionOf, fires, Excluded, allowlistSkippedWhenUserRequested]
  all_goals simp_all [fires]

private theorem actionOf_convert_iff (s : Step) : actionOf s = .convert ↔ s.check = .convert := by
  obtain ⟨c, u⟩ := s
  cases c <;> simp [actionOf]

/-- For ANY chain of checks (any order, any length): the decision is to convert exactly when a conversion step is
reached with every step placed before it negative — the exclusions are an unordered set. -/
theorem C13_chain_convert_iff (steps : List Step) (p : Bool) (d : Desc) (env : Env) (o : Opts) :
    decideIn steps p d env o = .convert ↔
      ∃ pre s post, steps = pre ++ s :: post ∧ s.check = .convert ∧
        ∀ x ∈ pre, fires p d env o x.check = false := by
  induction steps with
  | nil => simp [decideIn_nil]
  | cons a as ih =>
    rw [decideIn_cons]
    by_cases h : fires p d env o a.check = true
    · simp only [h, if_true, actionOf_convert_iff]
      constructor
      · intro hc
        exact ⟨[], a, as, rfl, hc, by simp⟩
      · rintro ⟨pre, s, post, heq, hs, hpre⟩
        cases pre with
        | nil => simp at heq; rw [heq.1]; exact hs
        | cons x pre' =>
          simp at heq
          have := hpre x (by simp)
          rw [← heq.1, h] at this
          cases this
    · have hf : fires p d env o a.check = false := by simpa using h
      rw [if_neg h, ih]
      clear h
      have h := hf
      constructor
      · rintro ⟨pre, s, post, heq, hs, hpre⟩
        refine ⟨a :: pre, s, post, by simp [heq], hs, ?_⟩
        intro x hx
        cases hx with
        | head => exact h
        | tail _ hx' => exact hpre x hx'
      · rintro ⟨pre, s, post, heq, hs, hpre⟩
        cases pre with
        | nil =>
          simp at heq
          rw [← heq.1] at hs
          simp [hs, fires] at h
        | cons x pre' =>
          simp at heq
          exact ⟨pre', s, post, heq.2, hs, fun y hy => hpre y (by simp [hy])⟩
/-- Each documented exclusion on its own prevents the conversion. -/
theorem C13_excluded_not_converted (d : Desc) (env : Env) (o : Opts) (h : Excluded d env o) :
    decide false d env o ≠ .convert :=
  fun hc => (C13_policy d env o).mp hc h

/-- The allow-list, stated outright: a matching `DoNotConvert` rule allows, a matching `Convert` rule forbids; otherwise
generator functions, objects whose `__call__` is allowed, methods of `TestCase` subclasses or of an allowed defining
class, and namedtuple types (for an owner class: only direct namedtuple types) are allowed. -/
theorem C13_allowlist (f : EntFacts) (call definer : Ent) (cc nt : Bool) :
    allowlistedWith (.mk f call definer) cc nt = true ↔
      (moduleRulesResult f.modName = some true) ∨
      (moduleRulesResult f.modName = none ∧
        (f.genFn = true ∨
         (cc = true ∧ f.isClass = false ∧ f.hasCall = true ∧ f.callTypeDiffers = true ∧ allowlisted call = true) ∨
         (f.isMethod = true ∧ f.ownerKnown = true ∧
            (f.ownerIsTestCase = true ∨ allowlistedWith definer false true = true)) ∨
         (f.isNamedtuple = true ∧ (nt = true → f.ntBaseIsNamedtuple = false)))) := by
  simp only [allowlistedWith, allowTests, runAllowTests, allowStep, allowlisted, callRecCheckCall, callRecNamedtupleSub,
    ownerRecCheckCall, ownerRecNamedtupleSub, allowDefaultCheckCall, allowDefaultNamedtupleSub, methodsOfTestCaseAllowed]
  generalize allowlistedWith call true false = ac
  generalize allowlistedWith definer false true = ad
  have e : (cc = true ∧ f.isClass = false ∧ f.hasCall = true ∧ f.callTypeDiffers = true ∧ ac = true) ↔
      (cc && !f.isClass && f.hasCall && f.callTypeDiffers && ac) = true := by simp [and_assoc]
  simp only [e]
  generalize (cc && !f.isClass && f.hasCall && f.callTypeDiffers && ac) = co
  cases hm : moduleRulesResult f.modName with
  | some b => cases b <;> simp
  | none =>
    cases f.genFn
    · cases co
      · cases f.isMethod <;> cases f.ownerKnown <;> cases f.ownerIsTestCase <;> cases ad <;>
          cases f.isNamedtuple <;> cases nt <;> cases f.ntBaseIsNamedtuple <;> simp
      · simp
    · simp

/-- The module rules decide first: what the rule loop returns is what the first matching rule says. -/
theorem C13_module_rule_decides (name : List String) :
    moduleRulesResult (some name) =
      match ruleAction name with
      | some .convert => some false
      | some .doNotConvert => some true
      | _ => none := by
  simp only [moduleRulesResult, allowOnConvert, allowOnDoNotConvert]
  cases ruleAction name with
  | none => rfl
  | some k => cases k <;> rfl

/-- End to end through any chain of partials: the target runs as converted code exactly when every partial level
is passed, no exclusion applies to the base callable, and the conversion does not fail. -/
theorem C13_converted_iff {α} (env : Env) (o : Opts) (c : Callable α) (args : List α) (kw : Option (Kw α)) :
    (call env o c args kw).1.converted = true ↔
      (c.passes = true ∧ ¬ Excluded c.baseDesc env o ∧ c.baseDesc.fail = none) := by
  induction c generalizing args kw with
  | base d self binds =>
    simp only [call, level_converted, C13_policy, Callable.passes, Callable.baseDesc, true_and]
  | part d a0 k0 inner ih =>
    simp only [call]
    have hok := decide_partial_ok d env o
    have hiff := decide_partial_unwrap_iff d env o
    cases hdec : decide true d env o with
    | unwrap =>
      have := hiff.mp hdec
      simp only [ih, Callable.passes, Callable.baseDesc]
      simp [this.1, this.2.2]
    | skip chk upd =>
      have hne : ¬ (d.inCache = false ∧ env.status ≠ .disabled ∧ d.artifact = false) := by
        intro h; have := hiff.mpr h; rw [hdec] at this; cases this
      simp only [level, (unconvertedEff_fields _ args kw _ _).1, Callable.passes, Callable.baseDesc]
      constructor
      · intro h; cases h
      · rintro ⟨hp, hx, _⟩
        exfalso
        apply hne
        simp only [Bool.and_eq_true, Bool.not_eq_eq_eq_not, Bool.not_true] at hp
        refine ⟨hp.1.1, ?_, hp.1.2⟩
        intro hdis
        exact hx (Or.inr (Or.inl hdis))
    | _ => simp [hdec, Action.partOk] at hok

/-! Non-vacuity of the policy rows (each decided on a concrete description). -/
section examples
private def plain : Desc :=
  ⟨false, true, false, .notBuiltin, false, false, false, false, false, .opaque, .function, true, false, none⟩
private def env0 : Env := ⟨.unspecified, false, true⟩
private def fnIn (m : List String) : Ent := .mk ⟨some m, false, false, true, true, false, false, false, false, false⟩ .opaque .opaque

example : decide false plain env0 ⟨false, true⟩ = .convert := by decide
example : decide false { plain with artifact := true } env0 ⟨false, true⟩ = .skip .artifact true := by decide
example : decide false plain ⟨.disabled, false, true⟩ ⟨false, true⟩ = .skip .ctxDisabled false := by decide
example : decide false { plain with ent := fnIn ["malt", "impl"] } env0 ⟨false, true⟩ = .skip .allowlisted true := by decide
example : decide false { plain with ent := fnIn ["malt", "impl"] } env0 ⟨true, true⟩ = .convert := by decide
example : decide false { plain with ent := fnIn ["tensorflow", "python", "training", "experimental", "x"] } env0 ⟨false, true⟩
            = .convert := by decide
example : decide false { plain with constructor := true } env0 ⟨true, true⟩ = .skip .unsupported true := by decide
example : decide false { plain with builtin := .overloaded } env0 ⟨false, true⟩ = .builtin := by decide
example : decide false plain env0 ⟨false, false⟩ = .skip .notInternal true := by decide
example : decide false { plain with targetHasCode := false } env0 ⟨false, true⟩ = .skip .noCode true := by decide
example : decide false { plain with targetStringFile := true } env0 ⟨false, true⟩ = .skip .stringFile true := by decide
example : decide false { plain with inCache := true, artifact := true } env0 ⟨false, true⟩ = .skip .cacheHit false := by decide
example : allowlisted (.mk ⟨some ["user"], true, false, true, true, false, false, false, false, false⟩ .opaque .opaque) = true := by
  decide
end examples

/-! ## 4. Fallback: a failed conversion runs the target unconverted, warns, and is remembered

FULL STATEMENT of the "remembered" part (false of the pinned tree, see finding C13-uncacheable-not-remembered):
  after a fallback, for EVERY callable, no later call attempts the conversion again.
`cache_allowlisted` swallows the TypeError raised for unhashable / non-weak-referenceable callables, so for those
nothing is remembered.  `C13_next_call_skips_partial` assumes `cacheable` (the finding's class is its negation). -/

/-- For a failure injected at ANY stage with ANY class of error, outside strict mode: the target is run unconverted
exactly once with the direct binding, a conversion was attempted, the warning is emitted (always, except for
missing-source errors in environments without source support), and the callable is remembered. -/
theorem C13_fallback {α} (c : Callable α) (env : Env) (o : Opts) (args : List α) (kw : Option (Kw α))
    (st : Stage) (exc : ExcClass)
    (hp : c.passes = true) (hx : ¬ Excluded c.baseDesc env o) (hf : c.baseDesc.fail = some (st, exc))
    (hs : env.strict = false) :
    (call env o c args kw).1.invocations = 1 ∧
    (call env o c args kw).1.converted = false ∧
    (call env o c args kw).1.attempted = true ∧
    (call env o c args kw).1.raised = false ∧
    (call env o c args kw).1.binding = direct c args (kw.getD []) ∧
    (call env o c args kw).1.warning = warnsFor exc env ∧
    (call env o c args kw).2 = c.remembered := by
  induction c generalizing args kw with
  | base d self binds =>
    simp only [Callable.baseDesc] at hx hf
    have hdec := (C13_policy d env o).mpr hx
    have hnc : d.inCache = false := by
      cases h : d.inCache
      · rfl
      · exact absurd (Or.inl h) hx
    simp only [call, hdec, level, hf, handleFailure, hs, Bool.false_and, Bool.false_eq_true, if_false, convertFallsBack,
      if_true, unconvertedEff_fields, true_and, Callable.remembered, Desc.remember, fallbackUpdatesCache,
      callUnconvertedUpdatesCache, Bool.true_and]
    refine ⟨?_, ?_⟩
    · cases exc <;> simp [fallbackWarns, warnCond, warnsFor, fallbackWarnInaccessibleSource,
        fallbackWarnUnsupportedElement, fallbackWarnOther, hnc]
    · cases d.cacheable <;> simp
  | part d a0 k0 inner ih =>
    simp only [Callable.passes, Bool.and_eq_true, Bool.not_eq_eq_eq_not, Bool.not_true] at hp
    have hnd : env.status ≠ .disabled := fun h => hx (Or.inr (Or.inl h))
    have hdec := (decide_partial_unwrap_iff d env o).mpr ⟨hp.1.1, hnd, hp.1.2⟩
    have := ih (mergeArgs a0 args) (some (mergeKw k0 kw)) hp.2 hx hf
    simp only [call, hdec, Callable.remembered]
    simpa [direct, mergeArgs_eq, mergeKw_eq] using this

/-- Strict mode: the conversion error is re-raised, the target is not run, nothing is remembered, no warning. -/
theorem C13_strict_reraises {α} (c : Callable α) (env : Env) (o : Opts) (args : List α) (kw : Option (Kw α))
    (st : Stage) (exc : ExcClass)
    (hp : c.passes = true) (hx : ¬ Excluded c.baseDesc env o) (hf : c.baseDesc.fail = some (st, exc))
    (hs : env.strict = true) :
    (call env o c args kw).1.raised = true ∧
    (call env o c args kw).1.invocations = 0 ∧
    (call env o c args kw).1.warning = false ∧
    (call env o c args kw).2 = c := by
  induction c generalizing args kw with
  | base d self binds =>
    simp only [Callable.baseDesc] at hx hf
    have hdec := (C13_policy d env o).mpr hx
    simp [call, hdec, level, hf, handleFailure, hs, convertStrictReraises, Effect.raise]
  | part d a0 k0 inner ih =>
    simp only [Callable.passes, Bool.and_eq_true, Bool.not_eq_eq_eq_not, Bool.not_true] at hp
    have hnd : env.status ≠ .disabled := fun h => hx (Or.inr (Or.inl h))
    have hdec := (decide_partial_unwrap_iff d env o).mpr ⟨hp.1.1, hnd, hp.1.2⟩
    have := ih (mergeArgs a0 args) (some (mergeKw k0 kw)) hp.2 hx hf
    simp only [call, hdec]
    simpa using this

/-- A remembered callable is called unconverted without any attempt, warning or cache update — whatever else is
true of it, in every context and mode (the cache test comes first). -/
theorem C13_remembered_skips {α} (d : Desc) (self : Option α) (binds : Bool) (env : Env) (o : Opts)
    (args : List α) (kw : Option (Kw α)) (hc : d.inCache = true) :
    (call env o (.base d self binds) args kw).1.attempted = false ∧
    (call env o (.base d self binds) args kw).1.converted = false ∧
    (call env o (.base d self binds) args kw).1.warning = false ∧
    (call env o (.base d self binds) args kw).1.invocations = 1 ∧
    (call env o (.base d self binds) args kw).1.raised = false ∧
    (call env o (.base d self binds) args kw).1.binding = direct (.base d self binds) args (kw.getD []) ∧
    (call env o (.base d self binds) args kw).2 = .base d self binds := by
  have hdec : decide false d env o = .skip .cacheHit false := by
    simp only [decide, chain]
    rw [decideIn_cons]
    simp [fires, hc, actionOf]
  simp [call, hdec, level, unconvertedEff_fields, Desc.remember]

/-- After a remembered failure no later call — in any context, strict or not, with any arguments, through any
chain of partials — attempts the conversion again or warns; it still runs the target once with the direct binding. -/
theorem C13_next_call_skips_partial {α} (c : Callable α) (env : Env) (o : Opts) (args : List α) (kw : Option (Kw α))
    (hc : c.baseDesc.cacheable = true) :
    (call env o c.remembered args kw).1.attempted = false ∧
    (call env o c.remembered args kw).1.converted = false ∧
    (call env o c.remembered args kw).1.warning = false ∧
    (call env o c.remembered args kw).1.invocations = 1 ∧
    (call env o c.remembered args kw).1.raised = false ∧
    (call env o c.remembered args kw).1.binding = direct c args (kw.getD []) := by
  induction c generalizing args kw with
  | base d self binds =>
    simp only [Callable.baseDesc] at hc
    have hr : (Callable.base d self binds).remembered = .base { d with inCache := true } self binds := by
      simp only [Callable.remembered]
      rw [if_pos hc]
    rw [hr]
    have := C13_remembered_skips { d with inCache := true } self binds env o args kw rfl
    exact ⟨this.1, this.2.1, this.2.2.1, this.2.2.2.1, this.2.2.2.2.1, by simpa [direct] using this.2.2.2.2.2.1⟩
  | part d a0 k0 inner ih =>
    simp only [Callable.remembered, call]
    have hok := decide_partial_ok d env o
    cases hdec : decide true d env o with
    | unwrap =>
      have := ih (mergeArgs a0 args) (some (mergeKw k0 kw)) (by simpa [Callable.baseDesc] using hc)
      simpa [direct, mergeArgs_eq, mergeKw_eq] using this
    | skip chk upd =>
      simp only [hdec, Action.partOk, bne_iff_ne, ne_eq] at hok
      have hb : (chk == Check.unsupported) = false := by simpa using hok
      simp [level, unconvertedEff_fields, hb]
      simp [direct, direct_remembered]
    | _ => simp [hdec, Action.partOk] at hok

/-- Fallback and memory composed: fail once (any stage), and every later call skips the conversion. -/
theorem C13_fallback_remembered_partial {α} (c : Callable α) (env env' : Env) (o : Opts) (args args' : List α)
    (kw kw' : Option (Kw α)) (st : Stage) (exc : ExcClass)
    (hp : c.passes = true) (hx : ¬ Excluded c.baseDesc env o) (hf : c.baseDesc.fail = some (st, exc))
    (hs : env.strict = false) (hc : c.baseDesc.cacheable = true) :
    (call env' o (call env o c args kw).2 args' kw').1.attempted = false ∧
    (call env' o (call env o c args kw).2 args' kw').1.warning = false ∧
    (call env' o (call env o c args kw).2 args' kw').1.invocations = 1 ∧
    (call env' o (call env o c args kw).2 args' kw').1.binding = direct c args' (kw'.getD []) := by
  rw [(C13_fallback c env o args kw st exc hp hx hf hs).2.2.2.2.2.2]
  have := C13_next_call_skips_partial c env' o args' kw' hc
  exact ⟨this.1, this.2.2.1, this.2.2.2.1, this.2.2.2.2.2⟩

/-- The counterexample behind the `_partial`: an uncacheable callable whose conversion fails is converted again. -/
example : (call ⟨.unspecified, false, true⟩ ⟨false, true⟩
            (call ⟨.unspecified, false, true⟩ ⟨false, true⟩
              (.base ⟨false, false, false, .notBuiltin, false, false, false, false, false, .opaque, .callableObject, true, false,
                      some (.featureCheck, .unsupportedElement)⟩ (some "OBJ") true) ([] : List String) none).2
            [] none).1.attempted = true := by decide

/-! Non-vacuity of the fallback theorem: a failing function behind one partial. -/
example :
    (call ⟨.enabled, false, true⟩ ⟨false, true⟩
      (.part ⟨false, true, false, .notBuiltin, false, false, false, false, false, .opaque, .callableObject, false, false, none⟩
         ["p1"] [("k", "pk")]
        (.base ⟨false, true, false, .notBuiltin, false, false, false, false, false, .opaque, .function, true, false,
                some (.converter, .other)⟩ (none : Option String) false))
      ["v1"] none).1
    = ⟨1, ⟨["p1", "v1"], [("k", "pk")]⟩, false, true, true, false, false, false⟩ := by decide

/-! ## 5. Histories: the negative cache is only ever written for context-free reasons -/

private theorem level_state {α} (a : Action) (env : Env) (d : Desc) (self : Option α) (c : Callable α)
    (args : List α) (kw : Option (Kw α)) :
    (level a env d self c args kw).2 = d ∨
    ((level a env d self c args kw).2 = { d with inCache := true } ∧ mayRemember d a = true) := by
  cases a with
  | skip chk upd =>
    cases upd <;> cases hc : d.cacheable <;> simp [level, Desc.remember, mayRemember, hc, callUnconvertedUpdatesCache]
  | builtin => simp only [level]; split <;> simp
  | unknownKind =>
    simp only [level, handleFailure, mayRemember]
    split
    · simp
    · split
      · cases hc : d.cacheable <;> simp [Desc.remember, hc, fallbackUpdatesCache, callUnconvertedUpdatesCache]
      · simp
  | convert =>
    simp only [level, mayRemember]
    split
    · split <;> simp
    · rename_i st exc hf
      simp only [handleFailure]
      split
      · simp
      · split
        · cases hc : d.cacheable <;> simp [Desc.remember, hc, hf, fallbackUpdatesCache, callUnconvertedUpdatesCache]
        · simp
  | unwrap => simp [level]
  | stuck => simp [level]

private theorem decide_base_remember (d : Desc) (env : Env) (o : Opts)
    (h : mayRemember d (decide false d env o) = true) : StableExcluded d o := by
  revert h
  simp only [decide, chain]
  repeat
    rw [decideIn_cons]
    split
    · simp_all [actionOf, fires, mayRemember, StableExcluded, allowlistSkippedWhenUserRequested]
  all_goals simp_all [fires]

private theorem decide_part_remember (d : Desc) (env : Env) (o : Opts)
    (h : mayRemember d (decide true d env o) = true) : d.artifact = true := by
  revert h
  simp only [decide, chain]
  repeat
    rw [decideIn_cons]
    split
    · simp_all [actionOf, fires, mayRemember]
  all_goals simp_all [fires]

private theorem benign_refl {α} (o : Opts) (c : Callable α) : Benign o c c := by
  induction c with
  | base d s b => simp [Benign]
  | part d a k i ih => simp [Benign, ih]

private theorem stable_of_set (d : Desc) (o : Opts) :
    StableExcluded { d with inCache := true } o ↔ StableExcluded d o := by
  simp [StableExcluded, isUnsupported, unsupportedHit, unsupHolds]

private theorem benign_step {α} (o : Opts) (env : Env) (c c' : Callable α) (args : List α) (kw : Option (Kw α))
    (h : Benign o c c') : Benign o c (call env o c' args kw).2 := by
  induction c generalizing c' args kw with
  | base d s b =>
    cases c' with
    | part _ _ _ _ => simp [Benign] at h
    | base d' s' b' =>
      obtain ⟨hs, hb, hd⟩ := h
      simp only [call, Benign]
      refine ⟨hs, hb, ?_⟩
      rcases level_state (decide false d' env o) env d' s' (.base d' s' b') args kw with h1 | ⟨h1, h2⟩
      · rw [h1]; exact hd
      · rw [h1]
        have hst := decide_base_remember d' env o h2
        rcases hd with rfl | ⟨rfl, hsd⟩
        · exact Or.inr ⟨rfl, hst⟩
        · exact Or.inr ⟨rfl, hsd⟩
  | part d a k i ih =>
    cases c' with
    | base _ _ _ => simp [Benign] at h
    | part d' a' k' i' =>
      obtain ⟨ha, hk, hd, hi⟩ := h
      simp only [call]
      have hart : d'.artifact = d.artifact := by
        rcases hd with rfl | ⟨rfl, _⟩ <;> rfl
      cases hdec : decide true d' env o with
      | unwrap =>
        simp only [Benign]
        exact ⟨ha, hk, hd, ih _ _ _ hi⟩
      | _ =>
        simp only [Benign]
        refine ⟨ha, hk, ?_, hi⟩
        first
        | (rcases level_state (decide true d' env o) env d' (none : Option α) (.part d' a' k' i') args kw with h1 | ⟨h1, h2⟩
           · rw [hdec] at h1; rw [h1]; exact hd
           · rw [hdec] at h1; rw [h1]
             have hst := decide_part_remember d' env o h2
             rw [hart] at hst
             rcases hd with rfl | ⟨rfl, hsd⟩
             · exact Or.inr ⟨rfl, hst⟩
             · exact Or.inr ⟨rfl, hsd⟩)

private theorem benign_callSeq {α} (o : Opts) (c c' : Callable α) (hist : List (Env × List α × Option (Kw α)))
    (h : Benign o c c') : Benign o c (callSeq o c' hist) := by
  induction hist generalizing c' with
  | nil => exact h
  | cons x rest ih =>
    obtain ⟨env, args, kw⟩ := x
    exact ih _ (benign_step o env c c' args kw h)

private theorem benign_fail {α} (o : Opts) (c c' : Callable α) (h : Benign o c c') : c'.baseDesc.fail = c.baseDesc.fail := by
  induction c generalizing c' with
  | base d s b =>
    cases c' with
    | part _ _ _ _ => simp [Benign] at h
    | base d' s' b' =>
      obtain ⟨_, _, hd⟩ := h
      rcases hd with rfl | ⟨rfl, _⟩ <;> rfl
  | part d a k i ih =>
    cases c' with
    | base _ _ _ => simp [Benign] at h
    | part d' a' k' i' => exact ih i' h.2.2.2

/-- the benign extra cache entries never change whether a conversion is due -/
private theorem benign_due {α} (o : Opts) (env : Env) (c c' : Callable α) (h : Benign o c c')
    (hf : c.baseDesc.fail = none) :
    (c'.passes = true ∧ ¬ Excluded c'.baseDesc env o) ↔ (c.passes = true ∧ ¬ Excluded c.baseDesc env o) := by
  induction c generalizing c' with
  | base d s b =>
    cases c' with
    | part _ _ _ _ => simp [Benign] at h
    | base d' s' b' =>
      obtain ⟨_, _, hd⟩ := h
      rcases hd with rfl | ⟨rfl, hsd⟩
      · rfl
      · simp only [Callable.baseDesc] at hf
        have hx : Excluded d env o := by
          rcases hsd with h | h | h | h | h | h | h | h | h
          · exact Or.inr (Or.inr (Or.inl h))
          · exact Or.inr (Or.inr (Or.inr (Or.inl h)))
          · exact Or.inr (Or.inr (Or.inr (Or.inr (Or.inl h))))
          · exact Or.inr (Or.inr (Or.inr (Or.inr (Or.inr (Or.inl h)))))
          · exact Or.inr (Or.inr (Or.inr (Or.inr (Or.inr (Or.inr (Or.inl h))))))
          · exact Or.inr (Or.inr (Or.inr (Or.inr (Or.inr (Or.inr (Or.inr (Or.inl h)))))))
          · exact Or.inr (Or.inr (Or.inr (Or.inr (Or.inr (Or.inr (Or.inr (Or.inr (Or.inl h))))))))
          · exact Or.inr (Or.inr (Or.inr (Or.inr (Or.inr (Or.inr (Or.inr (Or.inr (Or.inr h))))))))
          · simp [hf] at h
        have hx' : Excluded { d with inCache := true } env o := Or.inl rfl
        simp [Callable.passes, Callable.baseDesc, hx, hx']
  | part d a k i ih =>
    cases c' with
    | base _ _ _ => simp [Benign] at h
    | part d' a' k' i' =>
      obtain ⟨_, _, hd, hi⟩ := h
      have := ih i' hi (by simpa [Callable.baseDesc] using hf)
      rcases hd with rfl | ⟨rfl, hart⟩
      · simp only [Callable.passes, Callable.baseDesc, Bool.and_eq_true] at this ⊢
        constructor
        · rintro ⟨⟨h1, h2⟩, h3⟩; exact ⟨⟨h1, (this.mp ⟨h2, h3⟩).1⟩, (this.mp ⟨h2, h3⟩).2⟩
        · rintro ⟨⟨h1, h2⟩, h3⟩; exact ⟨⟨h1, (this.mpr ⟨h2, h3⟩).1⟩, (this.mpr ⟨h2, h3⟩).2⟩
      · simp [Callable.passes, hart]

private theorem level_attempted {α} (a : Action) (env : Env) (d : Desc) (self : Option α) (c : Callable α)
    (args : List α) (kw : Option (Kw α)) :
    (level a env d self c args kw).1.attempted = true ↔ a = .convert := by
  cases a with
  | skip chk upd => simp [level, unconvertedEff, Effect.raise, callUnconvertedHandlesNoneKwargs]
  | builtin => simp [level, builtinKwargsOnlyWhenTruthy]
  | unknownKind =>
    simp only [level, handleFailure]
    split
    · simp [Effect.raise]
    · split <;> simp [unconvertedEff, Effect.raise, callUnconvertedHandlesNoneKwargs]
  | convert =>
    simp only [level]
    split
    · split <;> simp [Effect.raise]
    · simp only [handleFailure]
      split
      · simp [Effect.raise]
      · split <;> simp [unconvertedEff, Effect.raise, callUnconvertedHandlesNoneKwargs]
  | unwrap => simp [level, Effect.raise]
  | stuck => simp [level, Effect.raise]

/-- A conversion is attempted exactly when every partial level is passed and no exclusion applies to the base. -/
theorem C13_attempted_iff {α} (env : Env) (o : Opts) (c : Callable α) (args : List α) (kw : Option (Kw α)) :
    (call env o c args kw).1.attempted = true ↔ (c.passes = true ∧ ¬ Excluded c.baseDesc env o) := by
  induction c generalizing args kw with
  | base d self binds =>
    simp only [call, level_attempted, C13_policy, Callable.passes, Callable.baseDesc, true_and]
  | part d a0 k0 inner ih =>
    simp only [call]
    have hok := decide_partial_ok d env o
    have hiff := decide_partial_unwrap_iff d env o
    cases hdec : decide true d env o with
    | unwrap =>
      have := hiff.mp hdec
      simp only [ih, Callable.passes, Callable.baseDesc]
      simp [this.1, this.2.2]
    | skip chk upd =>
      have hne : ¬ (d.inCache = false ∧ env.status ≠ .disabled ∧ d.artifact = false) := by
        intro h; have := hiff.mpr h; rw [hdec] at this; cases this
      simp only [level_attempted, Callable.passes, Callable.baseDesc]
      constructor
      · intro h; cases h
      · rintro ⟨hp, hx⟩
        exfalso
        apply hne
        simp only [Bool.and_eq_true, Bool.not_eq_eq_eq_not, Bool.not_true] at hp
        refine ⟨hp.1.1, ?_, hp.1.2⟩
        intro hdis
        exact hx (Or.inr (Or.inl hdis))
    | _ => simp [hdec, Action.partOk] at hok

/-- **What may write the negative cache.**  A wrapped call leaves the cache facts of the callable unchanged, or remembers it
for a reason that does not depend on the context of the call: a context-free exclusion (artifact, unsupported,
allow-listed for these options, non-recursive options, no code, `<string>` code) or a conversion failure.  In particular the
cache-hit and the DISABLED-context exits never write (they would make a later ENABLED call skip a due conversion). -/
theorem C13_cache_written_only_when_stable {α} (d : Desc) (s : Option α) (b : Bool) (env : Env) (o : Opts)
    (args : List α) (kw : Option (Kw α)) :
    (call env o (.base d s b) args kw).2 = .base d s b ∨
    ((call env o (.base d s b) args kw).2 = .base { d with inCache := true } s b ∧ StableExcluded d o) := by
  simp only [call]
  rcases level_state (decide false d env o) env d s (.base d s b) args kw with h1 | ⟨h1, h2⟩
  · exact Or.inl (by rw [h1])
  · exact Or.inr ⟨by rw [h1], decide_base_remember d env o h2⟩

/-- **Histories.**  After ANY sequence of earlier wrapped calls on the same callable with equal options — in any contexts
(ENABLED / DISABLED / UNSPECIFIED, strict or not), with any arguments — a call converts its target exactly when it would on a
pristine cache: earlier calls influence the decision only through remembered failures (which never convert anyway). -/
theorem C13_history_converted {α} (o : Opts) (c : Callable α) (hist : List (Env × List α × Option (Kw α)))
    (env : Env) (args : List α) (kw : Option (Kw α)) :
    (call env o (callSeq o c hist) args kw).1.converted = (call env o c args kw).1.converted := by
  have hb := benign_callSeq o c c hist (benign_refl o c)
  rw [Bool.eq_iff_iff, C13_converted_iff, C13_converted_iff, benign_fail o c _ hb]
  by_cases hf : c.baseDesc.fail = none
  · have := benign_due o env c _ hb hf
    constructor
    · rintro ⟨h1, h2, h3⟩; exact ⟨(this.mp ⟨h1, h2⟩).1, (this.mp ⟨h1, h2⟩).2, h3⟩
    · rintro ⟨h1, h2, h3⟩; exact ⟨(this.mpr ⟨h1, h2⟩).1, (this.mpr ⟨h1, h2⟩).2, h3⟩
  · simp [hf]

/-- For a callable whose conversion does not fail, not even the *attempt* depends on the history. -/
theorem C13_history_attempted {α} (o : Opts) (c : Callable α) (hist : List (Env × List α × Option (Kw α)))
    (env : Env) (args : List α) (kw : Option (Kw α)) (hf : c.baseDesc.fail = none) :
    (call env o (callSeq o c hist) args kw).1.attempted = (call env o c args kw).1.attempted := by
  have hb := benign_callSeq o c c hist (benign_refl o c)
  rw [Bool.eq_iff_iff, C13_attempted_iff, C13_attempted_iff]
  exact benign_due o env c _ hb hf

/-- Two callables sharing one cache entry (bound methods with the same `__func__`): calls on the first do not change whether the
second is converted — PROVIDED the context-free exclusions of the first also hold of the second.
FULL STATEMENT (without `hagree`) is false of the pinned tree, finding C13-shared-function-owner-allowlist: the allow-list of a
bound method depends on its owner class (TestCase subclass, allow-listed defining class) but the cache key drops the receiver. -/
theorem C13_history_shared_partial {α} (o : Opts) (d1 d2 : Desc) (s1 s2 : Option α) (b1 b2 : Bool)
    (hist : List (Env × List α × Option (Kw α))) (env : Env) (args : List α) (kw : Option (Kw α))
    (h1 : d1.inCache = false) (h2 : d2.inCache = false)
    (hagree : StableExcluded d1 o → StableExcluded d2 o) :
    (call env o (.base { d2 with inCache := (callSeq o (.base d1 s1 b1) hist).baseDesc.inCache } s2 b2) args kw).1.converted
      = (call env o (.base d2 s2 b2) args kw).1.converted := by
  have hb := benign_callSeq o (.base d1 s1 b1) _ hist (benign_refl o _)
  cases hc : callSeq o (.base d1 s1 b1) hist with
  | part _ _ _ _ => rw [hc] at hb; simp [Benign] at hb
  | base d' s' b' =>
    rw [hc] at hb
    obtain ⟨_, _, hd⟩ := hb
    simp only [Callable.baseDesc]
    rcases hd with rfl | ⟨rfl, hsd⟩
    · have : { d2 with inCache := d'.inCache } = d2 := by rw [h1, ← h2]
      rw [this]
    · have hb2 : Benign o (.base d2 s2 b2) (.base { d2 with inCache := true } s2 b2) :=
        ⟨rfl, rfl, Or.inr ⟨rfl, hagree hsd⟩⟩
      have := C13_history_converted o (.base d2 s2 b2) [] env args kw
      rw [Bool.eq_iff_iff, C13_converted_iff, C13_converted_iff, benign_fail o _ _ hb2]
      by_cases hf : (Callable.base d2 s2 b2).baseDesc.fail = none
      · have hdue := benign_due o env _ _ hb2 hf
        constructor
        · rintro ⟨p1, p2, p3⟩; exact ⟨(hdue.mp ⟨p1, p2⟩).1, (hdue.mp ⟨p1, p2⟩).2, p3⟩
        · rintro ⟨p1, p2, p3⟩; exact ⟨(hdue.mpr ⟨p1, p2⟩).1, (hdue.mpr ⟨p1, p2⟩).2, p3⟩
      · simp [hf]

/-- **What a remembered verdict is filed under.**  With the cache class extracted from `conversion.py`, two callables share a
cache entry exactly when they have the same bound target (the same function object, possibly bound to different
receivers) — never merely because they share a code object (closures of one factory, wrappers of one decorator). -/
theorem C13_cache_key_is_bound_target (i1 i2 : Ident) : cacheKey i1 = cacheKey i2 ↔ i1.func = i2.func := by
  simp [cacheKey, allowlistCacheKind, cacheKeyDropsReceiver]

private theorem contains_cons_ne (st : CacheState) (k k' : CacheKey) (ok ok' : Nat) (h : k ≠ k') :
    ((k, ok) :: st).contains (k', ok') = st.contains (k', ok') := by
  have hne : (k', ok') ≠ (k, ok) := by
    intro e
    exact h (Prod.mk.inj e).1.symm
  simp [hne]

private theorem store_contains {α} (c : Callable α) (ok ok' : Nat) (ids : List Ident) (st : CacheState) (key : CacheKey)
    (h : ∀ i ∈ ids, cacheKey i ≠ key) :
    (c.store ok ids st).contains (key, ok') = st.contains (key, ok') := by
  induction c generalizing ids st with
  | base d s b =>
    cases ids with
    | nil => simp [Callable.store]
    | cons i is =>
      simp only [Callable.store]
      split
      · exact contains_cons_ne st _ _ _ _ (h i (by simp))
      · rfl
  | part d a k0 inner ih =>
    cases ids with
    | nil => simp only [Callable.store]; exact ih [] st (by simp)
    | cons i is =>
      simp only [Callable.store]
      rw [ih is _ (fun j hj => h j (by simp [hj]))]
      split
      · exact contains_cons_ne st _ _ _ _ (h i (by simp))
      · rfl

private theorem load_congr {α} (c : Callable α) (ok : Nat) (ids : List Ident) (st st' : CacheState)
    (h : ∀ i ∈ ids, st'.contains (cacheKey i, ok) = st.contains (cacheKey i, ok)) :
    c.load st' ok ids = c.load st ok ids := by
  induction c generalizing ids with
  | base d s b =>
    cases ids with
    | nil => rfl
    | cons i is => simp only [Callable.load]; rw [h i (by simp)]
  | part d a k0 inner ih =>
    cases ids with
    | nil => simp only [Callable.load]; rw [ih [] (by simp)]
    | cons i is =>
      simp only [Callable.load]
      rw [h i (by simp), ih is (fun j hj => h j (by simp [hj]))]

/-- **A remembered verdict is only ever reused for the same callable.**  Whatever a wrapped call on one callable does to the
negative cache, the cache facts loaded for any callable none of whose levels has the same bound target are unchanged — for
every context, options value, argument list and partial chain. -/
theorem C13_verdict_only_for_same_target {α} (c1 c2 : Callable α) (ids1 ids2 : List Ident) (st : CacheState)
    (env : Env) (o : Opts) (ok ok' : Nat) (args : List α) (kw : Option (Kw α))
    (hdisj : ∀ i ∈ ids1, ∀ j ∈ ids2, i.func ≠ j.func) :
    c2.load ((call env o (c1.load st ok ids1) args kw).2.store ok ids1 st) ok' ids2 = c2.load st ok' ids2 := by
  apply load_congr
  intro j hj
  apply store_contains
  intro i hi e
  exact hdisj i hi j hj ((C13_cache_key_is_bound_target i j).mp e)

/-! Non-vacuity: two closures of one factory (same code object, different function objects) never share an entry. -/
example : cacheKey ⟨1, 1, some 7⟩ ≠ cacheKey ⟨2, 2, some 7⟩ := by decide
example : cacheKey ⟨1, 9, some 7⟩ = cacheKey ⟨2, 9, some 7⟩ := by decide

/-- The counterexample behind `C13_history_shared_partial`: a method whose owner is a TestCase subclass is remembered, and the
same function bound to an ordinary instance is then no longer converted. -/
example :
    let tc : Desc := ⟨false, true, false, .notBuiltin, false, false, false, false, false,
      .mk ⟨some ["user"], false, false, true, true, true, true, true, false, false⟩ .opaque .opaque, .method, true, false, none⟩
    let plainM : Desc := ⟨false, true, false, .notBuiltin, false, false, false, false, false,
      .mk ⟨some ["user"], false, false, true, true, true, true, false, false, false⟩ .opaque .opaque, .method, true, false, none⟩
    (call ⟨.enabled, false, true⟩ ⟨false, true⟩
      (.base { plainM with inCache := (callSeq ⟨false, true⟩ (.base tc (some "A") true) [(⟨.enabled, false, true⟩, ([] : List String), none)]).baseDesc.inCache }
        (some "B") true) [] none).1.converted = false ∧
    (call ⟨.enabled, false, true⟩ ⟨false, true⟩ (.base plainM (some "B") true) ([] : List String) none).1.converted = true := by
  decide

/-! Non-vacuity: DISABLED then ENABLED on a convertible function — the second call converts. -/
example :
    (call ⟨.enabled, false, true⟩ ⟨false, true⟩
      (callSeq ⟨false, true⟩
        (.base ⟨false, true, false, .notBuiltin, false, false, false, false, false, .opaque, .function, true, false, none⟩ (none : Option String) false)
        [(⟨.disabled, false, true⟩, [], none), (⟨.disabled, true, true⟩, ["x"], some [])])
      [] none).1.converted = true := by decide

/-! ## 6. Threads -/

/-- **The policy's `status` input is per thread.**  With the storage extracted from `ag_ctx` (a plain `threading.local()` whose stack
is created lazily per thread), a region entered or left by another thread never changes the status a thread reads. -/
theorem C13_policy_reads_own_thread_status (s : Stacks) (t u : Nat) (st : CtxStatus) (h : t ≠ u) :
    currentStatus (s.enter u st) t = currentStatus s t ∧ currentStatus (s.leave u) t = currentStatus s t := by
  simp [currentStatus, Stacks.enter, Stacks.leave, stackOwner, ctxStorage, h]

/-- Whatever sequence of context regions OTHER threads enter and leave, a wrapped call of thread `t` has exactly the effect
(decision, binding, warning, remembered state) it has without them. -/
theorem C13_other_threads_never_change_the_decision {α} (s : Stacks) (t : Nat) (es : List CtxEvent)
    (h : ∀ e ∈ es, e.1 ≠ t) (strict insp : Bool) (o : Opts) (c : Callable α) (args : List α) (kw : Option (Kw α)) :
    call ⟨currentStatus (s.apply es) t, strict, insp⟩ o c args kw = call ⟨currentStatus s t, strict, insp⟩ o c args kw := by
  have : currentStatus (s.apply es) t = currentStatus s t := by
    induction es generalizing s with
    | nil => rfl
    | cons e rest ih =>
      obtain ⟨u, ost⟩ := e
      have hu : t ≠ u := fun e' => h (u, ost) (by simp) e'.symm
      have hrest : ∀ e ∈ rest, e.1 ≠ t := fun e he => h e (by simp [he])
      cases ost with
      | none =>
        simp only [Stacks.apply]
        rw [ih _ hrest, (C13_policy_reads_own_thread_status s t u .unspecified hu).2]
      | some st =>
        simp only [Stacks.apply]
        rw [ih _ hrest, (C13_policy_reads_own_thread_status s t u st hu).1]
  rw [this]

/-- a fresh thread starts from the default (UNSPECIFIED) context whatever the others are in -/
theorem C13_fresh_thread_default (s : Stacks) (t : Nat) (h : s t = []) : currentStatus s t = .unspecified := by
  simp [currentStatus, stackOwner, ctxStorage, h, ctxDefaultIsUnspecified]

/-! Non-vacuity: thread 1 is inside a DISABLED region, thread 2 still reads the default status. -/
example : currentStatus (Stacks.enter (fun _ => []) 1 .disabled) 2 = .unspecified := by decide
example : currentStatus (Stacks.enter (fun _ => []) 1 .disabled) 1 = .disabled := by decide

end Malt.Policy
