import MaltModel.Rt.Closure
/-!
# C09 — converted functions keep the original calling interface and environment

Property theorems over `MaltModel/Rt/Closure.lean` (private helper lemmas first).

CPython facts that are parameters of the model (see the header of `Rt/Closure.lean`): the compiler's
free-variable resolution (`factoryFreevars`, `entityFreevars`: sorted, duplicate-free, "nearest enclosing
function scope that binds the name"), `types.FunctionType` (`closure[i]` is the cell of `co_freevars[i]`,
`__globals__` is the dict passed), the `def` statement (`execDef`) and attribute forwarding of bound
methods.  They are validated against the running interpreter by `harness/run_c09.py` on every run.

Contents: `C09_source_shape` (tie to the source text through the translator), `C09_resolution` (the
factory's free variables are an instance of the general scoping rule), `C09_cells`, `C09_cells_user`,
`C09_cells_complete`, `C09_shared_code`, `C09_siblings` (name → cell mapping), `C09_rebinding`,
`C09_rebinding_frame` (what sharing a cell means for reads and writes), `C09_succeeds`, `C09_mismatch`
(when `instantiate` is ok), `C09_params`, `C09_erase_shape`, `C09_defaults_not_reevaluated`,
`C09_defaults_independent_of_reeval`, `C09_defaults_partial`, `C09_call_interface_partial`, `C09_globals`,
`C09_method`, `C09_decorators`, the assembled `C09_interface_partial`, and three counterexamples.

Growth (round 5): `C09_why_sound`, `C09_fragment`, `C09_partition` (the executable classifier `why` — driver op
`c09.why` — is sound, its empty answer is the proved fragment, its three finding tags are exactly the three class
predicates and nothing in the domain is left unclassified); `C09_class_directive`, `C09_name_error` /
`C09_class_annotation`, `C09_class_cleared` (what happens to EVERY member of each finding class);
`C09_stmts_are_modelled`, `C09_stmt_*`, `C09_protocol_refines`, `C09_stmts_necessary`, `C09_refinement_partial` (the
factory protocol as a statement-by-statement refinement over the abstract function object, with name / qualname /
module / doc / `__dict__`); `C09_unwrap_is_python_call`, `C09_unwrap_receiver_first`,
`C09_receiver_binds_first_param`, `C09_bound_call_preserved_partial` (bound methods, classmethods, staticmethods,
`functools.partial` chains, callable objects through `converted_call`).

Three deviations of the pinned tree are stated as counterexamples below; the corresponding theorems carry
the decidable hypotheses `directiveOnlyFreevar = false`, `annotationUnresolvable = false`,
`defaultsCleared = false` and are named `…_partial`.
-/
namespace Malt.Closure

/-! ### helper lemmas: sorted duplicate-free lists -/

private theorem mem_insertSorted {a x : Name} {l : List Name} :
    a ∈ insertSorted x l ↔ a = x ∨ a ∈ l := by
  induction l with
  | nil => simp [insertSorted]
  | cons y ys ih =>
    simp only [insertSorted]
    split
    · simp
    · split
      · rename_i h; subst h; simp
      · simp only [List.mem_cons, ih]
        constructor
        · rintro (h | h | h) <;> simp [h]
        · rintro (h | h | h) <;> simp [h]

private theorem sorted_insertSorted {x : Name} {l : List Name} (h : l.Pairwise (· < ·)) :
    (insertSorted x l).Pairwise (· < ·) := by
  induction l with
  | nil => simp [insertSorted]
  | cons y ys ih =>
    simp only [insertSorted]
    rw [List.pairwise_cons] at h
    split
    · rename_i hxy
      refine List.pairwise_cons.mpr ⟨?_, List.pairwise_cons.mpr h⟩
      intro a ha
      rcases List.mem_cons.mp ha with rfl | ha
      · exact hxy
      · exact Nat.lt_trans hxy (h.1 a ha)
    · split
      · exact List.pairwise_cons.mpr h
      · rename_i h1 h2
        refine List.pairwise_cons.mpr ⟨?_, ih h.2⟩
        intro a ha
        rcases mem_insertSorted.mp ha with rfl | ha
        · exact Nat.lt_of_le_of_ne (Nat.le_of_not_lt h1) (Ne.symm h2)
        · exact h.1 a ha

private theorem mem_sortDedup {a : Name} {l : List Name} : a ∈ sortDedup l ↔ a ∈ l := by
  induction l with
  | nil => simp [sortDedup]
  | cons y ys ih =>
    have : sortDedup (y :: ys) = insertSorted y (sortDedup ys) := rfl
    rw [this, mem_insertSorted, ih]; simp

private theorem sorted_sortDedup (l : List Name) : (sortDedup l).Pairwise (· < ·) := by
  induction l with
  | nil => simp [sortDedup]
  | cons y ys ih => exact sorted_insertSorted ih

private theorem nodup_sortDedup (l : List Name) : (sortDedup l).Nodup :=
  (sorted_sortDedup l).imp (fun h => Nat.ne_of_lt h)

private theorem sorted_ext : ∀ (l₁ l₂ : List Name), l₁.Pairwise (· < ·) → l₂.Pairwise (· < ·) →
    (∀ x, x ∈ l₁ ↔ x ∈ l₂) → l₁ = l₂
  | [], [], _, _, _ => rfl
  | [], b :: u, _, _, h => absurd ((h b).mpr (by simp)) (by simp)
  | a :: t, [], _, _, h => absurd ((h a).mp (by simp)) (by simp)
  | a :: t, b :: u, h₁, h₂, h => by
    rw [List.pairwise_cons] at h₁ h₂
    have hab : a = b := by
      rcases List.mem_cons.mp ((h a).mp (by simp)) with h1 | h1
      · exact h1
      · rcases List.mem_cons.mp ((h b).mpr (by simp)) with h2 | h2
        · exact h2.symm
        · have e1 : b < a := h₂.1 a h1
          have e2 : a < b := h₁.1 b h2
          exact absurd e1 (Nat.lt_asymm e2)
    subst hab
    have ht : ∀ x, x ∈ t ↔ x ∈ u := by
      intro x
      constructor
      · intro hx
        rcases List.mem_cons.mp ((h x).mp (List.mem_cons_of_mem _ hx)) with h1 | h1
        · have e1 : a < x := h₁.1 x hx
          rw [h1] at e1
          exact absurd e1 (Nat.lt_irrefl _)
        · exact h1
      · intro hx
        rcases List.mem_cons.mp ((h x).mpr (List.mem_cons_of_mem _ hx)) with h1 | h1
        · have e1 : a < x := h₂.1 x hx
          rw [h1] at e1
          exact absurd e1 (Nat.lt_irrefl _)
        · exact h1
    rw [sorted_ext t u h₁.2 h₂.2 ht]

/-- `sortDedup` depends only on the set of members. -/
private theorem sortDedup_congr {l₁ l₂ : List Name} (h : ∀ x, x ∈ l₁ ↔ x ∈ l₂) :
    sortDedup l₁ = sortDedup l₂ :=
  sorted_ext _ _ (sorted_sortDedup l₁) (sorted_sortDedup l₂) (fun x => by rw [mem_sortDedup, mem_sortDedup, h])

private theorem length_le_of_nodup_subset : ∀ {l₁ l₂ : List Name}, l₁.Nodup → (∀ x ∈ l₁, x ∈ l₂) →
    l₁.length ≤ l₂.length
  | [], _, _, _ => by simp
  | a :: t, l₂, hnd, hsub => by
    rw [List.nodup_cons] at hnd
    have ha : a ∈ l₂ := hsub a (by simp)
    have hsub' : ∀ x ∈ t, x ∈ l₂.erase a := by
      intro x hx
      have hne : x ≠ a := fun h => hnd.1 (h ▸ hx)
      exact (List.mem_erase_of_ne hne).mpr (hsub x (by simp [hx]))
    have ih := length_le_of_nodup_subset hnd.2 hsub'
    rw [List.length_erase_of_mem ha] at ih
    have : 0 < l₂.length := List.length_pos_of_mem ha
    simp only [List.length_cons]
    omega

/-- A duplicate-free list that misses an element of `l₂` is strictly shorter than `l₂`. -/
private theorem length_lt_of_nodup_subset_missing {l₁ l₂ : List Name} (hnd : l₁.Nodup)
    (hsub : ∀ x ∈ l₁, x ∈ l₂) {z : Name} (hz : z ∈ l₂) (hz' : z ∉ l₁) : l₁.length < l₂.length := by
  have hsub' : ∀ x ∈ l₁, x ∈ l₂.erase z := by
    intro x hx
    have hne : x ≠ z := fun h => hz' (h ▸ hx)
    exact (List.mem_erase_of_ne hne).mpr (hsub x hx)
  have := length_le_of_nodup_subset hnd hsub'
  rw [List.length_erase_of_mem hz] at this
  have : 0 < l₂.length := List.length_pos_of_mem hz
  omega

/-! ### helper lemmas: dict / zip / lookup -/

private theorem mem_keys_zip {k : Name} : ∀ {ks : List Name} {vs : List Cell},
    k ∈ (ks.zip vs).map Prod.fst → k ∈ ks
  | [], _, h => by simp at h
  | _ :: _, [], h => by simp at h
  | k' :: ks, v :: vs, h => by
    simp only [List.zip_cons_cons, List.map_cons, List.mem_cons] at h
    rcases h with h | h
    · simp [h]
    · exact List.mem_cons_of_mem _ (mem_keys_zip h)

private theorem nodup_keys_zip : ∀ {ks : List Name} {vs : List Cell}, ks.Nodup →
    ((ks.zip vs).map Prod.fst).Nodup
  | [], _, _ => by simp
  | _ :: _, [], _ => by simp
  | k :: ks, v :: vs, h => by
    rw [List.nodup_cons] at h
    simp only [List.zip_cons_cons, List.map_cons, List.nodup_cons]
    exact ⟨fun hm => h.1 (mem_keys_zip hm), nodup_keys_zip h.2⟩

private theorem dictGet_mem_keys {k : Name} {v : Cell} : ∀ {m : List (Name × Cell)},
    dictGet m k = some v → k ∈ m.map Prod.fst
  | [], h => by simp [dictGet] at h
  | (k', v') :: rest, h => by
    simp only [dictGet] at h
    split at h
    · rename_i w hw
      exact List.mem_cons_of_mem _ (dictGet_mem_keys hw)
    · split at h
      · rename_i hk; simp [hk]
      · simp at h

/-- With duplicate-free keys "last binding wins" (a Python dict) and "first binding wins" (positional
lookup) coincide. -/
private theorem dictGet_eq_lookup : ∀ (m : List (Name × Cell)), (m.map Prod.fst).Nodup → ∀ k,
    dictGet m k = m.lookup k
  | [], _, k => by simp [dictGet]
  | (k', v') :: rest, hnd, k => by
    simp only [List.map_cons, List.nodup_cons] at hnd
    have ih := dictGet_eq_lookup rest hnd.2 k
    simp only [dictGet, List.lookup_cons]
    by_cases hk : k' = k
    · subst hk
      have hnone : dictGet rest k' = none := by
        cases hd : dictGet rest k' with
        | none => rfl
        | some w => exact absurd (dictGet_mem_keys hd) hnd.1
      simp [hnone]
    · have : (k == k') = false := by simp [Ne.symm hk]
      rw [this, ← ih]
      cases dictGet rest k <;> simp [hk]

private theorem lookup_zip_isSome {x : Name} : ∀ {ks : List Name} {vs : List Cell},
    ks.length ≤ vs.length → x ∈ ks → ((ks.zip vs).lookup x).isSome
  | [], _, _, h => by simp at h
  | _ :: _, [], hl, _ => by simp at hl
  | k :: ks, v :: vs, hl, h => by
    simp only [List.zip_cons_cons, List.lookup_cons]
    by_cases hk : x = k
    · simp [hk]
    · have : (x == k) = false := by simp [hk]
      rw [this]
      simp only [List.length_cons] at hl
      rcases List.mem_cons.mp h with h | h
      · exact absurd h hk
      · exact lookup_zip_isSome (by omega) h

private theorem lookup_zip_none {x : Name} : ∀ {ks : List Name} {vs : List Cell},
    x ∉ ks → (ks.zip vs).lookup x = none
  | [], _, _ => by simp
  | _ :: _, [], _ => by simp
  | k :: ks, v :: vs, h => by
    simp only [List.mem_cons, not_or] at h
    simp only [List.zip_cons_cons, List.lookup_cons]
    have : (x == k) = false := by simp [h.1]
    rw [this]
    exact lookup_zip_none h.2

private theorem lookup_zip_map {x : Name} (f : Name → Cell) : ∀ {l : List Name},
    x ∈ l → (l.zip (l.map f)).lookup x = some (f x)
  | [], h => by simp at h
  | y :: ys, h => by
    simp only [List.map_cons, List.zip_cons_cons, List.lookup_cons]
    by_cases hk : x = y
    · simp [hk]
    · have : (x == y) = false := by simp [hk]
      rw [this]
      rcases List.mem_cons.mp h with h | h
      · exact absurd h hk
      · exact lookup_zip_map f h

private theorem lookupAll_ok : ∀ {m : List (Name × Cell)} {ns : List Name} {cs : List Cell},
    lookupAll m ns = .ok cs →
    cs.length = ns.length ∧ ∀ x ∈ ns, (ns.zip cs).lookup x = dictGet m x ∧ (dictGet m x).isSome
  | _, [], cs, h => by
    simp only [lookupAll, Except.ok.injEq] at h
    subst h; simp
  | m, n :: ns, cs, h => by
    simp only [lookupAll] at h
    split at h
    · simp at h
    · rename_i c hc
      split at h
      · simp at h
      · rename_i cs' hcs'
        simp only [Except.ok.injEq] at h
        subst h
        have ih := lookupAll_ok hcs'
        refine ⟨by simp [ih.1], ?_⟩
        intro x hx
        simp only [List.zip_cons_cons, List.lookup_cons]
        by_cases hk : x = n
        · subst hk; simp [hc]
        · have : (x == n) = false := by simp [hk]
          rw [this]
          rcases List.mem_cons.mp hx with hx | hx
          · exact absurd hx hk
          · exact ih.2 x hx

private theorem lookupAll_succeeds : ∀ {m : List (Name × Cell)} {ns : List Name},
    (∀ x ∈ ns, (dictGet m x).isSome) → ∃ cs, lookupAll m ns = .ok cs
  | _, [], _ => ⟨[], rfl⟩
  | m, n :: ns, h => by
    have hn := h n (by simp)
    obtain ⟨cs, hcs⟩ := lookupAll_succeeds (m := m) (ns := ns) (fun x hx => h x (by simp [hx]))
    cases hd : dictGet m n with
    | none => simp [hd] at hn
    | some c => exact ⟨c :: cs, by simp [lookupAll, hd, hcs]⟩

private theorem firstBad_none {p : Name → Bool} : ∀ {l : List Name}, (∀ x ∈ l, p x = true) →
    firstBad p l = none
  | [], _ => rfl
  | x :: xs, h => by
    simp only [firstBad, h x (by simp), if_true]
    exact firstBad_none (fun y hy => h y (by simp [hy]))

private theorem firstBad_some {p : Name → Bool} {n : Name} : ∀ {l : List Name}, firstBad p l = some n →
    n ∈ l ∧ p n = false
  | [], h => by simp [firstBad] at h
  | x :: xs, h => by
    simp only [firstBad] at h
    split at h
    · have := firstBad_some h
      exact ⟨by simp [this.1], this.2⟩
    · rename_i hp
      simp only [Option.some.injEq] at h
      subst h
      exact ⟨by simp, by simpa using hp⟩

/-! ### helper lemmas: what `instantiate` returns -/

/-- Inversion of a successful `instantiate`. -/
private theorem instantiate_ok_inv {re : Nat → ObjId} {fac : Factory} {M : List Name} {G : DictId}
    {cl : List Cell} {d : Option (List ObjId)} {kd : Option (List (Name × ObjId))} {g : Fn}
    (h : instantiate re fac M G cl d kd = .ok g) :
    ∃ fc, lookupAll (fac.freevars.zip cl) fac.codeFreevars = .ok fc ∧ fc.length = cl.length ∧
      g.code = (execDef re fac fc G).code ∧ g.closure = (execDef re fac fc G).closure ∧ g.globals = G ∧
      g.defaults = (if truthy d then d else fac.entity.args.defDefaults re) ∧
      g.kwdefaults = (if truthy kd then kd else fac.entity.args.defKwdefaults re) := by
  unfold instantiate at h
  simp only at h
  split at h
  · simp at h
  · rename_i fc hfc
    split at h
    · simp at h
    · rename_i hlen
      split at h
      · simp at h
      · simp only [Except.ok.injEq] at h
        subst h
        refine ⟨fc, hfc, by simpa using hlen, ?_, ?_, ?_, ?_, ?_⟩
        all_goals (by_cases h1 : truthy d = true <;> by_cases h2 : truthy kd = true <;> simp [h1, h2, execDef])

private theorem mem_codeFreevars_create {fv extra : List Name} {inner : Name} {e : Entity} {x : Name} :
    x ∈ (create fv extra inner e).codeFreevars ↔
      (x ∈ e.bodyRefs ∨ x ∈ e.defTimeRefs) ∧ (x ∈ fv ∨ x = inner) ∧ x ∉ innerBound extra e.name := by
  simp only [create, factoryFreevars, mem_sortDedup, outerBound, List.mem_filter, List.mem_append,
    List.mem_singleton, Bool.and_eq_true, decide_eq_true_eq, Bool.not_eq_true', decide_eq_false_iff_not]

private theorem mem_entityFreevars_create {fv extra : List Name} {inner : Name} {e : Entity} {x : Name} :
    x ∈ (create fv extra inner e).entityFreevars ↔
      x ∈ e.bodyRefs ∧ (x ∈ innerBound extra e.name ∨ x ∈ fv ∨ x = inner) := by
  simp only [create, entityFreevars, mem_sortDedup, outerBound, List.mem_filter, List.mem_append,
    List.mem_singleton, Bool.or_eq_true, decide_eq_true_eq]

/-! ### helper lemmas: arguments -/

private theorem params_eraseDefaults (a : Arguments) : (eraseDefaults a).params = a.params := rfl

private theorem kwWithDefault_go : ∀ (ds : List (Option DExpr)) (ns : List Name),
    (ns.zip (ds.map (fun d => d.map (fun _ => DExpr.noneConst)))).filterMap
        (fun p => p.2.map (fun _ => p.1))
      = (ns.zip ds).filterMap (fun p => p.2.map (fun _ => p.1))
  | [], ns => by simp
  | _ :: _, [] => by simp
  | d :: ds, n :: ns => by
    simp only [List.map_cons, List.zip_cons_cons, List.filterMap_cons]
    rw [kwWithDefault_go ds ns]
    cases d <;> simp

private theorem kwWithDefault_eraseDefaults (a : Arguments) :
    (eraseDefaults a).kwWithDefault = a.kwWithDefault := by
  simp only [Arguments.kwWithDefault, eraseDefaults]
  exact kwWithDefault_go a.kwDefaults a.kwonlyargs

private theorem defKwdefaults_none_of_kwWithDefault_nil (re : Nat → ObjId) (a : Arguments)
    (h : a.kwWithDefault = []) : a.defKwdefaults re = none := by
  have key : ∀ (ns : List Name) (ds : List (Option DExpr)),
      (ns.zip ds).filterMap (fun p => p.2.map (fun _ => p.1)) = [] →
      (ns.zip ds).filterMap (fun p => p.2.map (fun e => (p.1, evalD re e))) = [] := by
    intro ns
    induction ns with
    | nil => intro ds _; simp
    | cons n ns ih =>
      intro ds hh
      cases ds with
      | nil => simp
      | cons d ds =>
        cases d with
        | none =>
          simp only [List.zip_cons_cons, List.filterMap_cons, Option.map_none] at hh ⊢
          exact ih ds hh
        | some e => simp at hh
  simp only [Arguments.defKwdefaults]
  rw [key a.kwonlyargs a.kwDefaults h]
  simp

/-! ## The property theorems -/

/-- **Tie to the source text**: the shape of `_wrap_into_factory`, `_PythonFnFactory.create/instantiate`,
`transform_function`, `_erase_arg_defaults`, `visit_FunctionDef` and `converted_call` read off the working
tree by the translator is the shape this model encodes. -/
theorem C09_source_shape : Malt.Gen.Closure.shape = modelledShape := by decide

/-- **The factory's free variables are what the general scoping rule gives** for the generated nesting
`outer_factory ⊃ inner_factory ⊃ entity` (the general rule `Scope.coFreevars` is the part compared with the
real compiler on random nestings): the outer factory has no free variables, the inner factory's are
`factoryFreevars`, the entity's are `entityFreevars`. -/
theorem C09_resolution (declared extra : List Name) (inner : Name) (e : Entity) (es : Scope)
    (hes : es.freeNames = e.bodyRefs) :
    let outer := outerFactoryScope declared inner extra e es
    let innerS := innerFactoryScope extra e es
    Scope.coFreevars [] outer = [] ∧
    Scope.coFreevars (Scope.childEnv [] outer) innerS = factoryFreevars declared inner extra e ∧
    Scope.coFreevars (Scope.childEnv (Scope.childEnv [] outer) innerS) es
      = entityFreevars declared inner extra e := by
  refine ⟨?_, ?_, ?_⟩
  · have hf : ∀ l : List Name, l.filter (fun _ => false) = [] := by
      intro l; induction l <;> simp_all
    simp [Scope.coFreevars, sortDedup, hf]
  · simp only [Scope.coFreevars, innerFactoryScope, outerFactoryScope, Scope.childEnv, Scope.freeNames,
      Scope.freeNamesList, hes, factoryFreevars, List.filter_nil, List.nil_append, List.append_nil]
    apply sortDedup_congr
    intro x
    simp only [List.mem_filter, List.mem_append, List.mem_singleton, Bool.and_eq_true, decide_eq_true_eq,
      Bool.not_eq_true', decide_eq_false_iff_not, List.not_mem_nil, not_false_eq_true, and_true, innerBound]
    constructor
    · rintro ⟨⟨h1 | h1 | h1, h2⟩, h3⟩
      · exact ⟨Or.inl h1, of_decide_eq_true h3, h2⟩
      · exact ⟨Or.inr h1, of_decide_eq_true h3, h2⟩
      · exact absurd (Or.inr h1) h2
    · rintro ⟨h1 | h1, h3, h2⟩
      · exact ⟨⟨Or.inl h1, h2⟩, decide_eq_true h3⟩
      · exact ⟨⟨Or.inr (Or.inl h1), h2⟩, decide_eq_true h3⟩
  · simp only [Scope.coFreevars, innerFactoryScope, outerFactoryScope, Scope.childEnv, hes, entityFreevars,
      List.filter_nil, List.nil_append]
    apply sortDedup_congr
    intro x
    simp only [List.mem_filter, List.mem_append, Bool.or_eq_true, decide_eq_true_eq, List.not_mem_nil,
      decide_false, Bool.not_false]
    constructor
    · rintro ⟨h1, ⟨h2, _⟩ | h2⟩
      · exact ⟨h1, Or.inr h2⟩
      · exact ⟨h1, Or.inl h2⟩
    · rintro ⟨h1, h2 | h2⟩
      · exact ⟨h1, Or.inr h2⟩
      · exact ⟨h1, Or.inl ⟨h2, trivial⟩⟩

/-- **Closure cells are matched by name** (for every closure shape, every order of the factory's and of
the result's `co_freevars`): when `instantiate` succeeds, every free name of the new function that is a
free variable of the inner factory uses exactly the cell the source function uses for that name, and
every other free name of it is one of the running factory's own fresh cells. -/
theorem C09_cells (re : Nat → ObjId) (fac : Factory) (M : List Name) (fn g : Fn)
    (hfree : fn.code.freevars = fac.freevars) (hnd : fn.code.freevars.Nodup)
    (h : instantiate re fac M fn.globals fn.closure fn.defaults fn.kwdefaults = .ok g) :
    ∀ x ∈ g.code.freevars,
      (x ∈ fac.codeFreevars ∧ (cellOf fn x).isSome ∧ cellOf g x = cellOf fn x) ∨
      (x ∉ fac.codeFreevars ∧ cellOf g x = some (Cell.factoryLocal x)) := by
  obtain ⟨fc, hfc, _, hcode, hclo, _⟩ := instantiate_ok_inv h
  intro x hx
  have hx' : x ∈ fac.entityFreevars := by simpa [hcode, execDef] using hx
  have hg : cellOf g x = some (match (fac.codeFreevars.zip fc).lookup x with
      | some c => c | none => Cell.factoryLocal x) := by
    simp only [cellOf, hcode, hclo, execDef]
    exact lookup_zip_map _ hx'
  by_cases hm : x ∈ fac.codeFreevars
  · left
    obtain ⟨_, hall⟩ := lookupAll_ok hfc
    obtain ⟨hl, hs⟩ := hall x hm
    have hdl : dictGet (fac.freevars.zip fn.closure) x = cellOf fn x := by
      rw [dictGet_eq_lookup _ (nodup_keys_zip (hfree ▸ hnd))]
      simp [cellOf, hfree]
    refine ⟨hm, hdl ▸ hs, ?_⟩
    rw [hg, hl, ← hdl]
    cases hd : dictGet (fac.freevars.zip fn.closure) x with
    | none => simp [hd] at hs
    | some c => rfl
  · right
    refine ⟨hm, ?_⟩
    rw [hg, lookup_zip_none hm]

/-- For the factory `create` builds: a free name of the converted function that is not one of the
factory's own locals (`ag__`, the new entity name) is a free name of the original, bound to the
original's cell. -/
theorem C09_cells_user (re : Nat → ObjId) (extra : List Name) (inner : Name) (e : Entity) (M : List Name)
    (fn g : Fn) (hnd : fn.code.freevars.Nodup)
    (h : instantiate re (create fn.code.freevars extra inner e) M fn.globals fn.closure fn.defaults
          fn.kwdefaults = .ok g) :
    ∀ x ∈ g.code.freevars, x ∉ innerBound extra e.name →
      (cellOf fn x).isSome ∧ cellOf g x = cellOf fn x := by
  intro x hx hnb
  have hx' : x ∈ (create fn.code.freevars extra inner e).entityFreevars := by
    obtain ⟨fc, _, _, hcode, _⟩ := instantiate_ok_inv h
    simpa [hcode, execDef] using hx
  have hcf : x ∈ (create fn.code.freevars extra inner e).codeFreevars := by
    rw [mem_entityFreevars_create] at hx'
    rw [mem_codeFreevars_create]
    rcases hx'.2 with h1 | h1
    · exact absurd h1 hnb
    · exact ⟨Or.inl hx'.1, h1, hnb⟩
  rcases C09_cells re _ M fn g rfl hnd h x hx with ⟨_, h2, h3⟩ | ⟨h1, _⟩
  · exact ⟨h2, h3⟩
  · exact absurd hcf h1

/-- Conversely no closed-over variable is lost: every free name of the original that the generated body
still mentions is a free name of the converted function (bound, by `C09_cells_user`, to the same cell). -/
theorem C09_cells_complete (re : Nat → ObjId) (extra : List Name) (inner : Name) (e : Entity) (M : List Name)
    (fn g : Fn)
    (h : instantiate re (create fn.code.freevars extra inner e) M fn.globals fn.closure fn.defaults
          fn.kwdefaults = .ok g) :
    ∀ x ∈ fn.code.freevars, x ∈ e.bodyRefs → x ∈ g.code.freevars := by
  intro x hx hb
  obtain ⟨fc, _, _, hcode, _⟩ := instantiate_ok_inv h
  have : x ∈ (create fn.code.freevars extra inner e).entityFreevars :=
    mem_entityFreevars_create.mpr ⟨hb, Or.inr (Or.inl hx)⟩
  simpa [hcode, execDef] using this

/-- Generated names are fresh (what `naming.Namer` is for; C11): the factory's own locals are not free
variables of the source function, and nothing refers to the inner factory's name. -/
structure FreshNames (freevars extra : List Name) (inner : Name) (e : Entity) : Prop where
  locals_fresh : ∀ x ∈ innerBound extra e.name, x ∉ freevars
  inner_fresh : inner ∉ e.bodyRefs ∧ inner ∉ e.defTimeRefs

/-- **`instantiate` succeeds** when the generated code still refers to every free variable of the source
function (the closure tuple having one cell per free variable — a CPython invariant of function objects),
the generated names are fresh and the names evaluated at `def` time can be resolved. -/
theorem C09_succeeds (re : Nat → ObjId) (freevars extra : List Name) (inner : Name) (e : Entity)
    (M : List Name) (G : DictId) (cl : List Cell) (d : Option (List ObjId))
    (kd : Option (List (Name × ObjId)))
    (hlen : cl.length = freevars.length) (hnd : freevars.Nodup)
    (href : ∀ x ∈ freevars, x ∈ e.bodyRefs ∨ x ∈ e.defTimeRefs)
    (hfresh : FreshNames freevars extra inner e)
    (hann : ∀ x ∈ e.defTimeRefs, x ∈ innerBound extra e.name ∨ x ∈ freevars ∨ x ∈ M) :
    ∃ g, instantiate re (create freevars extra inner e) M G cl d kd = .ok g := by
  have hsub : ∀ x ∈ (create freevars extra inner e).codeFreevars, x ∈ freevars := by
    intro x hx
    rw [mem_codeFreevars_create] at hx
    rcases hx.2.1 with h1 | h1
    · exact h1
    · subst h1
      rcases hx.1 with h2 | h2
      · exact absurd h2 hfresh.inner_fresh.1
      · exact absurd h2 hfresh.inner_fresh.2
  have hsup : ∀ x ∈ freevars, x ∈ (create freevars extra inner e).codeFreevars := by
    intro x hx
    exact mem_codeFreevars_create.mpr ⟨href x hx, Or.inl hx, fun hb => hfresh.locals_fresh x hb hx⟩
  have hcfnd : (create freevars extra inner e).codeFreevars.Nodup := nodup_sortDedup _
  have hleneq : (create freevars extra inner e).codeFreevars.length = freevars.length :=
    Nat.le_antisymm (length_le_of_nodup_subset hcfnd hsub) (length_le_of_nodup_subset hnd hsup)
  have hsome : ∀ x ∈ (create freevars extra inner e).codeFreevars,
      (dictGet (freevars.zip cl) x).isSome := by
    intro x hx
    rw [dictGet_eq_lookup _ (nodup_keys_zip hnd)]
    exact lookup_zip_isSome (by omega) (hsub x hx)
  obtain ⟨fc, hfc⟩ := lookupAll_succeeds hsome
  have hfclen : fc.length = cl.length := by
    rw [(lookupAll_ok hfc).1, hleneq, hlen]
  have hfb : firstBad (fun x => decide (x ∈ innerBound extra e.name)
      || decide (x ∈ (create freevars extra inner e).codeFreevars) || decide (x ∈ M)) e.defTimeRefs = none := by
    apply firstBad_none
    intro x hx
    rcases hann x hx with h1 | h1 | h1
    · simp [h1]
    · by_cases hb : x ∈ innerBound extra e.name
      · simp [hb]
      · have : x ∈ (create freevars extra inner e).codeFreevars :=
          mem_codeFreevars_create.mpr ⟨Or.inr hx, Or.inl h1, hb⟩
        simp [this]
    · simp [h1]
  have e1 : (create freevars extra inner e).freevars = freevars := rfl
  have e2 : (create freevars extra inner e).extraLocals = extra := rfl
  have e3 : (create freevars extra inner e).entity = e := rfl
  unfold instantiate
  simp only
  rw [e1, hfc]
  simp only [hfclen, ne_eq, not_true_eq_false, if_false, e2, e3, hfb]
  exact ⟨_, rfl⟩

/-- **Characterisation of the failing class**: if some free variable of the source function is no longer
mentioned by the generated code, `instantiate` raises "closure mismatch" — for every closure shape. -/
theorem C09_mismatch (re : Nat → ObjId) (freevars extra : List Name) (inner : Name) (e : Entity)
    (M : List Name) (G : DictId) (cl : List Cell) (d : Option (List ObjId))
    (kd : Option (List (Name × ObjId)))
    (hlen : cl.length = freevars.length) (hnd : freevars.Nodup)
    (hfresh : FreshNames freevars extra inner e)
    (z : Name) (hz : z ∈ freevars) (hz1 : z ∉ e.bodyRefs) (hz2 : z ∉ e.defTimeRefs) :
    instantiate re (create freevars extra inner e) M G cl d kd = .error .closureMismatch := by
  have hsub : ∀ x ∈ (create freevars extra inner e).codeFreevars, x ∈ freevars := by
    intro x hx
    rw [mem_codeFreevars_create] at hx
    rcases hx.2.1 with h1 | h1
    · exact h1
    · subst h1
      rcases hx.1 with h2 | h2
      · exact absurd h2 hfresh.inner_fresh.1
      · exact absurd h2 hfresh.inner_fresh.2
  have hzc : z ∉ (create freevars extra inner e).codeFreevars := by
    intro hx
    rw [mem_codeFreevars_create] at hx
    rcases hx.1 with h | h
    · exact hz1 h
    · exact hz2 h
  have hlt : (create freevars extra inner e).codeFreevars.length < freevars.length :=
    length_lt_of_nodup_subset_missing (nodup_sortDedup _) hsub hz hzc
  have hsome : ∀ x ∈ (create freevars extra inner e).codeFreevars,
      (dictGet (freevars.zip cl) x).isSome := by
    intro x hx
    rw [dictGet_eq_lookup _ (nodup_keys_zip hnd)]
    exact lookup_zip_isSome (by omega) (hsub x hx)
  obtain ⟨fc, hfc⟩ := lookupAll_succeeds hsome
  have hfclen : fc.length ≠ cl.length := by
    have h1 : fc.length = (create freevars extra inner e).codeFreevars.length := (lookupAll_ok hfc).1
    omega
  unfold instantiate
  simp only
  have e1 : (create freevars extra inner e).freevars = freevars := rfl
  rw [e1, hfc]
  simp [hfclen]

private theorem firstBad_exists {p : Name → Bool} : ∀ {l : List Name}, (∃ x ∈ l, p x = false) →
    ∃ n, firstBad p l = some n
  | [], h => by obtain ⟨x, hx, _⟩ := h; simp at hx
  | y :: ys, h => by
    simp only [firstBad]
    by_cases hy : p y = true
    · simp only [hy, if_true]
      apply firstBad_exists
      obtain ⟨x, hx, hpx⟩ := h
      rcases List.mem_cons.mp hx with rfl | hx
      · rw [hy] at hpx; cases hpx
      · exact ⟨x, hx, hpx⟩
    · exact ⟨y, by simp [hy]⟩

/-- **Characterisation of the second failing class**: every free variable is still mentioned, but a name evaluated
when the generated `def` runs is neither one of the factory's own names, nor a free variable, nor a global /
builtin: executing the inner factory raises NameError for one such name — for every closure shape. -/
theorem C09_name_error (re : Nat → ObjId) (freevars extra : List Name) (inner : Name) (e : Entity)
    (M : List Name) (G : DictId) (cl : List Cell) (d : Option (List ObjId))
    (kd : Option (List (Name × ObjId)))
    (hlen : cl.length = freevars.length) (hnd : freevars.Nodup)
    (href : ∀ x ∈ freevars, x ∈ e.bodyRefs ∨ x ∈ e.defTimeRefs)
    (hfresh : FreshNames freevars extra inner e)
    (hbad : ∃ x ∈ e.defTimeRefs, x ∉ innerBound extra e.name ∧ x ∉ freevars ∧ x ∉ M) :
    ∃ n ∈ e.defTimeRefs, (n ∉ innerBound extra e.name ∧ n ∉ M) ∧
      instantiate re (create freevars extra inner e) M G cl d kd = .error (.nameError n) := by
  have hsub : ∀ x ∈ (create freevars extra inner e).codeFreevars, x ∈ freevars := by
    intro x hx
    rw [mem_codeFreevars_create] at hx
    rcases hx.2.1 with h1 | h1
    · exact h1
    · subst h1
      rcases hx.1 with h2 | h2
      · exact absurd h2 hfresh.inner_fresh.1
      · exact absurd h2 hfresh.inner_fresh.2
  have hsup : ∀ x ∈ freevars, x ∈ (create freevars extra inner e).codeFreevars := by
    intro x hx
    exact mem_codeFreevars_create.mpr ⟨href x hx, Or.inl hx, fun hb => hfresh.locals_fresh x hb hx⟩
  have hcfnd : (create freevars extra inner e).codeFreevars.Nodup := nodup_sortDedup _
  have hleneq : (create freevars extra inner e).codeFreevars.length = freevars.length :=
    Nat.le_antisymm (length_le_of_nodup_subset hcfnd hsub) (length_le_of_nodup_subset hnd hsup)
  have hsome : ∀ x ∈ (create freevars extra inner e).codeFreevars,
      (dictGet (freevars.zip cl) x).isSome := by
    intro x hx
    rw [dictGet_eq_lookup _ (nodup_keys_zip hnd)]
    exact lookup_zip_isSome (by omega) (hsub x hx)
  obtain ⟨fc, hfc⟩ := lookupAll_succeeds hsome
  have hfclen : fc.length = cl.length := by
    rw [(lookupAll_ok hfc).1, hleneq, hlen]
  obtain ⟨n, hn⟩ := firstBad_exists (p := fun x => decide (x ∈ innerBound extra e.name)
      || decide (x ∈ (create freevars extra inner e).codeFreevars) || decide (x ∈ M)) (l := e.defTimeRefs) (by
    obtain ⟨x, hx, h1, h2, h3⟩ := hbad
    have : x ∉ (create freevars extra inner e).codeFreevars := fun hc => h2 (hsub x hc)
    exact ⟨x, hx, by simp [h1, this, h3]⟩)
  have hn' := firstBad_some hn
  have hnp : n ∉ innerBound extra e.name ∧ n ∉ M := by
    have := hn'.2
    simp only [Bool.or_eq_false_iff, decide_eq_false_iff_not] at this
    exact ⟨this.1.1, this.2⟩
  refine ⟨n, hn'.1, hnp, ?_⟩
  have e1 : (create freevars extra inner e).freevars = freevars := rfl
  have e2 : (create freevars extra inner e).extraLocals = extra := rfl
  have e3 : (create freevars extra inner e).entity = e := rfl
  unfold instantiate
  simp only
  rw [e1, hfc]
  simp only [hfclen, ne_eq, not_true_eq_false, if_false, e2, e3, hn]

/-- **Parameters**: names, kinds and order of the converted function are the source's. -/
theorem C09_params (re : Nat → ObjId) (extra : List Name) (newName inner : Name) (M : List Name)
    (s : Src) (c : Callable) (g : Fn) (h : transformFunction re extra newName inner M s c = .ok g) :
    g.code.params = s.args.params := by
  obtain ⟨fc, _, _, hcode, _⟩ := instantiate_ok_inv h
  rw [hcode]
  rfl

/-- `_erase_arg_defaults` changes no name, kind, order, nor which parameters are optional. -/
theorem C09_erase_shape (a : Arguments) :
    (eraseDefaults a).params = a.params ∧ (eraseDefaults a).optionalShape = a.optionalShape := by
  refine ⟨rfl, ?_⟩
  simp only [Arguments.optionalShape, kwWithDefault_eraseDefaults]
  simp [eraseDefaults]

/-- **Default expressions are never re-evaluated**: executing the generated `def` evaluates none of the
user's default expressions … -/
theorem C09_defaults_not_reevaluated (extra : List Name) (newName : Name) (s : Src) :
    (convertEntity extra newName s).args.defEvalTrace = [] := by
  have h1 : ∀ l : List DExpr, (l.map (fun _ => DExpr.noneConst)).filterMap DExpr.origId? = [] := by
    intro l; induction l <;> simp_all [DExpr.origId?]
  have h2 : ∀ l : List (Option DExpr),
      (l.map (fun d => d.map (fun _ => DExpr.noneConst))).filterMap
        (fun d => d.bind DExpr.origId?) = [] := by
    intro l
    induction l with
    | nil => simp
    | cons d ds ih => cases d <;> simp_all [DExpr.origId?]
  simp [convertEntity, Arguments.defEvalTrace, eraseDefaults, h1, h2]

private theorem defDefaults_erase_indep (re re' : Nat → ObjId) (a : Arguments) :
    (eraseDefaults a).defDefaults re = (eraseDefaults a).defDefaults re' := by
  have hD : ∀ l : List DExpr, (l.map (fun _ => DExpr.noneConst)).map (evalD re)
      = (l.map (fun _ => DExpr.noneConst)).map (evalD re') := by
    intro l; induction l <;> simp_all [evalD]
  simp only [Arguments.defDefaults, eraseDefaults, hD]
  rfl

private theorem defKwdefaults_erase_indep (re re' : Nat → ObjId) (a : Arguments) :
    (eraseDefaults a).defKwdefaults re = (eraseDefaults a).defKwdefaults re' := by
  have hK : ∀ (ns : List Name) (l : List (Option DExpr)),
      (ns.zip (l.map (fun d => d.map (fun _ => DExpr.noneConst)))).filterMap
        (fun p => p.2.map (fun e => (p.1, evalD re e)))
      = (ns.zip (l.map (fun d => d.map (fun _ => DExpr.noneConst)))).filterMap
        (fun p => p.2.map (fun e => (p.1, evalD re' e))) := by
    intro ns
    induction ns with
    | nil => intro l; simp
    | cons n ns ih =>
      intro l
      cases l with
      | nil => simp
      | cons d ds =>
        cases d with
        | none =>
          simp only [List.map_cons, List.zip_cons_cons, List.filterMap_cons, Option.map_none]
          exact ih ds
        | some e =>
          simp only [List.map_cons, List.zip_cons_cons, List.filterMap_cons, Option.map_some]
          rw [ih ds]
          rfl
  simp only [Arguments.defKwdefaults, eraseDefaults, hK]
  rfl

/-- … and the converted function does not depend on what a re-evaluation would have produced. -/
theorem C09_defaults_independent_of_reeval (re re' : Nat → ObjId) (extra : List Name)
    (newName inner : Name) (M : List Name) (s : Src) (c : Callable) :
    transformFunction re extra newName inner M s c = transformFunction re' extra newName inner M s c := by
  have hexec : ∀ fc G, execDef re (create c.fn.code.freevars extra inner (convertEntity extra newName s)) fc G
      = execDef re' (create c.fn.code.freevars extra inner (convertEntity extra newName s)) fc G := by
    intro fc G
    have hargs : (create c.fn.code.freevars extra inner (convertEntity extra newName s)).entity.args
        = eraseDefaults s.args := rfl
    simp only [execDef, hargs]
    rw [defDefaults_erase_indep re re', defKwdefaults_erase_indep re re']
  simp only [transformFunction, convertCallable, instantiate, hexec]

/-
FULL STATEMENT (false of the pinned code, see `C09_defaults_counterexample`):

theorem C09_defaults … (h : transformFunction re extra newName inner M s c = .ok g) :
    normD g.defaults = normD c.fn.defaults ∧ normD g.kwdefaults = normD c.fn.kwdefaults

`instantiate` re-attaches the source function's defaults only `if defaults:` / `if kwdefaults:`.  When the
function object's `__defaults__` (`__kwdefaults__`) was emptied after its definition while the source text
still has default expressions, the erased `None` defaults of the generated `def` stay in place.
-/

/-- **Defaults** (partial: `defaultsCleared = false`): the converted function has the source function's
default objects — the very same tuple / dict when there are any. -/
theorem C09_defaults_partial (re : Nat → ObjId) (extra : List Name) (newName inner : Name) (M : List Name)
    (s : Src) (c : Callable) (g : Fn) (h : transformFunction re extra newName inner M s c = .ok g)
    (hcl : defaultsCleared s c.fn = false) :
    normD g.defaults = normD c.fn.defaults ∧ normD g.kwdefaults = normD c.fn.kwdefaults ∧
    (truthy c.fn.defaults = true → g.defaults = c.fn.defaults) ∧
    (truthy c.fn.kwdefaults = true → g.kwdefaults = c.fn.kwdefaults) := by
  obtain ⟨fc, _, _, _, _, _, hd, hkd⟩ := instantiate_ok_inv h
  simp only [defaultsCleared, Bool.or_eq_false_iff, Bool.and_eq_false_iff] at hcl
  have nt : ∀ {α : Type} (o : Option (List α)), truthy o = false → normD o = [] := by
    intro α o ho
    match o, ho with
    | none, _ => rfl
    | some [], _ => rfl
  refine ⟨?_, ?_, ?_, ?_⟩
  · by_cases ht : truthy c.fn.defaults = true
    · simp [hd, ht]
    · simp only [Bool.not_eq_true] at ht
      rw [hd, nt _ ht]
      simp only [ht, Bool.false_eq_true, if_false]
      rcases hcl.1 with h1 | h1
      · rw [ht] at h1; exact absurd h1 (by decide)
      · have h1' : s.args.defaults = [] := by
          cases hdl : s.args.defaults with
          | nil => rfl
          | cons a l => rw [hdl] at h1; simp at h1
        have : (create c.fn.code.freevars extra inner (convertEntity extra newName s)).entity.args.defaults
            = [] := by
          simp [create, convertEntity, eraseDefaults, h1']
        simp [Arguments.defDefaults, this, normD]
  · by_cases ht : truthy c.fn.kwdefaults = true
    · simp [hkd, ht]
    · simp only [Bool.not_eq_true] at ht
      rw [hkd, nt _ ht]
      simp only [ht, Bool.false_eq_true, if_false]
      rcases hcl.2 with h1 | h1
      · rw [ht] at h1; exact absurd h1 (by decide)
      · have h1' : s.args.kwWithDefault = [] := by
          cases hdl : s.args.kwWithDefault with
          | nil => rfl
          | cons a l => rw [hdl] at h1; simp at h1
        have : (create c.fn.code.freevars extra inner (convertEntity extra newName s)).entity.args.kwWithDefault
            = [] := by
          simp only [create, convertEntity, kwWithDefault_eraseDefaults]
          exact h1'
        rw [defKwdefaults_none_of_kwWithDefault_nil re _ this]
        rfl
  · intro ht; simp [hd, ht]
  · intro ht; simp [hkd, ht]

/-- **Globals**: the converted function resolves global names in the very dict of the source function. -/
theorem C09_globals (re : Nat → ObjId) (extra : List Name) (newName inner : Name) (M : List Name)
    (s : Src) (c : Callable) (g : Fn) (h : transformFunction re extra newName inner M s c = .ok g) :
    g.globals = c.fn.globals := by
  obtain ⟨fc, _, _, _, _, hg, _⟩ := instantiate_ok_inv h
  exact hg

/-- **Bound methods** convert exactly like their underlying function (so the result takes the instance
as its first, ordinary parameter: nothing is pre-bound), and `converted_call` passes the instance first. -/
theorem C09_method (re : Nat → ObjId) (extra : List Name) (newName inner : Name) (M : List Name)
    (s : Src) (self : ObjId) (f : Fn) (args : List ObjId) :
    transformFunction re extra newName inner M s (.boundMethod self f)
      = transformFunction re extra newName inner M s (.function f) ∧
    effectiveArgs (.boundMethod self f) args = self :: args ∧
    effectiveArgs (.function f) args = args :=
  ⟨rfl, rfl, rfl⟩

/-- **Decorators** of the converted function are dropped (not re-applied when the generated `def` runs);
functions nested in it keep theirs, in order, with the artifact marker applied first. -/
theorem C09_decorators (extra : List Name) (newName : Name) (s : Src) (k : Nat) (ds : List Deco) :
    (convertEntity extra newName s).decorators = [] ∧
    functionsPassDecorators (k + 3) ds = ds ++ [Deco.autographArtifact] := by
  constructor
  · simp [convertEntity, functionsPassDecorators]
  · simp [functionsPassDecorators]

/-- The source text and the function object describe the same function. -/
structure Describes (s : Src) (f : Fn) : Prop where
  params : f.code.params = s.args.params
  nodup : f.code.freevars.Nodup
  closure_len : f.closure.length = f.code.freevars.length
  /-- every free variable is referenced somewhere in the body (that is why the compiler made it free) -/
  free_referenced : ∀ x ∈ f.code.freevars, x ∈ s.occs.map Occ.name

/-
FULL STATEMENT (false of the pinned code, see `C09_directive_counterexample`,
`C09_annotation_counterexample`, `C09_defaults_counterexample`): `C09_interface_partial` without the
three class hypotheses.
-/

/-- **C09, assembled** (partial: outside the three known classes).  The conversion succeeds and the result
has the source's parameters, default objects, globals dict, and for every free variable of the source the
very same cell (unless the generated body no longer mentions the variable at all). -/
theorem C09_interface_partial (re : Nat → ObjId) (extra : List Name) (newName inner : Name) (M : List Name)
    (s : Src) (c : Callable) (hdesc : Describes s c.fn)
    (hfresh : FreshNames c.fn.code.freevars extra inner (convertEntity extra newName s))
    (h1 : directiveOnlyFreevar s c.fn.code.freevars = false)
    (h2 : annotationUnresolvable s c.fn.code.freevars M = false)
    (h3 : defaultsCleared s c.fn = false) :
    ∃ g, transformFunction re extra newName inner M s c = .ok g ∧
      g.code.params = c.fn.code.params ∧
      normD g.defaults = normD c.fn.defaults ∧ normD g.kwdefaults = normD c.fn.kwdefaults ∧
      g.globals = c.fn.globals ∧
      (∀ x ∈ g.code.freevars, x ∉ innerBound extra newName → cellOf g x = cellOf c.fn x) ∧
      (∀ x ∈ c.fn.code.freevars, (∃ o ∈ s.occs, o.name = x ∧ o.inDirective = false) →
          x ∈ g.code.freevars ∧ (cellOf c.fn x).isSome ∧ cellOf g x = cellOf c.fn x) := by
  have href : ∀ x ∈ c.fn.code.freevars, x ∈ (convertEntity extra newName s).bodyRefs
      ∨ x ∈ (convertEntity extra newName s).defTimeRefs := by
    intro x hx
    simp only [directiveOnlyFreevar, List.any_eq_false, Bool.and_eq_true, Bool.not_eq_true',
      decide_eq_false_iff_not, not_and, Decidable.not_not] at h1
    by_cases hb : x ∈ (s.occs.filter (fun o => !o.inDirective)).map Occ.name
    · left; simp only [convertEntity, List.mem_append]; exact Or.inl hb
    · right; simp only [convertEntity, List.mem_append]; exact Or.inl (h1 x hx hb)
  have hann : ∀ x ∈ (convertEntity extra newName s).defTimeRefs,
      x ∈ innerBound extra (convertEntity extra newName s).name ∨ x ∈ c.fn.code.freevars ∨ x ∈ M := by
    intro x hx
    simp only [annotationUnresolvable, List.any_eq_false, Bool.and_eq_true, Bool.not_eq_true',
      decide_eq_false_iff_not, not_and, Decidable.not_not] at h2
    simp only [convertEntity, List.mem_append] at hx
    rcases hx with hx | hx
    · by_cases hf : x ∈ c.fn.code.freevars
      · exact Or.inr (Or.inl hf)
      · exact Or.inr (Or.inr (h2 x hx hf))
    · left
      split at hx
      · simp at hx
      · simp [innerBound, convertEntity, hx]
  obtain ⟨g, hg⟩ := C09_succeeds re c.fn.code.freevars extra inner (convertEntity extra newName s) M
    c.fn.globals c.fn.closure c.fn.defaults c.fn.kwdefaults hdesc.closure_len hdesc.nodup href hfresh hann
  have hg' : transformFunction re extra newName inner M s c = .ok g := hg
  refine ⟨g, hg', ?_, ?_, ?_, ?_, ?_, ?_⟩
  · rw [C09_params re extra newName inner M s c g hg', hdesc.params]
  · exact (C09_defaults_partial re extra newName inner M s c g hg' h3).1
  · exact (C09_defaults_partial re extra newName inner M s c g hg' h3).2.1
  · exact C09_globals re extra newName inner M s c g hg'
  · intro x hx hnb
    exact (C09_cells_user re extra inner (convertEntity extra newName s) M c.fn g hdesc.nodup hg x hx hnb).2
  · intro x hx ⟨o, ho, hox, hod⟩
    have hb : x ∈ (convertEntity extra newName s).bodyRefs := by
      simp only [convertEntity, List.mem_append, List.mem_map, List.mem_filter]
      exact Or.inl ⟨o, ⟨ho, by simp [hod]⟩, hox⟩
    have hxg := C09_cells_complete re extra inner (convertEntity extra newName s) M c.fn g hg x hx hb
    have hnb : x ∉ innerBound extra newName := fun hb' => hfresh.locals_fresh x hb' hx
    exact ⟨hxg, C09_cells_user re extra inner (convertEntity extra newName s) M c.fn g hdesc.nodup hg x hxg hnb⟩

/-- **Rebinding is seen on both sides.**  Whenever two functions use the same (existing) cell for `x` —
which `C09_cells` / `C09_cells_user` establish for the source function and its conversion — a `nonlocal`
write of `x` from a frame of either is what a frame of the other reads next, and every other variable of
either function is left alone unless it lives in that same cell; an unassigned cell reads as unassigned
(NameError) on both sides. -/
theorem C09_rebinding (f g : Fn) (x : Name) (hc : cellOf g x = cellOf f x) (hs : (cellOf f x).isSome)
    (σ : Store) (v : ObjId) :
    readVar (writeVar σ f x v) g x = some v ∧ readVar (writeVar σ g x v) f x = some v ∧
    readVar σ g x = readVar σ f x ∧
    writeVar σ g x v = writeVar σ f x v := by
  cases hf : cellOf f x with
  | none => simp [hf] at hs
  | some c =>
    have hg : cellOf g x = some c := hc.trans hf
    simp [readVar, writeVar, hf, hg]

/-- Rebinding one variable does not disturb a variable held in another cell. -/
theorem C09_rebinding_frame (f g : Fn) (x y : Name) (σ : Store) (v : ObjId)
    (hne : cellOf g y ≠ cellOf f x) : readVar (writeVar σ f x v) g y = readVar σ g y := by
  cases hf : cellOf f x with
  | none => simp [writeVar, hf]
  | some c =>
    cases hg : cellOf g y with
    | none => simp [readVar, hg]
    | some c' =>
      have : c' ≠ c := fun h => hne (by rw [hg, hf, h])
      simp [readVar, writeVar, hf, hg, this]

/-- **Functions sharing one code object** (defined in a loop, or made by one maker; the cached factory is
reused): each conversion gets the cells of *its own* source function, whatever the other's are. -/
theorem C09_shared_code (re : Nat → ObjId) (fac : Factory) (M : List Name) (f₁ f₂ g₁ g₂ : Fn)
    (hcode : f₁.code = f₂.code) (hfree : f₁.code.freevars = fac.freevars) (hnd : f₁.code.freevars.Nodup)
    (h₁ : instantiate re fac M f₁.globals f₁.closure f₁.defaults f₁.kwdefaults = .ok g₁)
    (h₂ : instantiate re fac M f₂.globals f₂.closure f₂.defaults f₂.kwdefaults = .ok g₂) :
    g₁.code = g₂.code ∧
    ∀ x ∈ fac.codeFreevars, x ∈ fac.entityFreevars →
      cellOf g₁ x = cellOf f₁ x ∧ cellOf g₂ x = cellOf f₂ x := by
  obtain ⟨fc₁, _, _, hc₁, _⟩ := instantiate_ok_inv h₁
  obtain ⟨fc₂, _, _, hc₂, _⟩ := instantiate_ok_inv h₂
  refine ⟨by rw [hc₁, hc₂]; rfl, ?_⟩
  intro x hx hxe
  have hx₁ : x ∈ g₁.code.freevars := by rw [hc₁]; exact hxe
  have hx₂ : x ∈ g₂.code.freevars := by rw [hc₂]; exact hxe
  constructor
  · rcases C09_cells re fac M f₁ g₁ hfree hnd h₁ x hx₁ with ⟨_, _, h⟩ | ⟨h, _⟩
    · exact h
    · exact absurd hx h
  · rcases C09_cells re fac M f₂ g₂ (hcode ▸ hfree) (hcode ▸ hnd) h₂ x hx₂ with ⟨_, _, h⟩ | ⟨h, _⟩
    · exact h
    · exact absurd hx h

/-- **One code object, several namespaces** (the same module body executed into two namespaces, or
`types.FunctionType(code, other_globals)`; conversions served in sequence by the one cached factory): every
conversion resolves globals in the dict of *its own* source function — nothing of an earlier request is kept. -/
theorem C09_shared_code_globals (re : Nat → ObjId) (fac : Factory) (M : List Name) (f₁ f₂ g₁ g₂ : Fn)
    (h₁ : instantiate re fac M f₁.globals f₁.closure f₁.defaults f₁.kwdefaults = .ok g₁)
    (h₂ : instantiate re fac M f₂.globals f₂.closure f₂.defaults f₂.kwdefaults = .ok g₂) :
    g₁.globals = f₁.globals ∧ g₂.globals = f₂.globals := by
  obtain ⟨_, _, _, _, _, hg₁, _⟩ := instantiate_ok_inv h₁
  obtain ⟨_, _, _, _, _, hg₂, _⟩ := instantiate_ok_inv h₂
  exact ⟨hg₁, hg₂⟩

/-- **Sibling closures keep sharing**: if two source functions hold the same cell for `x`, so do their
conversions (hence a converted setter and a converted getter still talk to each other). -/
theorem C09_siblings (f₁ f₂ g₁ g₂ : Fn) (x : Name) (h₁ : cellOf g₁ x = cellOf f₁ x)
    (h₂ : cellOf g₂ x = cellOf f₂ x) (hs : cellOf f₁ x = cellOf f₂ x) : cellOf g₁ x = cellOf g₂ x := by
  rw [h₁, h₂, hs]

/-- **Same calls accepted** (partial: `defaultsCleared = false`): parameters, positional defaults and
keyword-only defaults — everything argument binding depends on — are those of the source function. -/
theorem C09_call_interface_partial (re : Nat → ObjId) (extra : List Name) (newName inner : Name)
    (M : List Name) (s : Src) (c : Callable) (g : Fn) (hp : c.fn.code.params = s.args.params)
    (h : transformFunction re extra newName inner M s c = .ok g) (hcl : defaultsCleared s c.fn = false) :
    g.callInterface = c.fn.callInterface := by
  have hd := C09_defaults_partial re extra newName inner M s c g h hcl
  simp only [Fn.callInterface, C09_params re extra newName inner M s c g h, hp, hd.1, hd.2.1]

/-! ### The factory protocol, statement by statement (refinement) -/

/-- **The extracted body of `instantiate` is the statement list the model gives meaning to** (in source order). -/
theorem C09_stmts_are_modelled : Malt.Gen.Closure.instantiateStmts = modelledStmts := by decide

/-- Cells are matched by name (`closure_map[name] for name in factory_code.co_freevars`). -/
theorem C09_stmt_cells_by_name :
    Malt.Gen.Closure.Stmt.closureMap ∈ Malt.Gen.Closure.instantiateStmts ∧
    Malt.Gen.Closure.Stmt.matchCells .byName ∈ Malt.Gen.Closure.instantiateStmts := by decide

/-- The length check guarding against lost free variables is there. -/
theorem C09_stmt_length_check : Malt.Gen.Closure.Stmt.lengthCheck ∈ Malt.Gen.Closure.instantiateStmts := by decide

/-- `globals_` and the matched cells (and no defaults) are what `types.FunctionType` receives. -/
theorem C09_stmt_globals_and_closure_rebound :
    Malt.Gen.Closure.Stmt.bindFactory .factoryCode .param .empty .factoryClosure ∈ Malt.Gen.Closure.instantiateStmts := by
  decide

/-- The bound factory is called with the extra locals (`ag__`). -/
theorem C09_stmt_factory_called : Malt.Gen.Closure.Stmt.callFactory true ∈ Malt.Gen.Closure.instantiateStmts := by
  decide

/-- `if defaults: new_fn.__defaults__ = defaults` is there. -/
theorem C09_stmt_defaults_restored :
    Malt.Gen.Closure.Stmt.restoreDefaults .truthy .param ∈ Malt.Gen.Closure.instantiateStmts := by decide

/-- `if kwdefaults: new_fn.__kwdefaults__ = kwdefaults` is there. -/
theorem C09_stmt_kwdefaults_restored :
    Malt.Gen.Closure.Stmt.restoreKwdefaults .truthy .param ∈ Malt.Gen.Closure.instantiateStmts := by decide

/-- **Refinement**: running the extracted statements one by one over the local state of `instantiate` computes
exactly `instantiate` — for every factory, globals dict, closure tuple, defaults and kwdefaults. -/
theorem C09_protocol_refines (re : Nat → ObjId) (fac : Factory) (M : List Name) (G : DictId) (cl : List Cell)
    (d : Option (List ObjId)) (kd : Option (List (Name × ObjId))) :
    instantiateBy Malt.Gen.Closure.instantiateStmts re fac M G cl d kd = instantiate re fac M G cl d kd := by
  rw [C09_stmts_are_modelled]
  simp only [instantiateBy, modelledStmts, runStmts, stepStmt, instantiate]
  cases hl : lookupAll (fac.freevars.zip cl) fac.codeFreevars with
  | error e => simp
  | ok fc =>
    simp only
    by_cases hlen : fc.length = cl.length
    · simp only [hlen, ne_eq, not_true_eq_false, if_false]
      cases hb : firstBad (fun x => decide (x ∈ innerBound fac.extraLocals fac.entity.name)
                        || decide (x ∈ fac.codeFreevars) || decide (x ∈ M)) fac.entity.defTimeRefs with
      | some n => simp
      | none => simp
    · simp [hlen]

/-! ### The proved fragment as an executable classifier (`c09.why`) -/

private theorem ite_nil_left {c : Prop} [Decidable c] {x : Why} : (if c then ([] : List Why) else [x]) = [] ↔ c := by
  by_cases h : c <;> simp [h]

private theorem ite_nil_right {c : Prop} [Decidable c] {x : Why} : (if c then [x] else ([] : List Why)) = [] ↔ ¬ c := by
  by_cases h : c <;> simp [h]

private theorem mem_ite_left {c : Prop} [Decidable c] {x t : Why} :
    t ∈ (if c then ([] : List Why) else [x]) ↔ (¬ c ∧ t = x) := by
  by_cases h : c <;> simp [h]

private theorem mem_ite_right {c : Prop} [Decidable c] {x t : Why} :
    t ∈ (if c then [x] else ([] : List Why)) ↔ (c ∧ t = x) := by
  by_cases h : c <;> simp [h]

private theorem freshNamesB_iff (freevars extra : List Name) (inner : Name) (e : Entity) :
    freshNamesB freevars extra inner e = true ↔ FreshNames freevars extra inner e := by
  simp only [freshNamesB, Bool.and_eq_true, List.all_eq_true, Bool.not_eq_true', decide_eq_false_iff_not]
  constructor
  · rintro ⟨⟨h1, h2⟩, h3⟩; exact ⟨h1, h2, h3⟩
  · rintro ⟨h1, h2, h3⟩; exact ⟨⟨h1, h2⟩, h3⟩

/-- **The classifier is sound**: an entity with no tag satisfies every hypothesis of `C09_interface_partial`. -/
theorem C09_why_sound (extra : List Name) (newName inner : Name) (M : List Name) (s : Src) (c : Callable)
    (h : why extra newName inner M s c = []) :
    Describes s c.fn ∧ FreshNames c.fn.code.freevars extra inner (convertEntity extra newName s) ∧
    directiveOnlyFreevar s c.fn.code.freevars = false ∧ annotationUnresolvable s c.fn.code.freevars M = false ∧
    defaultsCleared s c.fn = false := by
  simp only [why, describesWhy, List.append_eq_nil_iff, ite_nil_left, ite_nil_right, List.all_eq_true,
    decide_eq_true_eq, Bool.not_eq_true, and_assoc] at h
  obtain ⟨h1, h2, h3, h4, h5, h6, h7, h8⟩ := h
  exact ⟨⟨h1, h2, h3, h4⟩, (freshNamesB_iff _ _ _ _).mp h5, h6, h7, h8⟩

/-- **The proved fragment**: for every entity the classifier leaves untagged — whatever its signature, closure
shape, kind (function, lambda, bound method) — the conversion succeeds and the result has the source's
parameters, default objects, globals dict and, for every free variable, the very same cell. -/
theorem C09_fragment (re : Nat → ObjId) (extra : List Name) (newName inner : Name) (M : List Name)
    (s : Src) (c : Callable) (h : why extra newName inner M s c = []) :
    ∃ g, transformFunction re extra newName inner M s c = .ok g ∧
      g.callInterface = c.fn.callInterface ∧ g.globals = c.fn.globals ∧
      (∀ x ∈ g.code.freevars, x ∉ innerBound extra newName → cellOf g x = cellOf c.fn x) ∧
      (∀ x ∈ c.fn.code.freevars, (∃ o ∈ s.occs, o.name = x ∧ o.inDirective = false) →
          x ∈ g.code.freevars ∧ (cellOf c.fn x).isSome ∧ cellOf g x = cellOf c.fn x) := by
  obtain ⟨hd, hf, h1, h2, h3⟩ := C09_why_sound extra newName inner M s c h
  obtain ⟨g, hg, _, _, _, hgl, hc1, hc2⟩ := C09_interface_partial re extra newName inner M s c hd hf h1 h2 h3
  exact ⟨g, hg, C09_call_interface_partial re extra newName inner M s c g hd.params hg h3, hgl, hc1, hc2⟩

/-- **Theorem + classifier partition the inputs**: the three finding tags are exactly the three class
predicates, and an entity that is a well-formed description without name collisions (the domain) is either in
the proved fragment or carries a finding tag — there is no unclassified remainder. -/
theorem C09_partition (extra : List Name) (newName inner : Name) (M : List Name) (s : Src) (c : Callable) :
    (Why.directiveOnly ∈ why extra newName inner M s c ↔ directiveOnlyFreevar s c.fn.code.freevars = true) ∧
    (Why.annotation ∈ why extra newName inner M s c ↔ annotationUnresolvable s c.fn.code.freevars M = true) ∧
    (Why.cleared ∈ why extra newName inner M s c ↔ defaultsCleared s c.fn = true) ∧
    (Describes s c.fn → FreshNames c.fn.code.freevars extra inner (convertEntity extra newName s) →
      (why extra newName inner M s c = [] ∨ ∃ t ∈ why extra newName inner M s c, t.isFindingClass = true) ∧
      ∀ t ∈ why extra newName inner M s c, t.isFindingClass = true) := by
  refine ⟨?_, ?_, ?_, ?_⟩
  · simp [why, describesWhy]
  · simp [why, describesWhy]
  · simp [why, describesWhy]
  · intro hd hf
    have hfb := (freshNamesB_iff _ _ _ _).mpr hf
    have hall : ∀ t ∈ why extra newName inner M s c, t.isFindingClass = true := by
      intro t ht
      simp only [why, describesWhy, hd.params, hd.nodup, hd.closure_len, hfb, if_true, List.append_nil,
        List.nil_append, List.mem_append, mem_ite_right] at ht
      have h4 : (c.fn.code.freevars.all fun x => decide (x ∈ s.occs.map Occ.name)) = true := by
        simp only [List.all_eq_true, decide_eq_true_eq]; exact hd.free_referenced
      simp only [h4, if_true, List.not_mem_nil, false_or] at ht
      rcases ht with (⟨_, rfl⟩ | ⟨_, rfl⟩) | ⟨_, rfl⟩ <;> rfl
    refine ⟨?_, hall⟩
    cases hw : why extra newName inner M s c with
    | nil => exact Or.inl rfl
    | cons t ts => exact Or.inr ⟨t, by simp, hall t (by simp [hw])⟩

/-
FULL STATEMENT (false of the pinned code for the entities of the three finding classes, see `C09_class_directive`,
`C09_class_annotation`, `C09_class_cleared`): `C09_refinement_partial` for ALL entities, i.e. with the hypothesis
`why … = []` weakened to the domain condition `Describes ∧ FreshNames`.
-/

/-- **C09 over the abstract function object, stated once** (partial: the entity carries no `c09.why` tag).
`malt.to_graph`, run through the statement list extracted from `instantiate`, returns a function object with
* the source's parameter list (names, kinds, order — hence the `/` and `*` markers), and the same call interface;
* `__defaults__` / `__kwdefaults__` that ARE the source's tuple / dict whenever it has any;
* `__globals__` that IS the source's dict;
* for every free variable the SAME cell, so a rebinding through either function is read by the other;
* `__name__` = the generated entity name (`<lambda>` for a lambda), `__qualname__` =
  `outer_factory.<locals>.inner_factory.<locals>.<name>`, `__module__` = the module named by the source's globals,
  `__doc__` = the source docstring, and a fresh `__dict__` holding exactly `ag_module`, `ag_source_map`,
  `autograph_info__` (nothing of the source's `__dict__`, e.g. `__wrapped__`, is carried over). -/
theorem C09_refinement_partial (modName : DictId → Nat) (re : Nat → ObjId) (extra : List Name)
    (newName inner outer : Name) (M : List Name) (s : Src) (c : Callable)
    (h : why extra newName inner M s c = []) :
    ∃ g, toGraph modName re extra newName inner outer M s c = .ok g ∧
      g.code.params = c.fn.code.params ∧ g.callInterface = c.fn.callInterface ∧
      (truthy c.fn.defaults = true → g.defaults = c.fn.defaults) ∧
      (truthy c.fn.kwdefaults = true → g.kwdefaults = c.fn.kwdefaults) ∧
      g.globals = c.fn.globals ∧
      (∀ x ∈ g.code.freevars, x ∉ innerBound extra newName → cellOf g x = cellOf c.fn x) ∧
      (∀ x ∈ c.fn.code.freevars, (∃ o ∈ s.occs, o.name = x ∧ o.inDirective = false) →
          x ∈ g.code.freevars ∧ cellOf g x = cellOf c.fn x ∧
          ∀ (σ : Store) (v : ObjId), readVar (writeVar σ c.fn x v) g x = some v ∧
                                     readVar (writeVar σ g x v) c.fn x = some v) ∧
      g.name = s.lambdaName.getD newName ∧ g.qualname = [outer, inner, s.lambdaName.getD newName] ∧
      g.module = modName c.fn.globals ∧ g.doc = s.doc ∧
      g.dict = [Attr.agModule, Attr.agSourceMap, Attr.autographInfo] := by
  obtain ⟨g0, hg0, hci, hgl, hc1, hc2⟩ := C09_fragment re extra newName inner M s c h
  obtain ⟨hd, _, _, _, h3⟩ := C09_why_sound extra newName inner M s c h
  have hdef := C09_defaults_partial re extra newName inner M s c g0 hg0 h3
  have hrun : instantiateBy Malt.Gen.Closure.instantiateStmts re
      (create c.fn.code.freevars extra inner (convertEntity extra newName s)) M c.fn.globals c.fn.closure
      c.fn.defaults c.fn.kwdefaults = .ok g0 := by
    rw [C09_protocol_refines]; exact hg0
  refine ⟨toGraphMeta (convertActualMeta (defMeta modName outer inner newName s g0)), ?_, ?_, ?_, ?_, ?_, ?_, ?_, ?_,
    rfl, rfl, ?_, rfl, rfl⟩
  · simp only [toGraph, hrun]
  · have := C09_params re extra newName inner M s c g0 hg0
    simp only [toGraphMeta, convertActualMeta, defMeta]
    rw [this, hd.params]
  · simpa [Fn.callInterface, toGraphMeta, convertActualMeta, defMeta] using hci
  · exact hdef.2.2.1
  · exact hdef.2.2.2
  · exact hgl
  · intro x hx hnb
    exact hc1 x hx hnb
  · intro x hx ho
    obtain ⟨h1, h2, h3'⟩ := hc2 x hx ho
    refine ⟨h1, h3', ?_⟩
    intro σ v
    have hr := C09_rebinding c.fn g0 x h3' h2 σ v
    exact ⟨hr.1, hr.2.1⟩
  · simp only [toGraphMeta, convertActualMeta, defMeta]; rw [hgl]

private def necFac : Factory := create [0, 1, 4] [2] 5 (convertEntity [2] 3
  { args := { posonlyargs := [], args := [7, 8], vararg := none, kwonlyargs := [6],
              kwDefaults := [some (.orig 1)], kwarg := none, defaults := [.orig 0] },
    decorators := [], annRefs := [], occs := [⟨4, false⟩, ⟨1, false⟩, ⟨0, false⟩] })

private def necRun (stmts : List Malt.Gen.Closure.Stmt) : Except Err Fn :=
  instantiateBy stmts (fun _ => 0) necFac [] 77 [.outer 10, .outer 11, .outer 12] (some [501]) (some [(6, 502)])

/-- **Every re-binding statement is needed**: on an example function (`def f(p, q=…, *, k=…)` closing over
three variables), the statement list with one re-binding statement dropped either cannot be run at all or
returns a function that deviates — cells, globals, defaults, keyword-only defaults are each restored by exactly
one statement. -/
theorem C09_stmts_necessary :
    (necRun modelledStmts).map Fn.closure = .ok [.outer 10, .outer 11, .factoryLocal 2, .outer 12] ∧
    (necRun modelledStmts).map Fn.globals = .ok 77 ∧
    (necRun modelledStmts).map Fn.defaults = .ok (some [501]) ∧
    (necRun modelledStmts).map Fn.kwdefaults = .ok (some [(6, 502)]) ∧
    (necRun (modelledStmts.erase (.restoreKwdefaults .truthy .param))).map Fn.kwdefaults = .ok (some [(6, noneObj)]) ∧
    (necRun (modelledStmts.erase (.restoreDefaults .truthy .param))).map Fn.defaults = .ok (some [noneObj]) ∧
    necRun (modelledStmts.erase (.matchCells .byName)) = .error .protocol ∧
    necRun (modelledStmts.erase (.bindFactory .factoryCode .param .empty .factoryClosure)) = .error .protocol ∧
    necRun (modelledStmts.erase (.callFactory true)) = .error .protocol := by decide

/-! ### Bound objects: `self` / `cls` binding through `converted_call` -/

/-- **The unwrapping of `converted_call` is Python's own dispatch**: for every callable built from functions, bound
methods (instances, or classes for classmethods), `functools.partial` chains and objects with `__call__`, the
function Python would finally run and the arguments it would run it with are exactly the conversion target and the
effective arguments `converted_call` computes. -/
theorem C09_unwrap_is_python_call (c : PyCallable) : ∀ (a : List ObjId) (k : List (Name × ObjId)),
    ∃ last, (pyCallChain c a k).getLast? = some last ∧
      last.2.1 = (unwrap c a k).args ∧ last.2.2 = (unwrap c a k).kwargs ∧
      (∀ f, (unwrap c a k).target = some f → last.1 = PyCallable.function f) ∧
      ((unwrap c a k).target = none → ∃ i, last.1 = PyCallable.other i) := by
  induction c with
  | function f => intro a k; exact ⟨_, rfl, rfl, rfl, by intro g hg; simp [unwrap] at hg; simp [hg], by simp [unwrap]⟩
  | boundMethod s f =>
    intro a k; exact ⟨_, rfl, rfl, rfl, by intro g hg; simp [unwrap] at hg; simp [hg], by simp [unwrap]⟩
  | partialOf c pa pk ih =>
    intro a k
    obtain ⟨last, h1, h2, h3, h4, h5⟩ := ih (pa ++ a) (dictUpdate pk k)
    refine ⟨last, ?_, h2, h3, h4, h5⟩
    simp only [pyCallChain]
    cases hc : pyCallChain c (pa ++ a) (dictUpdate pk k) with
    | nil => simp [hc] at h1
    | cons x xs => rw [hc] at h1; simp [List.getLast?_cons_cons, h1]
  | callableObject o call =>
    intro a k; exact ⟨_, rfl, rfl, rfl, by intro g hg; simp [unwrap] at hg; simp [hg], by simp [unwrap]⟩
  | other i => intro a k; exact ⟨_, rfl, rfl, rfl, by simp [unwrap], fun _ => ⟨i, rfl⟩⟩

/-- **The receiver stays first through any chain of partials**: the arguments frozen by the partials follow the
instance / class (innermost partial first), the call's own arguments come last. -/
theorem C09_unwrap_receiver_first (s : ObjId) (f : Fn) :
    ∀ (chain : List (List ObjId × List (Name × ObjId))) (pre : List ObjId) (a : List ObjId) (k : List (Name × ObjId))
      (c : PyCallable), (∀ a' k', (unwrap c a' k').target = some f ∧ (unwrap c a' k').args = s :: pre ++ a') →
      (unwrap (wrapPartials c chain) a k).target = some f ∧
      ∃ frozen, (unwrap (wrapPartials c chain) a k).args = s :: pre ++ frozen ++ a
  | [], pre, a, k, c, h => ⟨(h a k).1, [], by simp [wrapPartials, (h a k).2]⟩
  | (pa, pk) :: rest, pre, a, k, c, h => by
    have h' : ∀ a' k', (unwrap (.partialOf c pa pk) a' k').target = some f ∧
        (unwrap (.partialOf c pa pk) a' k').args = s :: (pre ++ pa) ++ a' := by
      intro a' k'
      simp only [unwrap]
      exact ⟨(h _ _).1, by rw [(h _ _).2]; simp⟩
    obtain ⟨h1, frozen, h2⟩ := C09_unwrap_receiver_first s f rest (pre ++ pa) a k (.partialOf c pa pk) h'
    exact ⟨h1, pa ++ frozen, by simp only [wrapPartials]; rw [h2]; simp⟩

/-- A receiver passed first is bound to the first positional parameter (`self` / `cls`). -/
theorem C09_receiver_binds_first_param (params : List (Name × Kind)) (p : Name) (kd : Kind) (ps : List (Name × Kind))
    (hp : params = (p, kd) :: ps) (hk : kd = Kind.posOnly ∨ kd = Kind.posOrKw) (s : ObjId) (a : List ObjId) :
    (bindPositional params (s :: a)).head? = some (p, s) := by
  subst hp
  rcases hk with rfl | rfl <;> simp [bindPositional]

/-- **`self` / `cls` binding is preserved** (partial: the conversion target carries no `c09.why` tag): whatever
callable is handed to `converted_call`, the converted target has the call interface of the function Python itself
would run, so the effective arguments bind to the same parameters — in particular the receiver of a bound method,
classmethod or callable object to the first parameter. -/
theorem C09_bound_call_preserved_partial (re : Nat → ObjId) (extra : List Name) (newName inner : Name)
    (M : List Name) (src : Src) (pc : PyCallable) (a : List ObjId) (k : List (Name × ObjId)) (f : Fn)
    (ht : (unwrap pc a k).target = some f) (h : why extra newName inner M src (.function f) = []) :
    ∃ g, transformFunction re extra newName inner M src (.function f) = .ok g ∧
      g.callInterface = f.callInterface ∧
      bindPositional g.code.params (unwrap pc a k).args = bindPositional f.code.params (unwrap pc a k).args ∧
      (∃ last, (pyCallChain pc a k).getLast? = some last ∧ last.1 = PyCallable.function f ∧
        last.2.1 = (unwrap pc a k).args ∧ last.2.2 = (unwrap pc a k).kwargs) := by
  obtain ⟨g, hg, hci, _⟩ := C09_fragment re extra newName inner M src (.function f) h
  obtain ⟨last, h1, h2, h3, h4, _⟩ := C09_unwrap_is_python_call pc a k
  have hp : g.code.params = f.code.params := by
    have := congrArg Prod.fst hci
    simpa [Fn.callInterface, Callable.fn] using this
  exact ⟨g, hg, hci, by rw [hp], last, h1, h4 f ht, h2, h3⟩

/-! ### Conversely: what happens in each finding class (for all entities of the class) -/

private theorem href_of_not_directive {extra : List Name} {newName : Name} {s : Src} {freevars : List Name}
    (h1 : directiveOnlyFreevar s freevars = false) :
    ∀ x ∈ freevars, x ∈ (convertEntity extra newName s).bodyRefs ∨ x ∈ (convertEntity extra newName s).defTimeRefs := by
  intro x hx
  simp only [directiveOnlyFreevar, List.any_eq_false, Bool.and_eq_true, Bool.not_eq_true',
    decide_eq_false_iff_not, not_and, Decidable.not_not] at h1
  by_cases hb : x ∈ (s.occs.filter (fun o => !o.inDirective)).map Occ.name
  · left; simp only [convertEntity, List.mem_append]; exact Or.inl hb
  · right; simp only [convertEntity, List.mem_append]; exact Or.inl (h1 x hx hb)

private theorem succeeds_src (re : Nat → ObjId) (extra : List Name) (newName inner : Name) (M : List Name)
    (s : Src) (c : Callable) (hdesc : Describes s c.fn)
    (hfresh : FreshNames c.fn.code.freevars extra inner (convertEntity extra newName s))
    (h1 : directiveOnlyFreevar s c.fn.code.freevars = false)
    (h2 : annotationUnresolvable s c.fn.code.freevars M = false) :
    ∃ g, transformFunction re extra newName inner M s c = .ok g := by
  have hann : ∀ x ∈ (convertEntity extra newName s).defTimeRefs,
      x ∈ innerBound extra (convertEntity extra newName s).name ∨ x ∈ c.fn.code.freevars ∨ x ∈ M := by
    intro x hx
    simp only [annotationUnresolvable, List.any_eq_false, Bool.and_eq_true, Bool.not_eq_true',
      decide_eq_false_iff_not, not_and, Decidable.not_not] at h2
    simp only [convertEntity, List.mem_append] at hx
    rcases hx with hx | hx
    · by_cases hf : x ∈ c.fn.code.freevars
      · exact Or.inr (Or.inl hf)
      · exact Or.inr (Or.inr (h2 x hx hf))
    · left
      split at hx
      · simp at hx
      · simp [innerBound, convertEntity, hx]
  exact C09_succeeds re c.fn.code.freevars extra inner (convertEntity extra newName s) M
    c.fn.globals c.fn.closure c.fn.defaults c.fn.kwdefaults hdesc.closure_len hdesc.nodup
    (href_of_not_directive h1) hfresh hann

/-- **Class 1, for all its members**: a free variable mentioned only in directive calls ⇒ the conversion raises
"closure mismatch". -/
theorem C09_class_directive (re : Nat → ObjId) (extra : List Name) (newName inner : Name) (M : List Name)
    (s : Src) (c : Callable) (hdesc : Describes s c.fn)
    (hfresh : FreshNames c.fn.code.freevars extra inner (convertEntity extra newName s))
    (h1 : directiveOnlyFreevar s c.fn.code.freevars = true) :
    transformFunction re extra newName inner M s c = .error .closureMismatch := by
  simp only [directiveOnlyFreevar, List.any_eq_true, Bool.and_eq_true, Bool.not_eq_true',
    decide_eq_false_iff_not] at h1
  obtain ⟨z, hz, hz1, hz2⟩ := h1
  have hzx : z ∉ extra := fun h => hfresh.locals_fresh z (by simp [innerBound, h]) hz
  apply C09_mismatch re c.fn.code.freevars extra inner (convertEntity extra newName s) M c.fn.globals c.fn.closure
    c.fn.defaults c.fn.kwdefaults hdesc.closure_len hdesc.nodup hfresh z hz
  · simp only [convertEntity, List.mem_append, not_or]; exact ⟨hz1, hzx⟩
  · simp only [convertEntity, List.mem_append, not_or]
    refine ⟨hz2, ?_⟩
    split
    · simp
    · exact hzx

/-- **Class 2, for all its members** (every free variable still mentioned, annotations not naming generated
names): an evaluated annotation naming a non-free, non-global name ⇒ the conversion raises NameError for such a
name. -/
theorem C09_class_annotation (re : Nat → ObjId) (extra : List Name) (newName inner : Name) (M : List Name)
    (s : Src) (c : Callable) (hdesc : Describes s c.fn)
    (hfresh : FreshNames c.fn.code.freevars extra inner (convertEntity extra newName s))
    (h1 : directiveOnlyFreevar s c.fn.code.freevars = false)
    (h2 : annotationUnresolvable s c.fn.code.freevars M = true)
    (hgen : ∀ x ∈ s.annRefs, x ∉ innerBound extra newName) :
    ∃ n ∈ s.annRefs, n ∉ M ∧ transformFunction re extra newName inner M s c = .error (.nameError n) := by
  simp only [annotationUnresolvable, List.any_eq_true, Bool.and_eq_true, Bool.not_eq_true',
    decide_eq_false_iff_not] at h2
  obtain ⟨x, hx, hx1, hx2⟩ := h2
  obtain ⟨n, hn, ⟨hn1, hn2⟩, hres⟩ := C09_name_error re c.fn.code.freevars extra inner (convertEntity extra newName s) M
    c.fn.globals c.fn.closure c.fn.defaults c.fn.kwdefaults hdesc.closure_len hdesc.nodup
    (href_of_not_directive h1) hfresh
    ⟨x, by simp only [convertEntity, List.mem_append]; exact Or.inl hx, hgen x hx, hx1, hx2⟩
  refine ⟨n, ?_, hn2, hres⟩
  simp only [convertEntity, List.mem_append] at hn
  rcases hn with hn | hn
  · exact hn
  · split at hn
    · simp at hn
    · exact absurd (by simp [innerBound, convertEntity, hn]) hn1

private theorem kwdefaults_length (re : Nat → ObjId) (a : Arguments) :
    (normD (a.defKwdefaults re)).length = a.kwWithDefault.length := by
  have key : ∀ (ns : List Name) (ds : List (Option DExpr)),
      ((ns.zip ds).filterMap (fun p => p.2.map (fun e => (p.1, evalD re e)))).length
      = ((ns.zip ds).filterMap (fun p => p.2.map (fun _ => p.1))).length := by
    intro ns
    induction ns with
    | nil => intro ds; simp
    | cons n ns ih =>
      intro ds
      cases ds with
      | nil => simp
      | cons d ds => cases d <;> simp [ih ds]
  simp only [Arguments.defKwdefaults, Arguments.kwWithDefault]
  split
  · rename_i h
    rw [← key]
    simp only [List.isEmpty_iff] at h
    simp [normD, h]
  · simp only [normD]; exact key _ _

/-- **Class 3, for all its members** (outside classes 1 and 2): defaults emptied after definition ⇒ the
conversion succeeds and the result's call interface differs from the source's (it has `None` defaults the
source function does not have). -/
theorem C09_class_cleared (re : Nat → ObjId) (extra : List Name) (newName inner : Name) (M : List Name)
    (s : Src) (c : Callable) (hdesc : Describes s c.fn)
    (hfresh : FreshNames c.fn.code.freevars extra inner (convertEntity extra newName s))
    (h1 : directiveOnlyFreevar s c.fn.code.freevars = false)
    (h2 : annotationUnresolvable s c.fn.code.freevars M = false)
    (h3 : defaultsCleared s c.fn = true) :
    ∃ g, transformFunction re extra newName inner M s c = .ok g ∧ g.callInterface ≠ c.fn.callInterface := by
  obtain ⟨g, hg⟩ := succeeds_src re extra newName inner M s c hdesc hfresh h1 h2
  refine ⟨g, hg, ?_⟩
  obtain ⟨fc, _, _, _, _, _, hd, hkd⟩ := instantiate_ok_inv hg
  have nt : ∀ {α : Type} (o : Option (List α)), truthy o = false → normD o = [] := by
    intro α o ho
    match o, ho with
    | none, _ => rfl
    | some [], _ => rfl
  have hargs : (create c.fn.code.freevars extra inner (convertEntity extra newName s)).entity.args
      = eraseDefaults s.args := rfl
  simp only [defaultsCleared, Bool.or_eq_true, Bool.and_eq_true, Bool.not_eq_true'] at h3
  intro heq
  simp only [Fn.callInterface, Prod.mk.injEq] at heq
  rcases h3 with ⟨ht, hne⟩ | ⟨ht, hne⟩
  · have h0 := heq.2.1
    rw [hd, nt _ ht] at h0
    simp only [ht, Bool.false_eq_true, if_false, hargs] at h0
    have : (eraseDefaults s.args).defaults ≠ [] := by
      intro he
      have : s.args.defaults = [] := by
        simp only [eraseDefaults, List.map_eq_nil_iff] at he; exact he
      simp [this] at hne
    cases hdl : (eraseDefaults s.args).defaults with
    | nil => exact this hdl
    | cons a l => simp [Arguments.defDefaults, hdl, normD] at h0
  · have h0 := heq.2.2
    rw [hkd, nt _ ht] at h0
    simp only [ht, Bool.false_eq_true, if_false, hargs] at h0
    have hl := kwdefaults_length re (eraseDefaults s.args)
    rw [h0, kwWithDefault_eraseDefaults] at hl
    cases hk : s.args.kwWithDefault with
    | nil => simp [hk] at hne
    | cons a l => rw [hk] at hl; simp at hl

/-! ## Non-vacuity: concrete instances satisfying the hypotheses

Names (ranks): `0 = __class__`, `1 = a`, `2 = ag__`, `3 = ag__f`, `4 = b`, `5 = inner_factory`, `6 = k`,
`7 = p`, `8 = q`, `9 = G` (a global). -/

/-- `def f(p, q=<e0>, *, k=<e1>): … a … b … __class__ …` with decorator `<d0>`. -/
private def exSrc : Src :=
  { args := { posonlyargs := [], args := [7, 8], vararg := none, kwonlyargs := [6],
              kwDefaults := [some (.orig 1)], kwarg := none, defaults := [.orig 0] }
    decorators := [0]
    annRefs := [9]
    occs := [⟨4, false⟩, ⟨1, false⟩, ⟨9, false⟩, ⟨0, false⟩, ⟨1, false⟩] }

private def exFn : Fn :=
  { code := { params := [(7, .posOrKw), (8, .posOrKw), (6, .kwOnly)], freevars := [0, 1, 4] }
    closure := [.outer 10, .outer 11, .outer 12]
    globals := 77
    defaults := some [501]
    kwdefaults := some [(6, 502)] }

/-- The expected result: `co_freevars = ('__class__', 'a', 'ag__', 'b')`, the user's three cells in their
places and the factory's fresh `ag__` cell in between. -/
example : transformFunction (fun i => 900 + i) [2] 3 5 [9] exSrc (.function exFn) = .ok
    { code := { params := [(7, .posOrKw), (8, .posOrKw), (6, .kwOnly)], freevars := [0, 1, 2, 4] }
      closure := [.outer 10, .outer 11, .factoryLocal 2, .outer 12]
      globals := 77, defaults := some [501], kwdefaults := some [(6, 502)] } := by decide

example : Describes exSrc (Callable.function exFn).fn :=
  ⟨by decide, by decide, by decide, by decide⟩

example : FreshNames (Callable.function exFn).fn.code.freevars [2] 5 (convertEntity [2] 3 exSrc) :=
  ⟨by decide, by decide⟩

example : directiveOnlyFreevar exSrc exFn.code.freevars = false ∧
    annotationUnresolvable exSrc exFn.code.freevars [9] = false ∧ defaultsCleared exSrc exFn = false := by
  decide

/-- A scope tree of the example's generated entity satisfying the hypothesis of `C09_resolution` (the entity
binds its parameters, mentions `b a G __class__ a ag__`, and contains a nested function using `a`). -/
example : (Scope.mk [7, 8, 6] [] [4, 9, 0, 1, 2] [Scope.mk [20] [] [1, 20] []]).freeNames.length
    = (convertEntity [2] 3 exSrc).bodyRefs.length ∧
    (Scope.mk [7, 8, 6] [] [9, 0, 1, 2] [Scope.mk [20] [] [4, 1, 20] []]).freeNames
    = (convertEntity [2] 3 exSrc).bodyRefs := by decide

/-- `C09_cells` is permutation-robust: a factory whose `co_freevars` come in another order than the
source's (and a closure tuple in the source's order) still maps every name to its own cell. -/
example : instantiate (fun _ => 0)
    { name := 3, freevars := [4, 0, 1], extraLocals := [2], codeFreevars := [0, 1, 4],
      entity := convertEntity [2] 3 exSrc, entityFreevars := [1, 4, 2, 0] } [9] 77
    [.outer 12, .outer 10, .outer 11] (some [501]) none = .ok
    { code := { params := [(7, .posOrKw), (8, .posOrKw), (6, .kwOnly)], freevars := [1, 4, 2, 0] }
      closure := [.outer 11, .outer 12, .factoryLocal 2, .outer 10]
      globals := 77, defaults := some [501], kwdefaults := some [(6, noneObj)] } := by decide

/-- Rebinding through the source function's cell is read by the conversion (and the factory's own `ag__`
cell is untouched): instance of `C09_rebinding` / `C09_rebinding_frame` on the example above. -/
example :
    let g : Fn := { code := { params := [], freevars := [0, 1, 2, 4] },
                    closure := [.outer 10, .outer 11, .factoryLocal 2, .outer 12], globals := 77,
                    defaults := none, kwdefaults := none }
    let σ : Store := fun c => if c = .factoryLocal 2 then some 5 else none
    readVar (writeVar σ exFn 1 42) g 1 = some 42 ∧ readVar (writeVar σ exFn 1 42) g 2 = some 5 ∧
    readVar σ g 4 = none := by decide

/-- Hypotheses of `C09_succeeds` on the example: every free variable still mentioned, `def`-time names
resolvable (the annotation `G` is a global). -/
example : (∀ x ∈ exFn.code.freevars, x ∈ (convertEntity [2] 3 exSrc).bodyRefs ∨ x ∈ (convertEntity [2] 3 exSrc).defTimeRefs) ∧
    (∀ x ∈ (convertEntity [2] 3 exSrc).defTimeRefs,
      x ∈ innerBound [2] (convertEntity [2] 3 exSrc).name ∨ x ∈ exFn.code.freevars ∨ x ∈ [9]) := by decide

/-- `C09_shared_code`: two functions made by one maker (same code, different cells and defaults) instantiated
from the one cached factory — each conversion holds its own function's cells. -/
example :
    let fac := create exFn.code.freevars [2] 5 (convertEntity [2] 3 exSrc)
    let f₂ : Fn := { exFn with closure := [.outer 20, .outer 21, .outer 22], defaults := some [601] }
    (instantiate (fun _ => 0) fac [9] 77 exFn.closure exFn.defaults exFn.kwdefaults).map (fun g => (g.closure, g.defaults))
      = .ok ([.outer 10, .outer 11, .factoryLocal 2, .outer 12], some [501]) ∧
    (instantiate (fun _ => 0) fac [9] 77 f₂.closure f₂.defaults f₂.kwdefaults).map (fun g => (g.closure, g.defaults))
      = .ok ([.outer 20, .outer 21, .factoryLocal 2, .outer 22], some [601]) := by decide

/-- `C09_shared_code_globals` on closure-free functions over one code object in namespaces 77 and 78. -/
example :
    let fac := create [] [2] 5 (convertEntity [2] 3 { exSrc with occs := [⟨9, false⟩], annRefs := [] })
    (instantiate (fun _ => 0) fac [] 77 [] none none).map Fn.globals = .ok 77 ∧
    (instantiate (fun _ => 0) fac [] 78 [] none none).map Fn.globals = .ok 78 := by decide

/-- A bound method (instance `7`; the statement is for every receiver, `0 = None`-like falsy ones included)
converts like its function; the instance goes first in the call. -/
example : transformFunction (fun _ => 0) [2] 3 5 [9] exSrc (.boundMethod 7 exFn)
      = transformFunction (fun _ => 0) [2] 3 5 [9] exSrc (.function exFn) ∧
    effectiveArgs (.boundMethod 7 exFn) [31, 32] = [7, 31, 32] := by decide

/-- The top-level decorator `<d0>` of the example is gone; a nested function's decorators stay, artifact last. -/
example : (convertEntity [2] 3 exSrc).decorators = [] ∧
    functionsPassDecorators 3 [.user 4, .user 5] = [.user 4, .user 5, .autographArtifact] ∧
    (convertEntity [2] 3 exSrc).args.defEvalTrace = [] ∧ exSrc.args.defEvalTrace = [0, 1] := by decide

/-! ## Counterexamples: the three deviations of the pinned tree -/

/-- `def f(n): while …: m.set_loop_options(…)` with `m` a variable of the enclosing function: the
directive pass deletes the only reference to `m`; the factory's `co_freevars` is `()` while the source has
one cell: "closure mismatch". (`1 = m`.) -/
private def dirSrc : Src :=
  { args := { posonlyargs := [], args := [7], vararg := none, kwonlyargs := [], kwDefaults := [],
              kwarg := none, defaults := [] }
    decorators := [], annRefs := [], occs := [⟨1, true⟩] }
private def dirFn : Fn :=
  { code := { params := [(7, .posOrKw)], freevars := [1] }, closure := [.outer 10], globals := 77,
    defaults := none, kwdefaults := none }

theorem C09_directive_counterexample :
    Describes dirSrc dirFn ∧ FreshNames dirFn.code.freevars [2] 5 (convertEntity [2] 3 dirSrc) ∧
    directiveOnlyFreevar dirSrc dirFn.code.freevars = true ∧
    transformFunction (fun _ => 0) [2] 3 5 [] dirSrc (.function dirFn) = .error .closureMismatch := by
  refine ⟨⟨by decide, by decide, by decide, by decide⟩, ⟨by decide, by decide⟩, by decide, by decide⟩

example : ¬ (∀ (s : Src) (f : Fn), Describes s f →
    FreshNames f.code.freevars [2] 5 (convertEntity [2] 3 s) →
    ∃ g, transformFunction (fun _ => 0) [2] 3 5 [] s (.function f) = .ok g) := by
  intro h
  obtain ⟨g, hg⟩ := h dirSrc dirFn C09_directive_counterexample.1 C09_directive_counterexample.2.1
  rw [C09_directive_counterexample.2.2.2] at hg
  cases hg

/-- `def f(p: T): return p` with `T` a variable of the enclosing function (`1 = T`): `T` is not a free
variable of `f` (annotations are evaluated outside), the generated `def` evaluates it inside the inner
factory: NameError. -/
private def annSrc : Src :=
  { args := { posonlyargs := [], args := [7], vararg := none, kwonlyargs := [], kwDefaults := [],
              kwarg := none, defaults := [] }
    decorators := [], annRefs := [1], occs := [] }
private def annFn : Fn :=
  { code := { params := [(7, .posOrKw)], freevars := [] }, closure := [], globals := 77,
    defaults := none, kwdefaults := none }

theorem C09_annotation_counterexample :
    Describes annSrc annFn ∧ FreshNames annFn.code.freevars [2] 5 (convertEntity [2] 3 annSrc) ∧
    annotationUnresolvable annSrc annFn.code.freevars [9] = true ∧
    transformFunction (fun _ => 0) [2] 3 5 [9] annSrc (.function annFn) = .error (.nameError 1) := by
  refine ⟨⟨by decide, by decide, by decide, by decide⟩, ⟨by decide, by decide⟩, by decide, by decide⟩

/-- `def f(q=<e0>, *, k=<e1>)` followed by `f.__defaults__ = None; f.__kwdefaults__ = None`: the original
requires both arguments, the converted function has `None` defaults for both. -/
private def clrSrc : Src :=
  { args := { posonlyargs := [], args := [8], vararg := none, kwonlyargs := [6],
              kwDefaults := [some (.orig 1)], kwarg := none, defaults := [.orig 0] }
    decorators := [], annRefs := [], occs := [] }
private def clrFn : Fn :=
  { code := { params := [(8, .posOrKw), (6, .kwOnly)], freevars := [] }, closure := [], globals := 77,
    defaults := none, kwdefaults := none }

theorem C09_defaults_counterexample :
    Describes clrSrc clrFn ∧ defaultsCleared clrSrc clrFn = true ∧
    ∃ g, transformFunction (fun _ => 0) [2] 3 5 [] clrSrc (.function clrFn) = .ok g ∧
      normD g.defaults ≠ normD clrFn.defaults ∧ normD g.kwdefaults ≠ normD clrFn.kwdefaults := by
  refine ⟨⟨by decide, by decide, by decide, by decide⟩, by decide, ?_⟩
  exact ⟨{ code := { params := [(8, .posOrKw), (6, .kwOnly)], freevars := [2] }, closure := [.factoryLocal 2],
           globals := 77, defaults := some [noneObj], kwdefaults := some [(6, noneObj)] },
         by decide, by decide, by decide⟩

/-! ## Non-vacuity of the classifier, the refinement and the unwrapping -/

/-- The example function is in the proved fragment; each counterexample carries exactly its own tag. -/
example : why [2] 3 5 [9] exSrc (.function exFn) = [] ∧
    why [2] 3 5 [] dirSrc (.function dirFn) = [Why.directiveOnly] ∧
    why [2] 3 5 [9] annSrc (.function annFn) = [Why.annotation] ∧
    why [2] 3 5 [] clrSrc (.function clrFn) = [Why.cleared] := by decide

/-- A description that is not one of a CPython function object (closure shorter than `co_freevars`) and a user
variable named like the extra local `ag__` (`2`) are outside the domain, not in a finding class. -/
example : why [2] 3 5 [9] exSrc (.function { exFn with closure := [.outer 10] }) = [Why.closureLen] ∧
    why [2] 3 5 [9] { exSrc with occs := exSrc.occs ++ [⟨2, false⟩] }
      (.function { exFn with code := { exFn.code with freevars := [0, 1, 2, 4] },
                             closure := [.outer 10, .outer 11, .outer 13, .outer 12] }) = [Why.nameCollision] := by
  decide

/-- `C09_refinement_partial` on the example (a bound method, docstring `7`, module of dict `77` is `770`): the
result through the extracted statement list, with its name, qualified name, module, docstring and `__dict__`. -/
example : toGraph (fun g => 10 * g) (fun i => 900 + i) [2] 3 5 6 [9] { exSrc with doc := some 7 } (.boundMethod 40 exFn) = .ok
    { code := { params := [(7, .posOrKw), (8, .posOrKw), (6, .kwOnly)], freevars := [0, 1, 2, 4] }
      closure := [.outer 10, .outer 11, .factoryLocal 2, .outer 12]
      globals := 77, defaults := some [501], kwdefaults := some [(6, 502)]
      name := 3, qualname := [6, 5, 3], module := 770, doc := some 7
      dict := [.agModule, .agSourceMap, .autographInfo] } := by decide

/-- `converted_call` on `partial(partial(obj.m, 11, k=21), 12, k=22, z=23)(13, w=24)`: the method's function is the
target, the receiver `9` comes first, the frozen arguments in order, later keywords win. -/
example : (unwrap (.partialOf (.partialOf (.boundMethod 9 exFn) [11] [(3, 21)]) [12] [(3, 22), (4, 23)]) [13] [(5, 24)]).args
      = [9, 11, 12, 13] ∧
    (unwrap (.partialOf (.partialOf (.boundMethod 9 exFn) [11] [(3, 21)]) [12] [(3, 22), (4, 23)]) [13] [(5, 24)]).kwargs
      = [(3, 22), (4, 23), (5, 24)] ∧
    (unwrap (.callableObject 9 exFn) [13] []).args = [9, 13] ∧
    (bindPositional exFn.code.params [9, 13]).head? = some (7, 9) := by decide

end Malt.Closure
