import MaltModel.Props.C01Func
import MaltModel.Proofs.FuncFSim
import MaltModel.Proofs.FuncWrapperF
import MaltModel.Proofs.FuncBlockVars
/-!
# C02 — functional (tracing) operator backends see complete state

`execF` (`Func/Target.lean`) is the functional semantics of the generated code: the operators touch the
enclosing function's variables only through `get_state`/`set_state`; a conditional runs **both** branches from
the same snapshot and keeps the first `nouts` entries of the selected one; a loop traces its body once out of
band (also for zero iterations) and re-injects the carried state before every iteration.  This is my
formalisation of the documented tracing model (control_flow.md, operators/control_flow.py docstring) — a
modelling choice, validated against a real backend of this shape on every run of the check.

* `functional_correct`: source run vs tracing run, for **pure** programs (no external call anywhere, and — for the
  functional theorems only — no `with` (its enter/exit are logged events) and no `try` (an exception raised by an
  out-of-band run could be caught by a handler, which the source run never sees): decidable `pureB`), under the hypotheses of `control_flow_correct` plus three facts about the state tuple that
  `_get_block_vars` guarantees (`HypFB`: no duplicates, `declared ⊆ modified`, entries after the first `nouts`
  are not live after the conditional).  Whenever the tracing run ends without an exception it ends exactly like
  the original: same outcome, live-out variables agree.
* `C02_functional_eq_native`: `resultF = resultN` — for the same `declared`, the tracing run and the native run of
  the converted code agree (and both agree with the original).
  "Total" appears as: the original terminates on the input (`hsrc`) and the tracing run terminates (`hrun`);
  "definitely assigned" (and the absence of run-time type errors in code the original never executes) appears as:
  the tracing run does not raise (`hne`).  The theorem is therefore *partial correctness of the tracing run*;
  it is named `_partial` for that reason: not proved is a static criterion under which the tracing run cannot
  raise (it would need a type discipline for `evalBin`, and it is false of the pinned tree for a state variable
  that is frame-local to an enclosing generated function through a *later* assignment — see `run_c02.py`).
* `C02_state_complete`: the "equivalently" of the property, over the mirror of `_get_block_vars`
  (`Malt.Conv.BlockVars.blockVars`): every variable a branch / loop body may change and that is live after the
  statement, or at its entry, or at the start of a later iteration, is in the state tuple; everything live after a
  conditional is among its first `nouts` entries; and the tuple satisfies every hypothesis the two theorems above
  make about it.
-/
namespace Malt.Func
open Malt.Sem

/-- The additional hypotheses of the functional theorems. -/
structure FuncHypF (p : ABlock) : Prop where
  hypf : HypFB p
  pure : pureB p = true

def funcHypF (p : ABlock) : Bool := hypFB p && pureB p

theorem funcHypF_checker_sound (p : ABlock) (h : funcHypF p = true) : FuncHypF p := by
  simp only [funcHypF, Bool.and_eq_true] at h
  exact ⟨hypFB_sound p h.1, h.2⟩

/-- **Source vs tracing backend.** -/
theorem functional_correct (X : Ext) (p : ABlock) (D O : List Name) (hyp : FuncHyp D p O) (hF : FuncHypF p)
    (σ : St) (σ' : TSt) (hag : Agree (blockIn p O) σ σ') (hb : BoundSub σ D)
    (n : Nat) (o : Out) (σ₁ : St) (hsrc : execB X n (eraseB p) σ = some (o, σ₁))
    (m : Nat) (oF : Out) (σF : TSt) (hrun : execFB X m (funcB p) σ' = some (oF, σF)) :
    IsExc oF ∨ (oF = o ∧ σF.log = σ₁.log ∧ (o = .normal → Agree O σ₁ σF)) := by
  have hok : OkB ExcCtx.top D O p := ⟨hyp.live, hyp.decl, hyp.defd, hyp.jump, hF.hypf, hF.pure⟩
  rcases (f_all X n).2.1 p ExcCtx.top D O σ σ' o σ₁ m oF σF hok hag hb hsrc hrun with h | ⟨h1, h2⟩
  · exact Or.inl h
  · exact Or.inr ⟨h1, h2.1, h2.2⟩

/-- **`resultF = resultN`** for pure programs, given that the original terminates on the input and the tracing
run completes without raising (what "total, definitely assigned" buys): the native run of the same converted
code gives the same outcome, and the two final states read the same on every variable live at the end. -/
theorem C02_functional_eq_native_partial (X : Ext) (p : ABlock) (D O : List Name) (hyp : FuncHyp D p O) (hF : FuncHypF p)
    (σ : St) (σ' : TSt) (hag : Agree (blockIn p O) σ σ') (hb : BoundSub σ D)
    (n : Nat) (o : Out) (σ₁ : St) (hsrc : execB X n (eraseB p) σ = some (o, σ₁))
    (m : Nat) (oF : Out) (σF : TSt) (hrun : execFB X m (funcB p) σ' = some (oF, σF)) (hne : ¬ IsExc oF) :
    ∃ k σN, execNB X k (funcB p) σ' = some (oF, σN) ∧ oF = o ∧ σN.log = σF.log ∧
      (oF = .normal → ∀ x ∈ O, (σN.env x).toOpt = (σF.env x).toOpt) := by
  obtain ⟨k, σN, hN, hlN, hagN⟩ := control_flow_correct X p D O hyp σ σ' hag hb n o σ₁ hsrc
  rcases functional_correct X p D O hyp hF σ σ' hag hb n o σ₁ hsrc m oF σF hrun with h | ⟨rfl, hlF, hagF⟩
  · exact absurd h hne
  · refine ⟨k, σN, hN, rfl, by rw [hlN, hlF], fun ho x hx => ?_⟩
    rw [(hagN ho).1 x hx, (hagF ho).1 x hx]

/-- Whole-function form: both backends are started on the same arguments; the results (return value or
escaping exception) coincide. -/
theorem C02_result_eq_partial (X : Ext) (p : ABlock) (D : List Name) (hyp : FuncHyp D p []) (hF : FuncHypF p)
    (σ : St) (hb : BoundSub σ D)
    (n : Nat) (r : Out × St) (hsrc : execB X n (eraseB p) σ = some r)
    (m : Nat) (rF : Out × TSt) (hrun : execFB X m (funcB p) (TSt.ofSt σ) = some rF) (hne : ¬ IsExc rF.1) :
    ∃ k rN, execNB X k (funcB p) (TSt.ofSt σ) = some rN ∧ rN.1 = rF.1 ∧ rF.1 = r.1 := by
  obtain ⟨o, σ₁⟩ := r
  obtain ⟨oF, σF⟩ := rF
  obtain ⟨k, σN, hN, ho, _, _⟩ := C02_functional_eq_native_partial X p D [] hyp hF σ (TSt.ofSt σ) (agree_ofSt _ σ) hb
    n o σ₁ hsrc m oF σF hrun hne
  exact ⟨k, (oF, σN), hN, rfl, ho⟩

/-! ## State completeness over the mirror of `_get_block_vars` -/

/-- Variables read at the start of a later iteration of a loop (before the iteration writes them). -/
def laterIterationReads : AStmt → List Name
  | .whileS i c b => vars c ++ blockIn b i.liveIn
  | .forS i x _ extra b => varsO extra ++ (blockIn b i.liveIn).filter (fun y => y != x)
  | _ => []

/-- **State completeness.**  For every program whose liveness annotation is consistent and whose state tuples are
the ones `_get_block_vars` computes (simple names), and every control statement `s` in it, at any depth:
every variable `v` that a branch / the loop body may change (`v ∈ modified`) and that is observable afterwards
(`v ∈ liveOut`), needed on entry (`v ∈ liveIn`) or read on a later iteration is carried in the state tuple;
and everything that may be read after `s` is among its first `nouts` entries. -/
theorem C02_state_complete (p : ABlock) (O : List Name) (hl : LiveConsistent p O) (hu : UsesBlockVars p) :
    ∀ s ∈ allB p, s.isCompound = true → ∀ v ∈ s.modified,
      ((v ∈ s.info.liveOut ∨ v ∈ s.info.liveIn ∨ v ∈ laterIterationReads s) → v ∈ s.info.declared) ∧
      (v ∈ s.info.liveOut → v ∈ s.info.declared.take s.info.nouts) := by
  intro s hs hc v hv
  have hf := bv1_facts hc (hu s hs)
  obtain ⟨K', hlive⟩ := liveB_of_mem ExcCtx.top p O hl s hs
  have hin : v ∈ s.info.liveOut ∨ v ∈ s.info.liveIn → v ∈ s.info.declared := by
    intro h
    apply hf.1
    refine List.mem_filter.mpr ⟨hv, mem_liveEither.mpr ?_⟩
    rcases h with h | h
    · exact Or.inr h
    · exact Or.inl h
  refine ⟨?_, hf.2.2.2.2.2.1 v hv⟩
  rintro (h | h | h)
  · exact hin (Or.inl h)
  · exact hin (Or.inr h)
  · -- read on a later iteration ⇒ live at loop entry (`LiveConsistent`)
    apply hin; right
    cases s with
    | whileS i c b =>
      simp only [LiveS] at hlive
      simp only [laterIterationReads, List.mem_append] at h
      rcases h with h | h
      · exact hlive.1 h
      · exact hlive.2.1 h
    | forS i x it extra b =>
      simp only [LiveS] at hlive
      simp only [laterIterationReads, List.mem_append] at h
      rcases h with h | h
      · exact hlive.2.1 h
      · exact hlive.2.2.2.1 h
    | _ => simp [laterIterationReads] at h

/-- `bv` (used by `UsesBlockVars`) is the general mirror `Malt.Conv.BlockVars.blockVars` of `_get_block_vars` on
simple names without `global`/`nonlocal` declarations. -/
theorem C02_blockVars_mirror (modified liveIn liveOut definedIn : List String)
    (hs : ∀ v ∈ modified, Malt.Conv.BlockVars.isComposite v = false) :
    Malt.Conv.BlockVars.blockVars modified liveIn liveOut definedIn [] [] = bv modified liveIn liveOut definedIn :=
  bv_eq_blockVars modified liveIn liveOut definedIn hs

/-- The state tuples computed by `_get_block_vars` satisfy every hypothesis `control_flow_correct` and
`functional_correct` make about `declared`, `undefined` and `nouts`. -/
theorem C02_blockVars_hyps (p : ABlock) (hu : UsesBlockVars p) : DeclB p ∧ HypFB p := bv_declB p hu

/-- … and `undefined` is exactly `modified \\ definedIn`: every state variable possibly unbound before the
statement gets its `Undefined` placeholder (so `get_state()` has something to read), and nothing else does. -/
theorem C02_undefined_exact (p : ABlock) (hu : UsesBlockVars p) :
    ∀ s ∈ allB p, s.isCompound = true → ∀ v, v ∈ s.info.undefined ↔ (v ∈ s.modified ∧ v ∉ s.info.definedIn) := by
  intro s hs hc v
  have hf := bv1_facts hc (hu s hs)
  exact ⟨fun h => ⟨hf.2.1 h, hf.2.2.2.2.2.2.2 v h⟩, fun h => hf.2.2.2.2.2.2.1 v h.1 h.2⟩

/-! ## Examples -/
/-- **The function wrapper around a tracing-backend body** (partial correctness, like `functional_correct`): the
converted function (`callConvertedF`: `FunctionScope` enter, the `do_return`/`retval_` initialisation, the
functionalised body under the tracing operators, `return fscope.ret(retval_, do_return)`, `__exit__` on every
outcome) restores the conversion-status stack in every case and, whenever it does not raise, returns what the caller
of the lowered source body sees (`None` when the source falls off the end or `retval_` still holds the
`UndefinedReturnValue` placeholder), with the same effect log. -/
theorem C02_function_wrapper_partial (X : Ext) (l : Lowered) (hwf : l.wf = true) (name : String) (userRequested : Bool)
    (D : List Name) (hyp : FuncHyp D l.prog []) (hF : FuncHypF l.inner)
    (σ : St) (σ' : TSt) (hag : Agree (blockIn l.prog []) σ σ') (hb : BoundSub σ D) (stk : CtxStack)
    (n : Nat) (o : Out) (σ₁ : St) (hsrc : execB X n (eraseB l.prog) σ = some (o, σ₁))
    (m : Nat) (r : Out) (τ : TSt) (stk' : CtxStack)
    (hrun : callConvertedF X m l name userRequested σ' stk = some (r, τ, stk')) :
    stk' = stk ∧ (IsExc r ∨ (r = fnOutcome o ∧ τ.log = σ₁.log)) :=
  wrapper_both_F X l hwf name userRequested D hyp hF.hypf hF.pure σ σ' hag hb stk n o σ₁ hsrc m r τ stk' hrun

namespace ExamplesF
open Examples

/-- The three example programs of C01Func are pure and their state tuples satisfy `HypFB`. -/
example : funcHypF loopProg = true ∧ funcHypF branchProg = true ∧ funcHypF forProg = true := by decide

/-- Tracing runs: same results as the original (6, 10, 3). -/
example : (execFB X0 16 (funcB loopProg) (TSt.ofSt (st [("n", .int 3)]))).map (·.1) = some (.ret (.int 6)) := by decide +kernel
example : (execFB X0 10 (funcB branchProg) (TSt.ofSt (st [("c", .int 4)]))).map (·.1) = some (.ret (.int 10)) := by decide
example : (execFB X0 18 (funcB forProg) (TSt.ofSt (st [("xs", .list [1, 2, -1, 5])]))).map (·.1) = some (.ret (.int 3)) := by decide +kernel
/-- Zero iterations: the body is still traced once, out of band; the result is unaffected. -/
example : (execFB X0 16 (funcB loopProg) (TSt.ofSt (st [("n", .int 0)]))).map (·.1) = some (.ret (.int 0)) := by decide

/-- A conditional whose state tuple comes from the mirror of `_get_block_vars`:
`if c: y = x + 1; x = 0 else: y = 2` with `x, y` live before and only `y` live after:
tuple `(y, x)`, `nouts = 1` (`x` is input-only, sorted last). -/
example : (bv ["y", "x"] ["c", "x", "y"] ["y"] ["c", "x", "y"]).scopeVars = ["y", "x"] ∧
    (bv ["y", "x"] ["c", "x", "y"] ["y"] ["c", "x", "y"]).nouts = 1 := by decide

def condProg : ABlock :=
  [ .ifS {liveIn := ["c", "x", "y"], liveOut := ["y"], definedIn := ["c", "x", "y"], declared := ["y", "x"], undefined := [], nouts := 1}
      (.var "c")
      [ .assign {liveIn := ["x"], liveOut := ["y"]} "y" (.bin .add (.var "x") (.const (.int 1))),
        .assign {liveIn := ["y"], liveOut := ["y"]} "x" (.const (.int 0)) ]
      [ .assign {liveIn := [], liveOut := ["y"]} "y" (.const (.int 2)) ],
    .ret {liveIn := ["y"], liveOut := []} (some (.var "y")) ]

example : funcHyp ["c", "x", "y"] condProg [] = true ∧ funcHypF condProg = true := by decide
example : (execFB X0 10 (funcB condProg) (TSt.ofSt (st [("c", .int 1), ("x", .int 4), ("y", .int 9)]))).map (·.1)
    = some (.ret (.int 5)) := by decide

/-- `UsesBlockVars` is satisfiable: `condProg`'s tuple is the mirror's output. -/
example : UsesBlockVars condProg := by
  intro s hs
  simp only [condProg, allB, allS, List.append_nil, List.nil_append, List.cons_append, List.mem_cons, List.not_mem_nil, or_false] at hs
  rcases hs with rfl | rfl | rfl | rfl | rfl
  · intro _; refine ⟨by decide, by decide, by decide⟩
  all_goals (intro h; cases h)

/-- The wrapped functions of C01Func under the tracing backend: pure, `HypFB`; conditional return 7 / the
`UndefinedReturnValue` placeholder becoming `None`; the status stack restored (`fallOff` logs a call: not pure). -/
example : funcHypF condRet.inner = true := by decide
example : (callConvertedF X0 10 condRet "f" true (TSt.ofSt (st [("c", .int 1)])) [.disabled]).map (fun r => (r.1, r.2.2)) =
    some (.ret (.int 7), [.disabled]) := by decide
example : (callConvertedF X0 10 condRet "f" true (TSt.ofSt (st [("c", .int 0)])) []).map (fun r => (r.1, r.2.2)) =
    some (.ret .none, []) := by decide

end ExamplesF

/-! ## State completeness is needed: a missing state variable changes what a tracing backend computes while
the native run is unaffected (what makes C02 invisible to tests that run converted code natively). -/
namespace CounterF
open Examples

/-- `x = 1; if c: t = 5 else: t = 7; x = t; return x` — with `t` carried natively by a cell that both branch
functions share… here: a loop whose carried variable `s` is left out of the state tuple:
```
s = 0
for x in xs: s = s + x          # declared = []   (should be [s])
return s
```
Natively `s` would also be lost (it becomes frame-local); the instructive variant is the conditional below. -/
def inputOnlyWrong : ABlock :=
  [ .ifS {liveIn := ["c", "x"], liveOut := ["x"], definedIn := ["c", "x"], declared := ["x"], undefined := [], nouts := 0}
      (.var "c")
      [ .assign {liveIn := ["x"], liveOut := ["x"]} "x" (.bin .add (.var "x") (.const (.int 1))) ]
      [ .pass {liveIn := ["x"], liveOut := ["x"]} ],
    .ret {liveIn := ["x"], liveOut := []} (some (.var "x")) ]

/-- All hypotheses of `control_flow_correct` hold (natively the result is right) … -/
example : funcHyp ["c", "x"] inputOnlyWrong [] = true := by decide
example : (execNB X0 8 (funcB inputOnlyWrong) (TSt.ofSt (st [("c", .int 1), ("x", .int 4)]))).map (·.1) = some (.ret (.int 5)) := by decide
/-- … but `nouts = 0` declares `x` input-only although it is read afterwards (`HypFB` fails), and the tracing
backend restores it: 4 instead of 5. -/
example : funcHypF inputOnlyWrong = false := by decide
theorem inputOnlyWrong_functional :
    (execFB X0 10 (funcB inputOnlyWrong) (TSt.ofSt (st [("c", .int 1), ("x", .int 4)]))).map (·.1) = some (.ret (.int 4)) := by decide

/-- **A defect of the pinned tree that only a tracing backend sees** (class
`state_var_unbound_local_of_enclosing_body`; reproduced on the real code by `run_c02.py`):
```
t = 0
if a:
    if c: t = 1
    else: t = 2
    b = b + t
    t = 7            # dead store: makes `t` a local of the generated `if_body`
return b
```
`t` is defined before the outer `if`, so no `Undefined` placeholder is emitted for the inner `if`; `t` is not live
into or out of the outer `if`, so `if_body` does not declare it and the later `t = 7` makes it a *local* of
`if_body`; the inner statement carries `t` in its state tuple — its `get_state()` reads the unbound local. -/
def laterLocal : ABlock :=
  [ .assign {liveIn := ["a", "b", "c"], liveOut := ["a", "b", "c"]} "t" (.const (.int 0)),
    .ifS {liveIn := ["a", "b", "c"], liveOut := ["b"], definedIn := ["a", "b", "c", "t"], declared := ["b"], undefined := [], nouts := 1}
      (.var "a")
      [ .ifS {liveIn := ["b", "c"], liveOut := ["b", "t"], definedIn := ["a", "b", "c", "t"], declared := ["t"], undefined := [], nouts := 1}
          (.var "c")
          [ .assign {liveIn := ["b"], liveOut := ["b", "t"]} "t" (.const (.int 1)) ]
          [ .assign {liveIn := ["b"], liveOut := ["b", "t"]} "t" (.const (.int 2)) ],
        .assign {liveIn := ["b", "t"], liveOut := ["b"]} "b" (.bin .add (.var "b") (.var "t")),
        .assign {liveIn := ["b"], liveOut := ["b"]} "t" (.const (.int 7)) ]
      [ .pass {liveIn := ["b"], liveOut := ["b"]} ],
    .ret {liveIn := ["b"], liveOut := []} (some (.var "b")) ]

/-- Every static hypothesis of both theorems holds, the state tuples are the ones `_get_block_vars` computes … -/
example : funcHyp ["a", "b", "c"] laterLocal [] = true ∧ funcHypF laterLocal = true := by decide
/-- … natively the converted function is right (3) … -/
example : (execNB X0 10 (funcB laterLocal) (TSt.ofSt (st [("a", .int 1), ("b", .int 2), ("c", .int 3)]))).map (·.1)
    = some (.ret (.int 3)) := by decide
/-- … but the tracing run raises in `get_state` — for every input, also when the outer branch is not taken. -/
theorem laterLocal_functional :
    (execFB X0 12 (funcB laterLocal) (TSt.ofSt (st [("a", .int 1), ("b", .int 2), ("c", .int 3)]))).map (·.1)
      = some (.exc (.nameError "t")) ∧
    (execFB X0 12 (funcB laterLocal) (TSt.ofSt (st [("a", .int 0), ("b", .int 2), ("c", .int 3)]))).map (·.1)
      = some (.exc (.nameError "t")) := by decide
/-- The class predicate (what `C02_functional_eq_native_partial` assumes away through `hne`) holds of it. -/
example : stateUnboundRisk (funcB laterLocal) = true := by decide
/-- … and of none of the well-behaved examples. -/
example : stateUnboundRisk (funcB loopProg) = false ∧ stateUnboundRisk (funcB forProg) = false ∧
    stateUnboundRisk (funcB branchProg) = false := by decide

end CounterF
end Malt.Func
