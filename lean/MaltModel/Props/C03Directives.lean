import MaltModel.Proofs.C03Directives
/-!
# C03, loop options from the SOURCE: where the directives annotated on a loop come from

`Props/C03.lean: C03_opts` says: the options of an emitted `for_stmt` / `while_stmt` are exactly the `set_loop_options`
table ANNOTATED on that loop (plus `iterate_names`).  This file covers the step before: the annotation itself, as set by
the model of `DirectivesTransformer` (`Conv/Directives.lean`, tied to the real pass by C04's correspondence).

Not modelled: the identity of a loop across the passes between Directives and ControlFlow (the annotation travels on the
node object; `./check C03` checks the end-to-end statement at run time with the instrumented operators: every loop carries
exactly the directive the generator placed in it, identified by its `maximum_iterations` value).
-/
namespace Malt.Conv.DirectivesSpec
open Malt.Py Malt.Conv Malt.Conv.Directives

/-- If the pass succeeds, every loop annotation it leaves is `("set_loop_options", m)` on a loop `l` such that the source
contains an expression statement `set_loop_options(as, ks)` (callee resolved statically) whose INNERMOST enclosing
synchronous loop is `l` (its body or `else` block, through `if`/`with`/`try`/nested `def`s but not through another loop),
and `m` is the argument map `_map_args` computes from that call.  In particular no directive is attached to an outer or a
sibling loop, and a directive outside any loop (`l = 0`) never yields an annotation (the pass raises instead). -/
theorem C03_directive_source (env : Directives.Env) (root : Stmt) (out : List Stmt) (st : St)
    (h : Directives.run env root = .ok (out, st)) :
    ∀ a ∈ st.annos, a.2.1 = "set_loop_options" ∧
      ∃ as ks, (a.1, as, ks) ∈ placedS env 0 root ∧ mapArgs loopParams 0 as ks = .ok a.2.2 := by
  intro a ha
  have := visitS_inv env root { stack := [(0, 0)] } out st 0 0 [] rfl h
  rcases this.2 a ha with h0 | h1
  · cases h0
  · exact h1

/-- Non-vacuity: `for …: set_loop_options(maximum_iterations=3); x = 1` is annotated on the loop (id 1) with that call. -/
example :
    let env : Directives.Env := { staticOf := fun i => if i = 4 then some "set_loop_options" else none, origDefs := fun _ => none }
    let loop : Stmt := .for_ 1 (.name 2 "i" .store) (.name 9 "l" .load)
      [.expr 3 (.call 5 (.name 4 "slo" .load) [] [.keyword 6 "maximum_iterations" true (.const 7 "int" "3")]),
       .assign 8 [.name 10 "x" .store] (.const 11 "int" "1")] [] [] false
    placedS env 0 loop = [(1, [], [.keyword 6 "maximum_iterations" true (.const 7 "int" "3")])] := by
  simp [placedS, placedL, Expr.id]

end Malt.Conv.DirectivesSpec
