import MaltModel.Conv.Pipeline
/-!
# C01 — conversion preserves Python semantics under the default operators

Property theorems only.  This file collects (i) the obligations on the *extracted* pass pipeline and
(ii) re-exports of the per-pass semantic-preservation theorems (jump lowering: `Props/C01Jumps.lean`;
functionalisation: `Props/C01Func.lean`; expression wrappers: `Props/C01Exprs.lean`), each audited
as part of this property by `harness/run_c01.py`.
-/
namespace Malt.Conv.Pipeline

/-- The pipeline extracted from `PyToPy.transform_ast` runs every mandatory pass exactly once,
unconditionally, in an order satisfying every precedence the per-pass theorems rely on. -/
theorem C01_pipeline_order : orderOk = true := by decide

/-- Feature-guarded passes are guarded by exactly their feature; no other pass is guarded. -/
theorem C01_pipeline_guards : guardsOk = true := by decide

/-- control_flow's transform builds the CFG and runs activity → reaching definitions → reaching
function definitions → liveness before functionalising (the annotations `control_flow_correct` assumes). -/
theorem C01_cf_analyses : cfAnalysesOk = true := by decide

/-- Passes that draw fresh names re-run the activity analysis on the tree they receive. -/
theorem C01_activity_fresh : activityFreshOk = true := by decide

end Malt.Conv.Pipeline
