import MaltModel.Py.Trace
import MaltModel.Cfg.Builder
/-!
# `Cfg.AstToCfg` — functional mirror of `malt/pyct/cfg.py :: AstToCfg`

* `lexical_scopes` is the argument `σ` (innermost first); entering/leaving a scope is passing a longer/shorter list.
* `builder_stack`: a nested `FunctionDef`/`Lambda`/`ClassDef` is visited with a fresh builder by a recursive call;
  its finished graph (and any error) goes to the accumulator `Acc` (`self.cfgs`), the enclosing builder only receives
  the ordinary node.  Because the nested visit cannot touch the enclosing builder, the lambdas met by
  `generic_visit` of a statement's expressions are mirrored in two independent parts: their *nodes* in the enclosing
  graph (`Expr.lams`, in visit order, added BEFORE the statement's own node) and their own *graphs* (`lamGraphs`).
* `visit_ExceptHandler` calls `self.visit(node.name)` on a `str`: the real code crashes on `except E as e`; here
  `err` is set.
* Statements without a `visit_*` method (`AsyncFunctionDef`, `AsyncFor`, `AsyncWith`) fall through to
  `generic_visit` exactly as in Python; `match`/`try*`/… (`Stmt.other`) set `err := "unsupported"`.
-/
namespace Malt.Cfg
open Malt.Py

inductive Scope where
  | fn (id : Nat)
  | lam (id : Nat)
  | cls (id : Nat)
  | loop (id : Nat)
  | try_ (id : Nat) (hasFinally : Bool) (handlers : List Nat)
  deriving Repr, Inhabited, DecidableEq

inductive Stop where
  | fn | lam | loop
  deriving DecidableEq, Repr

def Scope.isStop : Stop → Scope → Bool
  | .fn, .fn _ => true
  | .lam, .lam _ => true
  | .loop, .loop _ => true
  | _, _ => false

def Scope.id : Scope → Nat
  | .fn i | .lam i | .cls i | .loop i | .try_ i _ _ => i

/-- `_get_enclosing_finally_scopes`: `(stop scope id, guards)`; guards innermost first. -/
def enclosingFinally (stop : Stop) : List Scope → Option Nat × List Nat
  | [] => (none, [])
  | s :: rest =>
    let inc := match s with
      | .try_ i true _ => [i]
      | _ => []
    if s.isStop stop then (some s.id, inc)
    else
      let r := enclosingFinally stop rest
      (r.1, inc ++ r.2)

/-- `_get_enclosing_except_scopes`. -/
def enclosingExcept (stop : Stop) : List Scope → List Nat
  | [] => []
  | s :: rest =>
    let inc := match s with
      | .try_ _ _ hs => hs
      | _ => []
    if s.isStop stop then inc else inc ++ enclosingExcept stop rest

/-- Finished graphs of nested functions (`self.cfgs`) and the first Python exception, if any. -/
structure Acc where
  cfgs : List (Nat × Graph) := []
  err : Option String := none
  deriving Repr, Inhabited

def Acc.fail (a : Acc) (msg : String) : Acc := { a with err := a.err.or (some msg) }

/-- `self.cfgs[node] = self.builder.build()` and propagate a crash of that builder. -/
def Acc.finish (a : Acc) (id : Nat) (b : B) : Acc :=
  { cfgs := a.cfgs ++ [(id, b.build)], err := a.err.or b.err }

/-- Add ordinary nodes for a list of (lambda) ids. -/
def addOrdinaryNodes (b : B) (ns : List Nat) : B := ns.foldl B.addOrdinaryNode b

/-- `_process_exit_statement` after its `generic_visit` (the part acting on the current builder). -/
def processExit (σ : List Scope) (b : B) (n : NodeId) (stop : Stop) (viaExcept : Bool) : B :=
  match enclosingFinally stop σ with
  | (none, _) => b.fail "assert: exit statement not enclosed"
  | (some target, guards) =>
      let b := b.addExitNode n target guards
      if viaExcept then b.connectRaiseNode n (enclosingExcept stop σ) else b

/-- `_process_continue_statement`. -/
def processContinue (σ : List Scope) (b : B) (n : NodeId) : B :=
  match enclosingFinally .loop σ with
  | (none, _) => b.fail "ValueError: continue not enclosed"
  | (some target, guards) => b.addContinueNode n target guards

/-! ### Graphs of the lambdas nested in expressions -/
mutual
/-- `self.visit(e)` as far as `self.cfgs` is concerned (for a non-lambda this is `generic_visit(e)`). -/
def lamGraphs (σ : List Scope) : Expr → Acc → Acc
  | .lambda i args body, a =>
      -- _process_function_def(node, is_lambda=True) with a fresh builder
      let σ' := Scope.lam i :: σ
      let b : B := {}
      let b := b.enterSection i
      -- _process_basic_statement(node.args): generic_visit(args), then the node
      let a := lamGraphsKids σ' args a
      let b := (addOrdinaryNodes b args.kidLams).addOrdinaryNode args.id
      -- _process_exit_statement(node.body, (ast.Lambda,)): generic_visit(body), then the exit node
      let a := lamGraphsKids σ' body a
      let b := processExit σ' (addOrdinaryNodes b body.kidLams) body.id .lam false
      let b := b.exitSection i
      a.finish i b
  | .name .., a => a
  | .const .., a => a
  | .noneMarker, a => a
  | .attr _ v _ _, a => lamGraphs σ v a
  | .subscript _ v s _, a => lamGraphs σ s (lamGraphs σ v a)
  | .call _ f as ks, a => lamGraphsL σ ks (lamGraphsL σ as (lamGraphs σ f a))
  | .keyword _ _ _ v, a => lamGraphs σ v a
  | .boolop _ _ vs, a => lamGraphsL σ vs a
  | .unary _ _ e, a => lamGraphs σ e a
  | .binop _ _ l r, a => lamGraphs σ r (lamGraphs σ l a)
  | .compare _ l _ rs, a => lamGraphsL σ rs (lamGraphs σ l a)
  | .ifexp _ t b e, a => lamGraphs σ e (lamGraphs σ b (lamGraphs σ t a))
  | .seq _ _ es _, a => lamGraphsL σ es a
  | .starred _ v _, a => lamGraphs σ v a
  | .namedexpr _ t v, a => lamGraphs σ v (lamGraphs σ t a)
  | .comp _ _ es gs, a => lamGraphsL σ gs (lamGraphsL σ es a)
  | .comprehension _ t it ifs _, a => lamGraphsL σ ifs (lamGraphs σ it (lamGraphs σ t a))
  | .arguments _ po ar va ko kd kw df, a =>
      lamGraphsL σ df (lamGraphsL σ kw (lamGraphsL σ kd (lamGraphsL σ ko (lamGraphsL σ va (lamGraphsL σ ar (lamGraphsL σ po a))))))
  | .arg _ _ an, a => lamGraphsL σ an a
  | .withitem _ c v, a => lamGraphsL σ v (lamGraphs σ c a)
  | .other _ _ _ kids, a => lamGraphsL σ kids a
/-- `self.generic_visit(e)`: the children only. -/
def lamGraphsKids (σ : List Scope) : Expr → Acc → Acc
  | .lambda _ args body, a => lamGraphs σ body (lamGraphs σ args a)
  | .name .., a => a
  | .const .., a => a
  | .noneMarker, a => a
  | .attr _ v _ _, a => lamGraphs σ v a
  | .subscript _ v s _, a => lamGraphs σ s (lamGraphs σ v a)
  | .call _ f as ks, a => lamGraphsL σ ks (lamGraphsL σ as (lamGraphs σ f a))
  | .keyword _ _ _ v, a => lamGraphs σ v a
  | .boolop _ _ vs, a => lamGraphsL σ vs a
  | .unary _ _ e, a => lamGraphs σ e a
  | .binop _ _ l r, a => lamGraphs σ r (lamGraphs σ l a)
  | .compare _ l _ rs, a => lamGraphsL σ rs (lamGraphs σ l a)
  | .ifexp _ t b e, a => lamGraphs σ e (lamGraphs σ b (lamGraphs σ t a))
  | .seq _ _ es _, a => lamGraphsL σ es a
  | .starred _ v _, a => lamGraphs σ v a
  | .namedexpr _ t v, a => lamGraphs σ v (lamGraphs σ t a)
  | .comp _ _ es gs, a => lamGraphsL σ gs (lamGraphsL σ es a)
  | .comprehension _ t it ifs _, a => lamGraphsL σ ifs (lamGraphs σ it (lamGraphs σ t a))
  | .arguments _ po ar va ko kd kw df, a =>
      lamGraphsL σ df (lamGraphsL σ kw (lamGraphsL σ kd (lamGraphsL σ ko (lamGraphsL σ va (lamGraphsL σ ar (lamGraphsL σ po a))))))
  | .arg _ _ an, a => lamGraphsL σ an a
  | .withitem _ c v, a => lamGraphsL σ v (lamGraphs σ c a)
  | .other _ _ _ kids, a => lamGraphsL σ kids a
def lamGraphsL (σ : List Scope) : List Expr → Acc → Acc
  | [], a => a
  | e :: es, a => lamGraphsL σ es (lamGraphs σ e a)
end

/-- Expression children of a simple statement, in `generic_visit` (field) order. -/
def _root_.Malt.Py.Stmt.exprKids : Stmt → List Expr
  | .ret _ v => v
  | .delete _ ts => ts
  | .assign _ ts v => ts ++ [v]
  | .augAssign _ t _ v => [t, v]
  | .annAssign _ t an v _ => t :: an :: v
  | .raise _ e c => e ++ c
  | .assert_ _ t m => t :: m
  | .expr _ v => [v]
  | _ => []

def handlerIds : List Stmt → List Nat
  | [] => []
  | s :: ss => s.id :: handlerIds ss

/-- `_process_basic_statement(e)` for an expression-side node (test, withitem, arguments, extra test). -/
def basicExpr (σ : List Scope) (e : Expr) (b : B) (a : Acc) : B × Acc :=
  ((addOrdinaryNodes b e.kidLams).addOrdinaryNode e.id, lamGraphsKids σ e a)

def basicExprs (σ : List Scope) : List Expr → B → Acc → B × Acc
  | [], b, a => (b, a)
  | e :: es, b, a =>
    let r := basicExpr σ e b a
    basicExprs σ es r.1 r.2

/-- The conditional section of a try's `else` block is keyed by the `Try` node itself (the first statement of the block may
be an `if`, which keys a conditional section of its own). -/
def elseRep (i : Nat) (orelse : List Stmt) : Option Nat := if orelse.isEmpty then none else some i

/-- An optional part of `visit_Try` keyed by `rep` (`else` block / handlers / `finally` block): `pre`, visit, `post`. -/
def optSection (rep : Option Nat) (pre post : Nat → B → B) (visit : Nat → B → Acc → B × Acc) (r : B × Acc) : B × Acc :=
  match rep with
  | none => r
  | some k => (post k (visit k (pre k r.1) r.2).1, (visit k (pre k r.1) r.2).2)

mutual
/-- `self.visit(stmt)` with current builder `b`. -/
def visitStmt (σ : List Scope) : Stmt → B → Acc → B × Acc
  | .functionDef i _ args body decorators returns isAsync, b, a =>
      if isAsync then
        -- no visit_AsyncFunctionDef: generic_visit (args, body, decorator_list, returns) on the CURRENT builder
        let a := lamGraphs σ args a
        let b := addOrdinaryNodes b args.lams
        let r := visitStmts σ body b a
        let a := lamGraphsL σ returns (lamGraphsL σ decorators r.2)
        (addOrdinaryNodes r.1 (lamsL decorators ++ lamsL returns), a)
      else
        -- _process_function_def(node, is_lambda=False)
        let b := b.addOrdinaryNode i
        let σ' := Scope.fn i :: σ
        let fb : B := {}
        let fb := fb.enterSection i
        let r := basicExpr σ' args fb a
        let r := visitStmts σ' body r.1 r.2
        let fb := r.1.exitSection i
        (b, r.2.finish i fb)
  | .classDef i _ bases keywords body decorators, b, a =>
      let b := b.addOrdinaryNode i
      let σ' := Scope.cls i :: σ
      let cb : B := {}
      -- _process_basic_statement(node): generic_visit (bases, keywords, body, decorator_list) on the class builder
      let a := lamGraphsL σ' keywords (lamGraphsL σ' bases a)
      let cb := addOrdinaryNodes cb (lamsL bases ++ lamsL keywords)
      let r := visitStmts σ' body cb a
      let a := lamGraphsL σ' decorators r.2
      let cb := (addOrdinaryNodes r.1 (lamsL decorators)).addOrdinaryNode i
      -- the class builder is dropped without `build()`; a crash inside it still aborts everything
      (b, { a with err := a.err.or cb.err })
  | .ret i v, b, a =>
      (processExit σ (addOrdinaryNodes b (lamsL v)) i .fn false, lamGraphsL σ v a)
  | .raise i e c, b, a =>
      let b := processExit σ (addOrdinaryNodes b (lamsL e ++ lamsL c)) i .fn true
      (b.pushError i, lamGraphsL σ c (lamGraphsL σ e a))
  | .break_ i, b, a => (processExit σ b i .loop false, a)
  | .continue_ i, b, a => (processContinue σ b i, a)
  | .if_ i test body orelse, b, a =>
      let b := b.beginStatement i
      let b := b.enterCondSection i
      let r := basicExpr σ test b a
      let b := r.1.newCondBranch i
      let r := visitStmts σ body b r.2
      let b := r.1.newCondBranch i
      let r := visitStmts σ orelse b r.2
      let b := r.1.exitCondSection i
      (b.endStatement i, r.2)
  | .while_ i test body orelse, b, a =>
      let b := b.beginStatement i
      let σ' := Scope.loop i :: σ
      let b := b.enterSection i
      -- generic_visit(node.test)
      let a := lamGraphsKids σ' test a
      let b := addOrdinaryNodes b test.kidLams
      let b := b.enterLoopSection i test.id
      let r := visitStmts σ' body b a
      let b := r.1.exitLoopSection i
      let r := visitStmts σ orelse b r.2
      let b := r.1.exitSection i
      (b.endStatement i, r.2)
  | .for_ i target iter body orelse extra isAsync, b, a =>
      if isAsync then
        -- no visit_AsyncFor: generic_visit (target, iter, body, orelse)
        let a := lamGraphs σ iter (lamGraphs σ target a)
        let b := addOrdinaryNodes b (target.lams ++ iter.lams)
        let r := visitStmts σ body b a
        visitStmts σ orelse r.1 r.2
      else
        let b := b.beginStatement i
        let σ' := Scope.loop i :: σ
        let b := b.enterSection i
        let a := lamGraphsKids σ' iter a
        let b := addOrdinaryNodes b iter.kidLams
        let b := b.enterLoopSection i iter.id
        let r := basicExprs σ' (extra.take 1) b a
        let r := visitStmts σ' body r.1 r.2
        let b := r.1.exitLoopSection i
        let r := visitStmts σ orelse b r.2
        let b := r.1.exitSection i
        (b.endStatement i, r.2)
  | .with_ _ items body isAsync, b, a =>
      if isAsync then
        -- no visit_AsyncWith: generic_visit (items, body)
        let a := lamGraphsL σ items a
        visitStmts σ body (addOrdinaryNodes b (lamsL items)) a
      else
        let r := basicExprs σ items b a
        visitStmts σ body r.1 r.2
  | .try_ i body handlers orelse final, b, a =>
      let b := b.beginStatement i
      let σ' := Scope.try_ i (!final.isEmpty) (handlerIds handlers) :: σ
      let r := visitStmts σ' body b a
      -- the orelse is an optional continuation of the body (a cond section with one real branch)
      let r := optSection (elseRep i orelse)
        (fun k b => (b.enterCondSection k).newCondBranch k) (fun k b => (b.newCondBranch k).exitCondSection k)
        (fun _ => visitStmts σ' orelse) r
      -- the lexical scope of the try ends HERE, before the handlers
      let r := optSection (handlers.head?.map Stmt.id)
        (fun k b => b.enterCondSection k) (fun k b => (b.newCondBranch k).exitCondSection k)
        (fun k => visitHandlers σ k handlers) r
      let r := optSection (if final.isEmpty then none else some i)
        (fun k b => b.enterFinallySection k) (fun k b => b.exitFinallySection k)
        (fun _ => visitStmts σ final) r
      (r.1.endStatement i, r.2)
  | .handler i ty name body, b, a =>
      -- visit_ExceptHandler
      let b := b.beginStatement i
      let b := b.enterExceptSection i
      let a := lamGraphsL σ ty a
      let b := addOrdinaryNodes b (lamsL ty)
      let a := if name.isEmpty then a else a.fail "AttributeError: 'str' object has no attribute '_fields' (except … as name)"
      let r := visitStmts σ body b a
      (r.1.endStatement i, r.2)
  | .other .., b, a => (b, a.fail "unsupported")
  -- _process_basic_statement(node)
  | s, b, a => ((addOrdinaryNodes b s.headLams).addOrdinaryNode s.id, lamGraphsL σ s.exprKids a)

def visitStmts (σ : List Scope) : List Stmt → B → Acc → B × Acc
  | [], b, a => (b, a)
  | s :: ss, b, a =>
    let r := visitStmt σ s b a
    visitStmts σ ss r.1 r.2

/-- `for block in node.handlers: new_cond_branch(rep); self.visit(block)`. -/
def visitHandlers (σ : List Scope) (rep : Nat) : List Stmt → B → Acc → B × Acc
  | [], b, a => (b, a)
  | h :: hs, b, a =>
    let r := visitStmt σ h (b.newCondBranch rep) a
    visitHandlers σ rep hs r.1 r.2
end

/-- The `ast` class whose `visit_<name>` method of `AstToCfg` the model mirrors for this statement (`""` where the real
class has no such method and `NodeVisitor.generic_visit` runs: the async variants, and syntax outside the modelled
language).  The match is exhaustive over the constructors of `Stmt`. -/
def stmtKindName : Stmt → String
  | .functionDef _ _ _ _ _ _ isAsync => if isAsync then "" else "FunctionDef"
  | .classDef .. => "ClassDef"
  | .ret .. => "Return"
  | .delete .. => "Delete"
  | .assign .. => "Assign"
  | .augAssign .. => "AugAssign"
  | .annAssign .. => "AnnAssign"
  | .for_ _ _ _ _ _ _ isAsync => if isAsync then "" else "For"
  | .while_ .. => "While"
  | .if_ .. => "If"
  | .with_ _ _ _ isAsync => if isAsync then "" else "With"
  | .raise .. => "Raise"
  | .try_ .. => "Try"
  | .handler .. => "ExceptHandler"
  | .assert_ .. => "Assert"
  | .import_ .. => "Import"
  | .importFrom .. => "ImportFrom"
  | .global .. => "Global"
  | .nonlocal .. => "Nonlocal"
  | .expr .. => "Expr"
  | .pass .. => "Pass"
  | .break_ .. => "Break"
  | .continue_ .. => "Continue"
  | .other .. => ""

/-- The `visit_*` methods of the real `AstToCfg` that `visitStmt` / `lamGraphs` mirror (compared with the real class on
every run: a visitor that disappears or appears breaks the obligation `C05_visitors_cover_statements`). -/
def modelVisitors : List String :=
  ["FunctionDef", "ClassDef", "Return", "Delete", "Assign", "AugAssign", "AnnAssign", "For", "While", "If", "With", "Raise",
   "Try", "ExceptHandler", "Assert", "Import", "ImportFrom", "Global", "Nonlocal", "Expr", "Pass", "Break", "Continue", "Lambda"]

/-- Result of `cfg.build(fn)`: all graphs keyed by function/lambda id, or the Python exception. -/
structure Result where
  cfgs : List (Nat × Graph)
  err : Option String
  deriving Repr, Inhabited

/-- The root function's builder just before `build()`, and the graphs of everything nested in it. -/
def rootBuilder (fn : Stmt) : B × Acc :=
  match fn with
  | .functionDef i _ args body _ _ false =>
      let σ := [Scope.fn i]
      let fb : B := {}
      let fb := fb.enterSection i
      let r := basicExpr σ args fb {}
      let r := visitStmts σ body r.1 r.2
      (r.1.exitSection i, r.2)
  | _ => ({}, {})

/-- `cfg.build(node)` for a (synchronous) `FunctionDef` root: `self.builder is None` on entry. -/
def build (fn : Stmt) : Result :=
  match fn with
  | .functionDef i _ _ _ _ _ false =>
      let a := (rootBuilder fn).2.finish i (rootBuilder fn).1
      { cfgs := a.cfgs, err := a.err }
  | _ => { cfgs := [], err := some "root is not a FunctionDef" }

/-- The root function's own graph (`cfg.build(fn)[fn]`; it is the entry finished last). -/
def rootGraph (fn : Stmt) : Option Graph :=
  match (build fn).err with
  | some _ => none
  | none => some (rootBuilder fn).1.build

end Malt.Cfg
