/-!
# `Cfg.Builder` — functional mirror of `malt/pyct/cfg.py :: GraphBuilder`

One Lean function per Python method, same name (camelCase), same order of effects.

Representation choices (all observable behaviour is kept):
* CFG nodes are identified by the serial id of their AST node (`NodeId`); sections/statements by the id of
  the AST node that keys the Python dict.
* Python `set` objects of CFG nodes that can be **aliased** (`self.leaves`, `cond_entry[·]`, `cond_leaves[·][k]`,
  `finally_section_subgraphs[·][1]`) live in an explicit heap `heap : List (List NodeId)` and are referred to
  by index (`Ref`).  Rebinding (`self.leaves = set(...)`) allocates; in-place mutation (`self.leaves |= …`,
  `self.leaves.update(…)`) rewrites the heap cell, so every alias sees it — exactly as in Python.
  Sets that are never aliased (`exits[·]`, `continues[·]`, `raises[·]`, `errors`, `active_stmts`) are plain lists.
* `Node.next`/`Node.prev` are not stored: `forward_edges` (`edges`) *is* the successor relation
  (`_connect_nodes` is the only writer of all three), predecessor = its converse.
* A Python exception (assert, KeyError, ValueError) sets `err` (first one wins) and the builder carries on with
  harmless defaults; callers look at `err` at the end.  No theorem is about states with `err ≠ none`.
* `roots` is a ghost field (not in Python): nodes created while the leaf set was empty (the entry and the starts of
  dead code).  The harness observes the same fact on the real builder.
-/
namespace Malt.Cfg

abbrev NodeId := Nat
abbrev Ref := Nat

/-! ### small list-as-set / association-list helpers -/

/-- Union keeping the left operand's order and no new duplicates. -/
def sunion (a b : List Nat) : List Nat := a ++ b.filter (fun x => !a.contains x)

def aget {β} (k : Nat) (m : List (Nat × β)) : Option β := m.lookup k
def adel {β} (k : Nat) (m : List (Nat × β)) : List (Nat × β) := m.filter (fun p => p.1 != k)
def aset {β} (k : Nat) (v : β) (m : List (Nat × β)) : List (Nat × β) := (k, v) :: adel k m
def ahas {β} (k : Nat) (m : List (Nat × β)) : Bool := (m.lookup k).isSome

structure B where
  head : Option NodeId := none
  errors : List NodeId := []
  nodes : List NodeId := []                       -- node_index, in creation order
  heap : List (List NodeId) := [[]]               -- set objects
  leaves : Ref := 0
  activeStmts : List Nat := []
  owners : List (NodeId × List Nat) := []
  edges : List (NodeId × NodeId) := []            -- forward_edges
  finallySections : List (NodeId × List Nat) := []            -- jump node -> guards
  finallySub : List (Nat × (Option NodeId × Option Ref)) := [] -- finally_section_subgraphs
  finallyDirect : List (Nat × Bool) := []                      -- finally_section_has_direct_flow
  pendingFinally : List Nat := []
  exits : List (Nat × List NodeId) := []
  sectionEntry : List (Nat × NodeId) := []
  continues : List (Nat × List NodeId) := []
  raises : List (Nat × List NodeId) := []
  condEntry : List (Nat × Ref) := []
  condLeaves : List (Nat × List Ref) := []
  roots : List NodeId := []                       -- ghost
  err : Option String := none
  deriving Repr, Inhabited

namespace B

def fail (b : B) (msg : String) : B := { b with err := b.err.or (some msg) }

/-- A Python `assert`/implicit check: fail when `c` holds. -/
def check (b : B) (c : Bool) (msg : String) : B := if c then b.fail msg else b

/-! primitive field updates (every method below is a composition of these) -/
def putExits (b : B) (k : Nat) (l : List NodeId) : B := { b with exits := aset k l b.exits }
def delExits (b : B) (k : Nat) : B := { b with exits := adel k b.exits }
def putContinues (b : B) (k : Nat) (l : List NodeId) : B := { b with continues := aset k l b.continues }
def putSectionEntry (b : B) (k : Nat) (e : NodeId) : B := { b with sectionEntry := aset k e b.sectionEntry }
def delLoopKeys (b : B) (k : Nat) : B :=
  { b with continues := adel k b.continues, sectionEntry := adel k b.sectionEntry }
def putCondLeaves (b : B) (k : Nat) (l : List Ref) : B := { b with condLeaves := aset k l b.condLeaves }
def putCondEntry (b : B) (k : Nat) (r : Ref) : B := { b with condEntry := aset k r b.condEntry }
def delCondKeys (b : B) (k : Nat) : B :=
  { b with condEntry := adel k b.condEntry, condLeaves := adel k b.condLeaves }
def putFinallySections (b : B) (n : NodeId) (gs : List Nat) : B := { b with finallySections := aset n gs b.finallySections }
def delFinallySections (b : B) (n : NodeId) : B := { b with finallySections := adel n b.finallySections }
def setRaises (b : B) (rs : List (Nat × List NodeId)) : B := { b with raises := rs }
def setActive (b : B) (l : List Nat) : B := { b with activeStmts := l }
def pushError (b : B) (n : NodeId) : B := { b with errors := b.errors ++ [n] }
/-- `self.leaves = <existing set object>` -/
def setLeavesRef (b : B) (r : Ref) : B := { b with leaves := r }

/-- Contents of a set object. -/
def deref (b : B) (r : Ref) : List NodeId := b.heap.getD r []

/-- Contents of `self.leaves`. -/
def leafSet (b : B) : List NodeId := b.deref b.leaves

/-- `self.leaves = set(s)` : rebind to a fresh object. -/
def setLeavesFresh (b : B) (s : List NodeId) : B :=
  { b with leaves := b.heap.length, heap := b.heap ++ [s] }

/-- `self.leaves |= s` / `self.leaves.update(s)` : in place. -/
def leavesUnion (b : B) (s : List NodeId) : B :=
  { b with heap := b.heap.set b.leaves (sunion b.leafSet s) }

/-- `_connect_nodes(first, second)` for a set `first`. -/
def connect (b : B) (first : List NodeId) (second : NodeId) : B :=
  { b with edges := b.edges ++ first.map (fun x => (x, second)) }

/-- The bookkeeping of `_add_new_node` (index, owners, head, ghost roots, pending finally sections), without the edges. -/
def pushNode (b : B) (n : NodeId) : B :=
  { b with
    nodes := b.nodes ++ [n]
    owners := b.owners ++ [(n, b.activeStmts)]
    head := b.head.or (some n)
    roots := if b.leafSet.isEmpty then b.roots ++ [n] else b.roots
    finallySub := b.finallySub.map (fun p => if b.pendingFinally.contains p.1 then (p.1, (some n, p.2.2)) else p)
    pendingFinally := [] }

/-- `_add_new_node`. -/
def addNewNode (b : B) (n : NodeId) : B :=
  let b := b.check (b.nodes.contains n) "ValueError: added twice"
  (b.pushNode n).connect b.leafSet n

def beginStatement (b : B) (stmt : Nat) : B := b.setActive (b.activeStmts ++ [stmt])

def endStatement (b : B) (stmt : Nat) : B :=
  (b.check (!b.activeStmts.contains stmt) "KeyError: end_statement").setActive (b.activeStmts.filter (· != stmt))

def addOrdinaryNode (b : B) (n : NodeId) : B := (b.addNewNode n).setLeavesFresh [n]

/-- `_add_jump_node`. -/
def addJumpNode (b : B) (n : NodeId) (guards : List Nat) : B :=
  ((b.addNewNode n).setLeavesFresh []).putFinallySections n guards

/-- One step of the guard loop of `_connect_jump_to_finally_sections`. -/
def guardStep (acc : B × List NodeId) (g : Nat) : B × List NodeId :=
  match aget g acc.1.finallySub with
  | some (some beg, some ends) => (acc.1.connect acc.2 beg, acc.1.deref ends)
  | _ => (acc.1.fail "finally guard not complete", acc.2)

/-- `_connect_jump_to_finally_sections`: returns the builder and the *contents* of the returned cursor set
(the callers only read it, immediately). -/
def connectJump (b : B) (n : NodeId) : B × List NodeId :=
  match aget n b.finallySections with
  | none => (b, [n])
  | some guards =>
      ((guards.foldl guardStep (b, [n])).1.delFinallySections n, (guards.foldl guardStep (b, [n])).2)

def addExitNode (b : B) (n : NodeId) (section_ : Nat) (guards : List Nat) : B :=
  match aget section_ b.exits with
  | some ex => (b.addJumpNode n guards).putExits section_ (ex ++ [n])
  | none => (b.addJumpNode n guards).fail "KeyError: exits"

def addContinueNode (b : B) (n : NodeId) (section_ : Nat) (guards : List Nat) : B :=
  match aget section_ b.continues with
  | some cs => (b.addJumpNode n guards).putContinues section_ (cs ++ [n])
  | none => (b.addJumpNode n guards).fail "KeyError: continues"

def raiseStep (node : NodeId) (rs : List (Nat × List NodeId)) (g : Nat) : List (Nat × List NodeId) :=
  match aget g rs with
  | some l => aset g (l ++ [node]) rs
  | none => aset g [node] rs

def connectRaiseNode (b : B) (node : NodeId) (exceptGuards : List Nat) : B :=
  b.setRaises (exceptGuards.foldl (raiseStep node) b.raises)

def enterSection (b : B) (id : Nat) : B :=
  (b.check (ahas id b.exits) "assert: section entered twice").putExits id []

def exitStep (b : B) (e : NodeId) : B :=
  (b.connectJump e).1.leavesUnion (b.connectJump e).2

def exitSection (b : B) (id : Nat) : B :=
  match aget id b.exits with
  | none => b.fail "KeyError: exit_section"
  | some ex => (ex.foldl exitStep b).delExits id

def enterLoopSection (b : B) (id : Nat) (entry : NodeId) : B :=
  (((b.check (ahas id b.sectionEntry || ahas id b.continues) "assert: loop section entered twice").putContinues id []).addOrdinaryNode
    entry).putSectionEntry id entry

def reentryStep (entry : NodeId) (b : B) (c : NodeId) : B :=
  (b.connectJump c).1.connect (b.connectJump c).2 entry

def exitLoopSection (b : B) (id : Nat) : B :=
  match aget id b.sectionEntry, aget id b.continues with
  | some entry, some cs =>
      ((cs.foldl (reentryStep entry) (b.connect b.leafSet entry)).setLeavesFresh [entry]).delLoopKeys id
  | _, _ => b.fail "KeyError: exit_loop_section"

def enterCondSection (b : B) (id : Nat) : B :=
  (b.check (ahas id b.condEntry || ahas id b.condLeaves) "assert: cond section entered twice").putCondLeaves id []

def newCondBranch (b : B) (id : Nat) : B :=
  match aget id b.condLeaves with
  | none => b.fail "assert: new_cond_branch outside cond section"
  | some splits =>
      match aget id b.condEntry with
      | some entry => (b.putCondLeaves id (splits ++ [b.leaves])).setLeavesRef entry
      | none => b.putCondEntry id b.leaves

def unionStep (b : B) (r : Ref) : B := b.leavesUnion (b.deref r)

def exitCondSection (b : B) (id : Nat) : B :=
  match aget id b.condLeaves with
  | none => b.fail "KeyError: exit_cond_section"
  | some splits =>
      ((splits.foldl unionStep b).check (!ahas id b.condEntry) "KeyError: cond_entry").delCondKeys id

def enterExceptSection (b : B) (id : Nat) : B :=
  match aget id b.raises with
  | some rs => b.leavesUnion rs
  | none => b

def enterFinallySection (b : B) (id : Nat) : B :=
  { b with
    finallySub := aset id (none, none) b.finallySub
    finallyDirect := aset id (!b.leafSet.isEmpty) b.finallyDirect
    pendingFinally := if b.pendingFinally.contains id then b.pendingFinally else b.pendingFinally ++ [id] }

def closeFinally (b : B) (id : Nat) (beg : Option NodeId) : B :=
  { b with finallySub := aset id (beg, some b.leaves) b.finallySub, finallyDirect := adel id b.finallyDirect }

def exitFinallySection (b : B) (id : Nat) : B :=
  match aget id b.finallySub, aget id b.finallyDirect with
  | some (beg, _), some direct =>
      let b1 := (b.check (b.pendingFinally.contains id) "assert: Empty finally?").closeFinally id beg
      if direct then b1 else b1.setLeavesFresh []
  | _, _ => b.fail "KeyError: exit_finally_section"

end B

/-! ### The finished graph (`GraphBuilder.build`) -/

structure Graph where
  nodes : List NodeId
  entry : Option NodeId
  exits : List NodeId
  errors : List NodeId
  edges : List (NodeId × NodeId)
  stmtPrev : List (Nat × List NodeId)
  stmtNext : List (Nat × List NodeId)
  owners : List (NodeId × List Nat)
  roots : List NodeId
  deriving Repr, Inhabited, DecidableEq

def ownersOf (ow : List (NodeId × List Nat)) (n : NodeId) : List Nat := (ow.lookup n).getD []

/-- All statements that own some node, in first-seen order (the keys of `stmt_prev`/`stmt_next`). -/
def stmtKeys (ow : List (NodeId × List Nat)) : List Nat :=
  ow.foldl (fun acc p => p.2.foldl (fun acc s => if acc.contains s then acc else acc ++ [s]) acc) []

/-- `stmt_next[s]` : targets of edges whose source is owned by `s` and whose target is not. -/
def stmtNextOf (ow : List (NodeId × List Nat)) (edges : List (NodeId × NodeId)) (s : Nat) : List NodeId :=
  (edges.filter (fun e => (ownersOf ow e.1).contains s && !(ownersOf ow e.2).contains s)).map (·.2)

/-- `stmt_prev[s]` : sources of edges whose target is owned by `s` and whose source is not. -/
def stmtPrevOf (ow : List (NodeId × List Nat)) (edges : List (NodeId × NodeId)) (s : Nat) : List NodeId :=
  (edges.filter (fun e => (ownersOf ow e.2).contains s && !(ownersOf ow e.1).contains s)).map (·.1)

def B.build (b : B) : Graph :=
  let keys := stmtKeys b.owners
  { nodes := b.nodes
    entry := b.head
    exits := b.leafSet
    errors := b.errors
    edges := b.edges
    stmtPrev := keys.map (fun s => (s, stmtPrevOf b.owners b.edges s))
    stmtNext := keys.map (fun s => (s, stmtNextOf b.owners b.edges s))
    owners := b.owners
    roots := b.roots }

end Malt.Cfg
