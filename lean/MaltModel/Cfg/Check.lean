import MaltModel.Py.Trace
import MaltModel.Cfg.Builder
/-!
# `Cfg.Check` — executable checkers for C05 (run on the REAL graphs and on the model's)

* `flowFn fn` — a structural summary of *all* walks of `fn` at once: `req` = every pair of nodes that some walk
  may execute consecutively, and for each way of leaving a piece of code the set of nodes that can be executed last.
  It does not mention any graph.
* `pathCheck fn g` — `g` starts where the walks start, contains every required pair as an edge, and every node a
  completed walk can end in is an exit or error node.  (`Proofs/C05Check.lean`: then every walk is a path of `g`.)
* `wellFormed g` — decidable well-formedness (`Proofs/C05Check.lean`: implies `WellFormed g`).
* `noJumpInHandlerOfTryWithFinally` — the hypothesis under which the pinned code satisfies C05 (its negation is the
  class of the known finding).
-/
namespace Malt.Cfg
open Malt.Py

/-! ### Flow summaries -/

structure Flow where
  req : List (Nat × Nat) := []
  normal : List Nat := []
  brk : List Nat := []
  cont : List Nat := []
  ret : List Nat := []
  raise : List Nat := []
  exempt : List Nat := []
  deriving Repr, Inhabited

/-- Edges from every current node to `n`. -/
def cross (cur : List Nat) (n : Nat) : List (Nat × Nat) := cur.map (fun c => (c, n))

/-- Execute the nodes `ns` one after the other starting from `cur`: required pairs and the new current set. -/
def emit (cur : List Nat) : List Nat → List (Nat × Nat) × List Nat
  | [] => ([], cur)
  | n :: ns =>
    let r := emit [n] ns
    (cross cur n ++ r.1, r.2)

/-- Sequential composition: `b` was computed from `a.normal`. -/
def Flow.seq (a b : Flow) : Flow :=
  { req := a.req ++ b.req, normal := b.normal, brk := a.brk ++ b.brk, cont := a.cont ++ b.cont,
    ret := a.ret ++ b.ret, raise := a.raise ++ b.raise, exempt := a.exempt ++ b.exempt }

/-- Alternative composition. -/
def Flow.alt (a b : Flow) : Flow :=
  { req := a.req ++ b.req, normal := a.normal ++ b.normal, brk := a.brk ++ b.brk, cont := a.cont ++ b.cont,
    ret := a.ret ++ b.ret, raise := a.raise ++ b.raise, exempt := a.exempt ++ b.exempt }

/-- The `finally` body `F` (computed from the nodes in which the protected part ended with the pending outcome
selected by `put`) resumes that outcome when it completes normally and overrides it otherwise. -/
def Flow.resumeInto (F : Flow) (put : List Nat → Flow) : Flow :=
  Flow.alt (put F.normal) { F with normal := [] }

mutual
def flowStmt : Stmt → List Nat → Flow
  | .if_ _ test body orelse, cur =>
      let e := emit cur (test.kidLams ++ [test.id])
      Flow.seq { req := e.1 } (Flow.alt (flowBlock body e.2) (flowBlock orelse e.2))
  | .while_ _ test body orelse, cur =>
      let e := emit cur test.kidLams
      let ep := emit [test.id] []
      let Rb := flowBlock body ep.2
      let Ro := flowBlock orelse [test.id]
      Flow.seq { req := e.1 ++ cross e.2 test.id }
        { req := ep.1 ++ (Rb.req ++ (cross Rb.normal test.id ++ (cross Rb.cont test.id ++ Ro.req))),
          normal := Ro.normal ++ Rb.brk, brk := Ro.brk, cont := Ro.cont, ret := Rb.ret ++ Ro.ret,
          raise := Rb.raise ++ Ro.raise, exempt := Rb.exempt ++ Ro.exempt }
  | .for_ _ _ iter body orelse extra false, cur =>
      let e := emit cur iter.kidLams
      let ep := emit [iter.id] (match extra with
        | [] => []
        | x :: _ => x.kidLams ++ [x.id])
      let Rb := flowBlock body ep.2
      let Ro := flowBlock orelse [iter.id]
      Flow.seq { req := e.1 ++ cross e.2 iter.id }
        { req := ep.1 ++ (Rb.req ++ (cross Rb.normal iter.id ++ (cross Rb.cont iter.id ++ Ro.req))),
          normal := Ro.normal ++ Rb.brk, brk := Ro.brk, cont := Ro.cont, ret := Rb.ret ++ Ro.ret,
          raise := Rb.raise ++ Ro.raise, exempt := Rb.exempt ++ Ro.exempt }
  | .with_ _ items body false, cur =>
      let e := emit cur (withItemNodes items)
      Flow.seq { req := e.1 } (flowBlock body e.2)
  | .try_ _ body handlers orelse final, cur =>
      let R1 := flowBlock body cur
      let R2 := flowBlock orelse R1.normal
      let H := flowHandlers handlers R1.raise
      -- before the finally block
      let P : Flow :=
        { req := R1.req ++ (R2.req ++ H.req)
          normal := R2.normal ++ H.normal
          brk := R1.brk ++ (R2.brk ++ H.brk)
          cont := R1.cont ++ (R2.cont ++ H.cont)
          ret := R1.ret ++ (R2.ret ++ H.ret)
          raise := R1.raise ++ (R2.raise ++ H.raise)
          exempt := R1.exempt ++ (R2.exempt ++ H.exempt) }
      if final.isEmpty then P
      else
        let Fn := (flowBlock final P.normal).resumeInto (fun l => { normal := l })
        let Fb := (flowBlock final P.brk).resumeInto (fun l => { brk := l })
        let Fc := (flowBlock final P.cont).resumeInto (fun l => { cont := l })
        let Fr := (flowBlock final P.ret).resumeInto (fun l => { ret := l })
        Flow.alt { req := P.req, exempt := P.raise ++ P.exempt } (Flow.alt Fn (Flow.alt Fb (Flow.alt Fc Fr)))
  | .ret i v, cur => let e := emit cur (lamsL v ++ [i]); { req := e.1, ret := e.2 }
  | .raise i x c, cur => let e := emit cur (lamsL x ++ (lamsL c ++ [i])); { req := e.1, raise := e.2 }
  | .break_ i, cur => let e := emit cur [i]; { req := e.1, brk := e.2 }
  | .continue_ i, cur => let e := emit cur [i]; { req := e.1, cont := e.2 }
  | .functionDef i _ _ _ _ _ false, cur => let e := emit cur [i]; { req := e.1, normal := e.2 }
  | .classDef i _ _ _ _ _, cur => let e := emit cur [i]; { req := e.1, normal := e.2 }
  | .functionDef _ _ _ _ _ _ true, cur => { normal := cur }
  | .for_ _ _ _ _ _ _ true, cur => { normal := cur }
  | .with_ _ _ _ true, cur => { normal := cur }
  | .handler .., cur => { normal := cur }
  | .other .., cur => { normal := cur }
  | s, cur => let e := emit cur (s.headLams ++ [s.id]); { req := e.1, normal := e.2 }

/-- Nothing is required of code that cannot be reached (`cur = []`). -/
def flowBlock : List Stmt → List Nat → Flow
  | [], cur => { normal := cur }
  | s :: ss, cur =>
    if cur.isEmpty then {}
    else
      let R1 := flowStmt s cur
      Flow.seq R1 (flowBlock ss R1.normal)

/-- All handlers, each entered from the raise nodes `rs` coming out of the try body. -/
def flowHandlers : List Stmt → List Nat → Flow
  | [], _ => {}
  | .handler _ ty _ hbody :: hs, rs =>
    let e := emit rs (lamsL ty)
    Flow.alt (if rs.isEmpty then {} else Flow.seq { req := e.1 } (flowBlock hbody e.2)) (flowHandlers hs rs)
  | _ :: hs, rs => flowHandlers hs rs
end

/-- The nodes every walk of `fn` starts with. -/
def entryNodes : Stmt → List Nat
  | .functionDef _ _ args _ _ _ _ => args.kidLams ++ [args.id]
  | _ => []

def flowFn : Stmt → Flow
  | .functionDef _ _ args body _ _ _ =>
      let e := emit [] (args.kidLams ++ [args.id])
      Flow.seq { req := e.1 } (flowBlock body e.2)
  | _ => {}

/-- Nodes in which a completed walk can end. -/
def Flow.finals (R : Flow) : List Nat := R.normal ++ (R.ret ++ (R.raise ++ R.exempt))

def pathCheck (fn : Stmt) (g : Graph) : Bool :=
  let R := flowFn fn
  (g.entry == (entryNodes fn).head?) &&
  R.req.all (fun e => g.edges.contains e) &&
  R.finals.all (fun n => g.exits.contains n || g.errors.contains n)

/-! ### Well-formedness -/

/-- One round of successor expansion. -/
def expand (edges : List (Nat × Nat)) (seen : List Nat) : List Nat :=
  edges.foldl (fun acc e => if acc.contains e.1 && !acc.contains e.2 then acc ++ [e.2] else acc) seen

def closure (edges : List (Nat × Nat)) : Nat → List Nat → List Nat
  | 0, seen => seen
  | k+1, seen => closure edges k (expand edges seen)

def nodupB : List Nat → Bool
  | [] => true
  | x :: xs => !xs.contains x && nodupB xs

def wellFormed (g : Graph) : Bool :=
  nodupB g.nodes &&
  (match g.entry with
   | some e => g.nodes.contains e && g.roots.contains e && g.edges.all (fun p => p.2 != e)
   | none => false) &&
  g.edges.all (fun p => g.nodes.contains p.1 && g.nodes.contains p.2) &&
  g.exits.all (fun x => g.nodes.contains x) &&
  g.errors.all (fun x => g.nodes.contains x) &&
  g.roots.all (fun x => g.nodes.contains x) &&
  (let reach := closure g.edges (g.nodes.length + 1) g.roots
   g.nodes.all (fun n => reach.contains n))

/-! ### The hypothesis of `C05_paths_partial` -/
mutual
/-- A `return`, or a `break`/`continue` whose loop is not inside this piece of code (`inLoop = false`), occurs here
(nested function/class bodies excluded). -/
def stmtEscapes (inLoop : Bool) : Stmt → Bool
  | .ret .. => true
  | .break_ _ => !inLoop
  | .continue_ _ => !inLoop
  | .if_ _ _ body orelse => escapesL inLoop body || escapesL inLoop orelse
  | .while_ _ _ body orelse => escapesL true body || escapesL inLoop orelse
  | .for_ _ _ _ body orelse _ _ => escapesL true body || escapesL inLoop orelse
  | .with_ _ _ body _ => escapesL inLoop body
  | .try_ _ body handlers orelse final =>
      escapesL inLoop body || escapesL inLoop handlers || escapesL inLoop orelse || escapesL inLoop final
  | .handler _ _ _ body => escapesL inLoop body
  | .other _ _ _ blocks => escapesL inLoop blocks
  | _ => false
def escapesL (inLoop : Bool) : List Stmt → Bool
  | [] => false
  | s :: ss => stmtEscapes inLoop s || escapesL inLoop ss
end

mutual
/-- No handler of a `try` that has a `finally` block contains a jump that leaves the handler
(`visit_Try` leaves the try's lexical scope before visiting the handlers, so such a jump is not routed through the
`finally` block in the graph, while the interpreter does run it). -/
def stmtNoJump : Stmt → Bool
  | .functionDef .. => true     -- own graph: judged as a root
  | .classDef .. => true
  | .if_ _ _ body orelse => noJumpL body && noJumpL orelse
  | .while_ _ _ body orelse => noJumpL body && noJumpL orelse
  | .for_ _ _ _ body orelse _ _ => noJumpL body && noJumpL orelse
  | .with_ _ _ body _ => noJumpL body
  | .try_ _ body handlers orelse final =>
      noJumpL body && noJumpL handlers && noJumpL orelse && noJumpL final &&
      (final.isEmpty || !escapesL false handlers)
  | .handler _ _ _ body => noJumpL body
  | .other _ _ _ blocks => noJumpL blocks
  | _ => true
def noJumpL : List Stmt → Bool
  | [] => true
  | s :: ss => stmtNoJump s && noJumpL ss
end

/-- The class predicate for a root function. -/
def fnNoJumpInHandlerOfTryWithFinally : Stmt → Bool
  | .functionDef _ _ _ body _ _ _ => noJumpL body
  | _ => true


/-! ### The `finally`-free fragment (the scope of `C05_paths_partial` before the induction step through `finally` was proved;
kept for the statistics: the driver evaluates it for every program) and the key tags -/

/-- Tags separating the two families of dictionary keys: section keys (`exits`, `continues`, `section_entry`) and
conditional-section keys (`cond_entry`, `cond_leaves`).  The same AST node may key both families (a `while` that is the
first statement of a try's `else` block); a clash inside one family is what makes the real code fail an `assert`. -/
def sk (i : Nat) : Nat := 3 * i
def ck (i : Nat) : Nat := 3 * i + 1
/-- tag of CFG node ids (keys of `finally_sections`, members of `node_index`) -/
def nk (i : Nat) : Nat := 3 * i + 2


/-- The conditional-section key of an optional part of `visit_Try` (its first statement), if present. -/
def repKey (ss : List Stmt) : List Nat := (ss.head?.map (fun s => ck s.id)).toList

/-- The conditional-section key of the `else` block of try `i` (the `Try` node itself), if the block is present. -/
def elseKey (i : Nat) (orelse : List Stmt) : List Nat := if orelse.isEmpty then [] else [ck i]

mutual
/-- The (tagged) dictionary keys the visit of `s` creates or deletes in the current builder (nested function/class
bodies excluded: they have their own builders). -/
def stmtKeys' : Stmt → List Nat
  | .if_ i _ body orelse => ck i :: (keysL body ++ keysL orelse)
  | .while_ i _ body orelse => sk i :: (keysL body ++ keysL orelse)
  | .for_ i _ _ body orelse _ isAsync => if isAsync then keysL body ++ keysL orelse else sk i :: (keysL body ++ keysL orelse)
  | .with_ _ _ body _ => keysL body
  | .try_ i body handlers orelse final =>
      elseKey i orelse ++ (repKey handlers ++ (keysL body ++ (keysL handlers ++ (keysL orelse ++ keysL final))))
  | .handler i _ _ body => sk i :: keysL body
  | .functionDef _ _ _ body _ _ isAsync => if isAsync then keysL body else []
  | _ => []
def keysL : List Stmt → List Nat
  | [] => []
  | s :: ss => stmtKeys' s ++ keysL ss
end


mutual
/-- Statements of the modelled language that contain no `finally` block (nested function/class bodies are not inspected:
they have their own graphs).  `inLoop`: a `break`/`continue` here has a target loop in this function. -/
def frag2 (inLoop : Bool) : Stmt → Bool
  | .try_ _ body handlers orelse final =>
      final.isEmpty && frag2L inLoop body && frag2H inLoop handlers && frag2L inLoop orelse
  | .handler .. => false
  | .other .. => false
  | .if_ _ _ body orelse => frag2L inLoop body && frag2L inLoop orelse
  | .while_ _ _ body orelse => frag2L true body && frag2L inLoop orelse
  | .for_ _ _ _ body orelse extra isAsync => !isAsync && extra.isEmpty && frag2L true body && frag2L inLoop orelse
  | .with_ _ _ body isAsync => !isAsync && frag2L inLoop body
  | .functionDef _ _ _ _ _ _ isAsync => !isAsync
  | .break_ _ => inLoop
  | .continue_ _ => inLoop
  | _ => true
def frag2L (inLoop : Bool) : List Stmt → Bool
  | [] => true
  | s :: ss => frag2 inLoop s && frag2L inLoop ss
/-- handlers: `except T:` without a name (`except T as e` makes the real builder crash) -/
def frag2H (inLoop : Bool) : List Stmt → Bool
  | [] => true
  | .handler _ _ name body :: hs => name.isEmpty && frag2L inLoop body && frag2H inLoop hs
  | _ :: _ => false
end


/-- The root function is in the `finally`-free fragment. -/
def fnFrag2 : Stmt → Bool
  | .functionDef _ _ _ body _ _ isAsync => !isAsync && frag2L false body
  | _ => false

/-- The section keys of the function are pairwise distinct (they are statement ids assigned by the serialiser). -/
def fnDistinctKeys : Stmt → Bool
  | .functionDef i _ _ body _ _ _ => nodupB (sk i :: keysL body)
  | _ => false



/-! ### Lexical containment (the specification of `GraphBuilder.owners`, see `Proofs/C05Owners.lean`) -/

def tagAll (ns : List Nat) (act : List Nat) : List (NodeId × List Nat) := ns.map (fun n => (n, act))

mutual
def ownSpec (act : List Nat) : Stmt → List (NodeId × List Nat)
  | .functionDef i _ _ _ _ _ _ => [(i, act)]
  | .classDef i .. => [(i, act)]
  | .ret i v => tagAll (lamsL v ++ [i]) act
  | .raise i e c => tagAll ((lamsL e ++ lamsL c) ++ [i]) act
  | .break_ i => [(i, act)]
  | .continue_ i => [(i, act)]
  | .if_ i test body orelse =>
      tagAll (test.kidLams ++ [test.id]) (act ++ [i]) ++ (ownSpecL (act ++ [i]) body ++ ownSpecL (act ++ [i]) orelse)
  | .while_ i test body orelse =>
      tagAll (test.kidLams ++ [test.id]) (act ++ [i]) ++ (ownSpecL (act ++ [i]) body ++ ownSpecL (act ++ [i]) orelse)
  | .for_ i _ iter body orelse extra _ =>
      tagAll (iter.kidLams ++ [iter.id]) (act ++ [i]) ++
        (tagAll (withItemNodes (extra.take 1)) (act ++ [i]) ++ (ownSpecL (act ++ [i]) body ++ ownSpecL (act ++ [i]) orelse))
  | .with_ _ items body _ => tagAll (withItemNodes items) act ++ ownSpecL act body
  | .try_ i body handlers orelse final =>
      ownSpecL (act ++ [i]) body ++ (ownSpecL (act ++ [i]) orelse ++ (ownSpecL (act ++ [i]) handlers ++ ownSpecL (act ++ [i]) final))
  | .handler i ty _ body => tagAll (lamsL ty) (act ++ [i]) ++ ownSpecL (act ++ [i]) body
  | .other .. => []
  | s => tagAll (s.headLams ++ [s.id]) act
def ownSpecL (act : List Nat) : List Stmt → List (NodeId × List Nat)
  | [] => []
  | s :: ss => ownSpec act s ++ ownSpecL act ss
end

mutual
/-- ids of the statements that call `begin_statement` -/
def ownerIds : Stmt → List Nat
  | .if_ i _ body orelse => i :: (ownerIdsL body ++ ownerIdsL orelse)
  | .while_ i _ body orelse => i :: (ownerIdsL body ++ ownerIdsL orelse)
  | .for_ i _ _ body orelse _ _ => i :: (ownerIdsL body ++ ownerIdsL orelse)
  | .with_ _ _ body _ => ownerIdsL body
  | .try_ i body handlers orelse final => i :: (ownerIdsL body ++ (ownerIdsL orelse ++ (ownerIdsL handlers ++ ownerIdsL final)))
  | .handler i _ _ body => i :: ownerIdsL body
  | _ => []
def ownerIdsL : List Stmt → List Nat
  | [] => []
  | s :: ss => ownerIds s ++ ownerIdsL ss
end


/-- The ids of the if/while/for/try/except statements of the function are pairwise distinct (serialiser ids are). -/
def fnDistinctOwnerIds : Stmt → Bool
  | .functionDef _ _ _ body _ _ _ => nodupB (ownerIdsL body)
  | _ => false

/-- Lexical containment for the whole function: the entry nodes are contained in no statement. -/
def fnOwnSpec : Stmt → List (NodeId × List Nat)
  | .functionDef _ _ args body _ _ _ => tagAll (args.kidLams ++ [args.id]) [] ++ ownSpecL [] body
  | _ => []



/-! ### The hypotheses of `C05_paths_partial` / `C05_paths`: the modelled language with `finally` -/

def tnodes (l : List Nat) : List Nat := l.map nk

mutual
/-- Everything (tagged) the visit of `s` may create in the current builder: dictionary keys and CFG node ids. -/
def keys3 : Stmt → List Nat
  | .if_ i test body orelse => ck i :: (tnodes (test.kidLams ++ [test.id]) ++ (keysL3 body ++ keysL3 orelse))
  | .while_ i test body orelse => sk i :: (tnodes (test.kidLams ++ [test.id]) ++ (keysL3 body ++ keysL3 orelse))
  | .for_ i _ iter body orelse _ _ => sk i :: (tnodes (iter.kidLams ++ [iter.id]) ++ (keysL3 body ++ keysL3 orelse))
  | .with_ _ items body _ => tnodes (withItemNodes items) ++ keysL3 body
  | .try_ i body handlers orelse final =>
      sk i :: (elseKey i orelse ++ (repKey handlers ++ (keysL3 body ++ (keysL3 handlers ++ (keysL3 orelse ++ keysL3 final)))))
  | .handler i ty _ body => sk i :: (tnodes (lamsL ty) ++ keysL3 body)
  | .functionDef i _ _ body _ _ isAsync => if isAsync then keysL3 body else [nk i]
  | .classDef i .. => [nk i]
  | .ret i v => tnodes (lamsL v ++ [i])
  | .raise i e c => tnodes ((lamsL e ++ lamsL c) ++ [i])
  | .break_ i => [nk i]
  | .continue_ i => [nk i]
  | .other .. => []
  | s => tnodes (s.headLams ++ [s.id])
def keysL3 : List Stmt → List Nat
  | [] => []
  | s :: ss => keys3 s ++ keysL3 ss
end

mutual
/-- the first thing the visit of the statement does is create a CFG node -/
def stmtEmits : Stmt → Bool
  | .try_ _ body _ _ _ => blockEmits body
  | .with_ _ items body isAsync => !isAsync && (!items.isEmpty || blockEmits body)
  | .handler .. => false
  | .other .. => false
  | .functionDef _ _ _ _ _ _ isAsync => !isAsync
  | .for_ _ _ _ _ _ _ isAsync => !isAsync
  | _ => true
def blockEmits : List Stmt → Bool
  | [] => false
  | s :: _ => stmtEmits s
end

mutual
/-- The modelled language with `finally`: as `frag2`, and a `try` may have a `finally` block provided the block starts
with a node-creating statement and no handler of that try contains a jump that leaves the handler (the class of the known
finding: `visit_Try` visits the handlers outside the try's lexical scope).  Try bodies start with a node-creating statement
and `with` statements have at least one item (both always true of parsed Python; the Lean syntax tree type allows empty
ones). -/
def frag3 (inLoop : Bool) : Stmt → Bool
  | .try_ _ body handlers orelse final =>
      frag3L inLoop body && frag3H inLoop handlers && frag3L inLoop orelse && frag3L inLoop final &&
      (final.isEmpty || (blockEmits final && !escapesL false handlers)) && blockEmits body
  | .handler .. => false
  | .other .. => false
  | .if_ _ _ body orelse => frag3L inLoop body && frag3L inLoop orelse
  | .while_ _ _ body orelse => frag3L true body && frag3L inLoop orelse
  | .for_ _ _ _ body orelse extra isAsync => !isAsync && extra.isEmpty && frag3L true body && frag3L inLoop orelse
  | .with_ _ items body isAsync => !isAsync && frag3L inLoop body && !items.isEmpty
  | .functionDef _ _ _ _ _ _ isAsync => !isAsync
  | .break_ _ => inLoop
  | .continue_ _ => inLoop
  | _ => true
def frag3L (inLoop : Bool) : List Stmt → Bool
  | [] => true
  | s :: ss => frag3 inLoop s && frag3L inLoop ss
def frag3H (inLoop : Bool) : List Stmt → Bool
  | [] => true
  | .handler _ _ name body :: hs => name.isEmpty && frag3L inLoop body && frag3H inLoop hs
  | _ :: _ => false
end

/-- The root function is in the modelled language with `finally`. -/
def fnFrag3 : Stmt → Bool
  | .functionDef _ _ _ body _ _ isAsync => !isAsync && frag3L false body
  | _ => false

/-- Dictionary keys and CFG node ids of the function are pairwise distinct within their family (serialiser ids are). -/
def fnDistinctKeys3 : Stmt → Bool
  | .functionDef i _ args body _ _ _ => nodupB (sk i :: (tnodes (args.kidLams ++ [args.id]) ++ keysL3 body))
  | _ => false

mutual
/-- Shape conditions that hold of every parsed Python program but not of every value of the syntax tree type: a `for`
carries no extra loop test (an annotation only later transformations add), a `with` has an item, a `try` body and a
`finally` block start with a statement that creates a CFG node (nested function/class bodies are not inspected: they have
their own graphs). -/
def stmtShape : Stmt → Bool
  | .for_ _ _ _ body orelse extra _ => extra.isEmpty && shapeL body && shapeL orelse
  | .while_ _ _ body orelse => shapeL body && shapeL orelse
  | .if_ _ _ body orelse => shapeL body && shapeL orelse
  | .with_ _ items body _ => !items.isEmpty && shapeL body
  | .try_ _ body handlers orelse final =>
      blockEmits body && (final.isEmpty || blockEmits final) && shapeL body && shapeL handlers && shapeL orelse && shapeL final
  | .handler _ _ _ body => shapeL body
  | _ => true
def shapeL : List Stmt → Bool
  | [] => true
  | s :: ss => stmtShape s && shapeL ss
end

def fnParsedShape : Stmt → Bool
  | .functionDef _ _ _ body _ _ _ => shapeL body
  | _ => false

end Malt.Cfg
