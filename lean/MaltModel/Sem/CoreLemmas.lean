import MaltModel.Sem.Core
/-
Lemmas about the shared core semantics `Malt.Sem` (definitions in `Sem/Core.lean` are NOT changed here).

* `exec_mono` / `execB_mono` / `execFor_mono`: more fuel never changes a result.
* `exec_try`: the `try` clause of `exec` as a composition of `afterH` (handler step) and `finish` (finally step).
* `evalE_env`: expression evaluation never changes the environment (only the log).
* hidden-name reasoning for transformation proofs: `Agree G` (equal logs, equal environments outside the
  hidden names `G`), `CleanE/CleanS/CleanB/CleanH G` (a program does not mention hidden names),
  `evalE_agree`, and the non-interference theorem `exec_agree` (a clean statement run from agreeing
  states gives the same outcome, agreeing states, and leaves every hidden name untouched).
* `execB_append_*`: running a concatenation of blocks.
* outcome classification: `Quiet*` (no raise/break/continue/return anywhere inside) blocks end `normal`
  or with a *fatal* (uncatchable: NameError/TypeError) exception; `JumpFree*` (no break/continue/return
  anywhere inside) blocks end `normal` or with an exception.
-/
namespace Malt.Sem

/-! ### try as a composition -/

/-- The handler step of `try`: if the body raised something a handler catches, run that handler. -/
def afterH (X : Ext) (n : Nat) (hs : List (Nat × Block)) : Out × St → Option (Out × St)
  | (.exc ex, σ') => (match findHandler hs ex with
      | some hb => execB X n hb σ'
      | none => some (.exc ex, σ'))
  | r => some r

/-- The `finally` step of `try`: run the finally block; a non-normal outcome of it replaces the pending one. -/
def finish (X : Ext) (n : Nat) (fin : Block) : Out × St → Option (Out × St)
  | (o', σ'') => (match execB X n fin σ'' with
      | none => none
      | some (.normal, σ₃) => some (o', σ₃)
      | some r => some r)

theorem exec_try (X : Ext) (n : Nat) (body : Block) (hs : List (Nat × Block)) (fin : Block) (σ : St) :
    exec X (n+1) (.tryS body hs fin) σ
      = (execB X n body σ).bind fun r => (afterH X n hs r).bind (finish X n fin) := by
  simp only [exec]
  cases hb : execB X n body σ with
  | none => simp
  | some rb =>
    obtain ⟨o, σ'⟩ := rb
    simp only [Option.bind_some]
    cases o with
    | exc ex =>
      simp only [afterH]
      cases hh : findHandler hs ex with
      | none =>
        simp only [Option.bind_some, finish]
        cases execB X n fin σ' with
        | none => rfl
        | some r => obtain ⟨o2, σ2⟩ := r; cases o2 <;> rfl
      | some hbk =>
        simp only
        cases execB X n hbk σ' with
        | none => simp
        | some r2 =>
          obtain ⟨o2, σ2⟩ := r2; simp only [Option.bind_some, finish]
          cases execB X n fin σ2 with
          | none => rfl
          | some r => obtain ⟨o3, σ3⟩ := r; cases o3 <;> rfl
    | _ =>
      simp only [afterH, Option.bind_some, finish]
      cases execB X n fin σ' with
      | none => rfl
      | some r => obtain ⟨o2, σ2⟩ := r; cases o2 <;> rfl

theorem finish_some {X : Ext} {n : Nat} {fin : Block} {o : Out} {τ : St} {r : Out × St}
    (h : finish X n fin (o, τ) = some r) :
    ∃ of σf, execB X n fin τ = some (of, σf) ∧
      ((of = .normal ∧ r = (o, σf)) ∨ (of ≠ .normal ∧ r = (of, σf))) := by
  simp only [finish] at h
  cases hf : execB X n fin τ with
  | none => simp [hf] at h
  | some rf =>
    obtain ⟨of, σf⟩ := rf
    rw [hf] at h
    refine ⟨of, σf, rfl, ?_⟩
    cases of <;> simp_all

theorem finish_of_normal {X : Ext} {n : Nat} {fin : Block} {o : Out} {τ σf : St}
    (h : execB X n fin τ = some (.normal, σf)) : finish X n fin (o, τ) = some (o, σf) := by
  simp [finish, h]

theorem finish_of_abrupt {X : Ext} {n : Nat} {fin : Block} {o of : Out} {τ σf : St}
    (h : execB X n fin τ = some (of, σf)) (hne : of ≠ .normal) : finish X n fin (o, τ) = some (of, σf) := by
  simp only [finish, h]
  cases of <;> simp_all

/-! ### one step of a `for` loop -/

/-- What a `for` does after an iteration that ended `normal` or with `continue`: re-evaluate the extra test
(if any) and go on with the remaining items. -/
def forNext (X : Ext) (n : Nat) (x : Name) (ex : Option Expr) (b : Block) (items : List Val) (σ : St) :
    Option (Out × St) :=
  match ex with
  | none => execFor X n x ex b items σ
  | some t => (match evalE X t σ with
      | (.ok tv, σ'') => if truthy tv then execFor X n x ex b items σ'' else some (.normal, σ'')
      | (.error e, σ'') => some (.exc e, σ''))

theorem execFor_cons {X : Ext} {n : Nat} {x : Name} {ex : Option Expr} {b : Block} {v : Val} {items : List Val}
    {σ τ : St} {ob : Out} (hb : execB X n b (σ.set x v) = some (ob, τ)) :
    execFor X (n+1) x ex b (v :: items) σ =
      (match ob with
       | .brk => some (.normal, τ)
       | .normal => forNext X n x ex b items τ
       | .cont => forNext X n x ex b items τ
       | o => some (o, τ)) := by
  simp only [execFor, hb]
  cases ob with
  | brk => rfl
  | normal => simp only [BEq.rfl, Bool.true_or, if_true, forNext]; cases ex <;> rfl
  | cont => simp only [BEq.rfl, Bool.or_true, if_true, forNext]; cases ex <;> rfl
  | ret v' => simp
  | exc e' => simp

theorem execFor_cons_none {X : Ext} {n : Nat} {x : Name} {ex : Option Expr} {b : Block} {v : Val} {items : List Val}
    {σ : St} (hb : execB X n b (σ.set x v) = none) :
    execFor X (n+1) x ex b (v :: items) σ = none := by
  simp only [execFor, hb]

/-! ### more fuel never changes a result -/

theorem exec_mono_all (X : Ext) : ∀ n,
    (∀ s σ r, exec X n s σ = some r → ∀ m, n ≤ m → exec X m s σ = some r) ∧
    (∀ b σ r, execB X n b σ = some r → ∀ m, n ≤ m → execB X m b σ = some r) ∧
    (∀ x ex b items σ r, execFor X n x ex b items σ = some r →
        ∀ m, n ≤ m → execFor X m x ex b items σ = some r) := by
  intro n
  induction n with
  | zero =>
    refine ⟨?_, ?_, ?_⟩
    · intro s σ r h; simp [exec] at h
    · intro b σ r h; simp [execB] at h
    · intro x ex b items σ r h; simp [execFor] at h
  | succ n ih =>
    obtain ⟨ihS, ihB, ihF⟩ := ih
    refine ⟨?_, ?_, ?_⟩
    · intro s σ r h m hm
      obtain ⟨m', rfl⟩ : ∃ m', m = m' + 1 := ⟨m - 1, by omega⟩
      have hnm : n ≤ m' := by omega
      cases s with
      | assign x e => simpa [exec] using h
      | expr e => simpa [exec] using h
      | brk => simpa [exec] using h
      | cont => simpa [exec] using h
      | pass => simpa [exec] using h
      | raise t => simpa [exec] using h
      | ret e => cases e <;> simpa [exec] using h
      | ifS c t e =>
        simp only [exec] at h ⊢
        split at h
        · split at h
          · rw [if_pos (by assumption)]; exact ihB _ _ _ h _ hnm
          · rw [if_neg (by assumption)]; exact ihB _ _ _ h _ hnm
        · exact h
      | whileS c b =>
        simp only [exec] at h ⊢
        split at h
        · rename_i v σ' hc
          split at h
          · rw [if_pos (by assumption)]; exact h
          · rw [if_neg (by assumption)]
            cases hb : execB X n b σ' with
            | none => simp [hb] at h
            | some rb =>
              rw [ihB _ _ _ hb _ hnm]
              rw [hb] at h
              obtain ⟨o, σ''⟩ := rb
              cases o <;> simp only at h ⊢ <;> first | exact ihS _ _ _ h _ hnm | exact h
        · exact h
      | forS x it extra b =>
        simp only [exec] at h ⊢
        split at h
        · split at h
          · split at h
            · exact ihF _ _ _ _ _ _ h _ hnm
            · split at h
              · split at h
                · rw [if_pos (by assumption)]; exact ihF _ _ _ _ _ _ h _ hnm
                · rw [if_neg (by assumption)]; exact h
              · exact h
          · exact h
        · exact h
      | tryS body hs fin =>
        rw [exec_try] at h ⊢
        cases hb : execB X n body σ with
        | none => simp [hb] at h
        | some rb =>
          rw [hb] at h
          rw [ihB _ _ _ hb _ hnm]
          simp only [Option.bind_some] at h ⊢
          cases ha : afterH X n hs rb with
          | none => simp [ha] at h
          | some ra =>
            rw [ha] at h
            have ha' : afterH X m' hs rb = some ra := by
              obtain ⟨o, σ'⟩ := rb
              cases o with
              | exc ex =>
                simp only [afterH] at ha ⊢
                split at ha
                · exact ihB _ _ _ ha _ hnm
                · exact ha
              | _ => simpa [afterH] using ha
            rw [ha']
            simp only [Option.bind_some] at h ⊢
            obtain ⟨oa, σa⟩ := ra
            obtain ⟨of, σf, hf, hcase⟩ := finish_some h
            have hf' := ihB _ _ _ hf _ hnm
            rcases hcase with ⟨hn, rfl⟩ | ⟨hn, rfl⟩
            · subst hn; exact finish_of_normal hf'
            · exact finish_of_abrupt hf' hn
      | withS tag body =>
        simp only [exec] at h ⊢
        cases hb : execB X n body (σ.push (.enter tag)) with
        | none => simp [hb] at h
        | some rb =>
          rw [ihB _ _ _ hb _ hnm]; rw [hb] at h; exact h
    · intro b σ r h m hm
      obtain ⟨m', rfl⟩ : ∃ m', m = m' + 1 := ⟨m - 1, by omega⟩
      have hnm : n ≤ m' := by omega
      cases b with
      | nil => simpa [execB] using h
      | cons s rest =>
        simp only [execB] at h ⊢
        cases hs : exec X n s σ with
        | none => simp [hs] at h
        | some rs =>
          rw [ihS _ _ _ hs _ hnm]; rw [hs] at h
          obtain ⟨o, σ'⟩ := rs
          cases o <;> simp only at h ⊢ <;> first | exact ihB _ _ _ h _ hnm | exact h
    · intro x ex b items σ r h m hm
      obtain ⟨m', rfl⟩ : ∃ m', m = m' + 1 := ⟨m - 1, by omega⟩
      have hnm : n ≤ m' := by omega
      cases items with
      | nil => simpa [execFor] using h
      | cons v items =>
        simp only [execFor] at h ⊢
        cases hb : execB X n b (σ.set x v) with
        | none => simp [hb] at h
        | some rb =>
          rw [ihB _ _ _ hb _ hnm]; rw [hb] at h
          obtain ⟨o, σ'⟩ := rb
          cases o with
          | brk => exact h
          | normal =>
            simp only [BEq.rfl, Bool.true_or, if_true] at h ⊢
            cases ex with
            | none => exact ihF _ _ _ _ _ _ h _ hnm
            | some t =>
              simp only at h ⊢
              split at h
              · split at h
                · rw [if_pos (by assumption)]; exact ihF _ _ _ _ _ _ h _ hnm
                · rw [if_neg (by assumption)]; exact h
              · exact h
          | cont =>
            simp only [BEq.rfl, Bool.or_true, if_true] at h ⊢
            cases ex with
            | none => exact ihF _ _ _ _ _ _ h _ hnm
            | some t =>
              simp only at h ⊢
              split at h
              · split at h
                · rw [if_pos (by assumption)]; exact ihF _ _ _ _ _ _ h _ hnm
                · rw [if_neg (by assumption)]; exact h
              · exact h
          | ret v' => simpa using h
          | exc e' => simpa using h

theorem exec_mono (X : Ext) {n : Nat} {s : Stmt} {σ : St} {r : Out × St}
    (h : exec X n s σ = some r) {m : Nat} (hm : n ≤ m) : exec X m s σ = some r :=
  (exec_mono_all X n).1 s σ r h m hm

theorem execB_mono (X : Ext) {n : Nat} {b : Block} {σ : St} {r : Out × St}
    (h : execB X n b σ = some r) {m : Nat} (hm : n ≤ m) : execB X m b σ = some r :=
  (exec_mono_all X n).2.1 b σ r h m hm

theorem execFor_mono (X : Ext) {n : Nat} {x : Name} {ex : Option Expr} {b : Block} {items : List Val}
    {σ : St} {r : Out × St}
    (h : execFor X n x ex b items σ = some r) {m : Nat} (hm : n ≤ m) :
    execFor X m x ex b items σ = some r :=
  (exec_mono_all X n).2.2 x ex b items σ r h m hm

/-! ### states -/

@[simp] theorem St.set_env_eq (σ : St) (x : Name) (v : Val) : (σ.set x v).env x = some v := by
  simp [St.set]

theorem St.set_env_ne (σ : St) {x y : Name} (v : Val) (h : y ≠ x) : (σ.set x v).env y = σ.env y := by
  simp [St.set, h]

@[simp] theorem St.set_log (σ : St) (x : Name) (v : Val) : (σ.set x v).log = σ.log := rfl
@[simp] theorem St.push_env (σ : St) (e : Event) : (σ.push e).env = σ.env := rfl
@[simp] theorem St.push_log (σ : St) (e : Event) : (σ.push e).log = σ.log ++ [e] := rfl

/-! ### expression evaluation never changes the environment -/

mutual
theorem evalE_env (X : Ext) : ∀ (e : Expr) (σ : St), (evalE X e σ).2.env = σ.env
  | .const v, σ => by simp [evalE]
  | .var x, σ => by simp only [evalE]; split <;> rfl
  | .not e, σ => by
      have ih := evalE_env X e σ
      simp only [evalE]; split <;> simp_all
  | .and a b, σ => by
      have iha := evalE_env X a σ
      simp only [evalE]
      split
      · rename_i v σ' h; rw [h] at iha; simp at iha
        split
        · rw [evalE_env X b σ']; exact iha
        · simpa using iha
      · exact iha
  | .or a b, σ => by
      have iha := evalE_env X a σ
      simp only [evalE]
      split
      · rename_i v σ' h; rw [h] at iha; simp at iha
        split
        · simpa using iha
        · rw [evalE_env X b σ']; exact iha
      · exact iha
  | .ite c t e, σ => by
      have iha := evalE_env X c σ
      simp only [evalE]
      split
      · rename_i v σ' h; rw [h] at iha; simp at iha
        split
        · rw [evalE_env X t σ']; exact iha
        · rw [evalE_env X e σ']; exact iha
      · exact iha
  | .bin op a b, σ => by
      have iha := evalE_env X a σ
      simp only [evalE]
      split
      · rename_i v σ' h; rw [h] at iha; simp at iha
        have ihb := evalE_env X b σ'
        split
        · rename_i w σ'' h2; rw [h2] at ihb; simp at ihb
          split <;> simp [ihb, iha]
        · rw [ihb]; exact iha
      · exact iha
  | .call f args, σ => by
      have ih := evalArgs_env X args σ
      simp only [evalE]
      split
      · rename_i vs σ' h; rw [h] at ih; simpa [St.push] using ih
      · rename_i ex σ' h; rw [h] at ih; simpa using ih
theorem evalArgs_env (X : Ext) : ∀ (es : List Expr) (σ : St), (evalArgs X es σ).2.env = σ.env
  | [], σ => by simp [evalArgs]
  | e :: es, σ => by
      have ih := evalE_env X e σ
      simp only [evalArgs]
      split
      · rename_i v σ' h; rw [h] at ih; simp at ih
        have ih2 := evalArgs_env X es σ'
        split
        · rename_i vs σ'' h2; rw [h2] at ih2; simp at ih2; simp [ih2, ih]
        · rename_i ex σ'' h2; rw [h2] at ih2; simp at ih2; simp [ih2, ih]
      · rename_i ex σ' h; rw [h] at ih; simpa using ih
end

theorem evalE_env' {X : Ext} {e : Expr} {σ τ : St} {r : Except Exc Val} (h : evalE X e σ = (r, τ)) :
    τ.env = σ.env := by
  have := evalE_env X e σ; rw [h] at this; exact this

/-! ### hidden names: programs that do not mention them, states that agree outside them -/

mutual
/-- The expression mentions no hidden name. -/
def CleanE (G : Name → Prop) : Expr → Prop
  | .const _ => True
  | .var x => ¬ G x
  | .not e => CleanE G e
  | .and a b => CleanE G a ∧ CleanE G b
  | .or a b => CleanE G a ∧ CleanE G b
  | .ite c t e => CleanE G c ∧ CleanE G t ∧ CleanE G e
  | .bin _ a b => CleanE G a ∧ CleanE G b
  | .call _ args => CleanEs G args
def CleanEs (G : Name → Prop) : List Expr → Prop
  | [] => True
  | e :: es => CleanE G e ∧ CleanEs G es
end

def CleanO (G : Name → Prop) : Option Expr → Prop
  | none => True
  | some e => CleanE G e

mutual
/-- The statement mentions no hidden name (neither reads nor writes one). -/
def CleanS (G : Name → Prop) : Stmt → Prop
  | .assign x e => ¬ G x ∧ CleanE G e
  | .expr e => CleanE G e
  | .ifS c t e => CleanE G c ∧ CleanB G t ∧ CleanB G e
  | .whileS c b => CleanE G c ∧ CleanB G b
  | .forS x it extra b => ¬ G x ∧ CleanE G it ∧ CleanO G extra ∧ CleanB G b
  | .ret e => CleanO G e
  | .tryS b hs f => CleanB G b ∧ CleanH G hs ∧ CleanB G f
  | .withS _ b => CleanB G b
  | .brk => True
  | .cont => True
  | .raise _ => True
  | .pass => True
def CleanB (G : Name → Prop) : List Stmt → Prop
  | [] => True
  | s :: rest => CleanS G s ∧ CleanB G rest
def CleanH (G : Name → Prop) : List (Nat × List Stmt) → Prop
  | [] => True
  | (_, b) :: hs => CleanB G b ∧ CleanH G hs
end

theorem CleanH_find {G : Name → Prop} {hs : List (Nat × Block)} {ex : Exc} {hb : Block}
    (hc : CleanH G hs) (h : findHandler hs ex = some hb) : CleanB G hb := by
  cases ex with
  | user t =>
    simp only [findHandler] at h
    induction hs with
    | nil => simp at h
    | cons p hs ih =>
      obtain ⟨t', b⟩ := p
      simp only [CleanH] at hc
      simp only [List.find?] at h
      split at h
      · simp at h; subst h; exact hc.1
      · exact ih hc.2 h
  | nameError x => simp [findHandler] at h
  | typeError => simp [findHandler] at h

/-- Equal logs, equal environments outside the hidden names. -/
def Agree (G : Name → Prop) (σ σ' : St) : Prop :=
  σ.log = σ'.log ∧ ∀ x, ¬ G x → σ.env x = σ'.env x

theorem Agree.refl (G : Name → Prop) (σ : St) : Agree G σ σ := ⟨rfl, fun _ _ => rfl⟩

theorem Agree.set {G : Name → Prop} {σ σ' : St} (h : Agree G σ σ') (x : Name) (v : Val) :
    Agree G (σ.set x v) (σ'.set x v) := by
  refine ⟨h.1, ?_⟩
  intro y hy
  simp only [St.set]
  split
  · rfl
  · exact h.2 y hy

/-- Writing a hidden name on the right keeps agreement. -/
theorem Agree.setHidden {G : Name → Prop} {σ σ' : St} (h : Agree G σ σ') {x : Name} (hx : G x) (v : Val) :
    Agree G σ (σ'.set x v) := by
  refine ⟨h.1, ?_⟩
  intro y hy
  simp only [St.set]
  split
  · rename_i heq; subst heq; exact absurd hx hy
  · exact h.2 y hy

theorem Agree.push {G : Name → Prop} {σ σ' : St} (h : Agree G σ σ') (e : Event) :
    Agree G (σ.push e) (σ'.push e) := by
  refine ⟨?_, h.2⟩
  simp [h.1]

mutual
/-- Expression evaluation only depends on non-hidden variables and on the log. -/
theorem evalE_agree (X : Ext) (G : Name → Prop) : ∀ (e : Expr) (σ σ' : St), CleanE G e → Agree G σ σ' →
    (evalE X e σ').1 = (evalE X e σ).1 ∧ Agree G (evalE X e σ).2 (evalE X e σ').2
  | .const v, σ, σ', _, h => by simp [evalE, h]
  | .var x, σ, σ', hc, h => by
      have hx : σ.env x = σ'.env x := h.2 x hc
      simp only [evalE, hx]
      split <;> simp [h]
  | .not e, σ, σ', hc, h => by
      obtain ⟨h1, h2⟩ := evalE_agree X G e σ σ' hc h
      simp only [evalE]
      rcases hr : evalE X e σ with ⟨r, τ⟩
      rcases hr' : evalE X e σ' with ⟨r', τ'⟩
      rw [hr, hr'] at h1 h2; simp at h1 h2; subst h1
      cases r' <;> simp [h2]
  | .and a b, σ, σ', hc, h => by
      obtain ⟨h1, h2⟩ := evalE_agree X G a σ σ' hc.1 h
      simp only [evalE]
      rcases hr : evalE X a σ with ⟨r, τ⟩
      rcases hr' : evalE X a σ' with ⟨r', τ'⟩
      rw [hr, hr'] at h1 h2; simp at h1 h2; subst h1
      cases r' with
      | error ex => simp [h2]
      | ok v =>
        simp only
        split
        · exact evalE_agree X G b τ τ' hc.2 h2
        · simp [h2]
  | .or a b, σ, σ', hc, h => by
      obtain ⟨h1, h2⟩ := evalE_agree X G a σ σ' hc.1 h
      simp only [evalE]
      rcases hr : evalE X a σ with ⟨r, τ⟩
      rcases hr' : evalE X a σ' with ⟨r', τ'⟩
      rw [hr, hr'] at h1 h2; simp at h1 h2; subst h1
      cases r' with
      | error ex => simp [h2]
      | ok v =>
        simp only
        split
        · simp [h2]
        · exact evalE_agree X G b τ τ' hc.2 h2
  | .ite c t e, σ, σ', hc, h => by
      obtain ⟨h1, h2⟩ := evalE_agree X G c σ σ' hc.1 h
      simp only [evalE]
      rcases hr : evalE X c σ with ⟨r, τ⟩
      rcases hr' : evalE X c σ' with ⟨r', τ'⟩
      rw [hr, hr'] at h1 h2; simp at h1 h2; subst h1
      cases r' with
      | error ex => simp [h2]
      | ok v =>
        simp only
        split
        · exact evalE_agree X G t τ τ' hc.2.1 h2
        · exact evalE_agree X G e τ τ' hc.2.2 h2
  | .bin op a b, σ, σ', hc, h => by
      obtain ⟨h1, h2⟩ := evalE_agree X G a σ σ' hc.1 h
      simp only [evalE]
      rcases hr : evalE X a σ with ⟨r, τ⟩
      rcases hr' : evalE X a σ' with ⟨r', τ'⟩
      rw [hr, hr'] at h1 h2; simp at h1 h2; subst h1
      cases r' with
      | error ex => simp [h2]
      | ok v =>
        obtain ⟨g1, g2⟩ := evalE_agree X G b τ τ' hc.2 h2
        simp only
        rcases hs : evalE X b τ with ⟨s, υ⟩
        rcases hs' : evalE X b τ' with ⟨s', υ'⟩
        rw [hs, hs'] at g1 g2; simp at g1 g2; subst g1
        cases s' with
        | error ex => simp [g2]
        | ok w => simp only; split <;> simp [g2]
  | .call f args, σ, σ', hc, h => by
      obtain ⟨h1, h2⟩ := evalArgs_agree X G args σ σ' hc h
      simp only [evalE]
      rcases hr : evalArgs X args σ with ⟨r, τ⟩
      rcases hr' : evalArgs X args σ' with ⟨r', τ'⟩
      rw [hr, hr'] at h1 h2; simp at h1 h2; subst h1
      cases r' with
      | error ex => simp [h2]
      | ok vs =>
        simp only
        exact ⟨by rw [h2.1], Agree.push h2 _⟩
theorem evalArgs_agree (X : Ext) (G : Name → Prop) : ∀ (es : List Expr) (σ σ' : St), CleanEs G es → Agree G σ σ' →
    (evalArgs X es σ').1 = (evalArgs X es σ).1 ∧ Agree G (evalArgs X es σ).2 (evalArgs X es σ').2
  | [], σ, σ', _, h => by simp [evalArgs, h]
  | e :: es, σ, σ', hc, h => by
      obtain ⟨h1, h2⟩ := evalE_agree X G e σ σ' hc.1 h
      simp only [evalArgs]
      rcases hr : evalE X e σ with ⟨r, τ⟩
      rcases hr' : evalE X e σ' with ⟨r', τ'⟩
      rw [hr, hr'] at h1 h2; simp at h1 h2; subst h1
      cases r' with
      | error ex => simp [h2]
      | ok v =>
        obtain ⟨g1, g2⟩ := evalArgs_agree X G es τ τ' hc.2 h2
        simp only
        rcases hs : evalArgs X es τ with ⟨s, υ⟩
        rcases hs' : evalArgs X es τ' with ⟨s', υ'⟩
        rw [hs, hs'] at g1 g2; simp at g1 g2; subst g1
        cases s' <;> simp [g2]
end

/-- Convenient form: the same result from an agreeing state, with the hidden names untouched. -/
theorem evalE_agree' {X : Ext} {G : Name → Prop} {e : Expr} {σ σ' τ : St} {r : Except Exc Val}
    (hc : CleanE G e) (hag : Agree G σ σ') (h : evalE X e σ = (r, τ)) :
    ∃ τ', evalE X e σ' = (r, τ') ∧ Agree G τ τ' ∧ τ'.env = σ'.env := by
  obtain ⟨h1, h2⟩ := evalE_agree X G e σ σ' hc hag
  rcases hr' : evalE X e σ' with ⟨r', τ'⟩
  rw [h, hr'] at h1 h2
  simp at h1 h2; subst h1
  exact ⟨τ', rfl, h2, evalE_env' hr'⟩

/-! ### non-interference: clean code cannot see or touch hidden names -/

/-- The hidden names have the same values in both states. -/
def SameHidden (G : Name → Prop) (σ σ' : St) : Prop := ∀ x, G x → σ'.env x = σ.env x

theorem SameHidden.refl (G : Name → Prop) (σ : St) : SameHidden G σ σ := fun _ _ => rfl

theorem SameHidden.trans {G : Name → Prop} {a b c : St} (h1 : SameHidden G a b) (h2 : SameHidden G b c) :
    SameHidden G a c := fun x hx => by rw [h2 x hx, h1 x hx]

theorem SameHidden.of_env {G : Name → Prop} {σ τ : St} (h : τ.env = σ.env) : SameHidden G σ τ :=
  fun x _ => by rw [h]

theorem SameHidden.set {G : Name → Prop} {σ τ : St} (h : SameHidden G σ τ) {x : Name} (hx : ¬ G x) (v : Val) :
    SameHidden G σ (τ.set x v) := by
  intro y hy
  have hne : y ≠ x := fun he => hx (he ▸ hy)
  rw [St.set_env_ne _ _ hne]
  exact h y hy

theorem exec_agree_all (X : Ext) (G : Name → Prop) : ∀ n,
    (∀ s σ σ' o σ1, CleanS G s → Agree G σ σ' → exec X n s σ = some (o, σ1) →
      ∃ σ1', exec X n s σ' = some (o, σ1') ∧ Agree G σ1 σ1' ∧ SameHidden G σ' σ1') ∧
    (∀ b σ σ' o σ1, CleanB G b → Agree G σ σ' → execB X n b σ = some (o, σ1) →
      ∃ σ1', execB X n b σ' = some (o, σ1') ∧ Agree G σ1 σ1' ∧ SameHidden G σ' σ1') ∧
    (∀ x ex b items σ σ' o σ1, ¬ G x → CleanO G ex → CleanB G b → Agree G σ σ' →
      execFor X n x ex b items σ = some (o, σ1) →
      ∃ σ1', execFor X n x ex b items σ' = some (o, σ1') ∧ Agree G σ1 σ1' ∧ SameHidden G σ' σ1') := by
  intro n
  induction n with
  | zero =>
    refine ⟨?_, ?_, ?_⟩
    · intro s σ σ' o σ1 _ _ h; simp [exec] at h
    · intro b σ σ' o σ1 _ _ h; simp [execB] at h
    · intro x ex b items σ σ' o σ1 _ _ _ _ h; simp [execFor] at h
  | succ n ih =>
    obtain ⟨ihS, ihB, ihF⟩ := ih
    refine ⟨?_, ?_, ?_⟩
    · intro s σ σ' o σ1 hc hag h
      cases s with
      | brk => simp [exec] at h; obtain ⟨rfl, rfl⟩ := h; exact ⟨σ', by simp [exec], hag, SameHidden.refl G σ'⟩
      | cont => simp [exec] at h; obtain ⟨rfl, rfl⟩ := h; exact ⟨σ', by simp [exec], hag, SameHidden.refl G σ'⟩
      | pass => simp [exec] at h; obtain ⟨rfl, rfl⟩ := h; exact ⟨σ', by simp [exec], hag, SameHidden.refl G σ'⟩
      | raise t => simp [exec] at h; obtain ⟨rfl, rfl⟩ := h; exact ⟨σ', by simp [exec], hag, SameHidden.refl G σ'⟩
      | assign x e =>
        simp only [CleanS] at hc
        simp only [exec] at h ⊢
        rcases hr : evalE X e σ with ⟨r, τ⟩
        obtain ⟨τ', hr', hag', henv⟩ := evalE_agree' hc.2 hag hr
        rw [hr] at h; rw [hr']
        cases r with
        | error ex =>
          simp at h; obtain ⟨rfl, rfl⟩ := h
          exact ⟨τ', rfl, hag', SameHidden.of_env henv⟩
        | ok v =>
          simp at h; obtain ⟨rfl, rfl⟩ := h
          exact ⟨τ'.set x v, rfl, hag'.set x v, (SameHidden.of_env henv).set hc.1 v⟩
      | expr e =>
        simp only [CleanS] at hc
        simp only [exec] at h ⊢
        rcases hr : evalE X e σ with ⟨r, τ⟩
        obtain ⟨τ', hr', hag', henv⟩ := evalE_agree' hc hag hr
        rw [hr] at h; rw [hr']
        cases r with
        | error ex =>
          simp at h; obtain ⟨rfl, rfl⟩ := h
          exact ⟨τ', rfl, hag', SameHidden.of_env henv⟩
        | ok v =>
          simp at h; obtain ⟨rfl, rfl⟩ := h
          exact ⟨τ', rfl, hag', SameHidden.of_env henv⟩
      | ret e =>
        cases e with
        | none => simp [exec] at h; obtain ⟨rfl, rfl⟩ := h; exact ⟨σ', by simp [exec], hag, SameHidden.refl G σ'⟩
        | some e =>
          simp only [CleanS, CleanO] at hc
          simp only [exec] at h ⊢
          rcases hr : evalE X e σ with ⟨r, τ⟩
          obtain ⟨τ', hr', hag', henv⟩ := evalE_agree' hc hag hr
          rw [hr] at h; rw [hr']
          cases r with
          | error ex =>
            simp at h; obtain ⟨rfl, rfl⟩ := h
            exact ⟨τ', rfl, hag', SameHidden.of_env henv⟩
          | ok v =>
            simp at h; obtain ⟨rfl, rfl⟩ := h
            exact ⟨τ', rfl, hag', SameHidden.of_env henv⟩
      | ifS c t e =>
        simp only [CleanS] at hc
        simp only [exec] at h ⊢
        rcases hr : evalE X c σ with ⟨r, τ⟩
        obtain ⟨τ', hr', hag', henv⟩ := evalE_agree' hc.1 hag hr
        rw [hr] at h; rw [hr']
        cases r with
        | error ex =>
          simp at h; obtain ⟨rfl, rfl⟩ := h
          exact ⟨τ', rfl, hag', SameHidden.of_env henv⟩
        | ok v =>
          simp only at h ⊢
          by_cases hv : truthy v = true
          · rw [if_pos hv] at h ⊢
            obtain ⟨σ1', hx, hag1, hh⟩ := ihB _ _ _ _ _ hc.2.1 hag' h
            exact ⟨σ1', hx, hag1, (SameHidden.of_env henv).trans hh⟩
          · rw [if_neg hv] at h ⊢
            obtain ⟨σ1', hx, hag1, hh⟩ := ihB _ _ _ _ _ hc.2.2 hag' h
            exact ⟨σ1', hx, hag1, (SameHidden.of_env henv).trans hh⟩
      | whileS c b =>
        have hcw := hc
        simp only [CleanS] at hc
        simp only [exec] at h ⊢
        rcases hr : evalE X c σ with ⟨r, τ⟩
        obtain ⟨τ', hr', hag', henv⟩ := evalE_agree' hc.1 hag hr
        rw [hr] at h; rw [hr']
        cases r with
        | error ex =>
          simp at h; obtain ⟨rfl, rfl⟩ := h
          exact ⟨τ', rfl, hag', SameHidden.of_env henv⟩
        | ok v =>
          simp only at h ⊢
          by_cases hv : (!truthy v) = true
          · rw [if_pos hv] at h ⊢
            simp at h; obtain ⟨rfl, rfl⟩ := h
            exact ⟨τ', rfl, hag', SameHidden.of_env henv⟩
          · rw [if_neg hv] at h ⊢
            cases hb : execB X n b τ with
            | none => simp [hb] at h
            | some rb =>
              obtain ⟨ob, τ1⟩ := rb
              rw [hb] at h
              obtain ⟨τ1', hx1, hag1, hh1⟩ := ihB _ _ _ _ _ hc.2 hag' hb
              rw [hx1]
              have hh1' := (SameHidden.of_env (G := G) henv).trans hh1
              cases ob with
              | normal =>
                simp only at h ⊢
                obtain ⟨σ1', hx, hag2, hh2⟩ := ihS _ _ _ _ _ hcw hag1 h
                exact ⟨σ1', hx, hag2, hh1'.trans hh2⟩
              | cont =>
                simp only at h ⊢
                obtain ⟨σ1', hx, hag2, hh2⟩ := ihS _ _ _ _ _ hcw hag1 h
                exact ⟨σ1', hx, hag2, hh1'.trans hh2⟩
              | brk => simp at h; obtain ⟨rfl, rfl⟩ := h; exact ⟨τ1', rfl, hag1, hh1'⟩
              | ret v' => simp at h; obtain ⟨rfl, rfl⟩ := h; exact ⟨τ1', rfl, hag1, hh1'⟩
              | exc e' => simp at h; obtain ⟨rfl, rfl⟩ := h; exact ⟨τ1', rfl, hag1, hh1'⟩
      | forS x it extra b =>
        simp only [CleanS] at hc
        obtain ⟨hx, hcit, hcex, hcb⟩ := hc
        simp only [exec] at h ⊢
        rcases hr : evalE X it σ with ⟨r, τ⟩
        obtain ⟨τ', hr', hag', henv⟩ := evalE_agree' hcit hag hr
        rw [hr] at h; rw [hr']
        cases r with
        | error ex =>
          simp at h; obtain ⟨rfl, rfl⟩ := h
          exact ⟨τ', rfl, hag', SameHidden.of_env henv⟩
        | ok v =>
          simp only at h ⊢
          cases hit : iterItems v with
          | error ex =>
            rw [hit] at h; simp at h; obtain ⟨rfl, rfl⟩ := h
            exact ⟨τ', rfl, hag', SameHidden.of_env henv⟩
          | ok items =>
            rw [hit] at h; simp only at h ⊢
            cases extra with
            | none =>
              simp only at h ⊢
              obtain ⟨σ1', hx', hag1, hh⟩ := ihF _ _ _ _ _ _ _ _ hx (by simp [CleanO]) hcb hag' h
              exact ⟨σ1', hx', hag1, (SameHidden.of_env henv).trans hh⟩
            | some t =>
              simp only [CleanO] at hcex
              simp only at h ⊢
              rcases hr2 : evalE X t τ with ⟨r2, υ⟩
              obtain ⟨υ', hr2', hag2, henv2⟩ := evalE_agree' hcex hag' hr2
              rw [hr2] at h; rw [hr2']
              have hh0 : SameHidden G σ' υ' := (SameHidden.of_env henv).trans (SameHidden.of_env henv2)
              cases r2 with
              | error ex =>
                simp at h; obtain ⟨rfl, rfl⟩ := h
                exact ⟨υ', rfl, hag2, hh0⟩
              | ok tv =>
                simp only at h ⊢
                by_cases htv : truthy tv = true
                · rw [if_pos htv] at h ⊢
                  obtain ⟨σ1', hx', hag1, hh⟩ := ihF _ _ _ _ _ _ _ _ hx (by simpa [CleanO] using hcex) hcb hag2 h
                  exact ⟨σ1', hx', hag1, hh0.trans hh⟩
                · rw [if_neg htv] at h ⊢
                  simp at h; obtain ⟨rfl, rfl⟩ := h
                  exact ⟨υ', rfl, hag2, hh0⟩
      | tryS body hs fin =>
        simp only [CleanS] at hc
        obtain ⟨hcb, hch, hcf⟩ := hc
        rw [exec_try] at h ⊢
        cases hb : execB X n body σ with
        | none => simp [hb] at h
        | some rb =>
          obtain ⟨ob, τ⟩ := rb
          rw [hb] at h
          obtain ⟨τ', hxb, hagb, hhb⟩ := ihB _ _ _ _ _ hcb hag hb
          rw [hxb]
          simp only [Option.bind_some] at h ⊢
          cases ha : afterH X n hs (ob, τ) with
          | none => simp [ha] at h
          | some ra =>
            obtain ⟨oa, τa⟩ := ra
            rw [ha] at h
            simp only [Option.bind_some] at h
            have ha' : ∃ τa', afterH X n hs (ob, τ') = some (oa, τa') ∧ Agree G τa τa' ∧ SameHidden G τ' τa' := by
              cases ob with
              | exc ex =>
                simp only [afterH] at ha ⊢
                cases hf : findHandler hs ex with
                | none =>
                  rw [hf] at ha; simp at ha; obtain ⟨rfl, rfl⟩ := ha
                  exact ⟨τ', rfl, hagb, SameHidden.refl G τ'⟩
                | some hbk =>
                  rw [hf] at ha; simp only at ha ⊢
                  exact ihB _ _ _ _ _ (CleanH_find hch hf) hagb ha
              | normal => simp [afterH] at ha; obtain ⟨rfl, rfl⟩ := ha; exact ⟨τ', rfl, hagb, SameHidden.refl G τ'⟩
              | brk => simp [afterH] at ha; obtain ⟨rfl, rfl⟩ := ha; exact ⟨τ', rfl, hagb, SameHidden.refl G τ'⟩
              | cont => simp [afterH] at ha; obtain ⟨rfl, rfl⟩ := ha; exact ⟨τ', rfl, hagb, SameHidden.refl G τ'⟩
              | ret v => simp [afterH] at ha; obtain ⟨rfl, rfl⟩ := ha; exact ⟨τ', rfl, hagb, SameHidden.refl G τ'⟩
            obtain ⟨τa', hxa, haga, hha⟩ := ha'
            rw [hxa]
            simp only [Option.bind_some]
            obtain ⟨of, σf, hf, hcase⟩ := finish_some h
            obtain ⟨σf', hxf, hagf, hhf⟩ := ihB _ _ _ _ _ hcf haga hf
            have hhall : SameHidden G σ' σf' := (hhb.trans hha).trans hhf
            rcases hcase with ⟨hn, heq⟩ | ⟨hn, heq⟩
            · subst hn; simp at heq; obtain ⟨rfl, rfl⟩ := heq
              exact ⟨σf', finish_of_normal hxf, hagf, hhall⟩
            · simp at heq; obtain ⟨rfl, rfl⟩ := heq
              exact ⟨σf', finish_of_abrupt hxf hn, hagf, hhall⟩
      | withS tag body =>
        simp only [CleanS] at hc
        simp only [exec] at h ⊢
        cases hb : execB X n body (σ.push (.enter tag)) with
        | none => simp [hb] at h
        | some rb =>
          obtain ⟨ob, τ⟩ := rb
          rw [hb] at h
          obtain ⟨τ', hxb, hagb, hhb⟩ := ihB _ _ _ _ _ hc (hag.push (.enter tag)) hb
          rw [hxb]
          simp at h; obtain ⟨rfl, rfl⟩ := h
          refine ⟨τ'.push (.exit tag), rfl, hagb.push _, ?_⟩
          intro x hx; have := hhb x hx; simpa using this
    · intro b σ σ' o σ1 hc hag h
      cases b with
      | nil => simp [execB] at h; obtain ⟨rfl, rfl⟩ := h; exact ⟨σ', by simp [execB], hag, SameHidden.refl G σ'⟩
      | cons s rest =>
        simp only [CleanB] at hc
        simp only [execB] at h ⊢
        cases hs : exec X n s σ with
        | none => simp [hs] at h
        | some rs =>
          obtain ⟨os, τ⟩ := rs
          rw [hs] at h
          obtain ⟨τ', hxs, hags, hhs⟩ := ihS _ _ _ _ _ hc.1 hag hs
          rw [hxs]
          cases os with
          | normal =>
            simp only at h ⊢
            obtain ⟨σ1', hx, hag1, hh⟩ := ihB _ _ _ _ _ hc.2 hags h
            exact ⟨σ1', hx, hag1, hhs.trans hh⟩
          | brk => simp at h; obtain ⟨rfl, rfl⟩ := h; exact ⟨τ', rfl, hags, hhs⟩
          | cont => simp at h; obtain ⟨rfl, rfl⟩ := h; exact ⟨τ', rfl, hags, hhs⟩
          | ret v => simp at h; obtain ⟨rfl, rfl⟩ := h; exact ⟨τ', rfl, hags, hhs⟩
          | exc e => simp at h; obtain ⟨rfl, rfl⟩ := h; exact ⟨τ', rfl, hags, hhs⟩
    · intro x ex b items σ σ' o σ1 hx hcex hcb hag h
      cases items with
      | nil => simp [execFor] at h; obtain ⟨rfl, rfl⟩ := h; exact ⟨σ', by simp [execFor], hag, SameHidden.refl G σ'⟩
      | cons v items =>
        cases hb : execB X n b (σ.set x v) with
        | none => rw [execFor_cons_none hb] at h; simp at h
        | some rb =>
          obtain ⟨ob, τ⟩ := rb
          obtain ⟨τ', hxb, hagb, hhb⟩ := ihB _ _ _ _ _ hcb (hag.set x v) hb
          have hh0 : SameHidden G σ' τ' := by
            intro y hy
            have hne : y ≠ x := fun he => hx (he ▸ hy)
            rw [hhb y hy, St.set_env_ne _ _ hne]
          have hcontinue : forNext X n x ex b items τ = some (o, σ1) →
              ∃ σ1', forNext X n x ex b items τ' = some (o, σ1') ∧ Agree G σ1 σ1' ∧ SameHidden G σ' σ1' := by
            intro h
            cases ex with
            | none =>
              simp only [forNext] at h ⊢
              obtain ⟨σ1', hx', hag1, hh⟩ := ihF _ _ _ _ _ _ _ _ hx hcex hcb hagb h
              exact ⟨σ1', hx', hag1, hh0.trans hh⟩
            | some t =>
              simp only [CleanO] at hcex
              simp only [forNext] at h ⊢
              rcases hr2 : evalE X t τ with ⟨r2, υ⟩
              obtain ⟨υ', hr2', hag2, henv2⟩ := evalE_agree' hcex hagb hr2
              rw [hr2] at h; rw [hr2']
              have hh1 : SameHidden G σ' υ' := hh0.trans (SameHidden.of_env henv2)
              cases r2 with
              | error e =>
                simp at h; obtain ⟨rfl, rfl⟩ := h
                exact ⟨υ', rfl, hag2, hh1⟩
              | ok tv =>
                simp only at h ⊢
                by_cases htv : truthy tv = true
                · rw [if_pos htv] at h ⊢
                  obtain ⟨σ1', hx', hag1, hh⟩ := ihF _ _ _ _ _ _ _ _ hx (by simpa [CleanO] using hcex) hcb hag2 h
                  exact ⟨σ1', hx', hag1, hh1.trans hh⟩
                · rw [if_neg htv] at h ⊢
                  simp at h; obtain ⟨rfl, rfl⟩ := h
                  exact ⟨υ', rfl, hag2, hh1⟩
          rw [execFor_cons hb] at h
          rw [execFor_cons hxb]
          cases ob with
          | brk => simp at h; obtain ⟨rfl, rfl⟩ := h; exact ⟨τ', rfl, hagb, hh0⟩
          | normal => exact hcontinue h
          | cont => exact hcontinue h
          | ret v' => simp at h; obtain ⟨rfl, rfl⟩ := h; exact ⟨τ', rfl, hagb, hh0⟩
          | exc e' => simp at h; obtain ⟨rfl, rfl⟩ := h; exact ⟨τ', rfl, hagb, hh0⟩

theorem exec_agree (X : Ext) (G : Name → Prop) {n : Nat} {s : Stmt} {σ σ' σ1 : St} {o : Out}
    (hc : CleanS G s) (hag : Agree G σ σ') (h : exec X n s σ = some (o, σ1)) :
    ∃ σ1', exec X n s σ' = some (o, σ1') ∧ Agree G σ1 σ1' ∧ SameHidden G σ' σ1' :=
  (exec_agree_all X G n).1 s σ σ' o σ1 hc hag h

theorem execB_agree (X : Ext) (G : Name → Prop) {n : Nat} {b : Block} {σ σ' σ1 : St} {o : Out}
    (hc : CleanB G b) (hag : Agree G σ σ') (h : execB X n b σ = some (o, σ1)) :
    ∃ σ1', execB X n b σ' = some (o, σ1') ∧ Agree G σ1 σ1' ∧ SameHidden G σ' σ1' :=
  (exec_agree_all X G n).2.1 b σ σ' o σ1 hc hag h

/-! ### blocks -/

theorem execB_nil (X : Ext) (n : Nat) (σ : St) : execB X (n+1) [] σ = some (.normal, σ) := by
  simp [execB]

theorem execB_cons_inv {X : Ext} {n : Nat} {s : Stmt} {rest : Block} {σ : St} {r : Out × St}
    (h : execB X (n+1) (s :: rest) σ = some r) :
    ∃ os σs, exec X n s σ = some (os, σs) ∧
      ((os = .normal ∧ execB X n rest σs = some r) ∨ (os ≠ .normal ∧ r = (os, σs))) := by
  simp only [execB] at h
  cases hs : exec X n s σ with
  | none => simp [hs] at h
  | some rs =>
    obtain ⟨os, σs⟩ := rs
    rw [hs] at h
    refine ⟨os, σs, rfl, ?_⟩
    cases os <;> simp_all

theorem execB_cons_normal {X : Ext} {n : Nat} {s : Stmt} {rest : Block} {σ σs : St}
    (h : exec X n s σ = some (.normal, σs)) : execB X (n+1) (s :: rest) σ = execB X n rest σs := by
  simp [execB, h]

theorem execB_cons_abrupt {X : Ext} {n : Nat} {s : Stmt} {rest : Block} {σ σs : St} {os : Out}
    (h : exec X n s σ = some (os, σs)) (ho : os ≠ .normal) : execB X (n+1) (s :: rest) σ = some (os, σs) := by
  simp only [execB, h]
  cases os <;> simp_all

theorem execB_singleton {X : Ext} {n : Nat} {s : Stmt} {σ : St} {r : Out × St}
    (h : exec X n s σ = some r) : execB X (n+1) [s] σ = some r := by
  obtain ⟨o, τ⟩ := r
  cases n with
  | zero => simp [exec] at h
  | succ n =>
    by_cases ho : o = .normal
    · subst ho; rw [execB_cons_normal h, execB_nil]
    · exact execB_cons_abrupt h ho

theorem execB_append {X : Ext} {a b : Block} : ∀ {n m : Nat} {σ τ : St} {r : Out × St},
    execB X n a σ = some (.normal, τ) → execB X m b τ = some r → execB X (n + m) (a ++ b) σ = some r := by
  induction a with
  | nil =>
    intro n m σ τ r h1 h2
    cases n with
    | zero => simp [execB] at h1
    | succ n =>
      simp [execB] at h1; subst h1
      exact execB_mono X h2 (by omega)
  | cons s rest ih =>
    intro n m σ τ r h1 h2
    cases n with
    | zero => simp [execB] at h1
    | succ n =>
      obtain ⟨os, σs, hs, hcase⟩ := execB_cons_inv h1
      rcases hcase with ⟨hn, hr⟩ | ⟨hn, hr⟩
      · subst hn
        have : n + 1 + m = (n + m) + 1 := by omega
        rw [this, List.cons_append, execB_cons_normal (exec_mono X hs (by omega))]
        exact ih hr h2
      · simp at hr; exact absurd hr.1.symm hn

theorem execB_append_abrupt {X : Ext} {a : Block} (b : Block) : ∀ {n : Nat} {σ τ : St} {o : Out},
    execB X n a σ = some (o, τ) → o ≠ .normal → execB X n (a ++ b) σ = some (o, τ) := by
  induction a with
  | nil =>
    intro n σ τ o h1 ho
    cases n with
    | zero => simp [execB] at h1
    | succ n => simp [execB] at h1; exact absurd h1.1.symm ho
  | cons s rest ih =>
    intro n σ τ o h1 ho
    cases n with
    | zero => simp [execB] at h1
    | succ n =>
      obtain ⟨os, σs, hs, hcase⟩ := execB_cons_inv h1
      rcases hcase with ⟨hn, hr⟩ | ⟨hn, hr⟩
      · subst hn
        rw [List.cons_append, execB_cons_normal hs]
        exact ih hr ho
      · simp at hr; obtain ⟨rfl, rfl⟩ := hr
        rw [List.cons_append]; exact execB_cons_abrupt hs hn

/-! ### outcomes -/

/-- An exception no `except E<tag>` handler of the core language catches (NameError, TypeError). -/
def Out.fatal : Out → Prop
  | .exc (.nameError _) => True
  | .exc .typeError => True
  | _ => False

theorem findHandler_fatal {hs : List (Nat × Block)} {ex : Exc} (h : Out.fatal (.exc ex)) :
    findHandler hs ex = none := by
  cases ex <;> simp_all [Out.fatal, findHandler]

/-- A `while` never ends with `break`/`continue`. -/
theorem exec_while_out (X : Ext) : ∀ {n : Nat} {c : Expr} {b : Block} {σ σ1 : St} {o : Out},
    exec X n (.whileS c b) σ = some (o, σ1) → o ≠ .brk ∧ o ≠ .cont := by
  intro n
  induction n with
  | zero => intro c b σ σ1 o h; simp [exec] at h
  | succ n ih =>
    intro c b σ σ1 o h
    simp only [exec] at h
    split at h
    · split at h
      · simp at h; simp [← h.1]
      · split at h
        · simp at h
        · exact ih h
        · exact ih h
        · simp at h; simp [← h.1]
        · rename_i r h1 h2 h3 hb
          simp at h; subst h
          refine ⟨fun hb' => ?_, fun hc' => ?_⟩
          · exact h3 _ (by rw [hb'])
          · exact h2 _ (by rw [hc'])
    · simp at h; simp [← h.1]

/-- The iterations of a `for` never end with `break`/`continue`. -/
theorem execFor_out (X : Ext) : ∀ {n : Nat} {x : Name} {ex : Option Expr} {b : Block} {items : List Val}
    {σ σ1 : St} {o : Out},
    execFor X n x ex b items σ = some (o, σ1) → o ≠ .brk ∧ o ≠ .cont := by
  intro n
  induction n with
  | zero => intro x ex b items σ σ1 o h; simp [execFor] at h
  | succ n ih =>
    intro x ex b items σ σ1 o h
    cases items with
    | nil => simp [execFor] at h; simp [← h.1]
    | cons v items =>
      cases hb : execB X n b (σ.set x v) with
      | none => rw [execFor_cons_none hb] at h; simp at h
      | some rb =>
        obtain ⟨ob, τ⟩ := rb
        rw [execFor_cons hb] at h
        have hnext : forNext X n x ex b items τ = some (o, σ1) → o ≠ .brk ∧ o ≠ .cont := by
          intro h
          cases ex with
          | none => exact ih h
          | some t =>
            simp only [forNext] at h
            split at h
            · split at h
              · exact ih h
              · simp at h; simp [← h.1]
            · simp at h; simp [← h.1]
        cases ob with
        | brk => simp at h; simp [← h.1]
        | normal => exact hnext h
        | cont => exact hnext h
        | ret v' => simp at h; simp [← h.1]
        | exc e' => simp at h; simp [← h.1]

theorem exec_for_out (X : Ext) {n : Nat} {x : Name} {it : Expr} {ex : Option Expr} {b : Block} {σ σ1 : St} {o : Out}
    (h : exec X n (.forS x it ex b) σ = some (o, σ1)) : o ≠ .brk ∧ o ≠ .cont := by
  cases n with
  | zero => simp [exec] at h
  | succ n =>
    simp only [exec] at h
    split at h
    · split at h
      · split at h
        · exact execFor_out X h
        · split at h
          · split at h
            · exact execFor_out X h
            · simp at h; simp [← h.1]
          · simp at h; simp [← h.1]
      · simp at h; simp [← h.1]
    · simp at h; simp [← h.1]

/-! ### one step of a `while` loop -/

theorem exec_while_err {X : Ext} {n : Nat} {c : Expr} {b : Block} {σ τ : St} {ex : Exc}
    (hc : evalE X c σ = (.error ex, τ)) : exec X (n+1) (.whileS c b) σ = some (.exc ex, τ) := by
  simp [exec, hc]

theorem exec_while_false {X : Ext} {n : Nat} {c : Expr} {b : Block} {σ τ : St} {v : Val}
    (hc : evalE X c σ = (.ok v, τ)) (hv : truthy v = false) : exec X (n+1) (.whileS c b) σ = some (.normal, τ) := by
  simp [exec, hc, hv]

theorem exec_while_step {X : Ext} {n : Nat} {c : Expr} {b : Block} {σ τ τ1 : St} {v : Val} {ob : Out}
    (hc : evalE X c σ = (.ok v, τ)) (hv : truthy v = true) (hb : execB X n b τ = some (ob, τ1)) :
    exec X (n+1) (.whileS c b) σ =
      (match ob with
       | .normal => exec X n (.whileS c b) τ1
       | .cont => exec X n (.whileS c b) τ1
       | .brk => some (.normal, τ1)
       | o => some (o, τ1)) := by
  simp only [exec, hc, hv, Bool.not_true, Bool.false_eq_true, if_false, hb]
  cases ob <;> rfl

theorem exec_while_none {X : Ext} {n : Nat} {c : Expr} {b : Block} {σ τ : St} {v : Val}
    (hc : evalE X c σ = (.ok v, τ)) (hv : truthy v = true) (hb : execB X n b τ = none) :
    exec X (n+1) (.whileS c b) σ = none := by
  simp only [exec, hc, hv, Bool.not_true, Bool.false_eq_true, if_false, hb]

/-! ### assembling a `try` -/

theorem afterH_mono (X : Ext) {n m : Nat} {hs : List (Nat × Block)} {r r' : Out × St}
    (h : afterH X n hs r = some r') (hm : n ≤ m) : afterH X m hs r = some r' := by
  obtain ⟨o, σ⟩ := r
  cases o with
  | exc ex =>
    simp only [afterH] at h ⊢
    split at h
    · exact execB_mono X h hm
    · exact h
  | _ => simpa [afterH] using h

theorem finish_mono (X : Ext) {n m : Nat} {fin : Block} {r r' : Out × St}
    (h : finish X n fin r = some r') (hm : n ≤ m) : finish X m fin r = some r' := by
  obtain ⟨o, σ⟩ := r
  obtain ⟨of, σf, hf, hcase⟩ := finish_some h
  have hf' := execB_mono X hf hm
  rcases hcase with ⟨hn, rfl⟩ | ⟨hn, rfl⟩
  · subst hn; exact finish_of_normal hf'
  · exact finish_of_abrupt hf' hn

theorem exec_try_of (X : Ext) {m1 m2 m3 : Nat} {body : Block} {hs : List (Nat × Block)} {fin : Block}
    {σ : St} {r1 r2 r3 : Out × St}
    (h1 : execB X m1 body σ = some r1) (h2 : afterH X m2 hs r1 = some r2) (h3 : finish X m3 fin r2 = some r3) :
    exec X (max m1 (max m2 m3) + 1) (.tryS body hs fin) σ = some r3 := by
  rw [exec_try, execB_mono X h1 (Nat.le_max_left _ _)]
  simp only [Option.bind_some]
  rw [afterH_mono X h2 (Nat.le_trans (Nat.le_max_left _ _) (Nat.le_max_right _ _))]
  simp only [Option.bind_some]
  exact finish_mono X h3 (Nat.le_trans (Nat.le_max_right _ _) (Nat.le_max_right _ _))

theorem exec_try_inv {X : Ext} {n : Nat} {body : Block} {hs : List (Nat × Block)} {fin : Block}
    {σ : St} {r3 : Out × St} (h : exec X (n+1) (.tryS body hs fin) σ = some r3) :
    ∃ r1 r2, execB X n body σ = some r1 ∧ afterH X n hs r1 = some r2 ∧ finish X n fin r2 = some r3 := by
  rw [exec_try] at h
  cases hb : execB X n body σ with
  | none => simp [hb] at h
  | some r1 =>
    rw [hb] at h; simp only [Option.bind_some] at h
    cases ha : afterH X n hs r1 with
    | none => simp [ha] at h
    | some r2 =>
      rw [ha] at h; simp only [Option.bind_some] at h
      exact ⟨r1, r2, rfl, ha, h⟩

theorem forNext_mono (X : Ext) {n m : Nat} {x : Name} {ex : Option Expr} {b : Block} {items : List Val}
    {σ : St} {r : Out × St} (h : forNext X n x ex b items σ = some r) (hm : n ≤ m) :
    forNext X m x ex b items σ = some r := by
  cases ex with
  | none => exact execFor_mono X h hm
  | some t =>
    simp only [forNext] at h ⊢
    split at h
    · split at h
      · rw [if_pos (by assumption)]; exact execFor_mono X h hm
      · rw [if_neg (by assumption)]; exact h
    · exact h

/-- A `for` statement: evaluate the iterable, then behave like `forNext` on all its items. -/
theorem exec_for_eq (X : Ext) (n : Nat) (x : Name) (it : Expr) (ex : Option Expr) (b : Block) (σ : St) :
    exec X (n+1) (.forS x it ex b) σ =
      (match evalE X it σ with
       | (.ok v, σ') => (match iterItems v with
           | .ok items => forNext X n x ex b items σ'
           | .error e => some (.exc e, σ'))
       | (.error e, σ') => some (.exc e, σ')) := by
  simp only [exec, forNext]
  rcases evalE X it σ with ⟨r, σ'⟩
  cases r with
  | error e => rfl
  | ok v =>
    simp only
    cases iterItems v with
    | error e => rfl
    | ok items => cases ex <;> rfl

end Malt.Sem
