/-
`Malt.Sem` — the core semantic language shared by the semantic-preservation proofs (C01, C02, C18):
a structured, Python-like statement language with **list blocks** (the converters' guard logic moves
"the rest of the block"), lazy boolean operators, external calls that append to an effect log, loops with
break/continue, `for` with the optional EXTRA_LOOP_TEST of the between-pass language, return, explicit
raise, try/except/finally and `with`.  Import-free, executable, total (fuel-indexed).

Observable of a run: outcome (normal / return value / escaping exception) + effect log (+ final env for
the variables a theorem chooses to compare).

Python facts built in (each validated differentially against CPython by the harness, not proved):
* expressions evaluate left to right; `and`/`or`/`if-else` are lazy; truthiness of ints: ≠ 0;
* reading an unbound name raises NameError (a terminal, uncatchable-by-`except tag` outcome here);
* `for x in it` evaluates `it` once; with an extra test `t`: `t` is evaluated before the first iteration
  and after every iteration (as `_py_for_stmt` does), the loop ends when it is false;
* `break` ends the innermost loop, `continue` goes to its next iteration (for `for`: after re-testing `t`);
* `try/finally`: the finally block runs on every exit of the body/handlers (normal, break, continue, return,
  exception); an outcome of the finally block other than `normal` replaces the pending one;
* `with tag`: logs enter, runs the body, logs exit on every outcome.
-/
namespace Malt.Sem

abbrev Name := String

inductive Val where
  | int (n : Int)
  | list (xs : List Int)
  | none
  deriving Repr, DecidableEq, Inhabited

inductive BinOp where
  | add | sub | mul | lt | le | eq | ne
  deriving Repr, DecidableEq

inductive Expr where
  | const (v : Val)
  | var (x : Name)
  | not (e : Expr)
  | and (a b : Expr)                 -- lazy
  | or (a b : Expr)                  -- lazy
  | ite (c t e : Expr)               -- conditional expression, lazy
  | bin (op : BinOp) (a b : Expr)
  | call (f : Name) (args : List Expr)   -- external call: logged with its argument values
  deriving Repr, Inhabited

inductive Exc where
  | nameError (x : Name)            -- includes UnboundLocalError
  | typeError
  | user (tag : Nat)                -- explicit `raise E<tag>(…)`
  deriving Repr, DecidableEq

inductive Stmt where
  | assign (x : Name) (e : Expr)
  | expr (e : Expr)
  | ifS (c : Expr) (t e : List Stmt)
  | whileS (c : Expr) (b : List Stmt)
  | forS (x : Name) (it : Expr) (extra : Option Expr) (b : List Stmt)
  | brk
  | cont
  | ret (e : Option Expr)
  | raise (tag : Nat)
  | pass
  | tryS (body : List Stmt) (handlers : List (Nat × List Stmt)) (fin : List Stmt)
  | withS (tag : Int) (body : List Stmt)
  deriving Repr, Inhabited

abbrev Block := List Stmt

/-- One logged external event. -/
inductive Event where
  | call (f : Name) (args : List Val)
  | enter (tag : Int)
  | exit (tag : Int)
  deriving Repr, DecidableEq

structure St where
  env : Name → Option Val
  log : List Event

def St.set (σ : St) (x : Name) (v : Val) : St :=
  { σ with env := fun y => if y = x then some v else σ.env y }

def St.push (σ : St) (e : Event) : St := { σ with log := σ.log ++ [e] }

/-- External-function oracle: arbitrary but fixed; may depend on the callee, the argument values and
the effect log so far. -/
structure Ext where
  f : Name → List Val → List Event → Val

def truthy : Val → Bool
  | .int n => n != 0
  | .list xs => !xs.isEmpty
  | .none => false

def ofBool (b : Bool) : Val := .int (if b then 1 else 0)

def evalBin : BinOp → Val → Val → Except Exc Val
  | .add, .int a, .int b => .ok (.int (a + b))
  | .sub, .int a, .int b => .ok (.int (a - b))
  | .mul, .int a, .int b => .ok (.int (a * b))
  | .lt, .int a, .int b => .ok (ofBool (a < b))
  | .le, .int a, .int b => .ok (ofBool (a ≤ b))
  | .eq, a, b => .ok (ofBool (a == b))
  | .ne, a, b => .ok (ofBool (a != b))
  | .add, .list a, .list b => .ok (.list (a ++ b))
  | _, _, _ => .error .typeError

mutual
def evalE (X : Ext) : Expr → St → Except Exc Val × St
  | .const v, σ => (.ok v, σ)
  | .var x, σ => match σ.env x with
      | some v => (.ok v, σ)
      | none => (.error (.nameError x), σ)
  | .not e, σ => match evalE X e σ with
      | (.ok v, σ') => (.ok (ofBool (!truthy v)), σ')
      | r => r
  | .and a b, σ => match evalE X a σ with
      | (.ok v, σ') => if truthy v then evalE X b σ' else (.ok v, σ')
      | r => r
  | .or a b, σ => match evalE X a σ with
      | (.ok v, σ') => if truthy v then (.ok v, σ') else evalE X b σ'
      | r => r
  | .ite c t e, σ => match evalE X c σ with
      | (.ok v, σ') => if truthy v then evalE X t σ' else evalE X e σ'
      | r => r
  | .bin op a b, σ => match evalE X a σ with
      | (.ok v, σ') => (match evalE X b σ' with
          | (.ok w, σ'') => (match evalBin op v w with
              | .ok r => (.ok r, σ'')
              | .error ex => (.error ex, σ''))
          | r => r)
      | r => r
  | .call f args, σ => match evalArgs X args σ with
      | (.ok vs, σ') => (.ok (X.f f vs σ'.log), σ'.push (.call f vs))
      | (.error ex, σ') => (.error ex, σ')
def evalArgs (X : Ext) : List Expr → St → Except Exc (List Val) × St
  | [], σ => (.ok [], σ)
  | e :: es, σ => match evalE X e σ with
      | (.ok v, σ') => (match evalArgs X es σ' with
          | (.ok vs, σ'') => (.ok (v :: vs), σ'')
          | (.error ex, σ'') => (.error ex, σ''))
      | (.error ex, σ') => (.error ex, σ')
end

inductive Out where
  | normal | brk | cont
  | ret (v : Val)
  | exc (e : Exc)
  deriving Repr, DecidableEq

/-- The items a `for` iterates over. -/
def iterItems : Val → Except Exc (List Val)
  | .list xs => .ok (xs.map .int)
  | .int n => .ok ((List.range n.toNat).map fun k => .int (Int.ofNat k))      -- `range(n)`
  | .none => .error .typeError

/-- Does `except E<tag>` among the handlers catch this exception? (first match) -/
def findHandler (hs : List (Nat × Block)) : Exc → Option Block
  | .user t => (hs.find? (fun h => h.1 == t)).map (·.2)
  | _ => none

mutual
/-- Fuel-indexed big-step execution; `none` = out of fuel. -/
def exec (X : Ext) : Nat → Stmt → St → Option (Out × St)
  | 0, _, _ => none
  | n+1, s, σ =>
    match s with
    | .assign x e => (match evalE X e σ with
        | (.ok v, σ') => some (.normal, σ'.set x v)
        | (.error ex, σ') => some (.exc ex, σ'))
    | .expr e => (match evalE X e σ with
        | (.ok _, σ') => some (.normal, σ')
        | (.error ex, σ') => some (.exc ex, σ'))
    | .ifS c t e => (match evalE X c σ with
        | (.ok v, σ') => if truthy v then execB X n t σ' else execB X n e σ'
        | (.error ex, σ') => some (.exc ex, σ'))
    | .whileS c b => (match evalE X c σ with
        | (.ok v, σ') =>
          if !truthy v then some (.normal, σ') else
            (match execB X n b σ' with
             | none => none
             | some (.normal, σ'') => exec X n (.whileS c b) σ''
             | some (.cont, σ'') => exec X n (.whileS c b) σ''
             | some (.brk, σ'') => some (.normal, σ'')
             | some r => some r)
        | (.error ex, σ') => some (.exc ex, σ'))
    | .forS x it extra b => (match evalE X it σ with
        | (.ok v, σ') => (match iterItems v with
            | .ok items => (match extra with
                | none => execFor X n x none b items σ'
                | some t => (match evalE X t σ' with          -- extra test before the first iteration
                    | (.ok tv, σ'') => if truthy tv then execFor X n x (some t) b items σ'' else some (.normal, σ'')
                    | (.error ex, σ'') => some (.exc ex, σ'')))
            | .error ex => some (.exc ex, σ'))
        | (.error ex, σ') => some (.exc ex, σ'))
    | .brk => some (.brk, σ)
    | .cont => some (.cont, σ)
    | .ret none => some (.ret .none, σ)
    | .ret (some e) => (match evalE X e σ with
        | (.ok v, σ') => some (.ret v, σ')
        | (.error ex, σ') => some (.exc ex, σ'))
    | .raise t => some (.exc (.user t), σ)
    | .pass => some (.normal, σ)
    | .tryS body hs fin =>
        (match execB X n body σ with
         | none => none
         | some (o, σ') =>
           -- handler, if the body raised something a handler catches
           let afterH : Option (Out × St) := match o with
             | .exc ex => (match findHandler hs ex with
                 | some hb => execB X n hb σ'
                 | none => some (o, σ'))
             | _ => some (o, σ')
           match afterH with
           | none => none
           | some (o', σ'') =>
             (match execB X n fin σ'' with
              | none => none
              | some (.normal, σ₃) => some (o', σ₃)
              | some r => some r))
    | .withS tag body =>
        (match execB X n body (σ.push (.enter tag)) with
         | none => none
         | some (o, σ') => some (o, σ'.push (.exit tag)))
/-- Blocks: stop at the first non-normal outcome. -/
def execB (X : Ext) : Nat → Block → St → Option (Out × St)
  | 0, _, _ => none
  | _+1, [], σ => some (.normal, σ)
  | n+1, s :: rest, σ => (match exec X n s σ with
      | none => none
      | some (.normal, σ') => execB X n rest σ'
      | some r => some r)
/-- The iterations of a `for` over the remaining items. With an extra test, it is re-evaluated after
every iteration (including after `continue`). -/
def execFor (X : Ext) : Nat → Name → Option Expr → Block → List Val → St → Option (Out × St)
  | 0, _, _, _, _, _ => none
  | _+1, _, _, _, [], σ => some (.normal, σ)
  | n+1, x, extra, b, v :: items, σ =>
      (match execB X n b (σ.set x v) with
       | none => none
       | some (.brk, σ') => some (.normal, σ')
       | some (o, σ') =>
         if o == .normal || o == .cont then
           (match extra with
            | none => execFor X n x extra b items σ'
            | some t => (match evalE X t σ' with
                | (.ok tv, σ'') => if truthy tv then execFor X n x extra b items σ'' else some (.normal, σ'')
                | (.error ex, σ'') => some (.exc ex, σ'')))
         else some (o, σ'))
end

/-- What an observer of a function call sees. -/
structure Obs where
  out : Out
  log : List Event
  deriving Repr, DecidableEq

def observe (r : Out × St) : Obs := ⟨r.1, r.2.log⟩

end Malt.Sem
