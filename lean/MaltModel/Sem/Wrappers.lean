import MaltModel.Sem.Core
/-
`Malt.SemW` — `Malt.Sem` expressions extended with (a) the two source forms the expression converters
care about and `Sem.Expr` lacks (comparison chains `a < b <= c`, starred call arguments `f(a, *b, c)`) and
(b) the wrapper forms of the generated code, with their meaning under the DEFAULT operators
(`malt/operators/{logical,conditional_expressions,variables}.py`) and a NON-CONVERTING call policy
(`converted_call(f, args, None, scope)` calls `f(*args)`):

  ld(x)                                  ag__.ld(x)            the value of x (Undefined ≙ unbound: NameError)
  not_(e)                                ag__.not_(e)          `not a`
  and_(a, b) / or_(a, b)                 ag__.and_(lambda: a, lambda: b):   `a_val = a(); return a_val and b()`
  ifExp(c, t, e)                         ag__.if_exp(c, lambda: t, lambda: e, repr):  `if_true() if cond else if_false()`
  eq_(a, b) / notEq_(a, b)               ag__.eq(a, b) = `a == b`;  ag__.not_eq(a, b) = `not_(eq(a, b))`
  convCall(f, pack)                      ag__.converted_call(f, <pack>, None, scope)
  pack ::= (e1, …, en) | tuple(e) | pack + pack        the argument tuple built by `_ArgTemplateBuilder`

`wrap` is the composition of the expression passes on this language (call_trees, conditional_expressions,
logical_expressions, variables), mirroring the Lean models `Conv.CallTrees.argSpec/addAll`,
`Conv.Logical.foldBool/chain` (binary `and`/`or` here; n-ary BoolOps nest to the right, which is how
`Sem.Expr` already represents them).  In particular `wrapChain` DUPLICATES the middle operands of a
comparison chain exactly like `visit_Compare` does.
-/
namespace Malt.SemW
open Malt.Sem (Name Val BinOp Exc Event St Ext truthy ofBool evalBin)

mutual
inductive Expr where
  | const (v : Val)
  | var (x : Name)
  | not (e : Expr)
  | and (a b : Expr)
  | or (a b : Expr)
  | ite (c t e : Expr)
  | bin (op : BinOp) (a b : Expr)
  | chain (first : Expr) (ops : List BinOp) (rest : List Expr)     -- first op1 r1 op2 r2 …
  | call (f : Name) (args : List Expr)                              -- elements may be `.star e`
  | star (e : Expr)                                                 -- `*e` (only meaningful as a call argument)
  -- generated forms
  | ld (x : Name)
  | not_ (e : Expr)
  | and_ (a b : Expr)
  | or_ (a b : Expr)
  | ifExp (c t e : Expr)
  | eq_ (a b : Expr)
  | notEq_ (a b : Expr)
  | convCall (f : Name) (pack : Pack)
inductive Pack where
  | tup (es : List Expr)
  | tupleOf (e : Expr)
  | add (p q : Pack)
end

/-- the items of a starred argument / of `tuple(v)` -/
def splice : Val → Except Exc (List Val)
  | .list xs => .ok (xs.map .int)
  | _ => .error .typeError

mutual
def evalW (X : Ext) : Expr → St → Except Exc Val × St
  | .const v, σ => (.ok v, σ)
  | .var x, σ => (match σ.env x with
      | some v => (.ok v, σ)
      | none => (.error (.nameError x), σ))
  | .ld x, σ => (match σ.env x with           -- the Name is read, then `ld` returns it (or raises for Undefined)
      | some v => (.ok v, σ)
      | none => (.error (.nameError x), σ))
  | .not e, σ => (match evalW X e σ with
      | (.ok v, σ') => (.ok (ofBool (!truthy v)), σ')
      | r => r)
  | .not_ e, σ => (match evalW X e σ with
      | (.ok v, σ') => (.ok (ofBool (!truthy v)), σ')
      | r => r)
  | .and a b, σ => (match evalW X a σ with
      | (.ok v, σ') => if truthy v then evalW X b σ' else (.ok v, σ')
      | r => r)
  | .and_ a b, σ => (match evalW X a σ with     -- a_val = a(); return a_val and b()
      | (.ok v, σ') => if truthy v then evalW X b σ' else (.ok v, σ')
      | r => r)
  | .or a b, σ => (match evalW X a σ with
      | (.ok v, σ') => if truthy v then (.ok v, σ') else evalW X b σ'
      | r => r)
  | .or_ a b, σ => (match evalW X a σ with
      | (.ok v, σ') => if truthy v then (.ok v, σ') else evalW X b σ'
      | r => r)
  | .ite c t e, σ => (match evalW X c σ with
      | (.ok v, σ') => if truthy v then evalW X t σ' else evalW X e σ'
      | r => r)
  | .ifExp c t e, σ => (match evalW X c σ with  -- cond evaluated by the caller, then if_true() / if_false()
      | (.ok v, σ') => if truthy v then evalW X t σ' else evalW X e σ'
      | r => r)
  | .bin op a b, σ => (match evalW X a σ with
      | (.ok v, σ') => (match evalW X b σ' with
          | (.ok w, σ'') => (match evalBin op v w with
              | .ok r => (.ok r, σ'')
              | .error ex => (.error ex, σ''))
          | r => r)
      | r => r)
  | .eq_ a b, σ => (match evalW X a σ with
      | (.ok v, σ') => (match evalW X b σ' with
          | (.ok w, σ'') => (.ok (ofBool (v == w)), σ'')
          | r => r)
      | r => r)
  | .notEq_ a b, σ => (match evalW X a σ with
      | (.ok v, σ') => (match evalW X b σ' with
          | (.ok w, σ'') => (.ok (ofBool (!truthy (ofBool (v == w)))), σ'')     -- not_(eq(a, b))
          | r => r)
      | r => r)
  | .chain first ops rest, σ => (match evalW X first σ with
      | (.ok v, σ') => evalChain X v ops rest σ'
      | r => r)
  | .call f args, σ => (match evalArgs X args σ with
      | (.ok vs, σ') => (.ok (X.f f vs σ'.log), σ'.push (.call f vs))
      | (.error ex, σ') => (.error ex, σ'))
  | .convCall f pack, σ => (match evalPack X pack σ with
      | (.ok vs, σ') => (.ok (X.f f vs σ'.log), σ'.push (.call f vs))
      | (.error ex, σ') => (.error ex, σ'))
  | .star _, σ => (.error .typeError, σ)
/-- Python's chained comparison: every operand evaluated at most once, left to right, stops at the first
false comparison. `prev` is the value of the previous operand. -/
def evalChain (X : Ext) (prev : Val) : List BinOp → List Expr → St → Except Exc Val × St
  | op :: ops, e :: es, σ => (match evalW X e σ with
      | (.ok w, σ') => (match evalBin op prev w with
          | .ok r => (match ops, es with
              | [], _ => (.ok r, σ')
              | _, [] => (.ok r, σ')
              | _ :: _, _ :: _ => if truthy r then evalChain X w ops es σ' else (.ok r, σ'))
          | .error ex => (.error ex, σ'))
      | r => r)
  | _, _, σ => (.ok prev, σ)
/-- call arguments, left to right; `*e` splices the items of a list. -/
def evalArgs (X : Ext) : List Expr → St → Except Exc (List Val) × St
  | [], σ => (.ok [], σ)
  | .star e :: es, σ => (match evalW X e σ with
      | (.ok v, σ') => (match splice v with
          | .ok items => (match evalArgs X es σ' with
              | (.ok vs, σ'') => (.ok (items ++ vs), σ'')
              | r => r)
          | .error ex => (.error ex, σ'))
      | (.error ex, σ') => (.error ex, σ'))
  | e :: es, σ => (match evalW X e σ with
      | (.ok v, σ') => (match evalArgs X es σ' with
          | (.ok vs, σ'') => (.ok (v :: vs), σ'')
          | r => r)
      | (.error ex, σ') => (.error ex, σ'))
/-- the argument tuple of `converted_call` -/
def evalPack (X : Ext) : Pack → St → Except Exc (List Val) × St
  | .tup es, σ => evalTup X es σ
  | .tupleOf e, σ => (match evalW X e σ with
      | (.ok v, σ') => (match splice v with
          | .ok items => (.ok items, σ')
          | .error ex => (.error ex, σ'))
      | (.error ex, σ') => (.error ex, σ'))
  | .add p q, σ => (match evalPack X p σ with
      | (.ok vs, σ') => (match evalPack X q σ' with
          | (.ok ws, σ'') => (.ok (vs ++ ws), σ'')
          | r => r)
      | r => r)
/-- a tuple display `(e1, …, en)` -/
def evalTup (X : Ext) : List Expr → St → Except Exc (List Val) × St
  | [], σ => (.ok [], σ)
  | e :: es, σ => (match evalW X e σ with
      | (.ok v, σ') => (match evalTup X es σ' with
          | (.ok vs, σ'') => (.ok (v :: vs), σ'')
          | r => r)
      | (.error ex, σ') => (.error ex, σ'))
end

/-! ### the converters on this language -/

/-- `_process_binop` -/
def cmp (eqOn : Bool) (op : BinOp) (l r : Expr) : Expr :=
  if eqOn && op == .eq then .eq_ l r else if eqOn && op == .ne then .notEq_ l r else .bin op l r

/-- the loop of `visit_Compare` (operands already converted): `left` is re-used as written. -/
def wrapChain (eqOn : Bool) (acc : Option Expr) (left : Expr) : List BinOp → List Expr → Option Expr
  | op :: ops, r :: rs =>
      let b := cmp eqOn op left r
      let acc' := match acc with
        | none => b
        | some t => .and_ t b
      wrapChain eqOn (some acc') r ops rs
  | _, _ => acc

/-- `_ArgTemplateBuilder`: `acc` = pending plain arguments, `spec` = finished pieces. -/
def consume (acc : List Expr) (spec : List Pack) : List Pack := if acc.isEmpty then spec else spec ++ [.tup acc]

def argSpec (acc : List Expr) (spec : List Pack) : List Expr → List Pack
  | [] => consume acc spec
  | .star e :: rest => argSpec [] (consume acc spec ++ [.tupleOf e]) rest
  | a :: rest => argSpec (acc ++ [a]) spec rest

def addAll (r : Pack) : List Pack → Pack
  | [] => r
  | x :: xs => addAll (.add r x) xs

/-- the result of `visit_Compare`; without any comparison (not produced by the parser) the operand is kept -/
def chainResult (first : Expr) : Option Expr → Expr
  | some t => t
  | none => .chain first [] []

def packOf (args : List Expr) : Pack :=
  match argSpec [] [] args with
  | [] => .tup []
  | x :: xs => addAll x xs

mutual
/-- call_trees ∘ conditional_expressions ∘ logical_expressions ∘ variables on source expressions;
generated forms are left alone. -/
def wrap (eqOn : Bool) : Expr → Expr
  | .const v => .const v
  | .var x => .ld x
  | .not e => .not_ (wrap eqOn e)
  | .and a b => .and_ (wrap eqOn a) (wrap eqOn b)
  | .or a b => .or_ (wrap eqOn a) (wrap eqOn b)
  | .ite c t e => .ifExp (wrap eqOn c) (wrap eqOn t) (wrap eqOn e)
  | .bin op a b => cmp eqOn op (wrap eqOn a) (wrap eqOn b)
  | .chain first ops rest =>
      chainResult (wrap eqOn first) (wrapChain eqOn none (wrap eqOn first) ops (wrapL eqOn rest))
  | .call f args => .convCall f (packOf (wrapL eqOn args))
  | .star e => .star (wrap eqOn e)
  | e => e
def wrapL (eqOn : Bool) : List Expr → List Expr
  | [] => []
  | e :: es => wrap eqOn e :: wrapL eqOn es
end

mutual
/-- no (converted or native) call inside: evaluation cannot touch the state -/
def pureE : Expr → Bool
  | .const _ => true
  | .var _ => true
  | .ld _ => true
  | .not e => pureE e
  | .not_ e => pureE e
  | .and a b => pureE a && pureE b
  | .and_ a b => pureE a && pureE b
  | .or a b => pureE a && pureE b
  | .or_ a b => pureE a && pureE b
  | .ite c t e => pureE c && pureE t && pureE e
  | .ifExp c t e => pureE c && pureE t && pureE e
  | .bin _ a b => pureE a && pureE b
  | .eq_ a b => pureE a && pureE b
  | .notEq_ a b => pureE a && pureE b
  | .chain f _ rest => pureE f && pureL rest
  | .star e => pureE e
  | .call _ _ => false
  | .convCall _ _ => false
def pureL : List Expr → Bool
  | [] => true
  | e :: es => pureE e && pureL es
end

/-- all operands except the last -/
def middles : List Expr → List Expr
  | [] => []
  | [_] => []
  | e :: es => e :: middles es

mutual
/-- Hypothesis of `expr_wrappers_correct_partial`; its negation is the C01 finding class
`chained_comparison_effectful_middle_operand`: every comparison chain with ≥ 2 operators has call-free
middle operands. -/
def chainsOk : Expr → Bool
  | .chain f _ rest => chainsOk f && chainsOkL rest && pureL (middles rest)
  | .not e => chainsOk e
  | .and a b => chainsOk a && chainsOk b
  | .or a b => chainsOk a && chainsOk b
  | .ite c t e => chainsOk c && chainsOk t && chainsOk e
  | .bin _ a b => chainsOk a && chainsOk b
  | .call _ args => chainsOkL args
  | .star e => chainsOk e
  | _ => true
def chainsOkL : List Expr → Bool
  | [] => true
  | e :: es => chainsOk e && chainsOkL es
end

/-! ### `Malt.Sem` expressions: the fragment without comparison chains and starred arguments -/
mutual
def ofSem : Malt.Sem.Expr → Expr
  | .const v => .const v
  | .var x => .var x
  | .not e => .not (ofSem e)
  | .and a b => .and (ofSem a) (ofSem b)
  | .or a b => .or (ofSem a) (ofSem b)
  | .ite c t e => .ite (ofSem c) (ofSem t) (ofSem e)
  | .bin op a b => .bin op (ofSem a) (ofSem b)
  | .call f args => .call f (ofSemL args)
def ofSemL : List Malt.Sem.Expr → List Expr
  | [] => []
  | e :: es => ofSem e :: ofSemL es
end


end Malt.SemW
