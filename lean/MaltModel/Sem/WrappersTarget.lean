import MaltModel.Func.Target
import MaltModel.Sem.WrappersStmt
/-
The functionalised target language (`Malt.Func.TStmt`, `Func/Target.lean`) over an arbitrary expression type
`ε`: `GTStmt ε`, with the native semantics `gexecN evT mk` = `Malt.Func.execN` word for word, `evalT X` replaced
by `evT` and the constant expression of the generated `x = itr` binding of a `for` body by `mk v`
(`execN_eq_gexecN`, Proofs/C01ExprsTarget.lean).  Scoping (`mask`/`restore`/`withFrame`, `localsOf`) is that of
`Malt.Func` — it depends on the statement structure only, not on the expressions.

`TStmtW := GTStmt SemW.Expr` with `execNW X := gexecN (evalTW X) .const` is the generated code AFTER the
expression passes (wrapper forms, default operators); `wrapT` converts every expression of a `TStmt`.
-/
namespace Malt.SemW
open Malt.Sem (Name Val Exc Event St Ext Out truthy iterItems)
open Malt.Func (TSt Slot mask restore withFrame fnOut)

inductive GTStmt (ε : Type) where
  | assign (x : Name) (e : ε)
  | expr (e : ε)
  | pass
  | ret (e : Option ε)
  | raise (tag : Nat)
  | undefAssign (x : Name)
  | ifF (c : ε) (body orelse : List (GTStmt ε)) (declared : List Name) (nouts : Nat)
  | whileF (c : ε) (body : List (GTStmt ε)) (declared : List Name)
  | forF (x : Name) (it : ε) (extra : Option ε) (body : List (GTStmt ε)) (declared : List Name)
  | withT (tag : Int) (body : List (GTStmt ε))
  | tryT (body : List (GTStmt ε)) (handlers : List (Nat × List (GTStmt ε))) (fin : List (GTStmt ε))

abbrev GTBlock (ε : Type) := List (GTStmt ε)

def gfindHandlerT {ε : Type} (hs : List (Nat × GTBlock ε)) : Exc → Option (GTBlock ε)
  | .user t => (hs.find? (fun h => h.1 == t)).map (·.2)
  | _ => none

mutual
def gdirectS {ε : Type} : GTStmt ε → List Name
  | .assign x _ => [x]
  | .undefAssign x => [x]
  | .withT _ b => gdirect b
  | .tryT b hs f => gdirect b ++ (gdirectH hs ++ gdirect f)
  | _ => []
def gdirect {ε : Type} : List (GTStmt ε) → List Name
  | [] => []
  | s :: rest => gdirectS s ++ gdirect rest
def gdirectH {ε : Type} : List (Nat × List (GTStmt ε)) → List Name
  | [] => []
  | (_, b) :: rest => gdirect b ++ gdirectH rest
end

def glocalsOf {ε : Type} (body : GTBlock ε) (declared : List Name) : List Name :=
  (gdirect body).filter (fun x => !declared.contains x)

def glocalsFor {ε : Type} (x : Name) (body : GTBlock ε) (declared : List Name) : List Name :=
  (x :: gdirect body).filter (fun y => !declared.contains y)

section
variable {ε : Type} (evT : ε → TSt → Except Exc Val × TSt) (mk : Val → ε)

mutual
def gexecN : Nat → GTStmt ε → TSt → Option (Out × TSt)
  | 0, _, _ => none
  | n+1, s, σ =>
    match s with
    | .assign x e => (match evT e σ with
        | (.ok v, σ') => some (.normal, σ'.set x v)
        | (.error ex, σ') => some (.exc ex, σ'))
    | .expr e => (match evT e σ with
        | (.ok _, σ') => some (.normal, σ')
        | (.error ex, σ') => some (.exc ex, σ'))
    | .pass => some (.normal, σ)
    | .ret none => some (.ret .none, σ)
    | .ret (some e) => (match evT e σ with
        | (.ok v, σ') => some (.ret v, σ')
        | (.error ex, σ') => some (.exc ex, σ'))
    | .raise t => some (.exc (.user t), σ)
    | .undefAssign x => some (.normal, σ.setSlot x .undef)
    | .ifF c body orelse decl _ => (match evT c σ with
        | (.ok v, σ') =>
          if truthy v then withFrame (glocalsOf body decl) σ' (gexecNB n body (mask (glocalsOf body decl) σ'))
          else withFrame (glocalsOf orelse decl) σ' (gexecNB n orelse (mask (glocalsOf orelse decl) σ'))
        | (.error ex, σ') => some (.exc ex, σ'))
    | .whileF c body decl => (match evT c σ with
        | (.ok v, σ') =>
          if !truthy v then some (.normal, σ') else
            (match withFrame (glocalsOf body decl) σ' (gexecNB n body (mask (glocalsOf body decl) σ')) with
             | none => none
             | some (.normal, σ'') => gexecN n (.whileF c body decl) σ''
             | some r => some r)
        | (.error ex, σ') => some (.exc ex, σ'))
    | .forF x it extra body decl => (match evT it σ with
        | (.ok v, σ') => (match iterItems v with
            | .ok items => (match extra with
                | none => gexecNFor n x none body decl items σ'
                | some t => (match evT t σ' with
                    | (.ok tv, σ'') => if truthy tv then gexecNFor n x (some t) body decl items σ'' else some (.normal, σ'')
                    | (.error ex, σ'') => some (.exc ex, σ'')))
            | .error ex => some (.exc ex, σ'))
        | (.error ex, σ') => some (.exc ex, σ'))
    | .withT tag body =>
        (match gexecNB n body (σ.push (.enter tag)) with
         | none => none
         | some (o, σ') => some (o, σ'.push (.exit tag)))
    | .tryT body hs fin =>
        (match gexecNB n body σ with
         | none => none
         | some (o, σ') =>
           let afterH : Option (Out × TSt) := match o with
             | .exc ex => (match gfindHandlerT hs ex with
                 | some hb => gexecNB n hb σ'
                 | none => some (o, σ'))
             | _ => some (o, σ')
           match afterH with
           | none => none
           | some (o', σ'') =>
             (match gexecNB n fin σ'' with
              | none => none
              | some (.normal, σ₃) => some (o', σ₃)
              | some r => some r))
def gexecNB : Nat → GTBlock ε → TSt → Option (Out × TSt)
  | 0, _, _ => none
  | _+1, [], σ => some (.normal, σ)
  | n+1, s :: rest, σ => (match gexecN n s σ with
      | none => none
      | some (.normal, σ') => gexecNB n rest σ'
      | some r => some r)
def gexecNFor : Nat → Name → Option ε → GTBlock ε → List Name → List Val → TSt → Option (Out × TSt)
  | 0, _, _, _, _, _, _ => none
  | _+1, _, _, _, _, [], σ => some (.normal, σ)
  | n+1, x, extra, body, decl, v :: items, σ =>
      (match withFrame (glocalsFor x body decl) σ
               (gexecNB n (.assign x (mk v) :: body) (mask (glocalsFor x body decl) σ)) with
       | none => none
       | some (.normal, σ') =>
           (match extra with
            | none => gexecNFor n x extra body decl items σ'
            | some t => (match evT t σ' with
                | (.ok tv, σ'') => if truthy tv then gexecNFor n x extra body decl items σ'' else some (.normal, σ'')
                | (.error ex, σ'') => some (.exc ex, σ'')))
       | some r => some r)
end
end

section
variable {ε ε' : Type} (f : ε → ε')
mutual
def gmapT : GTStmt ε → GTStmt ε'
  | .assign x e => .assign x (f e)
  | .expr e => .expr (f e)
  | .pass => .pass
  | .ret e => .ret (e.map f)
  | .raise t => .raise t
  | .undefAssign x => .undefAssign x
  | .ifF c b e d k => .ifF (f c) (gmapTB b) (gmapTB e) d k
  | .whileF c b d => .whileF (f c) (gmapTB b) d
  | .forF x it extra b d => .forF x (f it) (extra.map f) (gmapTB b) d
  | .withT tag b => .withT tag (gmapTB b)
  | .tryT b hs fin => .tryT (gmapTB b) (gmapTH hs) (gmapTB fin)
def gmapTB : List (GTStmt ε) → List (GTStmt ε')
  | [] => []
  | s :: ss => gmapT s :: gmapTB ss
def gmapTH : List (Nat × List (GTStmt ε)) → List (Nat × List (GTStmt ε'))
  | [] => []
  | (t, b) :: hs => (t, gmapTB b) :: gmapTH hs
end
end

mutual
def gallT {ε : Type} (q : ε → Bool) : GTStmt ε → Bool
  | .assign _ e => q e
  | .expr e => q e
  | .ret (some e) => q e
  | .ifF c b e _ _ => q c && gallTB q b && gallTB q e
  | .whileF c b _ => q c && gallTB q b
  | .forF _ it extra b _ => q it && (match extra with | none => true | some t => q t) && gallTB q b
  | .withT _ b => gallTB q b
  | .tryT b hs fin => gallTB q b && gallTH q hs && gallTB q fin
  | _ => true
def gallTB {ε : Type} (q : ε → Bool) : List (GTStmt ε) → Bool
  | [] => true
  | s :: ss => gallT q s && gallTB q ss
def gallTH {ε : Type} (q : ε → Bool) : List (Nat × List (GTStmt ε)) → Bool
  | [] => true
  | (_, b) :: hs => gallTB q b && gallTH q hs
end

mutual
/-- a `Malt.Func` target program as a `GTStmt Sem.Expr` (the identity) -/
def toGT : Malt.Func.TStmt → GTStmt Malt.Sem.Expr
  | .assign x e => .assign x e
  | .expr e => .expr e
  | .pass => .pass
  | .ret e => .ret e
  | .raise t => .raise t
  | .undefAssign x => .undefAssign x
  | .ifF c b e d k => .ifF c (toGTB b) (toGTB e) d k
  | .whileF c b d => .whileF c (toGTB b) d
  | .forF x it extra b d => .forF x it extra (toGTB b) d
  | .withT tag b => .withT tag (toGTB b)
  | .tryT b hs fin => .tryT (toGTB b) (toGTH hs) (toGTB fin)
def toGTB : List Malt.Func.TStmt → List (GTStmt Malt.Sem.Expr)
  | [] => []
  | s :: ss => toGT s :: toGTB ss
def toGTH : List (Nat × List Malt.Func.TStmt) → List (Nat × List (GTStmt Malt.Sem.Expr))
  | [] => []
  | (t, b) :: hs => (t, toGTB b) :: toGTH hs
end

/-- `Malt.Func.evalT` for wrapper-form expressions: evaluated on the source-level view of the target state
(placeholders read as unbound — what `ag__.ld` does), only the log changes. -/
def evalTW (X : Ext) (e : Expr) (σ : TSt) : Except Exc Val × TSt :=
  let r := evalW X e σ.view
  (r.1, { σ with log := r.2.log })

abbrev TStmtW := GTStmt Expr
abbrev TBlockW := List TStmtW

/-- native semantics of the functionalised code after the expression passes -/
def execNW (X : Ext) : Nat → TStmtW → TSt → Option (Out × TSt) := gexecN (evalTW X) .const
def execNBW (X : Ext) : Nat → TBlockW → TSt → Option (Out × TSt) := gexecNB (evalTW X) .const

/-- the expression passes applied to a functionalised program -/
def wrapT (eqOn : Bool) (s : Malt.Func.TStmt) : TStmtW := gmapT (fun e => wrap eqOn (ofSem e)) (toGT s)
def wrapTB (eqOn : Bool) (p : Malt.Func.TBlock) : TBlockW := gmapTB (fun e => wrap eqOn (ofSem e)) (toGTB p)

end Malt.SemW
