import MaltModel.Sem.Wrappers
/-
`Malt.SemW.Ops` — the DEFAULT operator implementations of `malt/operators/*.py`, as functions on thunks
(computations `St → Except Exc Val × St`: calling a generated `lambda: e` evaluates `e` in the current
state) and values, transcribed from the Python fallbacks:

  logical.py                   and_(a, b): a_val = a(); return a_val and b()        (`_py_lazy_and`)
                               or_(a, b):  a_val = a(); return a_val or b()         (`_py_lazy_or`)
                               not_(a):    not a                                     (`_py_not`)
                               eq(a, b):   a == b;   not_eq(a, b): not_(eq(a, b))
  conditional_expressions.py   if_exp(cond, if_true, if_false, expr_repr): if_true() if cond else if_false()
  variables.py                 ld(v): v.read() if isinstance(v, Undefined) else v   (Undefined ≙ unbound: NameError)
  api.py                       converted_call(f, args, kwargs, scope) with a non-converting policy: f(*args)
  data_structures.py           list_append(list_, x): list_.append(x); return list_ (`_py_list_append`)
                               list_pop(list_, i=None): x = list_.pop(); return list_, x

Arguments that Python evaluates before the call (operands of `not_`, `eq`, `if_exp`'s condition, call
arguments) are sequenced by `bind1`/`bind2`/`bindL`; thunk arguments are passed unevaluated.
The harness oracle `oracle:default-operator-semantics` (run_c04.py) compares the real operators with these.
-/
namespace Malt.SemW.Ops
open Malt.Sem (Name Val Exc Event St Ext truthy ofBool)

abbrev Comp := St → Except Exc Val × St
abbrev CompL := St → Except Exc (List Val) × St

def and_ (a b : Comp) : Comp := fun σ =>
  match a σ with
  | (.ok v, σ') => if truthy v then b σ' else (.ok v, σ')
  | r => r

def or_ (a b : Comp) : Comp := fun σ =>
  match a σ with
  | (.ok v, σ') => if truthy v then (.ok v, σ') else b σ'
  | r => r

def not_ (v : Val) : Val := ofBool (!truthy v)
def eq (a b : Val) : Val := ofBool (a == b)
def not_eq (a b : Val) : Val := not_ (eq a b)

def if_exp (cond : Val) (ifTrue ifFalse : Comp) : Comp := fun σ => if truthy cond then ifTrue σ else ifFalse σ

/-- `ag__.ld(x)`: the name is read (NameError if unbound / `Undefined`), then returned -/
def ld (x : Name) : Comp := fun σ =>
  match σ.env x with
  | some v => (.ok v, σ)
  | none => (.error (.nameError x), σ)

/-- `converted_call(f, args, None, scope)` for a callee that is not converted: `f(*args)` -/
def converted_call (X : Ext) (f : Name) (args : List Val) : Comp := fun σ =>
  (.ok (X.f f args σ.log), σ.push (.call f args))

def list_append : Val → Val → Except Exc Val
  | .list xs, .int x => .ok (.list (xs ++ [x]))
  | _, _ => .error .typeError

/-- `(list_, x) = list_pop(list_)`: the shortened list and the popped element (`none`: empty list, IndexError) -/
def list_pop : Val → Option (Val × Val)
  | .list xs => match xs.reverse with
      | [] => none
      | x :: r => some (.list r.reverse, .int x)
  | _ => none

/-- evaluate an operand, then apply a value-level operator -/
def bind1 (c : Comp) (k : Val → Comp) : Comp := fun σ =>
  match c σ with
  | (.ok v, σ') => k v σ'
  | r => r

def bind2 (a b : Comp) (k : Val → Val → Except Exc Val) : Comp := fun σ =>
  match a σ with
  | (.ok v, σ') => (match b σ' with
      | (.ok w, σ'') => (match k v w with
          | .ok r => (.ok r, σ'')
          | .error ex => (.error ex, σ''))
      | r => r)
  | r => r

def bindL (c : CompL) (k : List Val → Comp) : Comp := fun σ =>
  match c σ with
  | (.ok vs, σ') => k vs σ'
  | (.error ex, σ') => (.error ex, σ')

def pure (v : Val) : Comp := fun σ => (.ok v, σ)

end Malt.SemW.Ops
