import MaltModel.Sem.Wrappers
/-
`Malt.SemW` statements — the statement language of `Malt.Sem` over an ARBITRARY expression type `ε` with an
arbitrary evaluator `ev : ε → St → Except Exc Val × St`.  `gexec ev` is `Malt.Sem.exec` word for word with
`evalE X` replaced by `ev` (`exec_eq_gexec`, Proofs/C01ExprsStmt.lean, proves they coincide on `Sem.Stmt`).

* programs of generated code after the expression passes: `GStmt SemW.Expr`, semantics `execW X := gexec (evalW X)`
  (wrapper forms under the default operators, `Sem/Wrappers.lean`);
* `wrapS`/`wrapB`: every expression of every statement of a `Malt.Sem` program replaced by its converted
  form (`ld`, `and_/or_/not_` with thunks, `if_exp`, `eq/not_eq`, `converted_call` with the packed argument tuple).
-/
namespace Malt.SemW
open Malt.Sem (Name Val Exc Event St Ext Out truthy iterItems)

inductive GStmt (ε : Type) where
  | assign (x : Name) (e : ε)
  | expr (e : ε)
  | ifS (c : ε) (t e : List (GStmt ε))
  | whileS (c : ε) (b : List (GStmt ε))
  | forS (x : Name) (it : ε) (extra : Option ε) (b : List (GStmt ε))
  | brk
  | cont
  | ret (e : Option ε)
  | raise (tag : Nat)
  | pass
  | tryS (body : List (GStmt ε)) (handlers : List (Nat × List (GStmt ε))) (fin : List (GStmt ε))
  | withS (tag : Int) (body : List (GStmt ε))

abbrev GBlock (ε : Type) := List (GStmt ε)

def gfindHandler {ε : Type} (hs : List (Nat × GBlock ε)) : Exc → Option (GBlock ε)
  | .user t => (hs.find? (fun h => h.1 == t)).map (·.2)
  | _ => none

section
variable {ε : Type} (ev : ε → St → Except Exc Val × St)

mutual
def gexec : Nat → GStmt ε → St → Option (Out × St)
  | 0, _, _ => none
  | n+1, s, σ =>
    match s with
    | .assign x e => (match ev e σ with
        | (.ok v, σ') => some (.normal, σ'.set x v)
        | (.error ex, σ') => some (.exc ex, σ'))
    | .expr e => (match ev e σ with
        | (.ok _, σ') => some (.normal, σ')
        | (.error ex, σ') => some (.exc ex, σ'))
    | .ifS c t e => (match ev c σ with
        | (.ok v, σ') => if truthy v then gexecB n t σ' else gexecB n e σ'
        | (.error ex, σ') => some (.exc ex, σ'))
    | .whileS c b => (match ev c σ with
        | (.ok v, σ') =>
          if !truthy v then some (.normal, σ') else
            (match gexecB n b σ' with
             | none => none
             | some (.normal, σ'') => gexec n (.whileS c b) σ''
             | some (.cont, σ'') => gexec n (.whileS c b) σ''
             | some (.brk, σ'') => some (.normal, σ'')
             | some r => some r)
        | (.error ex, σ') => some (.exc ex, σ'))
    | .forS x it extra b => (match ev it σ with
        | (.ok v, σ') => (match iterItems v with
            | .ok items => (match extra with
                | none => gexecFor n x none b items σ'
                | some t => (match ev t σ' with
                    | (.ok tv, σ'') => if truthy tv then gexecFor n x (some t) b items σ'' else some (.normal, σ'')
                    | (.error ex, σ'') => some (.exc ex, σ'')))
            | .error ex => some (.exc ex, σ'))
        | (.error ex, σ') => some (.exc ex, σ'))
    | .brk => some (.brk, σ)
    | .cont => some (.cont, σ)
    | .ret none => some (.ret .none, σ)
    | .ret (some e) => (match ev e σ with
        | (.ok v, σ') => some (.ret v, σ')
        | (.error ex, σ') => some (.exc ex, σ'))
    | .raise t => some (.exc (.user t), σ)
    | .pass => some (.normal, σ)
    | .tryS body hs fin =>
        (match gexecB n body σ with
         | none => none
         | some (o, σ') =>
           let afterH : Option (Out × St) := match o with
             | .exc ex => (match gfindHandler hs ex with
                 | some hb => gexecB n hb σ'
                 | none => some (o, σ'))
             | _ => some (o, σ')
           match afterH with
           | none => none
           | some (o', σ'') =>
             (match gexecB n fin σ'' with
              | none => none
              | some (.normal, σ₃) => some (o', σ₃)
              | some r => some r))
    | .withS tag body =>
        (match gexecB n body (σ.push (.enter tag)) with
         | none => none
         | some (o, σ') => some (o, σ'.push (.exit tag)))
def gexecB : Nat → GBlock ε → St → Option (Out × St)
  | 0, _, _ => none
  | _+1, [], σ => some (.normal, σ)
  | n+1, s :: rest, σ => (match gexec n s σ with
      | none => none
      | some (.normal, σ') => gexecB n rest σ'
      | some r => some r)
def gexecFor : Nat → Name → Option ε → GBlock ε → List Val → St → Option (Out × St)
  | 0, _, _, _, _, _ => none
  | _+1, _, _, _, [], σ => some (.normal, σ)
  | n+1, x, extra, b, v :: items, σ =>
      (match gexecB n b (σ.set x v) with
       | none => none
       | some (.brk, σ') => some (.normal, σ')
       | some (o, σ') =>
         if o == .normal || o == .cont then
           (match extra with
            | none => gexecFor n x extra b items σ'
            | some t => (match ev t σ' with
                | (.ok tv, σ'') => if truthy tv then gexecFor n x extra b items σ'' else some (.normal, σ'')
                | (.error ex, σ'') => some (.exc ex, σ'')))
         else some (o, σ'))
end
end

/-! ### mapping the expressions of a program -/
section
variable {ε ε' : Type} (f : ε → ε')
mutual
def gmapS : GStmt ε → GStmt ε'
  | .assign x e => .assign x (f e)
  | .expr e => .expr (f e)
  | .ifS c t e => .ifS (f c) (gmapB t) (gmapB e)
  | .whileS c b => .whileS (f c) (gmapB b)
  | .forS x it extra b => .forS x (f it) (extra.map f) (gmapB b)
  | .brk => .brk
  | .cont => .cont
  | .ret e => .ret (e.map f)
  | .raise t => .raise t
  | .pass => .pass
  | .tryS body hs fin => .tryS (gmapB body) (gmapH hs) (gmapB fin)
  | .withS tag body => .withS tag (gmapB body)
def gmapB : List (GStmt ε) → List (GStmt ε')
  | [] => []
  | s :: ss => gmapS s :: gmapB ss
def gmapH : List (Nat × List (GStmt ε)) → List (Nat × List (GStmt ε'))
  | [] => []
  | (t, b) :: hs => (t, gmapB b) :: gmapH hs
end
end

mutual
/-- every expression occurring in the statement satisfies `q` -/
def gallS {ε : Type} (q : ε → Bool) : GStmt ε → Bool
  | .assign _ e => q e
  | .expr e => q e
  | .ifS c t e => q c && gallB q t && gallB q e
  | .whileS c b => q c && gallB q b
  | .forS _ it extra b => q it && (match extra with | none => true | some t => q t) && gallB q b
  | .ret (some e) => q e
  | .tryS body hs fin => gallB q body && gallH q hs && gallB q fin
  | .withS _ body => gallB q body
  | _ => true
def gallB {ε : Type} (q : ε → Bool) : List (GStmt ε) → Bool
  | [] => true
  | s :: ss => gallS q s && gallB q ss
def gallH {ε : Type} (q : ε → Bool) : List (Nat × List (GStmt ε)) → Bool
  | [] => true
  | (_, b) :: hs => gallB q b && gallH q hs
end

mutual
/-- a `Malt.Sem` program as a `GStmt Sem.Expr` (the identity) -/
def toG : Malt.Sem.Stmt → GStmt Malt.Sem.Expr
  | .assign x e => .assign x e
  | .expr e => .expr e
  | .ifS c t e => .ifS c (toGB t) (toGB e)
  | .whileS c b => .whileS c (toGB b)
  | .forS x it extra b => .forS x it extra (toGB b)
  | .brk => .brk
  | .cont => .cont
  | .ret e => .ret e
  | .raise t => .raise t
  | .pass => .pass
  | .tryS body hs fin => .tryS (toGB body) (toGH hs) (toGB fin)
  | .withS tag body => .withS tag (toGB body)
def toGB : List Malt.Sem.Stmt → List (GStmt Malt.Sem.Expr)
  | [] => []
  | s :: ss => toG s :: toGB ss
def toGH : List (Nat × List Malt.Sem.Stmt) → List (Nat × List (GStmt Malt.Sem.Expr))
  | [] => []
  | (t, b) :: hs => (t, toGB b) :: toGH hs
end

/-- statements of generated code (wrapper forms in expression positions) -/
abbrev WStmt := GStmt Expr
abbrev WBlock := List WStmt

/-- semantics of generated code under the default operators -/
def execW (X : Ext) : Nat → WStmt → St → Option (Out × St) := gexec (evalW X)
def execWB (X : Ext) : Nat → WBlock → St → Option (Out × St) := gexecB (evalW X)

/-- the expression passes applied to a `Malt.Sem` program: every expression of every statement converted -/
def wrapS (eqOn : Bool) (s : Malt.Sem.Stmt) : WStmt := gmapS (fun e => wrap eqOn (ofSem e)) (toG s)
def wrapB (eqOn : Bool) (p : Malt.Sem.Block) : WBlock := gmapB (fun e => wrap eqOn (ofSem e)) (toGB p)

/-- … applied to a program that already is over `SemW.Expr` (may contain comparison chains / starred arguments) -/
def wrapWS (eqOn : Bool) (s : WStmt) : WStmt := gmapS (wrap eqOn) s
def wrapWB (eqOn : Bool) (p : WBlock) : WBlock := gmapB (wrap eqOn) p

end Malt.SemW
