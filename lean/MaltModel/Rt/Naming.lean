/-
Model of `malt.pyct.naming.Namer` (C11; also used by every converter model).  Import-free.

`new_symbol(name_root, reserved_locals)`: split a trailing `_<digits>` off the root, then take the
first of `root, root_{n+1}, root_{n+2}, …` that is not in the function's namespace (globals + closure),
not in the flattened reserved set and not generated before; record it as generated.

The Python loop is unbounded; the model searches `taken.length + 1` candidates, which by pigeonhole
always contains a free one (theorem `newSymbol_fresh` in Props/C11.lean), so the bound is never hit.
-/
namespace Malt.Naming

structure Namer where
  globalNs : List String      -- keys of ctx.info.namespace
  generated : List String     -- generated_names, most recent first
  deriving Repr, Inhabited

def isDigits (s : String) : Bool := !s.isEmpty && s.all Char.isDigit

/-- `pieces = name_root.split('_')`; a trailing all-digit piece is the start counter. -/
def splitRoot (root : String) : String × Nat :=
  let pieces := root.splitOn "_"
  match pieces.getLast? with
  | some last =>
    if isDigits last then ("_".intercalate pieces.dropLast, last.toNat!) else (root, 0)
  | none => (root, 0)

def candidate (root : String) (k : Nat) : String := root ++ "_" ++ toString k

def firstFree (root : String) (taken : List String) (start : Nat) : Nat → String
  | 0 => candidate root start          -- unreachable when fuel > taken.length (pigeonhole)
  | fuel + 1 =>
    if taken.contains (candidate root start) then firstFree root taken (start + 1) fuel
    else candidate root start

def newSymbol (nm : Namer) (nameRoot : String) (reserved : List String) : String × Namer :=
  let (root, n) := splitRoot nameRoot
  let taken := nm.globalNs ++ reserved ++ nm.generated
  let name := if taken.contains root then firstFree root taken (n + 1) (taken.length + 1) else root
  (name, { nm with generated := name :: nm.generated })

end Malt.Naming
