/-
Model of `malt.pyct.naming.Namer` (C11; also used by every converter model).  Import-free.

`new_symbol(name_root, reserved_locals)`: split a trailing `_<digits>` off the root, then take the
first of `root, root_{n+1}, root_{n+2}, …` that is not in the function's namespace (globals + closure),
not in the flattened reserved set and not generated before; record it as generated.

The Python loop is unbounded; the model searches `taken.length + 1` candidates, which by pigeonhole
always contains a free one (theorem `firstFree_not_mem` / `namer_fresh` in Props/C11.lean), so the
bound is never hit.

Everything is structural recursion over `List Char` / `List String`, so the kernel can evaluate the
model on string literals (`by decide` examples in Props/C11.lean).

Scope of faithfulness: identifiers made of ASCII characters.  (`str.isdigit`/`int` also accept
non-ASCII decimal digits such as '٣', which CPython allows in identifiers; the model treats only
'0'…'9' as digits.  The harness generates ASCII identifiers only; stated as an assumption of C11.)
-/
namespace Malt.Naming

structure Namer where
  globalNs : List String      -- keys of ctx.info.namespace
  generated : List String     -- generated_names, most recent first
  deriving Repr, Inhabited, DecidableEq

/-- `str.isdigit()` on ASCII strings: non-empty and all characters are decimal digits. -/
def isDigits (s : String) : Bool := !s.toList.isEmpty && s.toList.all Char.isDigit

/-- `int(s)` for a list of ASCII digits, most significant first. -/
def digitsVal (cs : List Char) : Nat := Nat.ofDigitChars 10 cs 0

/-- `pieces = name_root.split('_')`; if the last piece is all digits it is the start counter and
the root is the `'_'.join` of the other pieces.  Computed on the reversed character list: the last
piece is all digits iff the maximal trailing run of digits is non-empty and is either preceded by
`'_'` or is the whole string (then `pieces[:-1] = []` and the root becomes `''`). -/
def splitRootChars (cs : List Char) : Option (List Char × Nat) :=
  let r := cs.reverse
  match r.takeWhile Char.isDigit, r.dropWhile Char.isDigit with
  | [], _ => none                                            -- last piece empty or not numeric
  | ds, [] => some ([], digitsVal ds.reverse)                -- the whole root is a number
  | ds, '_' :: rest => some (rest.reverse, digitsVal ds.reverse)
  | _, _ :: _ => none                                        -- digits glued to a word: `x1`

def splitRoot (root : String) : String × Nat :=
  match splitRootChars root.toList with
  | some (cs, n) => (String.ofList cs, n)
  | none => (root, 0)

def candidate (root : String) (k : Nat) : String := root ++ "_" ++ toString k

def firstFree (root : String) (taken : List String) (start : Nat) : Nat → String
  | 0 => candidate root start          -- unreachable when fuel > taken.length (pigeonhole)
  | fuel + 1 =>
    if taken.contains (candidate root start) then firstFree root taken (start + 1) fuel
    else candidate root start

def newSymbol (nm : Namer) (nameRoot : String) (reserved : List String) : String × Namer :=
  let (root, n) := splitRoot nameRoot
  let taken := nm.globalNs ++ reserved ++ nm.generated
  let name := if taken.contains root then firstFree root taken (n + 1) (taken.length + 1) else root
  (name, { nm with generated := name :: nm.generated })

/-- A recorded request `new_symbol(root, reserved)`; `reserved` is the set of STRINGS in the flattened
`all_reserved_locals`: a simple name `a` contributes `a`; a composite `a.b` contributes only the attribute name `b`
(`QN.qn = (QN a, 'b')`: the base is a QN object, which never equals a string — `a` is reserved only because reading
`a.b` also reads `a`); a subscript `a[i]` contributes nothing. -/
structure Call where
  root : String
  reserved : List String
  deriving Repr, Inhabited, DecidableEq

/-- Replay a sequence of calls; returns the produced names in call order and the final namer. -/
def runCalls (nm : Namer) : List Call → List String × Namer
  | [] => ([], nm)
  | c :: cs =>
    let (x, nm') := newSymbol nm c.root c.reserved
    let (xs, nm'') := runCalls nm' cs
    (x :: xs, nm'')

end Malt.Naming
